--------------------------- MODULE Trace_Shadows ----------------------------
(***************************************************************************)
(* Trace validation for C60 (device side).  One trace = one execution of   *)
(* qp.classical_shadow(wires, seed) on a simulator device:                 *)
(*   [n, ops: <<gate records>>, ws: <<measured wires, register positions   *)
(*    1..n in column order>>, T: shots, shape: <<dims of the returned      *)
(*    tensor>>, isint: the dtype is an integer type,                       *)
(*    samples: <<[r: <<recipes per column>>, b: <<bits per column>>,       *)
(*                c: multiplicity]>>  (the distinct rows with counts),     *)
(*    words: << <<0..3 per column>> >>  Pauli words for the estimator]     *)
(* TLC recomputes the exact state of the circuit one gate per step and     *)
(* decides, per trace:                                                      *)
(*   form      the tensor is (2, T, |ws|) of integers, every recipe is in  *)
(*             {0,1,2}, every bit in {0,1}, the multiplicities total T;    *)
(*   possible  every recorded (recipe, bits) row has NON-ZERO exact        *)
(*             probability under Shadows.tla (recipe 0/1/2 = X/Y/Z, bit 0  *)
(*             = eigenvalue +1): decided exactly in the ring.              *)
(*   estimator the value v returned by qp.shadow_expval(P) on the same     *)
(*             circuit (recorded as the integer m = v T / 3^|supp P|,      *)
(*             sevint = that number was an integer) is FEASIBLE: T v is a  *)
(*             sum of T per-snapshot estimates tr(Snapshot(r,b) P) over    *)
(*             rows (r,b) of non-zero exact probability.  For a word that  *)
(*             stabilises the state the only possible estimates are 0 and  *)
(*             <P> 3^|supp|, so a wrong sign / wrong qubit is rejected.    *)
(* It also emits, per word, the exact sum over the recorded rows of the    *)
(* per-snapshot estimate (the harness divides by T and compares with       *)
(* qp.shadow_expval run with the same seeds: mechanism, reported as drift).*)
(***************************************************************************)
EXTENDS Shadows, Json, IOUtils
CONSTANT NCASES
Cases == JsonDeserialize(IOEnv.TRACE_FILE)
VARIABLES tid, tpos, tpsi
Tr == Cases[tid]
Init == /\ tid \in 1..NCASES /\ tpos = 1 /\ tpsi = BasisCol(2^Cases[tid].n, 0)
Step == /\ tpos <= Len(Tr.ops)
        /\ tpsi' = ApplyGate(tpsi, GateM(Tr.ops[tpos]), Tr.ops[tpos].w, Tr.n)
        /\ tpos' = tpos + 1 /\ UNCHANGED tid

NMeas == Len(Tr.ws)
RowForm(s) == /\ Len(s.r) = NMeas /\ Len(s.b) = NMeas /\ s.c >= 1
              /\ \A q \in 1..NMeas : s.r[q] \in 0..2 /\ s.b[q] \in 0..1
Total == LET S[q \in 0..Len(Tr.samples)] == IF q = 0 THEN 0 ELSE S[q-1] + Tr.samples[q].c IN S[Len(Tr.samples)]
Form == /\ Tr.shape = <<2, Tr.T, NMeas>> /\ Tr.isint
        /\ \A q \in 1..Len(Tr.samples) : RowForm(Tr.samples[q])
        /\ Total = Tr.T
Possible == \A q \in 1..Len(Tr.samples) : ~SIsZero(CondProb(tpsi, Tr.ws, Tr.samples[q].r, Tr.samples[q].b, Tr.n))
FirstImpossible == CHOOSE q \in 1..Len(Tr.samples) : SIsZero(CondProb(tpsi, Tr.ws, Tr.samples[q].r, Tr.samples[q].b, Tr.n))
EstSum(word) == LET S[q \in 0..Len(Tr.samples)] == IF q = 0 THEN SZero ELSE
                      SAdd(S[q-1], SScale(Tr.samples[q].c, Estimate(Tr.samples[q].r, Tr.samples[q].b, word)))
                IN S[Len(Tr.samples)]
\* every (recipe, bits) row over the measured columns with non-zero exact probability
PossRows == UNION { Bind(RotateOn(tpsi, Tr.ws, rr, 1, Tr.n), LAMBDA phi :
                        {<<rr, bb>> : bb \in {b2 \in [1..NMeas -> 0..1] : ~SIsZero(ProbOn(phi, Tr.ws, b2, Tr.n))}})
                    : rr \in [1..NMeas -> 0..2] }
EstInt(rr, bb, word) == Bind(Estimate(rr, bb, word), LAMBDA es : IF es.k = 0 /\ es.c = Int2C(es.c[1]) THEN es.c[1] ELSE Assert(FALSE, "estimate is not an integer"))
PossEst(rows, word) == {EstInt(rb[1], rb[2], word) : rb \in rows}
Supp(word) == LET S[q \in 0..Len(word)] == IF q = 0 THEN 0 ELSE S[q-1] + (IF word[q] = 0 THEN 0 ELSE 1) IN S[Len(word)]
\* T v = (#plus - #minus) 3^s with #plus + #minus <= T, each kind only if possible, all T rows non-zero unless 0 is possible
FeasibleVal(vals, word, mm) == LET s3 == 3^Supp(word) IN
   \E np \in 0..Tr.T : \E nm \in 0..(Tr.T - np) :
      /\ np - nm = mm /\ (np > 0 => s3 \in vals) /\ (nm > 0 => (0 - s3) \in vals) /\ (np + nm < Tr.T => 0 \in vals)
Infeasible(rows) == {q \in 1..Len(Tr.words) :
                        ~(Tr.sevint[q] /\ Bind(PossEst(rows, Tr.words[q]), LAMBDA vals : FeasibleVal(vals, Tr.words[q], Tr.sev[q])))}
Verdict == IF ~Form THEN "form" ELSE IF ~Possible THEN "impossible_outcome"
           ELSE IF Tr.hassev /\ Bind(PossRows, LAMBDA rows : Infeasible(rows) # {}) THEN "shadow_expval_infeasible" ELSE "ok"
Judge == /\ tpos = Len(Tr.ops) + 1
         /\ Bind(Verdict, LAMBDA verdict :
            /\ PrintT(<<"V", tid, verdict>>)
            /\ PrintT(ToJson([tid |-> tid, verdict |-> verdict,
                              bad |-> IF verdict = "impossible_outcome" THEN FirstImpossible ELSE 0,
                              inf |-> IF verdict = "shadow_expval_infeasible" THEN Bind(PossRows, LAMBDA rows : Infeasible(rows)) ELSE {},
                              sums |-> IF verdict \in {"ok", "shadow_expval_infeasible"} THEN [q \in 1..Len(Tr.words) |-> EstSum(Tr.words[q])] ELSE <<>>])))
         /\ tpos' = tpos + 1 /\ tpsi' = <<>> /\ UNCHANGED tid
Next == Step \/ Judge
=============================================================================
