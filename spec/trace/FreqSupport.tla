---------------------------- MODULE FreqSupport -----------------------------
(***************************************************************************)
(* C09: declared parameter frequencies cover the true spectrum.            *)
(* A trace holds the EXACT values f(a) = <psi(theta_a)|O|psi(theta_a)> of  *)
(* one expectation value at all N lattice points theta_a = a*4pi/N of one  *)
(* 4pi period (ring scalars [c, k] computed by TapeEval.tla), and the      *)
(* frequencies the implementation declares for that parameter, as          *)
(* integers kk = 2*omega.  f(theta) = SUM_k c_k e^{i k theta/2} and        *)
(* N c_k = SUM_a f(a) zeta^{-ka} is a ring element: the spectrum support   *)
(* is decided exactly.  Verdict: every k with c_k # 0 has |k| (mod N, as   *)
(* a signed residue) in the declared set or k = 0.                         *)
(***************************************************************************)
EXTENDS Cyclo, Json, IOUtils, FiniteSets
CONSTANT NTRACES
Traces == JsonDeserialize(IOEnv.TRACE_FILE)
VARIABLES tid, done
\* TLC re-evaluates LET definitions and operator arguments at every reference: everything below is bound to a value once.
BindF(v, F(_)) == CHOOSE r \in {F(x) : x \in {v}} : TRUE
\* S[i-1] is bound once per level: referencing it twice made the recursion cost 2^N evaluations (N = 32 never finished)
Kmax(t) == LET S[i \in 0..Len(t.f)] == IF i = 0 THEN 0 ELSE LET p == S[i-1]  v == t.f[i].k IN IF v > p THEN v ELSE p IN S[Len(t.f)]
\* the samples on the common denominator 2^K, as a sequence of ring elements (evaluated once per trace)
Scaled(t, K) == TLCEval([a \in 1..N |-> TLCEval(Scale(2^(K - t.f[a].k), t.f[a].c))])
\* N * 2^K * c_k as a ring element: a left fold, each partial sum forced to a value
RECURSIVE FoldC(_, _, _, _)
FoldC(g, k, a, acc) == IF a > N THEN acc ELSE FoldC(g, k, a + 1, TLCEval(Add(acc, MulZeta(g[a], -(k * (a-1))))))
Coef(g, k) == FoldC(g, k, 1, Zero)
Signed(k) == IF k > N \div 2 THEN k - N ELSE k
Abs(x) == IF x < 0 THEN -x ELSE x
SupportG(g) == {Abs(Signed(k)) : k \in {kk \in 0..N-1 : ~IsZero(Coef(g, kk))}}
Support(t) == BindF(Kmax(t), LAMBDA K : BindF(Scaled(t, K), LAMBDA g : SupportG(g)))
Declared(t) == {t.decl[i] : i \in 1..Len(t.decl)} \cup {0}
VerdictS(t, sup) == IF sup \subseteq Declared(t) THEN "ok" ELSE "undeclared-frequency"
Init == tid \in 1..NTRACES /\ done = FALSE
Next == ~done /\ done' = TRUE /\ UNCHANGED tid
        /\ IF Len(Traces[tid].f) # N THEN PrintT(<<"V", tid, "bad-trace", 0>>)
           ELSE BindF(Support(Traces[tid]), LAMBDA sup : PrintT(<<"V", tid, VerdictS(Traces[tid], sup), Cardinality(sup \ {0})>>))
=============================================================================
