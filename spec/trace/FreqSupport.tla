---------------------------- MODULE FreqSupport -----------------------------
(***************************************************************************)
(* C09: declared parameter frequencies cover the true spectrum.            *)
(* A trace holds the EXACT values f(a) = <psi(theta_a)|O|psi(theta_a)> of  *)
(* one expectation value at all N lattice points theta_a = a*4pi/N of one  *)
(* 4pi period (ring scalars [c, k] computed by TapeEval.tla), and the      *)
(* frequencies the implementation declares for that parameter, as          *)
(* integers kk = 2*omega.  f(theta) = SUM_k c_k e^{i k theta/2} and        *)
(* N c_k = SUM_a f(a) zeta^{-ka} is a ring element: the spectrum support   *)
(* is decided exactly.  Verdict: every k with c_k # 0 has |k| (mod N, as   *)
(* a signed residue) in the declared set or k = 0.                         *)
(***************************************************************************)
EXTENDS Cyclo, Json, IOUtils, FiniteSets
CONSTANT NTRACES
Traces == JsonDeserialize(IOEnv.TRACE_FILE)
VARIABLES tid, done
Kmax(t) == LET S[i \in 0..Len(t.f)] == IF i = 0 THEN 0 ELSE IF t.f[i].k > S[i-1] THEN t.f[i].k ELSE S[i-1] IN S[Len(t.f)]
\* N * 2^K * c_k as a ring element
Coef(t, k) == LET K == Kmax(t)
                  S[a \in 0..N] == IF a = 0 THEN Zero ELSE
                       Add(S[a-1], MulZeta(Scale(2^(K - t.f[a].k), t.f[a].c), -(k * (a-1)))) IN S[N]
Signed(k) == IF k > N \div 2 THEN k - N ELSE k
Abs(x) == IF x < 0 THEN -x ELSE x
Support(t) == {Abs(Signed(k)) : k \in {kk \in 0..N-1 : ~IsZero(Coef(t, kk))}}
Declared(t) == {t.decl[i] : i \in 1..Len(t.decl)} \cup {0}
Verdict(t) == IF Len(t.f) # N THEN "bad-trace"
              ELSE IF Support(t) \subseteq Declared(t) THEN "ok" ELSE "undeclared-frequency"
Init == tid \in 1..NTRACES /\ done = FALSE
Next == ~done /\ done' = TRUE /\ UNCHANGED tid
        /\ PrintT(<<"V", tid, Verdict(Traces[tid]), Cardinality(Support(Traces[tid]) \ {0})>>)
=============================================================================
