--------------------------- MODULE Trace_Templates ---------------------------
(***************************************************************************)
(* C58: block-encoding, oracle and algorithm templates implement their     *)
(* DOCUMENTED operators.                                                   *)
(*                                                                         *)
(* The documented operators are defined here (Target), transcribed from    *)
(* the docstrings, as exact matrices over Z[zeta_N][1/2]:                  *)
(*   select       sum_i |i><i| (x) U_i                                     *)
(*   qrom         |i>|t> -> |i>|t xor b_i>                                 *)
(*   perm         the state of wire perm[i] moves to wire i                *)
(*   flipsign     I - 2|s><s|                                              *)
(*   reflection   U (-I + (1 - e^{i alpha}) |0><0|_rw (x) I) U^+           *)
(*   grover       2|s><s| - I ,  |s> the uniform superposition             *)
(*   ampamp       ((2|Psi><Psi| - I) O)^iters ,  |Psi> = U|0>              *)
(*   ctrlseq      sum_v |v><v| (x) U^v      (control j carries 2^(nc-j))   *)
(*   qpe          (QFT^+ (x) I) . ctrlseq . (H^(x)ne (x) I)                *)
(*   qft / aqft   QFT matrix ; QFT circuit keeping <= order controlled     *)
(*                phase shifts per wire                                    *)
(*   lcu          block  <0|W|0> = sum_i w_i U_i   (PrepSelPrep,           *)
(*                Qubitization: W (2|0><0| - I) has the same block)        *)
(*   trotter      [S_m(t/n)]^n , S_1 = prod_j e^{i x_j P_j},               *)
(*                S_2 = prod_j e^{i x_j/2 P_j} prod_j^rev e^{i x_j/2 P_j}  *)
(*                (adjoint: ApproxTimeEvolution / CommutingEvolution)      *)
(*   qsvtseq      the alternating sequence of the QSVT docstring           *)
(*   poly         block = sum_j p_j A^j   (qsvt: real part; GQSP with      *)
(*                A = U unitary)                                           *)
(*   scaled       block = A / 2^s (FABLE)                                  *)
(*   blockenc     (1/sqrt2) [[V, I], [I, -V^+]]  = BlockEncode(V/sqrt2)    *)
(* Sub-operators (U_i, U, O, V) are small circuits over the reference      *)
(* table; their unitaries are computed first, one gate per step.           *)
(*                                                                         *)
(* One recorded event per case: the template instance (kind, parameters,   *)
(* sub-circuits, matrix data) and the gate records b emitted by its        *)
(* decomposition.  TLC builds Target, applies b to the basis columns cs    *)
(* (<<>> = all; restricting to work wires |0> expresses 'work wires start  *)
(* and end clean') and decides                                             *)
(*   rel "exact" U = T | "phase" U = cT | "block" top-left block equal |   *)
(*       "support" (outputs with garbage work wires): every column is      *)
(*       supported on the rows that agree with T outside the work wires |  *)
(*       "emit" nothing (float bridge)                                     *)
(* and prints T (exact expected values for the numeric comparisons).       *)
(***************************************************************************)
EXTENDS Gates, Json, IOUtils
CONSTANT NCASES
Cases == JsonDeserialize(IOEnv.TRACE_FILE)
VARIABLES tid, ph, si, pos, U, SU, T, C
vars == <<tid, ph, si, pos, U, SU, T, C>>

\* ------------------------------------------------------------------ helpers
Seq1(n) == [t \in 1..n |-> t]
Range1(a, cnt) == [t \in 1..cnt |-> a + t]                      \* wires a+1 .. a+cnt
SubOf(r, ws, n) == LET S[t \in 0..Len(ws)] == IF t = 0 THEN 0 ELSE 2*S[t-1] + Bit(r, ws[t], n) IN S[Len(ws)]
MkMat(k, rows, cols, f(_, _)) == [k |-> k, e |-> TLCEval([i \in 1..rows |-> TLCEval([j \in 1..cols |-> f(i-1, j-1)])])]
MaxKOf(us) == LET mx(a, b) == IF a > b THEN a ELSE b
                  S[i \in 0..Len(us)] == IF i = 0 THEN 0 ELSE mx(S[i-1], us[i].k) IN S[Len(us)]
AllScaled(us) == Bind(MaxKOf(us), LAMBDA kk : TLCEval([i \in 1..Len(us) |-> ScaleUp(us[i], kk)]))
Embed(gm, ws, n) == ApplyGate(Ident(2^n), gm, ws, n)
RECURSIVE KronPow(_, _)
KronPow(gm, cnt) == IF cnt = 1 THEN gm ELSE Kron(gm, KronPow(gm, cnt - 1))
\* scalar [c, k] times matrix
SMul(w, a) == Bind(MScale(w.c, a), LAMBDA m : Norm([k |-> m.k + w.k, e |-> m.e]))
ZeroM(d) == [k |-> 0, e |-> TLCEval([i \in 1..d |-> TLCEval([j \in 1..d |-> Zero])])]
\* block diagonal sum_v |v><v| (x) blocks[v+1] (x) I_work on wires: controls 1..nc, targets nc+1..nc+kt, work after;
\* control values beyond Len(blocks) act as the identity
BlockDiag(blocks, nc, kt, n) ==
  Bind(AllScaled(blocks), LAMBDA su :
    LET kk == su[1].k
        cw == Seq1(nc)  tw == Range1(nc, kt)  ww == Range1(nc + kt, n - nc - kt)
        f(r, cc) == IF SubOf(r, cw, n) # SubOf(cc, cw, n) \/ SubOf(r, ww, n) # SubOf(cc, ww, n) THEN Zero
                    ELSE IF SubOf(r, cw, n) < Len(su) THEN su[SubOf(r, cw, n) + 1].e[SubOf(r, tw, n) + 1][SubOf(cc, tw, n) + 1]
                    ELSE IF r = cc THEN Int2C(2^kk) ELSE Zero
    IN Norm(MkMat(kk, 2^n, 2^n, f)))

\* ------------------------------------------------------------------ documented operators
\* Select |i>|psi> = |i> U_i |psi>
TSelect(c, us) == BlockDiag(us, c.par.nc, c.par.kt, c.n)

\* QROM |i>|0> = |i>|b_i>, realised as the bit-flip |t> -> |t xor b_i> on the target register
TQrom(c) ==
  LET n == c.n  nc == c.par.nc  kt == c.par.kt  cw == Seq1(nc)
      f(r, cc) == LET i == SubOf(cc, cw, n) IN
         IF \A w \in 1..n : Bit(r, w, n) = (IF w > nc /\ w <= nc + kt /\ i < Len(c.par.bits)
                                             THEN (Bit(cc, w, n) + c.par.bits[i + 1][w - nc]) % 2 ELSE Bit(cc, w, n))
         THEN One ELSE Zero
  IN MkMat(0, 2^n, 2^n, f)

\* Permute: the qubit state previously on wire perm[i] is now on wire i
TPerm(c) == LET n == c.n
                f(r, cc) == IF \A i \in 1..n : Bit(r, i, n) = Bit(cc, c.par.perm[i], n) THEN One ELSE Zero
            IN MkMat(0, 2^n, 2^n, f)

\* FlipSign(s)|m> = -|m> iff m = s
TFlipSign(c) == LET n == c.n
                    idx == LET S[t \in 0..n] == IF t = 0 THEN 0 ELSE 2*S[t-1] + c.par.bits[t] IN S[n]
                    f(r, cc) == IF r # cc THEN Zero ELSE IF r = idx THEN mOne ELSE One
                IN MkMat(0, 2^n, 2^n, f)

\* -I + (1 - e^{i alpha}) |0><0|_rw (x) I      (alpha = a * 4pi/N, e^{i alpha} = zeta^(2a))
Refl0(a, rw, n) == LET f(r, cc) == IF r # cc THEN Zero ELSE IF SubOf(r, rw, n) = 0 THEN Neg(P(a)) ELSE mOne
                   IN MkMat(0, 2^n, 2^n, f)
TReflection(c, us) == Bind(us[1], LAMBDA u : MatMul(MatMul(u, Refl0(c.par.alpha, c.par.rw, c.n)), Dagger(u)))

\* 2|s><s| - I on wires 1..kt (identity on the work wires after them)
TGrover(c) ==
  LET n == c.n  kt == c.par.kt  tw == Seq1(kt)  ww == Range1(kt, n - kt)
      f(r, cc) == IF SubOf(r, ww, n) # SubOf(cc, ww, n) THEN Zero ELSE Int2C(2 - (IF r = cc THEN 2^kt ELSE 0))
  IN Norm(MkMat(kt, 2^n, 2^n, f))

\* amplitude amplification iterate: oracle, then the reflection about |Psi> = U|0>  (alpha = pi, on the wires rw of U)
TAmpAmp(c, us) ==
  Bind(us[1], LAMBDA u : Bind(MatMul(MatMul(u, Refl0(N \div 4, c.par.rw, c.n)), Dagger(u)), LAMBDA refl :
    Bind(MatMul(refl, us[2]), LAMBDA gi : MatPow(gi, c.par.iters))))

\* ControlledSequence: control wire j (of nc) controls U^(2^(nc-j))  =>  control value v applies U^v
TCtrlSeq(u, nc, kt, n) ==
  LET pw[v \in 0..(2^nc - 1)] == IF v = 0 THEN Ident(2^kt) ELSE MatMul(pw[v-1], u)
  IN BlockDiag([v \in 1..2^nc |-> pw[v-1]], nc, kt, n)

\* quantum phase estimation: Hadamards on the ne estimation wires, the controlled sequence, the inverse QFT
TQpe(c, us) ==
  LET ne == c.par.nc  kt == c.par.kt IN
  Bind(TCtrlSeq(us[1], ne, kt, c.n), LAMBDA cs_ :
    MatMul(MatMul(Kron(Dagger(MQFT(ne)), Ident(2^kt)), cs_), Kron(KronPow(MH, ne), Ident(2^kt))))

\* AQFT of the given order: the QFT circuit (H on wire i, then phase shifts pi/2^(j-i) controlled by the wires j > i, finally
\* the wire reversal) in which every wire keeps at most `order` controlled phase shifts (the largest angles)
AqftGates(n, order) ==
  LET gate(nm, ws, p) == [g |-> nm, w |-> ws, p |-> p, x |-> <<>>, m |-> <<>>, mods |-> <<>>]
      wire[i \in 0..n] == IF i = 0 THEN <<>> ELSE
          wire[i-1] \o << gate("Hadamard", <<i>>, <<>>) >> \o
          [t \in 1..(IF n - i < order THEN n - i ELSE order) |-> gate("ControlledPhaseShift", <<i + t, i>>, << N \div 2^(t + 2) >>)]
      swaps == [t \in 1..(n \div 2) |-> gate("SWAP", <<t, n + 1 - t>>, <<>>)]
  IN wire[n] \o swaps
RECURSIVE CircM(_, _, _, _)
CircM(gs, i, n, acc) == IF i > Len(gs) THEN acc ELSE CircM(gs, i + 1, n, ApplyGate(acc, GateM(gs[i]), gs[i].w, n))
TAqft(c) == CircM(AqftGates(c.n, c.par.order), 1, c.n, Ident(2^c.n))

\* linear combination of unitaries: the block  sum_i w_i U_i   (w_i = c_i / sum|c|, ring scalars [c, k])
TLcu(c, us) ==
  LET S[i \in 0..Len(us)] == IF i = 0 THEN ZeroM(Len(us[1].e)) ELSE MAdd(S[i-1], SMul(c.par.wts[i], us[i]))
  IN S[Len(us)]

\* Suzuki-Trotter product formulas.  term j: Pauli word pw (over all n wires) and the lattice int X with
\* x_j = c_j t / nsteps = X * 2pi/N ;  e^{i x P} = PauliRot(-2 x) has lattice angle -X.
\* adj = 1: ApproxTimeEvolution (documented as the adjoint of the first-order TrotterProduct) and CommutingEvolution
\* (e^{-iHt} of commuting terms = one ApproxTimeEvolution step).
ExpTerm(tm, half) == MPauliRot(IF half THEN -(tm.X \div 2) ELSE -tm.X, tm.pw)
OnLattice(c) == c.par.order = 1 \/ \A j \in 1..Len(c.par.terms) : c.par.terms[j].X % 2 = 0
TTrotter(c) ==
  LET tm == c.par.terms  L == Len(tm)
      fwd[j \in 0..L] == IF j = 0 THEN Ident(2^c.n) ELSE MatMul(fwd[j-1], ExpTerm(tm[j], c.par.order = 2))
      bwd[j \in 0..L] == IF j = 0 THEN Ident(2^c.n) ELSE MatMul(bwd[j-1], ExpTerm(tm[L + 1 - j], TRUE))
  IN Bind(IF c.par.order = 1 THEN fwd[L] ELSE MatMul(fwd[L], bwd[L]), LAMBDA step :
       Bind(MatPow(step, c.par.nsteps), LAMBDA tt : IF c.par.adj = 1 THEN Dagger(tt) ELSE tt))

\* QSVT: with d+1 projector-controlled phase shifts Pi_phi (PCPhase: e^{i phi} on the first dim basis states, e^{-i phi} elsewhere)
\*   d odd :  Pi_1 U [ prod_{k=1}^{(d-1)/2} Pi_{2k} U^+ Pi_{2k+1} U ] Pi_{d+1}
\*   d even:  [ prod_{k=1}^{d/2} Pi_{2k-1} U^+ Pi_{2k} U ] Pi_{d+1}
\* The list `projectors` is in order of application (the docstring's example: the first listed phase shift is the first gate of the
\* expanded circuit), i.e. projectors[1] is the rightmost factor Pi_{d+1}:  Pi_i = PCPhase(phis[d + 2 - i]).
PcPhase(a, dim, n) == LET f(r, cc) == IF r # cc THEN Zero ELSE IF r < dim THEN P(a) ELSE Zeta(-2*a) IN MkMat(0, 2^n, 2^n, f)
TQsvtSeq(c, us) ==
  Bind(us[1], LAMBDA u : Bind(Dagger(u), LAMBDA ud :
    LET ph_ == c.par.phis  d == Len(ph_) - 1  Pi(i) == PcPhase(ph_[d + 2 - i], c.par.dim, c.n)
        pairs(first, cnt) == LET S[k \in 0..cnt] == IF k = 0 THEN Ident(2^c.n)
                 ELSE MatMul(MatMul(MatMul(MatMul(S[k-1], Pi(first + 2*(k-1))), ud), Pi(first + 2*(k-1) + 1)), u) IN S[cnt]
    IN IF d % 2 = 1 THEN MatMul(MatMul(MatMul(Pi(1), u), pairs(2, (d - 1) \div 2)), Pi(d + 1))
       ELSE MatMul(pairs(1, d \div 2), Pi(d + 1))))

\* polynomial of a matrix: sum_j p_j A^j   (p_j ring scalars, lowest power first)
TPoly(a, ps) ==
  LET d == Len(a.e)
      pw[j \in 0..(Len(ps) - 1)] == IF j = 0 THEN Ident(d) ELSE MatMul(pw[j-1], a)
      S[j \in 0..Len(ps)] == IF j = 0 THEN ZeroM(d) ELSE MAdd(S[j-1], SMul(ps[j], pw[j-1]))
  IN S[Len(ps)]

\* BlockEncode(A) = [[A, sqrt(I - A A^+)], [sqrt(I - A^+ A), -A^+]] ; for A = V/sqrt2 with V unitary both roots are I/sqrt2
TBlockEnc(v) ==
  LET d == Len(v.e)
      f(r, cc) == IF r < d /\ cc < d THEN Mul(Sqrt2, v.e[r + 1][cc + 1])
                  ELSE IF r >= d /\ cc >= d THEN Neg(Mul(Sqrt2, Conj(v.e[cc - d + 1][r - d + 1])))
                  ELSE IF r % d = cc % d THEN Mul(Sqrt2, Int2C(2^v.k)) ELSE Zero
  IN Norm(MkMat(v.k + 1, 2*d, 2*d, f))

Target(c, us) ==
  CASE c.kind = "select"     -> TSelect(c, us)
    [] c.kind = "qrom"       -> TQrom(c)
    [] c.kind = "perm"       -> TPerm(c)
    [] c.kind = "flipsign"   -> TFlipSign(c)
    [] c.kind = "reflection" -> TReflection(c, us)
    [] c.kind = "grover"     -> TGrover(c)
    [] c.kind = "ampamp"     -> TAmpAmp(c, us)
    [] c.kind = "ctrlseq"    -> TCtrlSeq(us[1], c.par.nc, c.par.kt, c.n)
    [] c.kind = "qpe"        -> TQpe(c, us)
    [] c.kind = "qft"        -> MQFT(c.n)
    [] c.kind = "aqft"       -> TAqft(c)
    [] c.kind = "lcu"        -> TLcu(c, us)
    [] c.kind = "trotter"    -> TTrotter(c)
    [] c.kind = "qsvtseq"    -> TQsvtSeq(c, us)
    [] c.kind = "poly"       -> TPoly(IF Len(us) > 0 THEN us[1] ELSE c.mats[1], c.par.ps)
    [] c.kind = "scaled"     -> [k |-> c.mats[1].k + c.par.s, e |-> c.mats[1].e]
    [] c.kind = "blockenc"   -> TBlockEnc(us[1])

\* ------------------------------------------------------------------ the event
\* The batch file is read once per case (Load copies the case into the state variable C).
Init == /\ tid \in 1..NCASES /\ ph = "load" /\ si = 0 /\ pos = 0 /\ U = <<>> /\ SU = <<>> /\ T = <<>> /\ C = <<>>

StartSub(c, i) == IF i <= Len(c.subs) THEN Ident(2^c.subs[i].k) ELSE <<>>
Load == /\ ph = "load"
        /\ \E c \in {Cases[tid]} :
             /\ C' = c
             /\ ph' = IF Len(c.subs) > 0 THEN "sub" ELSE "target"
             /\ U' = StartSub(c, 1)
        /\ si' = 1 /\ pos' = 1 /\ UNCHANGED <<tid, SU, T>>

\* unitaries of the sub-circuits, one gate per step
SubStep == /\ ph = "sub" /\ pos <= Len(C.subs[si].g)
           /\ \E gt \in {C.subs[si].g[pos]} : U' = ApplyGate(U, GateM(gt), gt.w, C.subs[si].k)
           /\ pos' = pos + 1 /\ UNCHANGED <<tid, ph, si, SU, T, C>>
SubEnd == /\ ph = "sub" /\ pos > Len(C.subs[si].g)
          /\ SU' = Append(SU, U)
          /\ si' = si + 1 /\ pos' = 1
          /\ ph' = IF si < Len(C.subs) THEN "sub" ELSE "target"
          /\ U' = StartSub(C, si + 1)
          /\ UNCHANGED <<tid, T, C>>

ColsOf(c) == IF Len(c.cs) = 0 THEN Ident(2^c.n)
             ELSE [k |-> 0, e |-> TLCEval([i \in 1..2^c.n |-> TLCEval([j \in 1..Len(c.cs) |-> IF c.cs[j] = i-1 THEN One ELSE Zero])])]
MkTarget == /\ ph = "target"
            /\ T' = Norm(Target(C, SU))
            /\ U' = ColsOf(C)
            /\ ph' = "b" /\ pos' = 1 /\ SU' = <<>> /\ UNCHANGED <<tid, si, C>>

Step == /\ ph = "b" /\ pos <= Len(C.b)
        /\ \E gt \in {C.b[pos]} : U' = ApplyGate(U, GateM(gt), gt.w, C.n)
        /\ pos' = pos + 1 /\ UNCHANGED <<tid, ph, si, SU, T, C>>

CoefInBound(m) == \A i \in 1..Len(m.e) : \A j \in 1..Len(m.e[i]) : \A h \in IdxH : m.e[i][j][h] < Bound /\ m.e[i][j][h] > -Bound
\* the columns cs of the full-register target
TCols(t, c) == IF Len(c.cs) = 0 THEN t
               ELSE [k |-> t.k, e |-> TLCEval([i \in 1..Len(t.e) |-> TLCEval([j \in 1..Len(c.cs) |-> t.e[i][c.cs[j] + 1]])])]
TopRows(m, d) == [k |-> m.k, e |-> TLCEval([i \in 1..d |-> m.e[i]])]
\* outputs with garbage on the work wires ww: column by column, every populated row of u agrees outside ww with a populated row of t
SupportOK(u, t, ww, n) ==
  \A j \in 1..Len(u.e[1]) : \A r \in 1..Len(u.e) : IsZero(u.e[r][j]) \/
     \E r2 \in 1..Len(t.e) : ~IsZero(t.e[r2][j]) /\ \A w \in 1..n : (\E x \in 1..Len(ww) : ww[x] = w) \/ Bit(r-1, w, n) = Bit(r2-1, w, n)
IsUnit(t) == Len(t.e) # Len(t.e[1]) \/ IsUnitary(t)

Verdict(t, u, c) ==
  IF ~CoefInBound(t) \/ ~CoefInBound(u) THEN "overflow"
  ELSE IF c.kind = "trotter" /\ ~OnLattice(c) THEN "off-lattice"
  ELSE IF c.unitary = 1 /\ ~IsUnit(t) THEN "documented-operator-not-unitary"
  ELSE IF c.rel = "emit" THEN "ok"
  ELSE IF c.rel = "exact" THEN (IF EqExact(TCols(t, c), u) THEN "ok" ELSE IF EqUpToScalar(TCols(t, c), u) THEN "equal-only-up-to-phase" ELSE "not-equal")
  ELSE IF c.rel = "phase" THEN (IF EqUpToScalar(TCols(t, c), u) THEN "ok" ELSE "not-equal-up-to-phase")
  ELSE IF c.rel = "block" THEN (IF EqExact(t, TopRows(u, Len(t.e))) THEN "ok" ELSE "block-not-equal")
  ELSE IF c.rel = "support" THEN (IF SupportOK(u, TCols(t, c), c.ww, c.n) THEN "ok" ELSE "wrong-support")
  ELSE "unknown-relation"

Finish == /\ ph = "b" /\ pos = Len(C.b) + 1
          /\ PrintT(<<"V", tid, Verdict(T, U, C)>>)
          /\ PrintT(ToJson([tid |-> tid, t |-> T]))
          /\ ph' = "done" /\ U' = <<>> /\ T' = <<>> /\ C' = <<>> /\ UNCHANGED <<tid, si, pos, SU>>

Next == Load \/ SubStep \/ SubEnd \/ MkTarget \/ Step \/ Finish
=============================================================================
