-------------------------- MODULE Trace_SpinLattice --------------------------
(***************************************************************************)
(* Trace validation for C69.  One record per call of the real code:        *)
(*  kind "lattice": generate_lattice(sh, nc, bc, K) returned nsites sites  *)
(*     and edges <<u, v, class>> (class from 0)                            *)
(*  kind "ham": a model function returned the operator ham (exact terms on *)
(*     nq wires); edges / nsites are those of generate_lattice with the    *)
(*     same arguments.  model in ising, heis, kitaev, custom, hubbard,     *)
(*     emery, haldane; par holds the couplings as Gaussian dyadics:        *)
(*        J  per-order list (ising: coef; heis: <<Jx,Jy,Jz>>; kitaev: the  *)
(*           three bond couplings), Jm site matrix (heis: Jm[axis][u][v]), *)
(*        h field, U per-site list, V / Vm intersite, T2 / T2m next        *)
(*        neighbour hopping, ph / phm exponent p of e^{i phi} = i^p,       *)
(*        ce custom edges <<u0, v0, l1, l2, coef>>, cn custom nodes        *)
(*        <<u, l, coef>>; an unused entry is the empty sequence.           *)
(* The lattice of the SPEC (SpinLattice.LatticeOf) decides the neighbour   *)
(* classes; the expected operator is the documented sum over them.         *)
(*  kind "emit": like "ham" without an operator: the expected operator is  *)
(*     printed as exact terms (used by the harness for the float bridge)   *)
(* Verdicts (printed for EVERY record): "ok"; "ok:rank-gap" (the finite    *)
(* lattice does not realise all of d_1..d_K: only the realised prefix is   *)
(* compared); "skip:..." for inputs outside the documented domain (a site  *)
(* that is its own neighbour through a periodic image; a rank gap or a     *)
(* pair in two classes where the sum would depend on it); otherwise the    *)
(* name of the violated clause.                                            *)
(***************************************************************************)
EXTENDS SpinLattice, Json, IOUtils
CONSTANT NTRACES
Traces == JsonDeserialize(IOEnv.TRACE_FILE)
VARIABLES tid, done
Init == tid \in 1..NTRACES /\ done = FALSE

ImplClass(r, k) == {<<r.edges[i][1], r.edges[i][2]>> : i \in {j \in DOMAIN r.edges : r.edges[j][3] = k - 1}}
ImplBeyond(r, sp) == \E i \in DOMAIN r.edges : r.edges[i][3] >= sp
LatVerdict(r, lat) ==
   IF r.nsites # lat.n THEN "sites-differ"
   ELSE IF lat.loops THEN "skip:self-image"
   ELSE LET sp == SolidPrefix(lat, r.K) IN
        IF \E k \in 1..sp : ImplClass(r, k) # lat.E[k] THEN "edges-differ"
        ELSE IF \E i \in DOMAIN r.edges : r.edges[i][3] < 0 \/ r.edges[i][3] >= r.K THEN "class-out-of-range"
        ELSE IF sp < r.K /\ ImplBeyond(r, sp) THEN "ok:rank-gap" ELSE "ok"

Fermionic == {"hubbard", "emery", "haldane"}
NeedsLattice == {"ising", "heis", "hubbard", "emery", "haldane"}
UsesMatrix(r) == r.model \in NeedsLattice /\
   (Len(r.par.Jm) > 0 \/ Len(r.par.Vm) > 0 \/ Len(r.par.T2m) > 0 \/ Len(r.par.phm) > 0)
Expected(r, lat) == LET n == lat.n  p == r.par IN Bind(EdgeSeq(lat, r.K), LAMBDA es :
   CASE r.model = "ising" -> SFromPairsL(IsingPairs(es, n, p.J, p.Jm, p.h))
     [] r.model = "heis" -> SFromPairsL(HeisPairs(es, n, p.J, p.Jm))
     [] r.model = "kitaev" -> SFromPairsL(KitaevPairs(r.nc, r.bc, n, p.J))
     [] r.model = "custom" -> SFromPairsL(CustomPairs(r.nc, r.bc, NSub(r.sh), n, p.ce, p.cn))
     [] r.model = "hubbard" -> TermsImage(r.map, HopTerms(es, p.J, p.Jm) \o CoulombTerms(n, p.U), 2 * n)
     [] r.model = "emery" -> TermsImage(r.map, HopTerms(es, p.J, p.Jm) \o CoulombTerms(n, p.U) \o InterTerms(es, p.V, p.Vm), 2 * n)
     [] r.model = "haldane" -> TermsImage(r.map, HaldaneTerms(es, p.J, p.Jm, p.T2, p.T2m, p.ph, p.phm), 2 * n))
WFTerms(ts, n) == \A k \in DOMAIN ts : Len(ts[k].w) = n /\ \A i \in 1..n : ts[k].w[i] \in 0..3
\* inputs outside the documented domain: "" when the record is decided
SkipOf(r, lat) ==
   IF r.model \in NeedsLattice /\ lat.loops THEN "skip:self-image"
   ELSE IF r.model \in NeedsLattice /\ SolidPrefix(lat, r.K) < r.K /\ ImplBeyond(r, SolidPrefix(lat, r.K)) THEN "skip:rank-gap"
   ELSE IF UsesMatrix(r) /\ Overlap(lat, r.K) THEN "skip:overlap"
   ELSE ""
HamVerdict(r, lat) ==
   IF ~r.exact THEN "inexact-coefficient"
   ELSE IF r.nsites # lat.n THEN "sites-differ"
   ELSE IF r.nq # (IF r.model \in Fermionic THEN 2 * lat.n ELSE lat.n) \/ ~WFTerms(r.ham, r.nq) THEN "malformed-output"
   ELSE IF SkipOf(r, lat) # "" THEN SkipOf(r, lat)
   ELSE Bind(SFromTermsL(r.ham), LAMBDA O :
        IF ~SIsHermitian(O) THEN "not-hermitian"
        ELSE IF SEq(O, Expected(r, lat)) THEN "ok" ELSE "hamiltonian-differs")
\* kind "emit": no operator is validated, the expected operator is printed (float bridge: Haldane model at a general phase,
\* assembled by the harness from the exact operators at phi = 0, pi/2, pi)
EmitVerdict(r, lat) == IF r.nsites # lat.n THEN "sites-differ" ELSE IF SkipOf(r, lat) # "" THEN SkipOf(r, lat) ELSE "emitted"
Result(r) == Bind(LatticeOf(r.sh, r.nc, r.bc, r.K), LAMBDA lat :
   IF r.kind = "lattice" THEN [v |-> LatVerdict(r, lat), e |-> SZero]
   ELSE IF r.kind = "emit" THEN Bind(EmitVerdict(r, lat), LAMBDA v : [v |-> v, e |-> IF v = "emitted" THEN Expected(r, lat) ELSE SZero])
   ELSE [v |-> HamVerdict(r, lat), e |-> SZero])
Check == /\ ~done /\ done' = TRUE /\ UNCHANGED tid
         /\ \E res \in {Result(Traces[tid])} :
               /\ PrintT(<<"V", tid, res.v>>)
               /\ (IF res.v = "emitted" THEN PrintT(ToJson([tid |-> tid, terms |-> STermsL(res.e)])) ELSE TRUE)
Next == Check
=============================================================================
