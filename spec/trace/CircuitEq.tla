----------------------------- MODULE CircuitEq ------------------------------
(***************************************************************************)
(* Trace specification for relational transform actions (REL pattern).     *)
(* Each case of the batch file is one recorded history                     *)
(*    [n, a: gates of the input circuit,                                   *)
(*        bs: << [b: gates of an output circuit, rel, perm] , ... >> ]     *)
(* i.e. one input circuit and the outputs of one or more passes applied to *)
(* it.  The action ApplyPass(a, b) is enabled iff Sem(b) ~ Sem(a) under    *)
(* rel:                                                                    *)
(*   "exact"  U_b = U_a          "phase"  U_b = e^{i c} U_a                *)
(*   "perm"   U_b = P_perm U_a up to phase (wire i of a ends on wire       *)
(*            perm[i] of b)                                                *)
(*   "emit"   no relation: TLC prints the exact U_a (float bridge input)   *)
(* TLC recomputes every unitary exactly, one gate per step, through the    *)
(* state variable U (evaluation discipline of DESIGN section 4) and prints *)
(* one verdict <<"V", tid, s, clause>> per output circuit (total verdicts).*)
(***************************************************************************)
EXTENDS Gates, Json, IOUtils
CONSTANT NCASES
Cases == JsonDeserialize(IOEnv.TRACE_FILE)
VARIABLES tid, side, pos, U, Ua
vars == <<tid, side, pos, U, Ua>>
Case == Cases[tid]
\* the unitaries are evaluated on the basis columns listed in cs (0-based; <<>> = all columns).  Restricting to
\* the columns whose work wires are |0> expresses "work wires start and end in |0>": the rule must agree with
\* U (x) I on exactly these inputs.
U0(c) == IF Len(c.cs) = 0 THEN Ident(2^c.n)
         ELSE [k |-> 0, e |-> TLCEval([i \in 1..2^c.n |-> TLCEval([j \in 1..Len(c.cs) |-> IF c.cs[j] = i-1 THEN One ELSE Zero])])]
Init == /\ tid \in 1..NCASES /\ side = 0 /\ pos = 1
        /\ U = U0(Cases[tid]) /\ Ua = <<>>
Seq_(s) == IF s = 0 THEN Case.a ELSE Case.bs[s].b
\* permutation matrix: basis state with bit i (wire i) moved to wire perm[i]
PermM(perm, n) == LET D == 2^n
     img(i) == LET S[t \in 0..n] == IF t = 0 THEN 0 ELSE S[t-1] + Bit(i, t, n) * 2^(n - perm[t]) IN S[n]
  IN [k |-> 0, e |-> TLCEval([r \in 1..D |-> TLCEval([c \in 1..D |-> IF img(c-1) = r-1 THEN One ELSE Zero])])]
Verdict(ua, ub, o) ==
   IF ~InBound(ua) \/ ~InBound(ub) THEN "overflow"
   ELSE CASE o.rel = "exact" -> IF EqExact(ua, ub) THEN "ok" ELSE "not-equal"
     [] o.rel = "phase" -> IF EqUpToScalar(ua, ub) THEN "ok" ELSE "not-equal-up-to-phase"
     [] o.rel = "perm"  -> IF EqUpToScalar(MatMul(PermM(o.perm, Case.n), ua), ub) THEN "ok" ELSE "not-equal-up-to-perm"
     [] o.rel = "emit"  -> "ok"
Step == /\ side <= Len(Case.bs) /\ pos <= Len(Seq_(side))
        /\ LET g == Seq_(side)[pos] IN U' = ApplyGate(U, GateM(g), g.w, Case.n)
        /\ pos' = pos + 1 /\ UNCHANGED <<tid, side, Ua>>
\* end of the input circuit: remember U_a
EndA == /\ side = 0 /\ pos > Len(Case.a)
        /\ IF Len(Case.bs) > 0 /\ Case.bs[1].rel = "emit" THEN PrintT(ToJson([tid |-> tid, u |-> U])) ELSE TRUE
        /\ side' = 1 /\ pos' = 1 /\ Ua' = U /\ U' = U0(Case) /\ UNCHANGED tid
\* end of an output circuit: the relational enabling condition, reported as a verdict
EndB == /\ side >= 1 /\ side <= Len(Case.bs) /\ pos > Len(Case.bs[side].b)
        /\ PrintT(<<"V", tid, side, Verdict(Ua, U, Case.bs[side])>>)
        /\ side' = side + 1 /\ pos' = 1 /\ U' = U0(Case) /\ UNCHANGED <<tid, Ua>>
Next == Step \/ EndA \/ EndB
=============================================================================
