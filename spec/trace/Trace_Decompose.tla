-------------------------- MODULE Trace_Decompose ---------------------------
(***************************************************************************)
(* C12: the discrete half of the relational action                         *)
(*     Decompose(in, gate set, options, out | error)                       *)
(* and the action GraphEstimate(circuit, estimate, applied).               *)
(* One trace = one recorded event.                                         *)
(*  kind "decompose":                                                      *)
(*    c        the configuration (see DecompModel)                         *)
(*    rel      the relation handed to CircuitEq for this call (must be the  *)
(*             one the model prescribes; CircuitEq decides it exactly)     *)
(*    err      "" or the class name of the exception                       *)
(*    out      <<[name, stop]>> every operator of the result: its name and *)
(*             the value of the user's stopping condition on it            *)
(*    warned   operator names named by "does not define a decomposition"   *)
(*             warnings; graphwarn: the graph system warned that it cannot *)
(*             solve for the gate set                                      *)
(*    min/mout measurement fingerprints of the input / output tape         *)
(*  kind "estimate": exact (every rule applied declares exact resources),  *)
(*    est / act = <<resource key id, count>> sequences: the graph's        *)
(*    resource estimate summed over the circuit and the gate counts of the *)
(*    circuit the transform actually produced.                             *)
(*  kind "dev": one call of devices.preprocess.decompose:                   *)
(*    d        the call shape (see DecompModel), ins / out = <<[name, stop,  *)
(*             prep]>> every operator of the input / result: name, value of *)
(*             the stopping condition, whether it is a StatePrepBase        *)
(***************************************************************************)
EXTENDS DecompModel, TLC, Json, IOUtils
CONSTANT NTRACES
Traces == JsonDeserialize(IOEnv.TRACE_FILE)
VARIABLES tid, done
Bag(s) == [k \in {s[i][1] : i \in 1..Len(s)} |->
             LET A[j \in 0..Len(s)] == IF j = 0 THEN 0 ELSE A[j-1] + (IF s[j][1] = k THEN s[j][2] ELSE 0) IN A[Len(s)]]
Pos(b) == {k \in DOMAIN b : b[k] > 0}
VDecompose(t) ==
  IF t.rel # Rel(t.c) THEN "bad-case:relation"
  ELSE IF ExpectTypeError(t.c) THEN (IF t.err = "TypeError" THEN "ok" ELSE "custom-decomps-accepted-without-graph")
  ELSE IF t.err # "" THEN (IF t.err \in DecompErrors THEN "ok" ELSE "undocumented-error")
  ELSE IF GateSetClause(t.c) /\ \E i \in 1..Len(t.out) : ~Allowed(t.c, t.warned, t.graphwarn, t.out[i]) THEN "gate-outside-target-set"
  ELSE IF t.min # t.mout THEN "measurements-changed"
  ELSE "ok"
VEstimate(t) ==
  LET e == Bag(t.est)  a == Bag(t.act) IN
  IF ~t.exact THEN "ok"
  ELSE IF Pos(a) # Pos(e) THEN (IF Pos(a) \subseteq Pos(e) THEN "estimated-gate-not-applied" ELSE "applied-gate-not-estimated")
  ELSE IF \E k \in Pos(a) : a[k] # e[k] THEN "estimate-count-differs" ELSE "ok"
VDev(t) ==
  IF ~DevShapeOK(t.d, t.ins) THEN "bad-case:shape"
  ELSE IF t.err # "" THEN (IF t.err \in DevErrors THEN "ok" ELSE "undocumented-error")
  ELSE IF \E i \in 1..Len(t.out) : ~DevAllowed(t.d, t.warned, i, t.out[i]) THEN "operator-rejected-by-stopping-condition"
  ELSE IF t.min # t.mout THEN "measurements-changed"
  ELSE "ok"
Verdict(t) == IF t.kind = "decompose" THEN VDecompose(t) ELSE IF t.kind = "dev" THEN VDev(t) ELSE VEstimate(t)
Init == tid \in 1..NTRACES /\ done = FALSE
Next == ~done /\ done' = TRUE /\ UNCHANGED tid /\ PrintT(<<"V", tid, Verdict(Traces[tid])>>)
=============================================================================
