------------------------------ MODULE Trace_Heap ------------------------------
(***************************************************************************)
(* Trace validation for C18 against Heap.tla: objects are immutable once   *)
(* created.  A trace is one history run on real tapes; after every event   *)
(* the driver records the fingerprint of every live object it holds        *)
(* (operations by value, measurements, parameters, trainable indices,      *)
(* shots, recomputed hash, batch size; and, as mechanism, the identity of  *)
(* the containers and of the operation objects).  The first fingerprint of *)
(* an object is its birth value; TLC requires every later observation of   *)
(* the same object to equal it, component by component, and every          *)
(* re-execution of an object to give the result of its first execution.    *)
(* The property is about TRANSFORMS: an execution is the instrument, not a  *)
(* subject.  If the executed object itself differs right after an execute   *)
(* event (qp.execute re-marks the trainable parameters of autograd tapes in *)
(* place) that is outside the statement: it is counted (nexec), the object  *)
(* is re-baselined, and no verdict is given.  A change of any OTHER object   *)
(* at an execute event, and a change of the re-execution result, are        *)
(* verdicts.                                                               *)
(* Verdict per trace: <<"V", tid, "ok" | component, step, object, drift,    *)
(* nexec>>.                                                                *)
(***************************************************************************)
EXTENDS Integers, Sequences, FiniteSets, TLC, Json, IOUtils
CONSTANT NTRACES
Traces == JsonDeserialize(IOEnv.TRACE_FILE)
VARIABLES tid, l, born, res, verdict, nexec
tvars == <<tid, l, born, res, verdict, nexec>>
Ev == Traces[tid].events[l]

\* first differing component of an observation against the birth value ("" if none)
Diff(b, f) == IF f.ops # b.ops THEN "operations"
              ELSE IF f.meas # b.meas THEN "measurements"
              ELSE IF f.par # b.par THEN "parameters"
              ELSE IF f.tr # b.tr THEN "trainable_params"
              ELSE IF f.shots # b.shots THEN "shots"
              ELSE IF f.hash # b.hash THEN "hash"
              ELSE IF f.bs # b.bs THEN "batch_size"
              ELSE ""
\* mechanism only: same value but different container / operation objects
Moved(b, f) == f.cont # b.cont \/ f.opids # b.opids \/ f.mcont # b.mcont

Known == DOMAIN born
Differs == {i \in 1..Len(Ev.obs) : Ev.obs[i].id \in Known /\ Diff(born[Ev.obs[i].id], Ev.obs[i].fp) # ""}
ByExec == IF Ev.e = "execute" THEN {i \in Differs : Ev.obs[i].id = Ev.on} ELSE {}
BadObs == Differs \ ByExec
NewBorn == [o \in Known \cup {Ev.obs[i].id : i \in 1..Len(Ev.obs)} |->
              IF o \in Known /\ (\A i \in ByExec : Ev.obs[i].id # o) THEN born[o]
              ELSE Ev.obs[CHOOSE i \in 1..Len(Ev.obs) : Ev.obs[i].id = o].fp]

TInit == /\ tid \in 1..NTRACES /\ l = 1 /\ born = <<>> /\ res = <<>> /\ verdict = <<"", 0, 0, FALSE>> /\ nexec = 0
TStep ==
  /\ l <= Len(Traces[tid].events) /\ verdict[1] = ""
  /\ LET bad == BadObs
         drift == verdict[4] \/ \E i \in 1..Len(Ev.obs) : Ev.obs[i].id \in Known /\ Moved(born[Ev.obs[i].id], Ev.obs[i].fp)
     IN IF bad # {}
        THEN LET i == CHOOSE x \in bad : \A y \in bad : x <= y IN
             /\ verdict' = <<Diff(born[Ev.obs[i].id], Ev.obs[i].fp), l, Ev.obs[i].id, drift>>
             /\ UNCHANGED <<born, res>>
        ELSE IF Ev.e = "execute" /\ Ev.on \in DOMAIN res /\ res[Ev.on] # Ev.res
        THEN /\ verdict' = <<"result", l, Ev.on, drift>> /\ UNCHANGED <<born, res>>
        ELSE /\ verdict' = <<"", 0, 0, drift>>
             /\ born' = NewBorn
             /\ res' = IF Ev.e = "execute" /\ Ev.on \notin DOMAIN res
                       THEN [o \in DOMAIN res \cup {Ev.on} |-> IF o = Ev.on THEN Ev.res ELSE res[o]] ELSE res
  /\ nexec' = nexec + Cardinality(ByExec)
  /\ l' = l + 1 /\ UNCHANGED tid
TDone == /\ l < 100000 /\ (l > Len(Traces[tid].events) \/ verdict[1] # "")
         /\ PrintT(<<"V", tid, IF verdict[1] = "" THEN "ok" ELSE verdict[1], verdict[2], verdict[3], IF verdict[4] THEN "moved" ELSE "same", nexec>>)
         /\ l' = 100000 /\ UNCHANGED <<tid, born, res, verdict, nexec>>
TNext == TStep \/ TDone
=============================================================================
