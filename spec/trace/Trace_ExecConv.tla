--------------------------- MODULE Trace_ExecConv ----------------------------
(***************************************************************************)
(* Trace validation for the argument-convention part of C65: each record   *)
(* is one submit / map / starmap call made on a real executor backend,     *)
(*   [call, shape, res, exc]                                               *)
(* call as in ExecConv; shape = "list" | "scalar" | "other" (what kind of  *)
(* value came back), res = the integers returned (scalar: one element),    *)
(* exc = class name of the exception raised ("" if none).                  *)
(* The verdict re-computes the value of the Python built-in with           *)
(* ExecConv.Expected.  Calls on which the built-in itself is undefined     *)
(* carry no obligation ("undefined").                                      *)
(***************************************************************************)
EXTENDS ExecConv, Json, IOUtils
CONSTANT NTRACES
Traces == JsonDeserialize(IOEnv.TRACE_FILE)
VARIABLES tid, step
Tr == Traces[tid]
Verdict ==
  IF ~Defined(Tr.call) THEN "undefined"
  ELSE IF Tr.exc # "" THEN "raised"
  ELSE IF Tr.shape # (IF Tr.call.api = "submit" THEN "scalar" ELSE "list") THEN "shape"
  ELSE IF Len(Tr.res) # Len(Expected(Tr.call)) THEN "length"
  ELSE IF \E j \in 1..Len(Tr.res) : Tr.res[j] # Expected(Tr.call)[j] THEN "value"
  ELSE "ok"
TInit == tid \in 1..NTRACES /\ step = 0
TNext == /\ step = 0 /\ PrintT(<<"V", tid, Verdict>>) /\ step' = 1 /\ UNCHANGED tid
=============================================================================
