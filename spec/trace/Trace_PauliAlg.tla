--------------------------- MODULE Trace_PauliAlg ---------------------------
(***************************************************************************)
(* Trace validation for C51.  Each record of the batch file is one call    *)
(* recorded from the real PauliWord / PauliSentence classes:               *)
(*   [op, n, a: terms, b: terms, cf: coefficient, out: terms, exact,       *)
(*    emit, ord]                                                           *)
(* op    "mul" a@b | "add" a+b | "sub" a-b | "scale" cf*a | "comm" [a,b]   *)
(*       | "trace" (out = trace * identity word) | "same" (round trips:    *)
(*       out must denote a)                                                *)
(* exact FALSE when a returned coefficient was not a Gaussian dyadic (the  *)
(*       inputs are, so every exact result is)                             *)
(* The action Call(r) is enabled iff the recorded output denotes the same  *)
(* operator as the PauliAlg operation on the recorded inputs; the verdict  *)
(* <<"V", tid, clause>> is printed for every record.  With emit = TRUE the *)
(* exact matrix of a in the wire order ord is printed as well (expected    *)
(* value for the numeric to_mat / pauli_decompose comparisons).            *)
(***************************************************************************)
EXTENDS PauliAlg, Json, IOUtils
CONSTANT NTRACES
Traces == JsonDeserialize(IOEnv.TRACE_FILE)
VARIABLES tid, done
Init == tid \in 1..NTRACES /\ done = FALSE
Expected(r, A, B) ==
   CASE r.op = "mul" -> SMul(A, B)
     [] r.op = "add" -> SAdd(A, B)
     [] r.op = "sub" -> SSub(A, B)
     [] r.op = "scale" -> SScale(GdNorm(r.cf), A)
     [] r.op = "comm" -> SCommutator(A, B)
     [] r.op = "trace" -> SMono(STrace(A, r.n), PIdWord(r.n))
     [] r.op = "same" -> A
WellFormed(r) == \A k \in DOMAIN r.out : Len(r.out[k].w) = r.n /\ \A i \in 1..r.n : r.out[k].w[i] \in 0..3
Verdict(r) ==
   IF ~r.exact THEN "inexact-coefficient"
   ELSE IF ~WellFormed(r) THEN "malformed-output"
   ELSE Bind2(SFromTerms(r.a), SFromTerms(r.b), LAMBDA A, B :
        IF SEq(SFromTerms(r.out), Expected(r, A, B)) THEN "ok" ELSE "differs-from-algebra")
Check == /\ ~done /\ done' = TRUE /\ UNCHANGED tid
         /\ LET r == Traces[tid] IN
            /\ PrintT(<<"V", tid, Verdict(r)>>)
            /\ IF r.emit THEN PrintT(ToJson([tid |-> tid, mat |-> SToMat(SReorder(SFromTerms(r.a), r.ord), Len(r.ord))])) ELSE TRUE
Next == Check
=============================================================================
