--------------------------- MODULE Trace_DecompCtx ---------------------------
(***************************************************************************)
(* Trace validation for C66.  A trace is a history of DecompCtx events     *)
(* executed by real threads on the real pennylane.decomposition registry;  *)
(* after every event the driver records, for each observer u (0 = the main *)
(* thread, which never opens a context; 1..NThreads = the worker threads), *)
(* what list_decomps / get_fixed_decomp return there for every operator    *)
(* (rule ids; obs[u+1] = [p: observed?, l: <<ids per op>>, f: <<id per op>>]).*)
(* The ghost state of DecompCtx (origin of every rule, open contexts of    *)
(* every thread) evolves with the events, and the property is decided on   *)
(* the OBSERVED views:                                                     *)
(*   a rule created in a local context is never seen by an observer that   *)
(*   does not currently have that context open (leak into the global       *)
(*   registry / into another thread / survival after exit or exception),   *)
(*   and a rule added or fixed in a still-open context is seen by its      *)
(*   thread.                                                               *)
(* Exact equality of the observation with the model's List/Fixed is        *)
(* reported separately as drift (mechanism, e.g. snapshot semantics).      *)
(***************************************************************************)
EXTENDS DecompCtx, Json, IOUtils
CONSTANT NTRACES
Traces == JsonDeserialize(IOEnv.TRACE_FILE)
VARIABLES tid, l, bad, drift
tvars == <<vars, tid, l, bad, drift>>
Tr == Traces[tid]
Ev == Tr.hist[l]

Seen(ob, o) == SeqSet(ob.l[o]) \cup ({ob.f[o]} \ {0})
\* rules the observer must not see
Foreign(stk, org, u, ob, o) == {r \in Seen(ob, o) : r >= 1 /\ (r > Len(org) \/ (org[r] # 0 /\ org[r] \notin ActiveOf(stk, u)))}
LeakClause(stk, org, cT, u, ob, o) ==
  IF \E r \in Seen(ob, o) : r < 1 THEN "unknown-rule-observed"
  ELSE LET F == Foreign(stk, org, u, ob, o) IN
       IF F = {} THEN ""
       ELSE LET r == CHOOSE x \in F : TRUE IN
            IF r <= Len(org) /\ cT[org[r]] = u THEN "local-rule-survives-context-exit"
            ELSE IF ActiveOf(stk, u) = {} THEN "local-rule-leaks-into-global-registry"
            ELSE "local-rule-leaks-into-other-thread-context"
\* rules the observer must see
MissClause(stk, glb, org, knd, opf, u, ob, o) ==
  LET mv == ViewOf(stk, glb, u)
      act == ActiveOf(stk, u)
      req == {r \in 1..Len(org) : org[r] \in act /\ knd[r] = "add" /\ opf[r] = o} IN
  IF mv.f[o] # 0 /\ org[mv.f[o]] \in act
  THEN IF ob.f[o] # mv.f[o] \/ ob.l[o] # <<mv.f[o]>> THEN "local-fix-not-visible-in-own-context" ELSE ""
  ELSE IF ob.f[o] = 0 /\ ~(req \subseteq SeqSet(ob.l[o])) THEN "local-rule-not-visible-in-own-context" ELSE ""
Observers(obs) == {u \in 0..NThreads : obs[u + 1].p}
Judge(stk, glb, org, knd, opf, cT, obs) ==
  LET C == ({LeakClause(stk, org, cT, u, obs[u + 1], o) : u \in Observers(obs), o \in Ops}
            \cup {MissClause(stk, glb, org, knd, opf, u, obs[u + 1], o) : u \in Observers(obs), o \in Ops}) \ {""} IN
  IF C = {} THEN "" ELSE CHOOSE c \in C : TRUE
Drift(stk, glb, obs) == \E u \in Observers(obs), o \in Ops :
  obs[u + 1].l[o] # ListOf(stk, glb, u, o) \/ obs[u + 1].f[o] # FixedOf(stk, glb, u, o)

TInit == tid \in 1..NTRACES /\ l = 1 /\ bad = "" /\ drift = FALSE /\ Init
NoChange == UNCHANGED <<glob, stack, origin, kind, opOf, ctxT, nops>> /\ hist' = Append(hist, Ev)
Apply ==
  CASE Ev.e = "enter" -> Enter(Ev.t)
    [] Ev.e = "exit"  -> Exit(Ev.t)
    [] Ev.e = "raise" -> Raise(Ev.t, Ev.k)
    [] Ev.e = "add"   -> IF Ev.exc = "" THEN Add(Ev.t, Ev.o) /\ NewRule = Ev.r ELSE NoChange
    [] Ev.e = "fix"   -> IF Ev.exc = "" THEN Fix(Ev.t, Ev.o) /\ NewRule = Ev.r ELSE NoChange
    [] OTHER          -> NoChange            \* "dup" (rejected addition), "obs" (observation only)
Unexpected == \/ (Ev.e = "dup" /\ Ev.exc # "ValueError")
              \/ (Ev.e # "dup" /\ Ev.exc # "")
TStep == /\ l <= Len(Tr.hist)
         /\ Apply
         /\ bad' = IF bad # "" THEN bad ELSE Judge(stack', glob', origin', kind', opOf', ctxT', Ev.obs)
         /\ drift' = (drift \/ Unexpected \/ Drift(stack', glob', Ev.obs))
         /\ l' = l + 1 /\ UNCHANGED tid
TDone == /\ l = Len(Tr.hist) + 1
         /\ PrintT(<<"V", tid, IF bad = "" THEN "ok" ELSE bad, IF drift THEN "drift" ELSE "same">>)
         /\ l' = l + 1 /\ UNCHANGED <<vars, tid, bad, drift>>
TNext == TStep \/ TDone
=============================================================================
