---------------------------- MODULE Trace_BoseMap ----------------------------
(***************************************************************************)
(* Trace validation for C54: the DISCRETE structure of the images returned *)
(* by the real binary_mapping / unary_mapping / christiansen_mapping.      *)
(* A coefficient enters only through its sign class <<sgn Re, sgn Im>>     *)
(* (floats never enter TLC; the numeric values are compared by the driver  *)
(* with the exact matrices emitted by BoseMapGen).                         *)
(*                                                                         *)
(* record  [op, map, d, nm, ws, sg, imgs, out, adjw, exc]                  *)
(*   ws    the bosonic words (sequences of letters <<mode, t>>)            *)
(*   imgs  imgs[k] = image of ws[k]: sequence of terms                     *)
(*         [q |-> sequence of <<wire, letter 1..3>>, re, im]               *)
(*   op = "word": out = imgs[1]                                            *)
(*        every term is a Pauli word on wires of the blocks of the modes   *)
(*        that occur in the word (BoseMap.Block), no word twice, no zero   *)
(*        coefficient                                                      *)
(*   op = "sum":  out = image of the sentence sum_k c_k ws[k], sg[k] =     *)
(*        sgn c_k.  Term-wise: every word of out occurs in some imgs[k];   *)
(*        a Pauli word that occurs in exactly one imgs[k] (nothing can     *)
(*        cancel it) occurs in out with class sg[k] * class in imgs[k]     *)
(*   op = "adj":  adjw = letters of BoseWord.adjoint() (must be the word   *)
(*        reversed with creation <-> annihilation), out = image of it.     *)
(*        Term-wise: same Pauli words (they are Hermitian), conjugated     *)
(*        coefficient classes                                              *)
(* A verdict <<"V", tid, clause>> is printed for EVERY record.             *)
(***************************************************************************)
EXTENDS BoseMap, Json, IOUtils, Sequences
CONSTANT NTRACES
Traces == JsonDeserialize(IOEnv.TRACE_FILE)
VARIABLES tid, done
Init == tid \in 1..NTRACES /\ done = FALSE

Supp(ts) == {ts[i].q : i \in DOMAIN ts}
ClassMap(ts) == TLCEval([pw \in Supp(ts) |-> LET i == CHOOSE k \in DOMAIN ts : ts[k].q = pw IN <<ts[i].re, ts[i].im>>])
WFTerm(t) == /\ \A i \in DOMAIN t.q : t.q[i][2] \in 1..3
             /\ \A i \in DOMAIN t.q, j \in DOMAIN t.q : i < j => t.q[i][1] < t.q[j][1]     \* wires ascending: no wire twice
             /\ t.re \in {-1, 0, 1} /\ t.im \in {-1, 0, 1}
WFTerms(ts) == (\A i \in DOMAIN ts : WFTerm(ts[i])) /\ Cardinality(Supp(ts)) = Len(ts)
NoZero(ts) == \A i \in DOMAIN ts : <<ts[i].re, ts[i].im>> # <<0, 0>>
WiresOf(ts) == UNION {{t[1] : t \in {ts[i].q[k] : k \in DOMAIN ts[i].q}} : i \in DOMAIN ts}
Allowed(r, modes) == UNION {Block(r.map, r.d, j) : j \in modes}
AllModes(r) == UNION {WordModes(r.ws[k]) : k \in DOMAIN r.ws}
Scale(sg, cl) == <<sg * cl[1], sg * cl[2]>>
Conj(cl) == <<cl[1], -cl[2]>>

SumOK(r) == MQBind2(TLCEval([k \in DOMAIN r.imgs |-> ClassMap(r.imgs[k])]), ClassMap(r.out), LAMBDA M, O :
   LET live == {k \in DOMAIN r.ws : r.sg[k] # 0}
       all == UNION {DOMAIN M[k] : k \in live}
       owners(pw) == {k \in live : pw \in DOMAIN M[k]} IN
   IF ~(DOMAIN O \subseteq all) THEN "sum-has-foreign-term"
   ELSE IF \E pw \in all : Cardinality(owners(pw)) = 1 /\ pw \notin DOMAIN O THEN "sum-drops-term"
   ELSE IF \E pw \in all : Cardinality(owners(pw)) = 1 /\ O[pw] # Scale(r.sg[CHOOSE k \in owners(pw) : TRUE], M[CHOOSE k \in owners(pw) : TRUE][pw])
        THEN "sum-term-coefficient-class"
   ELSE "ok")
AdjOK(r) == MQBind2(ClassMap(r.imgs[1]), ClassMap(r.out), LAMBDA A, O :
   IF r.adjw # BAdjWord(r.ws[1]) THEN "adjoint-word"
   ELSE IF DOMAIN A # DOMAIN O THEN "adjoint-terms-differ"
   ELSE IF \E pw \in DOMAIN A : O[pw] # Conj(A[pw]) THEN "adjoint-term-not-conjugated"
   ELSE "ok")
Verdict(r) ==
   IF ~MapDefined(r.map, r.d) THEN "mapping-undefined"
   ELSE IF r.exc # "" THEN "unexpected-exception"
   ELSE IF ~(WFTerms(r.out) /\ \A k \in DOMAIN r.imgs : WFTerms(r.imgs[k])) THEN "malformed-term"
   ELSE IF ~(NoZero(r.out) /\ \A k \in DOMAIN r.imgs : NoZero(r.imgs[k])) THEN "zero-coefficient-term"
   ELSE IF \E k \in DOMAIN r.imgs : ~(WiresOf(r.imgs[k]) \subseteq Allowed(r, WordModes(r.ws[k]))) THEN "term-on-wrong-wire"
   ELSE IF ~(WiresOf(r.out) \subseteq Allowed(r, AllModes(r))) THEN "term-on-wrong-wire"
   ELSE CASE r.op = "word" -> "ok"
          [] r.op = "sum" -> SumOK(r)
          [] r.op = "adj" -> AdjOK(r)
Check == /\ ~done /\ done' = TRUE /\ UNCHANGED tid
         /\ PrintT(<<"V", tid, Verdict(Traces[tid])>>)
Next == Check
=============================================================================
