-------------------------- MODULE Trace_Attributes ---------------------------
(***************************************************************************)
(* C07 trace validation.  The driver reads the LIVE attribute sets of      *)
(* pennylane.ops.qubit.attributes and logs one event Claim(attr, name) per *)
(* member (kind = "claim"), plus one event per distinct claimed name       *)
(* (kind = "bind") asking for the reference matrices.                      *)
(*                                                                         *)
(* Claim(attr, name) is enabled iff the defining predicate of attr         *)
(* (Attributes.tla) holds for EVERY instance of `name` in the reference    *)
(* table: every lattice angle (one full 4*pi period), every variant        *)
(* (register size / Pauli word / control values), and for                  *)
(* composable_rotations every PAIR of angles.  One instance (pair) per     *)
(* TLC state:                                                              *)
(*   Announce  prints <<"C", tid, number of instances>>  (-1: the name has *)
(*             no table entry; the driver evaluates it numerically and     *)
(*             counts it as bridged)                                       *)
(*   Pick      chooses an instance                                         *)
(*   Decide    prints <<"V", tid, clause>>; a failing instance is also     *)
(*             printed as JSON                                             *)
(* The claim is validated iff all announced instances report "ok".         *)
(* Bind(name): every instance is emitted with its exact matrix, its        *)
(* reversed-wire listing and (where the table has one) A = -i*generator,   *)
(* for the REPLAY comparison against PennyLane's own matrices / batched    *)
(* matrices / generators.                                                  *)
(***************************************************************************)
EXTENDS Attributes, Json, IOUtils
CONSTANTS NCASES, Grid3, GridC
Cases == JsonDeserialize(IOEnv.TRACE_FILE)
VARIABLES tid, st, r, q
Case == Cases[tid]

Subs(c) ==
  IF c.kind = "claim" /\ c.attr = "composable_rotations" THEN
       IF ANPar(c.name) = 1 THEN {<<x, WithAngle(x, b)>> : x \in AInsts(c.name, Grid3), b \in 0..N-1}
       ELSE IF ANPar(c.name) = 3 THEN {<<x, y>> : x \in AInsts(c.name, GridC), y \in AInsts(c.name, GridC)}
       ELSE {<<x, x>> : x \in AInsts(c.name, Grid3)}
  ELSE {<<x, x>> : x \in AInsts(c.name, Grid3)}

Init == tid \in 1..NCASES /\ st = 0 /\ r = <<>> /\ q = <<>>
Announce == /\ st = 0
            /\ IF Case.name \in TableNames /\ (Case.kind = "bind" \/ Case.attr \in AttrNames)
               THEN PrintT(<<"C", tid, Cardinality(Subs(Case))>>) /\ st' = 1
               ELSE PrintT(<<"C", tid, -1>>) /\ st' = 9
            /\ UNCHANGED <<tid, r, q>>
Pick == /\ st = 1
        /\ \E s \in Subs(Case) : r' = s[1] /\ q' = s[2]
        /\ st' = 2 /\ UNCHANGED tid
Rev(n) == [i \in 1..n |-> n + 1 - i]
NoMat == [k |-> 0, e |-> <<>>]
Clause ==
  IF Case.kind = "bind" THEN (IF ~IsUnitary(GateM(r)) THEN "table-not-unitary"
                              ELSE IF ~GenConsistent(r) THEN "gen-inconsistent" ELSE "ok")
  ELSE IF Case.attr = "has_unitary_generator" /\ ~GenConsistent(r) THEN "gen-inconsistent"
  ELSE IF ClaimAt(Case.attr, r, q) THEN "ok" ELSE "claim-false"
Decide ==
  /\ st = 2
  /\ Bind(Clause, LAMBDA cl :
       /\ PrintT(<<"V", tid, cl>>)
       /\ IF cl # "ok" THEN PrintT(ToJson([tid |-> tid, fail |-> cl, c |-> r, q |-> q]))
          ELSE IF Case.kind = "bind" THEN
               LET g == GateM(r)  n == Len(r.w) IN
               PrintT(ToJson([tid |-> tid, c |-> r, mat |-> g,
                              rev |-> IF n >= 2 /\ n <= 3 THEN ApplyGate(Ident(2^n), g, Rev(n), n) ELSE NoMat,
                              gen |-> IF HasGen(r) THEN AGen(r) ELSE NoMat]))
          ELSE TRUE)
  /\ st' = 3 /\ UNCHANGED <<tid, r, q>>
Next == Announce \/ Pick \/ Decide
=============================================================================
