----------------------------- MODULE BranchEval ------------------------------
(***************************************************************************)
(* C13: a measurement-based decomposition rule acts deterministically.     *)
(*                                                                         *)
(* Outcome nondeterminism IS TLA+ nondeterminism: a measurement step has   *)
(* one successor per outcome with a non-null projected state, so every     *)
(* behaviour of a case is one measurement history (outcome branch) of the  *)
(* recorded circuit and TLC enumerates all 2^k of them.                    *)
(*                                                                         *)
(* A case (one recorded rule application):                                 *)
(*   [n, cs, prep, ref, ops, aux, emit]                                    *)
(*   cs    0-based basis columns: the inputs (all basis states of the      *)
(*         target wires, every other wire |0>)                             *)
(*   prep  gate records applied to the inputs first (input domain of the   *)
(*         operator, e.g. the AND already computed for an uncompute rule)  *)
(*   ref   gate records of the TARGET operator (reference table Gates.tla) *)
(*   ops   the circuit emitted by the rule:                                *)
(*           gate record                                                   *)
(*         | [g |-> "MEASURE", w |-> <<wire>>, x |-> <<reset, post>>]      *)
(*         | [g |-> "PPM", w |-> wires, x |-> <<letters 1..3>>, p |-> <<post>>] *)
(*              Pauli-product measurement of the word x on wires w:        *)
(*              outcome 0 <-> eigenvalue +1, projector (I + P)/2;          *)
(*              outcome 1 <-> eigenvalue -1, projector (I - P)/2           *)
(*              (the documented definition of qp.pauli_measure)            *)
(*              post in {0 none, 1 keep outcome 0, 2 keep outcome 1}       *)
(*         | [g |-> "COND", ix |-> <<measurement indices>>, tt |-> <<outcome *)
(*              strings>>, op |-> gate record]: op is applied iff the      *)
(*              outcomes of the measurements ix (1-based, in program       *)
(*              order) are listed in tt (the condition's truth table)      *)
(*   aux   auxiliary wires that may end in any state that is a pure state  *)
(*         determined by the outcomes ("known"); every other non-target    *)
(*         wire must end as the reference leaves it (|0>)                  *)
(*                                                                         *)
(* The state carries the branch's Kraus operator K (2^n x |cs| matrix:     *)
(* the images of ALL basis inputs, exact in Z[zeta_8][1/2]) and R, the     *)
(* reference ref * prep on the same columns.  At the end of a behaviour    *)
(* the property of the statement is decided for that branch:               *)
(*      K = c * (R restricted to the non-aux wires) (x) |x>                *)
(* for ONE scalar c and one aux vector x, i.e. with rows split into        *)
(* (i = non-aux part, j = aux part):                                       *)
(*      K[(i,j), col] * R[(p,0), pc] = K[(p,j), pc] * R[(i,0), col]        *)
(* for all i, j, col, (p, pc) a pivot of R (cross-multiplication, no       *)
(* division).  Because the columns are all basis inputs, linearity makes   *)
(* this "the same unitary up to one global scalar on every input state",   *)
(* and the branch weight |c|^2 |x|^2 is independent of the input.          *)
(* Verdicts are total: every behaviour prints exactly one record.          *)
(***************************************************************************)
EXTENDS Ppm, Json, IOUtils
CONSTANT NCASES
Cases == JsonDeserialize(IOEnv.TRACE_FILE)
VARIABLES tid, ph, pos, o, K, R
vars == <<tid, ph, pos, o, K, R>>
Case == Cases[tid]
D == 2^Case.n

Cols(c) == [k |-> 0, e |-> TLCEval([i \in 1..2^c.n |-> TLCEval([j \in 1..Len(c.cs) |-> IF c.cs[j] = i-1 THEN One ELSE Zero])])]
Init == /\ tid \in 1..NCASES /\ ph = "prep" /\ pos = 1 /\ o = <<>>
        /\ K = Cols(Cases[tid]) /\ R = <<>>

\* measurement semantics (PProj, ZProj, Allowed): module Ppm, self-checked by PpmSelf

\* ------------------------------------------------------------------ the three phases before branching
PrepStep == /\ ph = "prep" /\ pos <= Len(Case.prep)
            /\ LET g == Case.prep[pos] IN K' = ApplyGate(K, GateM(g), g.w, Case.n)
            /\ pos' = pos + 1 /\ UNCHANGED <<tid, ph, o, R>>
PrepEnd  == /\ ph = "prep" /\ pos > Len(Case.prep)
            /\ ph' = "ref" /\ pos' = 1 /\ R' = K /\ UNCHANGED <<tid, o, K>>
RefStep  == /\ ph = "ref" /\ pos <= Len(Case.ref)
            /\ LET g == Case.ref[pos] IN R' = ApplyGate(R, GateM(g), g.w, Case.n)
            /\ pos' = pos + 1 /\ UNCHANGED <<tid, ph, o, K>>
RefEnd   == /\ ph = "ref" /\ pos > Len(Case.ref)
            /\ IF Case.emit = 1 THEN PrintT(ToJson([tid |-> tid, ref |-> R])) ELSE TRUE
            /\ ph' = "run" /\ pos' = 1 /\ UNCHANGED <<tid, o, K, R>>

\* ------------------------------------------------------------------ the rule's circuit, one instruction per step
InTT(oo, tt) == \E j \in 1..Len(tt) : tt[j] = oo
Ins == Case.ops[pos]
Running == ph = "run" /\ pos <= Len(Case.ops)
MeasStep == /\ Running /\ Ins.g = "MEASURE"
            /\ \E bit \in Allowed(Ins.x[2]) :
                 /\ K' = IF Ins.x[1] = 1 /\ bit = 1
                         THEN ApplyGate(ApplyGate(K, ZProj(bit), Ins.w, Case.n), MX, Ins.w, Case.n)
                         ELSE ApplyGate(K, ZProj(bit), Ins.w, Case.n)
                 /\ ~IsZeroM(K')
                 /\ o' = Append(o, bit)
            /\ pos' = pos + 1 /\ UNCHANGED <<tid, ph, R>>
PpmStep  == /\ Running /\ Ins.g = "PPM"
            /\ \E bit \in Allowed(Ins.p[1]) :
                 /\ K' = ApplyGate(K, PProj(Ins.x, bit), Ins.w, Case.n)
                 /\ ~IsZeroM(K')
                 /\ o' = Append(o, bit)
            /\ pos' = pos + 1 /\ UNCHANGED <<tid, ph, R>>
CondStep == /\ Running /\ Ins.g = "COND"
            /\ K' = IF InTT([j \in 1..Len(Ins.ix) |-> o[Ins.ix[j]]], Ins.tt) THEN ApplyGate(K, GateM(Ins.op), Ins.op.w, Case.n) ELSE K
            /\ pos' = pos + 1 /\ UNCHANGED <<tid, ph, o, R>>
GateStep == /\ Running /\ Ins.g \notin {"MEASURE", "PPM", "COND"}
            /\ K' = ApplyGate(K, GateM(Ins), Ins.w, Case.n)
            /\ pos' = pos + 1 /\ UNCHANGED <<tid, ph, o, R>>
RunStep == MeasStep \/ PpmStep \/ CondStep \/ GateStep

\* ------------------------------------------------------------------ the decision for one branch
\* row index r (0-based) split by the aux wires: AuxPart(r) keeps only the aux bits, Msk(r) clears them
AuxPart(r, aux, n) == LET S[t \in 0..Len(aux)] == IF t = 0 THEN 0 ELSE S[t-1] + Bit(r, aux[t], n) * 2^(n - aux[t]) IN S[Len(aux)]
NC == Len(Case.cs)
\* K = c * R|nonaux (x) x   with one scalar c and one aux vector x
SameMap(k, r, aux, n) ==
  IF IsZeroM(r) THEN FALSE ELSE
  Bind(TLCEval([i \in 0..2^n-1 |-> AuxPart(i, aux, n)]), LAMBDA ap :
  Bind(CHOOSE ij \in (1..2^n) \X (1..NC) : ap[ij[1]-1] = 0 /\ ~IsZero(r.e[ij[1]][ij[2]]), LAMBDA pv :
  Bind(r.e[pv[1]][pv[2]], LAMBDA rp :
    \A i \in 1..2^n : \A c \in 1..NC :
       Mul(k.e[i][c], rp) = Mul(k.e[pv[1] + ap[i-1]][pv[2]], r.e[i - ap[i-1]][c]))))
\* the aux wires are in a pure state not entangled with the rest: K (rows (i,col) x columns j) has rank one
Rank1(k, aux, n) ==
  Bind(TLCEval([i \in 0..2^n-1 |-> AuxPart(i, aux, n)]), LAMBDA ap :
  Bind(Pivot(k), LAMBDA pv : Bind(k.e[pv[1]][pv[2]], LAMBDA kp :
    \A i \in 1..2^n : \A c \in 1..NC :
       Mul(k.e[i][c], kp) = Mul(k.e[pv[1] - ap[pv[1]-1] + ap[i-1]][pv[2]], k.e[i - ap[i-1] + ap[pv[1]-1]][c]))))
\* R must live on the rows whose aux wires are |0> (the reference never touches them): sanity of the case itself
RefClean(r, aux, n) == \A i \in 1..2^n : AuxPart(i-1, aux, n) # 0 => \A c \in 1..NC : IsZero(r.e[i][c])
Verdict(k, r, aux, n) ==
  IF ~InBound(k) \/ ~InBound(r) THEN "overflow"
  ELSE IF ~RefClean(r, aux, n) THEN "bad-reference"
  ELSE IF SameMap(k, r, aux, n) THEN "ok"
  ELSE IF Rank1(k, aux, n) THEN "wrong-map" ELSE "aux-not-in-a-known-pure-state"

\* squared Frobenius norm of K as a ring scalar [c, k]: (sum over inputs of the branch probability)
Weight(k) == [c |-> LET S[i \in 0..Len(k.e)] == IF i = 0 THEN Zero ELSE
                        LET T[j \in 0..Len(k.e[i])] == IF j = 0 THEN Zero ELSE Add(T[j-1], Mul(Conj(k.e[i][j]), k.e[i][j]))
                        IN Add(S[i-1], T[Len(k.e[i])])
                    IN S[Len(k.e)],
              k |-> 2 * k.k]
Finish ==
  /\ ph = "run" /\ pos = Len(Case.ops) + 1
  /\ PrintT(ToJson([tid |-> tid, o |-> o, verdict |-> Verdict(K, R, Case.aux, Case.n), w |-> Weight(K),
                    km |-> IF Case.emit = 1 THEN K ELSE [k |-> 0, e |-> <<>>]]))
  /\ ph' = "done" /\ pos' = pos /\ K' = <<>> /\ R' = <<>> /\ UNCHANGED <<tid, o>>
Next == PrepStep \/ PrepEnd \/ RefStep \/ RefEnd \/ RunStep \/ Finish

=============================================================================
