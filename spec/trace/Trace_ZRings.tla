---------------------------- MODULE Trace_ZRings -----------------------------
(***************************************************************************)
(* Trace validation for C16.  One trace = a batch of events, each event =  *)
(* one call the driver made on pennylane's ZSqrtTwo / ZOmega /             *)
(* DyadicMatrix / SO3Matrix classes or on the norm-equation solver, with   *)
(* the inputs and the IMPLEMENTATION's output.  TLC re-computes every      *)
(* result with the reference ZRings.tla, checks the law instances on the   *)
(* recorded outputs, and validates solver outputs BY SUBSTITUTION.         *)
(* Event: [op, law, x, y, z, n, out, out2, exc, ovf]; elements are integer  *)
(* sequences, a 2x2 matrix is <<k, 16 ints>>, a 3x3 matrix <<k, 18 ints>>; *)
(* exc = "" (returned), "None" (returned None) or the exception class.     *)
(* Kinds: "V" property violation, "D" drift (mechanism / outside the       *)
(* statement: counted, never a violation), "M" malformed event.            *)
(* Output: ["F", tid, event, kind, clause, info] (JSON) per flagged event  *)
(* and <<"V", tid, #V, #D>> per trace.                                     *)
(***************************************************************************)
EXTENDS ZRings, Json, IOUtils, FiniteSets
CONSTANT NTRACES
Traces == JsonDeserialize(IOEnv.TRACE_FILE)
VARIABLES tid, l, nv, nd
tvars == <<tid, l, nv, nd>>
Tr == Traces[tid]
Ev == Tr.events[l]

Sub4(s, p) == <<s[p], s[p + 1], s[p + 2], s[p + 3]>>
D2(s) == M2(s[1], <<Sub4(s, 2), Sub4(s, 6), Sub4(s, 10), Sub4(s, 14)>>)
D3(s) == M3(s[1], <<<<s[2], s[3]>>, <<s[4], s[5]>>, <<s[6], s[7]>>, <<s[8], s[9]>>, <<s[10], s[11]>>, <<s[12], s[13]>>,
                    <<s[14], s[15]>>, <<s[16], s[17]>>, <<s[18], s[19]>>>>)
IsM2(s) == Len(s) = 17
IsM3(s) == Len(s) = 19
R(kind, c, info) == <<kind, c, info>>        \* kind: "V" violation, "D" drift, "M" malformed event
OK == <<"", "", 0>>

(* ------------------------- plain functional operations ----------------- *)
Functional == {"s2.add", "s2.sub", "s2.mul", "s2.neg", "s2.conj", "s2.adj2", "s2.abs", "s2.pow", "s2.addi", "s2.muli",
               "s2.rsubi", "s2.toomega", "s2.fdiv", "s2.modi",
               "om.add", "om.sub", "om.mul", "om.neg", "om.conj", "om.adj2", "om.abs", "om.norm", "om.pow", "om.addi",
               "om.muli", "om.rsubi", "om.fdiv", "om.fsp"}
Expect(ev) ==
  LET x == ev.x  y == ev.y  n == ev.n IN
  CASE ev.op = "s2.add" -> S2AddV(x, y) [] ev.op = "s2.sub" -> S2SubV(x, y) [] ev.op = "s2.mul" -> S2MulV(x, y)
    [] ev.op = "s2.neg" -> S2NegV(x) [] ev.op = "s2.conj" -> x [] ev.op = "s2.adj2" -> S2Adj2V(x)
    [] ev.op = "s2.abs" -> <<S2NormV(x)>> [] ev.op = "s2.pow" -> S2Pow(x, n)
    [] ev.op = "s2.addi" -> S2AddV(x, S2Int(n)) [] ev.op = "s2.muli" -> S2ScaleV(n, x)
    [] ev.op = "s2.rsubi" -> S2SubV(S2Int(n), x) [] ev.op = "s2.toomega" -> S2ToOmV(x)
    [] ev.op = "s2.fdiv" -> <<x[1] \div n, x[2] \div n>> [] ev.op = "s2.modi" -> <<x[1] % n, x[2] % n>>
    [] ev.op = "om.add" -> OmAddV(x, y) [] ev.op = "om.sub" -> OmSubV(x, y) [] ev.op = "om.mul" -> OmMulV(x, y)
    [] ev.op = "om.neg" -> OmNegV(x) [] ev.op = "om.conj" -> OmConjV(x) [] ev.op = "om.adj2" -> OmAdj2V(x)
    [] ev.op = "om.abs" -> <<OmAbs(x)>> [] ev.op = "om.norm" -> OmNormElV(x) [] ev.op = "om.pow" -> OmPow(x, n)
    [] ev.op = "om.addi" -> OmAddV(x, OmInt(n)) [] ev.op = "om.muli" -> OmScaleV(n, x)
    [] ev.op = "om.rsubi" -> OmSubV(OmInt(n), x)
    [] ev.op = "om.fdiv" -> <<x[1] \div n, x[2] \div n, x[3] \div n, x[4] \div n>>
    [] ev.op = "om.fsp" -> OmFromSqrtPair(x, y, ev.z)
CheckFunctional(ev) ==
  IF ev.exc # "" THEN R("V", ev.op \o ":exception", 0)
  ELSE IF ev.out # Expect(ev) THEN R("V", ev.op \o ":differs-from-reference", 0)
  ELSE OK

(* ------------------------- law instances on recorded outputs ----------- *)
\* left-hand side of the law, computed by the reference from the recorded operands
S2Lhs(ev) ==
  LET x == ev.x  y == ev.y  z == ev.z IN
  CASE ev.law = "assoc_add" -> S2AddV(S2AddV(x, y), z) [] ev.law = "assoc_mul" -> S2Mul(S2MulV(x, y), z)
    [] ev.law = "comm_add" -> S2AddV(x, y) [] ev.law = "comm_mul" -> S2MulV(x, y)
    [] ev.law = "distrib_l" -> S2Mul(x, S2AddV(y, z)) [] ev.law = "distrib_r" -> S2Mul(S2AddV(x, y), z)
    [] ev.law = "adj2_mul" -> S2Adj2(S2MulV(x, y)) [] ev.law = "adj2_add" -> S2Adj2(S2AddV(x, y))
    [] ev.law = "norm_mul" -> <<S2Norm(S2MulV(x, y))>>
    [] ev.law = "ident" -> x
    [] ev.law = "embed_mul" -> S2ToOm(S2MulV(x, y))
OmLhs(ev) ==
  LET x == ev.x  y == ev.y  z == ev.z IN
  CASE ev.law = "assoc_add" -> OmAddV(OmAddV(x, y), z) [] ev.law = "assoc_mul" -> OmMul(OmMulV(x, y), z)
    [] ev.law = "comm_add" -> OmAddV(x, y) [] ev.law = "comm_mul" -> OmMulV(x, y)
    [] ev.law = "distrib_l" -> OmMul(x, OmAddV(y, z)) [] ev.law = "distrib_r" -> OmMul(OmAddV(x, y), z)
    [] ev.law = "conj_mul" -> OmConj(OmMulV(x, y)) [] ev.law = "conj_add" -> OmConj(OmAddV(x, y))
    [] ev.law = "adj2_mul" -> OmAdj2(OmMulV(x, y)) [] ev.law = "adj2_add" -> OmAdj2(OmAddV(x, y))
    [] ev.law = "norm_mul" -> OmNormEl(OmMulV(x, y))
    [] ev.law = "abs_mul" -> <<OmAbs(OmMulV(x, y))>>
    [] ev.law = "ident" -> x
CheckLaw(ev, lhs) ==
  IF ev.exc # "" THEN R("V", ev.op \o "." \o ev.law \o ":exception", 0)
  ELSE IF ev.out # ev.out2 THEN R("V", ev.op \o "." \o ev.law \o ":sides-differ", 0)
  ELSE IF ev.out # lhs THEN R("V", ev.op \o "." \o ev.law \o ":differs-from-reference", 0)
  ELSE OK

(* ------------------------- division, remainder, roots ------------------ *)
\* A faulty implementation may return numbers of any size.  Every check that would MULTIPLY recorded outputs first
\* bounds them (by a bound that every correct result satisfies), so that a wrong result is reported, not a TLC overflow.
Within(s, cap) == \A m \in 1..Len(s) : AbsI(s[m]) <= cap
MaxAbs4(x) == MaxI(MaxI(AbsI(x[1]), AbsI(x[2])), MaxI(AbsI(x[3]), AbsI(x[4])))
SumSq4(x) == x[1] * x[1] + x[2] * x[2] + x[3] * x[3] + x[4] * x[4]
\* the quotient is unique: compare with the reference quotient (no product of recorded numbers)
CheckS2TrueDiv(ev) ==
  IF ev.exc = "" THEN (IF Len(ev.out) = 2 /\ ev.y # S2Zero /\ S2DividesV(ev.y, ev.x) /\ ev.out = S2QuotV(ev.x, ev.y) THEN OK
                       ELSE R("V", "s2.truediv:not-the-quotient", 0))
  ELSE IF ev.y # S2Zero /\ S2DividesV(ev.y, ev.x) THEN R("D", "s2.truediv:raised-on-exact-division", 0) ELSE OK
CheckS2Mod(ev) ==
  IF ev.y = S2Zero THEN OK
  ELSE IF ev.exc # "" THEN R("V", "s2.mod:exception", 0)
  ELSE IF ~(Len(ev.out) = 2 /\ Within(ev.out, 1048576)) THEN R("D", "s2.mod:remainder-out-of-range", 0)
  ELSE IF ~(S2DividesV(ev.y, S2SubV(ev.x, ev.out)) \/ S2DividesV(ev.y, S2AddV(ev.x, ev.out))) THEN R("V", "s2.mod:not-a-remainder", 0)
  ELSE IF ~Within(ev.out, 16384) \/ AbsI(S2NormV(ev.out)) >= AbsI(S2NormV(ev.y)) THEN R("D", "s2.mod:norm-not-reduced", 0)
  ELSE OK
\* r*r = x forces r[1]^2 + 2 r[2]^2 = x[1];  ev.n: coefficient bound for the brute-force root search
CheckS2Sqrt(ev) ==
  IF ev.exc = "" THEN (IF Len(ev.out) = 2 /\ Within(ev.out, 46340) /\ (\A m \in 1..2 : ev.out[m] * ev.out[m] <= AbsI(ev.x[1]))
                          /\ S2MulV(ev.out, ev.out) = ev.x THEN OK ELSE R("V", "s2.sqrt:not-a-root", 0))
  ELSE IF S2Roots(ev.x, ev.n) # {} THEN R("D", "s2.sqrt:missed-root", 0) ELSE OK
CheckOmToS2(ev) ==
  IF OmIsRealV(ev.x) THEN (IF ev.exc # "" THEN R("V", "om.tosqrt2:exception-on-real-element", 0)
                           ELSE IF ev.out # OmToS2V(ev.x) THEN R("V", "om.tosqrt2:differs-from-reference", 0) ELSE OK)
  ELSE IF ev.exc = "" THEN R("V", "om.tosqrt2:accepted-non-real-element", 0) ELSE OK
CheckOmTrueDiv(ev) ==
  LET div == ev.n # 0 /\ \A m \in 1..4 : ev.x[m] % AbsI(ev.n) = 0
      sg == IF ev.n < 0 THEN -1 ELSE 1 IN
  IF ev.exc = "" THEN (IF Len(ev.out) = 4 /\ div /\ \A m \in 1..4 : ev.out[m] = sg * (ev.x[m] \div AbsI(ev.n)) THEN OK
                       ELSE R("V", "om.truediv:not-the-quotient", 0))
  ELSE IF div THEN R("D", "om.truediv:raised-on-exact-division", 0) ELSE OK
CheckOmMod(ev) ==
  IF ev.y = OmZero THEN OK
  ELSE IF ev.exc # "" THEN R("V", "om.mod:exception", 0)
  ELSE IF ~(Len(ev.out) = 4 /\ Within(ev.out, 4096)) THEN R("D", "om.mod:remainder-out-of-range", 0)
  ELSE IF ~(OmDividesV(ev.y, OmSubV(ev.x, ev.out)) \/ OmDividesV(ev.y, OmAddV(ev.x, ev.out))) THEN R("V", "om.mod:not-a-remainder", 0)
  ELSE IF ~Within(ev.out, 64) \/ OmAbs(ev.out) >= OmAbs(ev.y) THEN R("D", "om.mod:norm-not-reduced", 0)
  ELSE OK
\* out = res, out2 = <<ix>>:  res * sqrt2^ix = x.  Multiplication by sqrt2 doubles the sum of the squared coefficients,
\* so a correct answer has 2^ix * SumSq(res) = SumSq(x) and |res[m]| <= max |x[m]|.
CheckOmNormalize(ev) ==
  IF ev.exc # "" THEN R("V", "om.normalize:exception", 0)
  ELSE IF ~(Len(ev.out) = 4 /\ Len(ev.out2) = 1) THEN R("V", "om.normalize:malformed", 0)
  ELSE IF ~(ev.out2[1] \in 0..28 /\ Within(ev.out, MaxAbs4(ev.x)) /\ 2^ev.out2[1] <= SumSq4(ev.x)) THEN R("V", "om.normalize:value-changed", 0)
  ELSE IF OmMulRoot2Pow(ev.out, ev.out2[1]) # ev.x THEN R("V", "om.normalize:value-changed", 0)
  ELSE IF OmRoot2Divides(ev.out) THEN R("D", "om.normalize:not-fully-reduced", 0)
  ELSE OK

(* ------------------------- dyadic and SO(3) matrices ------------------- *)
\* value must agree; the representation must be the canonical one whenever the least denominator exponent is >= 0
\* (exponents further apart than 24 cannot belong to equal values with entries below 2^13 unless the result is grossly
\*  unnormalised; lifting over such a distance would overflow)
KNear(A, B) == AbsI(A.k - B.k) <= 24
Judge2C(op, ref, out) == CHOOSE v \in {IF ~KNear(out, ref) THEN R("V", op \o ":result-out-of-range", 0)
                                       ELSE IF ~M2ValEqV(out, ref) THEN R("V", op \o ":value", 0)
                                       ELSE IF out = c THEN OK
                                       ELSE IF c.k >= 0 THEN R("V", op \o ":not-normalised", 0)
                                       ELSE R("D", op \o ":non-canonical-representation", 0) : c \in {M2CanonV(ref)}} : TRUE
Judge3C(op, ref, out) == CHOOSE v \in {IF ~KNear(out, ref) THEN R("V", op \o ":result-out-of-range", 0)
                                       ELSE IF ~M3ValEqV(out, ref) THEN R("V", op \o ":value", 0)
                                       ELSE IF out.k = c.k /\ \A m \in 1..9 : out.e[m] = c.e[m] THEN OK
                                       ELSE IF c.k >= 0 THEN R("V", op \o ":not-normalised", 0)
                                       ELSE R("D", op \o ":non-canonical-representation", 0) : c \in {M3CanonV(ref)}} : TRUE
DyRef(ev) ==
  LET x == D2(ev.x) IN
  CASE ev.op = "dy.new" -> x
    [] ev.op = "dy.matmul" -> M2MulV(x, D2(ev.y)) [] ev.op = "dy.add" -> M2AddV(x, D2(ev.y))
    [] ev.op = "dy.neg" -> M2NegV(x) [] ev.op = "dy.muli" -> M2ScaleOmV(x, OmInt(ev.n))
    [] ev.op = "dy.mulom" -> M2ScaleOmV(x, ev.z) [] ev.op = "dy.conj" -> M2ConjV(x) [] ev.op = "dy.adj2" -> M2Adj2V(x)
    [] ev.op = "dy.mult2k" -> M2Mult2kV(x, ev.n)
    [] ev.op = "dy.addi" -> M2AddV(x, M2(0, <<OmInt(ev.n), OmZero, OmZero, OmInt(ev.n)>>))
DyOps == {"dy.new", "dy.matmul", "dy.add", "dy.neg", "dy.muli", "dy.mulom", "dy.conj", "dy.adj2", "dy.mult2k", "dy.addi"}
\* entries beyond 2^13 or a denominator exponent beyond +-40 cannot be a normalised result of the bounded inputs
InRange2(s) == IsM2(s) /\ AbsI(s[1]) <= 40 /\ Within(s, 8192)
InRange3(s) == IsM3(s) /\ AbsI(s[1]) <= 60 /\ Within(s, 8192)
CheckDy(ev) ==
  IF ev.exc # "" THEN R("V", ev.op \o ":exception", 0)
  ELSE IF ~IsM2(ev.out) THEN R("V", ev.op \o ":malformed", 0)
  ELSE IF ~InRange2(ev.out) THEN R("V", ev.op \o ":result-out-of-range", 0)
  ELSE F3(Judge2C, ev.op, DyRef(ev), D2(ev.out))
DyLhs(ev) ==
  LET x == D2(ev.x)  y == D2(ev.y)  z == D2(ev.z) IN
  CASE ev.law = "assoc_mul" -> M2Mul(M2MulV(x, y), z) [] ev.law = "assoc_add" -> M2Add(M2AddV(x, y), z)
    [] ev.law = "comm_add" -> M2AddV(x, y)
    [] ev.law = "distrib_l" -> M2Mul(x, M2AddV(y, z)) [] ev.law = "distrib_r" -> M2Mul(M2AddV(x, y), z)
    [] ev.law = "conj_mul" -> M2Conj(M2MulV(x, y)) [] ev.law = "conj_add" -> M2Conj(M2AddV(x, y))
    [] ev.law = "adj2_mul" -> M2Adj2(M2MulV(x, y)) [] ev.law = "adj2_add" -> M2Adj2(M2AddV(x, y))
    [] ev.law = "ident" -> x
\* ev.n = 1 iff the class's own == holds between the two sides
CheckDyLaw(ev) ==
  LET tag == "dy.law." \o ev.law IN
  IF ev.exc # "" THEN R("V", tag \o ":exception", 0)
  ELSE IF ~(IsM2(ev.out) /\ IsM2(ev.out2)) THEN R("V", tag \o ":malformed", 0)
  ELSE IF ~(InRange2(ev.out) /\ InRange2(ev.out2)) THEN R("V", tag \o ":result-out-of-range", 0)
  ELSE CHOOSE v \in {IF ~(KNear(a, b) /\ KNear(a, ref)) THEN R("V", tag \o ":result-out-of-range", 0)
                     ELSE IF ~M2ValEqV(a, b) THEN R("V", tag \o ":sides-differ", 0)
                     ELSE IF ~M2ValEqV(a, ref) THEN R("V", tag \o ":differs-from-reference", 0)
                     ELSE IF ev.n = 1 THEN OK
                     ELSE IF M2CanonV(ref).k >= 0 THEN R("V", tag \o ":class-equality-fails", 0)
                     ELSE R("D", tag \o ":class-equality-fails-on-non-canonical-representation", 0)
                     : a \in {D2(ev.out)}, b \in {D2(ev.out2)}, ref \in {DyLhs(ev)}} : TRUE
CheckSo3(ev) ==
  IF ev.exc # "" THEN R("V", ev.op \o ":exception", 0)
  ELSE IF ~IsM3(ev.out) THEN R("V", ev.op \o ":malformed", 0)
  ELSE IF ~InRange3(ev.out) THEN R("V", ev.op \o ":result-out-of-range", 0)
  ELSE IF ev.op = "so3.new" THEN F3(Judge3C, ev.op, SO3RefV(D2(ev.x)), D3(ev.out))
  ELSE IF ev.op = "so3.matmul" THEN F3(Judge3C, ev.op, M3MulV(D3(ev.x), D3(ev.y)), D3(ev.out))
  ELSE \* so3.hom: out = SO3(A) @ SO3(B), out2 = SO3(A @ B), x = A, y = B (unitary up to a scalar)
       IF ~InRange3(ev.out2) THEN R("V", "so3.hom:malformed-or-out-of-range", 0)
       ELSE CHOOSE v \in {IF ~(KNear(a, b) /\ KNear(a, ref)) THEN R("V", "so3.hom:result-out-of-range", 0)
                          ELSE IF ~M3ValEqV(a, b) THEN R("V", "so3.hom:not-a-homomorphism", 0)
                          ELSE IF ~M3ValEqV(a, ref) THEN R("V", "so3.hom:differs-from-reference", 0)
                          ELSE IF ev.n = 1 THEN OK
                          ELSE IF M3CanonV(ref).k >= 0 THEN R("V", "so3.hom:class-equality-fails", 0)
                          ELSE R("D", "so3.hom:class-equality-fails-on-non-canonical-representation", 0)
                          : a \in {D3(ev.out)}, b \in {D3(ev.out2)}, ref \in {SO3RefV(M2MulV(D2(ev.x), D2(ev.y)))}} : TRUE

(* ------------------------- number theory -------------------------------- *)
\* x = <<start, R>>: out[m] = 1 iff start + m - 1 is prime; R * R >= the largest number of the block
CheckPrimesC(ev) ==
  LET s == ev.x[1]  rr == ev.x[2]  len == Len(ev.out) IN
  IF ev.exc # "" THEN R("V", "primality:exception", s)
  ELSE IF ~(rr >= 1 /\ rr <= 46340 /\ rr * rr >= s + len - 1) THEN R("M", "primality:bad-bound", s)
  ELSE CHOOSE v \in {IF bad = {} THEN OK
                     ELSE CHOOSE w \in {IF ev.out[m] = 1 THEN R("V", "primality:composite-declared-prime", s + m - 1)
                                        ELSE R("V", "primality:prime-declared-composite", s + m - 1)
                                        : m \in {CHOOSE m \in bad : \A q \in bad : m <= q}} : TRUE
                     : bad \in {{m \in 1..len : (ev.out[m] = 1) # IsPrimeB(s + m - 1, rr)}}} : TRUE
\* x = <<a, p>>, p an odd prime < 2^15: a returned r must satisfy r*r = a (mod p)
CheckSqrtMod(ev) ==
  LET a == ev.x[1]  p == ev.x[2] IN
  IF ev.exc = "" THEN (IF Len(ev.out) = 1 /\ ev.out[1] \in 0..p - 1 /\ (ev.out[1] * ev.out[1]) % p = a % p THEN OK
                       ELSE R("V", "sqrtmod:not-a-root", p))
  ELSE IF p <= 1024 /\ \E r \in 0..p - 1 : (r * r) % p = a % p THEN R("D", "sqrtmod:missed-root", p) ELSE OK
\* x = xi in Z[sqrt2]; a returned t in Z[omega] must satisfy t^+ t = xi;  z = a witness solution when the driver knows one
CheckDioph(ev) ==
  IF ev.exc = "" THEN (IF Len(ev.out) = 4 /\ Within(ev.out, MaxI(AbsI(ev.x[1]), 1)) /\ AbsI(ev.x[1]) <= 32768       \* t^+ t = xi forces SumSq(t) = xi[1]
                          /\ OmMul(OmConjV(ev.out), ev.out) = S2ToOmV(ev.x) THEN OK
                       ELSE R("V", "diophantine:returned-solution-does-not-satisfy-equation", 0))
  ELSE IF ev.exc = "None" THEN (IF Len(ev.z) = 4 /\ OmMul(OmConjV(ev.z), ev.z) = S2ToOmV(ev.x) THEN R("D", "diophantine:missed-solution", 0) ELSE OK)
  ELSE R("D", "diophantine:exception-" \o ev.exc, 0)
\* x = <<n, R>>: out = prime factors.  The product is checked by successive exact division (no overflow for wrong factors).
RECURSIVE SeqQuot(_, _, _)
SeqQuot(n, s, i) == IF i = 0 THEN n ELSE IF s[i] >= 1 /\ n % s[i] = 0 THEN F3(SeqQuot, n \div s[i], s, i - 1) ELSE -1
CheckFactor(ev) ==
  IF ev.exc # "" THEN (IF ev.exc = "None" THEN OK ELSE R("D", "factorize:exception", ev.x[1]))
  ELSE IF SeqQuot(ev.x[1], ev.out, Len(ev.out)) # 1 THEN R("D", "factorize:product-differs", ev.x[1])
  ELSE IF \E m \in 1..Len(ev.out) : ~IsPrimeB(ev.out[m], ev.x[2]) THEN R("D", "factorize:non-prime-factor", ev.x[1])
  ELSE OK
\* x = <<p>>: out = flattened Z[sqrt2] factors whose product must be +-p (factors are only determined up to units, which
\* can be large: beyond 2^14 the product is not formed)
RECURSIVE S2FlatProd(_, _)
S2FlatProd(s, m) == IF m = 0 THEN S2One ELSE S2Mul(F2(S2FlatProd, s, m - 1), <<s[2 * m - 1], s[2 * m]>>)
CheckFacS2(ev) ==
  IF ev.exc # "" THEN (IF ev.exc = "None" THEN OK ELSE R("D", "factor-zsqrt2:exception", ev.x[1]))
  ELSE IF ~(Len(ev.out) \in {2, 4} /\ Within(ev.out, 16384)) THEN R("D", "factor-zsqrt2:not-judged-large-coefficients", ev.x[1])
  ELSE IF S2FlatProd(ev.out, Len(ev.out) \div 2) \in {<<ev.x[1], 0>>, <<-ev.x[1], 0>>} THEN OK
  ELSE R("D", "factor-zsqrt2:product-differs", ev.x[1])
CheckGcd(ev) ==
  IF ev.exc # "" THEN R("D", ev.op \o ":exception", 0)
  ELSE IF ~Within(ev.out, 4096) THEN R("D", ev.op \o ":result-out-of-range", 0)
  ELSE IF ev.op = "nt.gcd.s2" THEN
       (IF ev.out # S2Zero /\ S2DividesV(ev.out, ev.x) /\ S2DividesV(ev.out, ev.y) THEN OK ELSE R("D", "nt.gcd.s2:not-a-common-divisor", 0))
  ELSE (IF ev.out # OmZero /\ OmDividesV(ev.out, ev.x) /\ OmDividesV(ev.out, ev.y) THEN OK ELSE R("D", "nt.gcd.om:not-a-common-divisor", 0))

\* ovf = 1: the implementation returned an integer beyond 2^30 (not representable here); the reference result of every
\* recorded call is below 2^30 by construction of the inputs, so such a result is wrong (mechanism outputs: drift)
Mechanism == {"s2.mod", "om.mod", "nt.gcd.s2", "nt.gcd.om", "nt.factor", "nt.facs2"}
Check(ev) ==
  CASE ev.ovf = 1 -> R(IF ev.op \in Mechanism THEN "D" ELSE "V", ev.op \o ":result-out-of-range", 0)
    [] ev.op \in Functional -> CheckFunctional(ev)
    [] ev.op = "s2.law" -> CheckLaw(ev, S2Lhs(ev))
    [] ev.op = "om.law" -> CheckLaw(ev, OmLhs(ev))
    [] ev.op = "s2.truediv" -> CheckS2TrueDiv(ev)
    [] ev.op = "s2.mod" -> CheckS2Mod(ev)
    [] ev.op = "s2.sqrt" -> CheckS2Sqrt(ev)
    [] ev.op = "om.tosqrt2" -> CheckOmToS2(ev)
    [] ev.op = "om.truediv" -> CheckOmTrueDiv(ev)
    [] ev.op = "om.mod" -> CheckOmMod(ev)
    [] ev.op = "om.normalize" -> CheckOmNormalize(ev)
    [] ev.op \in DyOps -> CheckDy(ev)
    [] ev.op = "dy.law" -> CheckDyLaw(ev)
    [] ev.op \in {"so3.new", "so3.matmul", "so3.hom"} -> CheckSo3(ev)
    [] ev.op = "nt.primes" -> CheckPrimesC(ev)
    [] ev.op = "nt.sqrtmod" -> CheckSqrtMod(ev)
    [] ev.op = "nt.dioph" -> CheckDioph(ev)
    [] ev.op = "nt.factor" -> CheckFactor(ev)
    [] ev.op = "nt.facs2" -> CheckFacS2(ev)
    [] ev.op \in {"nt.gcd.s2", "nt.gcd.om"} -> CheckGcd(ev)
    [] OTHER -> R("M", "unknown-op", 0)

TInit == tid \in 1..NTRACES /\ l = 1 /\ nv = 0 /\ nd = 0
TStep == /\ l <= Len(Tr.events)
         /\ \E c \in {Check(Ev)} :
              /\ (c[1] # "" => PrintT(ToJson(<<"F", tid, l, c[1], c[2], c[3]>>)))         \* (JSON: one line whatever the length)
              /\ nv' = nv + (IF c[1] \in {"V", "M"} THEN 1 ELSE 0)
              /\ nd' = nd + (IF c[1] = "D" THEN 1 ELSE 0)
         /\ l' = l + 1 /\ UNCHANGED tid
TDone == /\ l = Len(Tr.events) + 1
         /\ PrintT(<<"V", tid, nv, nd>>)
         /\ l' = l + 1 /\ UNCHANGED <<tid, nv, nd>>
TNext == TStep \/ TDone
=============================================================================
