---------------------------- MODULE Trace_OpHeap -----------------------------
(***************************************************************************)
(* Trace validation for C06.  A trace is the list of events recorded while *)
(* one history of reproduction actions was replayed on a real PennyLane    *)
(* object: contents (class, wires, parameter tokens, hyper-parameter text) *)
(* of every live object before and after the action, the id()-graph of     *)
(* mutable containers of every live object, the new parameters of rebind,  *)
(* qp.equal(result, source), the exception class if the action raised.     *)
(* Every event is judged by OpHeap!Fails -- the same operator that is an   *)
(* invariant of the model -- one event per TLC step.  Output:              *)
(*   <<"E", tid, step, clause>>   for every failing property clause        *)
(*   <<"D", tid, step, clause>>   for every mechanism drift (no verdict)   *)
(*   <<"V", tid, #failing events, #events>>   for EVERY trace (totality)   *)
(***************************************************************************)
EXTENDS OpHeap, Json, IOUtils
CONSTANT NTRACES
Traces == JsonDeserialize(IOEnv.TRACE_FILE)
VARIABLES tid, l, nbad
tvars == <<vars, tid, l, nbad>>
Tr == Traces[tid]
\* JSON arrays of cell numbers -> sets; content records are stored once per trace in Tr.tbl and referenced by index
Norm(e) == [e EXCEPT !.cells = [k \in 1..Len(e.cells) |-> SeqToSet(e.cells[k])],
                     !.pre   = [k \in 1..Len(e.pre) |-> Tr.tbl[e.pre[k]]],
                     !.post  = [k \in 1..Len(e.post) |-> Tr.tbl[e.post[k]]]]
TInit == /\ tid \in 1..NTRACES /\ l = 1 /\ nbad = 0
         /\ heap = <<>> /\ nodes = <<>> /\ hist = <<>>
TStep == /\ l <= Len(Tr.ev)
         /\ LET e == Norm(Tr.ev[l])
                f == Fails(e)
                d == Drift(e)
            IN /\ \A c \in f : PrintT(<<"E", tid, l, c>>)
               /\ \A c \in d : PrintT(<<"D", tid, l, c>>)
               /\ nbad' = nbad + (IF f = {} THEN 0 ELSE 1)
               /\ hist' = <<e.act>>
         /\ l' = l + 1 /\ UNCHANGED <<heap, nodes, tid>>
TDone == /\ l = Len(Tr.ev) + 1
         /\ PrintT(<<"V", tid, nbad, Len(Tr.ev)>>)
         /\ l' = l + 1 /\ UNCHANGED <<vars, tid, nbad>>
TNext == TStep \/ TDone
=============================================================================
