------------------------- MODULE Trace_ResultShape ---------------------------
(***************************************************************************)
(* Trace validation for C32.  Each record is one observation of the real   *)
(* code:  [n, tapes, args, wrap, ps, what, obs]  with                      *)
(*   n     wires of the circuit            tapes  the request (ResultShape)*)
(*   what = "res"  : obs = tree of the result of the single tape tapes[1]  *)
(*          "bres" : obs = tree of the result of the batch `tapes`         *)
(*          "jq"   : obs = tree of the QNode-level Jacobian w.r.t. the     *)
(*                   arguments of shapes `args` (wrap: given as a tuple)   *)
(*          "jt"   : obs = tree of the tape-level Jacobian, ps[1] params   *)
(*          "bjt"  : obs = tree of the Jacobian of the batch, ps[i] params *)
(* The record says nothing about device / interface / diff method: TLC     *)
(* recomputes the tree from the request alone and prints one verdict per   *)
(* record: "ok", "nesting" (tuple structure differs), "shape" (same        *)
(* nesting, an array shape differs), "malformed", "invalid-request", or    *)
(* "drift-batch1" (equal to the tolerated variant TapeTreeSq, see          *)
(* ResultShape: not a verdict about the property).                         *)
(***************************************************************************)
EXTENDS ResultShape, Json, IOUtils
CONSTANT NTRACES
Traces == JsonDeserialize(IOEnv.TRACE_FILE)
VARIABLES tid, done

Expected(r) ==
  CASE r.what = "res"  -> TapeTree(r.tapes[1], r.n)
    [] r.what = "bres" -> BatchTree(r.tapes, r.n)
    [] r.what = "jq"   -> JacQNodeTree(r.tapes[1], r.n, r.args, r.wrap)
    [] r.what = "jt"   -> JacTapeTree(r.tapes[1], r.n, r.ps[1])
    [] r.what = "bjt"  -> JacBatchTree(r.tapes, r.n, r.ps)

ValidReq(r) ==
  /\ r.what \in {"res", "bres", "jq", "jt", "bjt"}
  /\ Len(r.tapes) >= 1 /\ \A i \in 1..Len(r.tapes) : ValidTape(r.tapes[i], r.n)
  /\ (r.what \in {"jq", "jt", "bjt"} => \A i \in 1..Len(r.tapes) : Differentiable(r.tapes[i]))
  /\ (r.what = "jq" => Len(r.args) >= 1 /\ (r.wrap \/ Len(r.args) = 1))
  /\ (r.what \in {"jt", "bjt"} => Len(r.ps) = Len(r.tapes) /\ \A i \in 1..Len(r.ps) : r.ps[i] >= 1)

Variant(r) ==
  CASE r.what = "res"  -> TapeTreeSq(r.tapes[1], r.n)
    [] r.what = "bres" -> BatchTreeSq(r.tapes, r.n)
    [] OTHER           -> Expected(r)

Verdict(r) ==
  IF ~ValidReq(r) THEN "invalid-request"
  ELSE IF ~WellFormed(r.obs) THEN "malformed"
  ELSE LET e == TLCEval(Expected(r)) IN
       IF r.obs = e THEN "ok"
       ELSE IF r.obs = Variant(r) THEN "drift-batch1"
       ELSE IF Skeleton(r.obs) # Skeleton(e) THEN "nesting" ELSE "shape"

TInit == tid \in 1..NTRACES /\ done = FALSE
TNext == /\ ~done /\ done' = TRUE /\ UNCHANGED tid
         /\ PrintT(<<"V", tid, Verdict(Traces[tid])>>)
=============================================================================
