--------------------------- MODULE Trace_Queuing ----------------------------
(***************************************************************************)
(* Trace validation for C41 / C43 (code -> spec).  A trace is the sequence *)
(* of calls the real code made to the public queuing entry points while a  *)
(* quantum function ran (wrapped in-process):                              *)
(*   enter q / exit q    AnnotatedQueue.__enter__ / __exit__               *)
(*   stop / resume       QueuingManager.stop_recording() entered / left    *)
(*   append o / remove o QueuingManager.append / remove                    *)
(* each with the state observed right after the call: st = the context     *)
(* stack (queue ids), qs = the contents of every queue seen so far, and    *)
(* x = an exception was propagating.  Every event must be a step of the    *)
(* Queuing state machine from the state reached so far:                    *)
(*   append / remove touch the innermost active context and nothing else,  *)
(*   nothing changes while nothing records, contexts are left LIFO,        *)
(*   stop_recording puts the whole stack aside and gives it back, also     *)
(*   when an exception passes, and at the end everything is unwound.       *)
(* The first failing clause is the verdict; the model then resynchronises  *)
(* with the observation so that one defect is reported once.               *)
(***************************************************************************)
EXTENDS Queuing, Json, IOUtils
CONSTANT NTRACES
Traces == JsonDeserialize(IOEnv.TRACE_FILE)
VARIABLES tid, tr, l, verdict, where
tvars == <<qvars, tid, tr, l, verdict, where>>

\* the file is read once (bound by \E), each behaviour carries its own trace
TInit == \E T \in {Traces} : /\ tid \in 1..NTRACES /\ tr = T[tid]
                              /\ l = 1 /\ verdict = "ok" /\ where = <<"", 0>> /\ QInit
Tr == tr
Ev == Tr[l]

\* what the state machine says the call does
ExpStack == CASE Ev.e = "enter" -> Append(stack, Ev.o)
              [] Ev.e = "exit" -> IF stack = <<>> THEN <<>> ELSE Pop(stack)
              [] Ev.e = "stop" -> <<>>
              [] Ev.e = "resume" -> IF saved = <<>> THEN <<>> ELSE Last(saved)
              [] OTHER -> stack
ExpQueues == CASE Ev.e = "enter" -> IF Ev.o = Len(queues) + 1 THEN Append(queues, <<>>) ELSE queues
               [] Ev.e = "append" -> AppendTo(queues, stack, Ev.o)
               [] Ev.e = "remove" -> RemoveFrom(queues, stack, {Ev.o})
               [] OTHER -> queues
Clause == IF Ev.e = "exit" /\ (stack = <<>> \/ Last(stack) # Ev.o) THEN "exit-not-innermost"
          ELSE IF Ev.e = "resume" /\ saved = <<>> THEN "resume-without-stop"
          ELSE IF Ev.st # ExpStack THEN
                 (IF Ev.x THEN "stack-not-restored-after-exception" ELSE "context-stack")
          ELSE IF Ev.qs # ExpQueues THEN
                 (IF stack = <<>> THEN "recorded-while-not-recording"
                  ELSE IF \E q \in 1..Len(queues) : q # Last(stack) /\ q <= Len(Ev.qs) /\ Ev.qs[q] # queues[q] THEN "not-innermost-only"
                  ELSE "queue-effect")
          ELSE "ok"

TStep == /\ l <= Len(Tr)
         /\ verdict' = IF verdict = "ok" THEN Clause ELSE verdict
         /\ where' = IF verdict = "ok" /\ Clause # "ok" THEN <<Ev.e, l>> ELSE where
         \* follow the observation (equal to the expectation unless a clause failed)
         /\ stack' = Ev.st /\ queues' = Ev.qs
         /\ saved' = CASE Ev.e = "stop" -> Append(saved, stack)
                       [] Ev.e = "resume" /\ saved # <<>> -> Pop(saved)
                       [] OTHER -> saved
         /\ l' = l + 1 /\ UNCHANGED <<tid, tr, objs, created, consumed, unrec>>
TDone == /\ l = Len(Tr) + 1
         /\ PrintT(<<"V", tid, IF verdict # "ok" THEN verdict ELSE IF stack # <<>> \/ saved # <<>> THEN "not-unwound" ELSE "ok", where[1], where[2]>>)
         /\ l' = l + 1 /\ UNCHANGED <<qvars, tid, tr, verdict, where>>
TNext == TStep \/ TDone
\* model-level sanity on every validated state
TNoDup == NoDup
=============================================================================
