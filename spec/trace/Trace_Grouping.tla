--------------------------- MODULE Trace_Grouping ---------------------------
(***************************************************************************)
(* C52: relational specification of observable grouping and of the         *)
(* diagonalisation of qubit-wise commuting groups, and trace validation of *)
(* the calls recorded from pennylane.pauli.grouping / pauli.utils.         *)
(*                                                                         *)
(* A record of the batch file is either                                    *)
(*  kind "group": [n, words, coeffs, calls] - one input list of Pauli      *)
(*     words (sequences over 0..3, duplicates and identities allowed) with *)
(*     one coefficient <<re,im,k>> per word, and the recorded calls        *)
(*       [fn |-> "group", ty, me, groups, cgroups]  group_observables      *)
(*       [fn |-> "index", ty, me, idx]              compute_partition_..   *)
(*       [fn |-> "optimize", ty, me, idx, gates, images, ic, dref]         *)
(*                                                  optimize_measurements  *)
(*  kind "diag": [n, group, gc, gates, images, ic] - one call of           *)
(*     diagonalize_qwc_pauli_words on a group (members with coefficients), *)
(*     the returned gates (Gates.tla records) and diagonal observables.    *)
(*                                                                         *)
(* Actions (enabling conditions = the property):                           *)
(*  Group(input, ty, groups, cgroups) is enabled iff the (word,            *)
(*     coefficient) pairs of the groups are exactly the input multiset     *)
(*     (each term once, its coefficient attached) and the members of each  *)
(*     group pairwise satisfy the relation ty (PQWC / PCommutes /          *)
(*     PAnticommutes of PauliAlg).                                         *)
(*  Index(input, ty, idx) likewise for groups of positions 0..m-1.         *)
(*  Diagonalize(group, gates, images) is enabled iff with U the exact      *)
(*     unitary of the gates  U P U^dagger = image  for every member P,     *)
(*     every image is a Z-type word, and coefficients are unchanged.       *)
(* The verdict <<"V", tid, j, clause>> names the first call j whose action *)
(* is not enabled (j = 0, "ok" when all are).                              *)
(***************************************************************************)
EXTENDS Grouping, Json, IOUtils
CONSTANT NTRACES
Traces == JsonDeserialize(IOEnv.TRACE_FILE)
VARIABLES tid, done
Init == tid \in 1..NTRACES /\ done = FALSE

\* optimize_measurements: the partition (positions), the coefficients travelling with the members, and for every group a
\* reference dref[g] to the "diag" record of this batch holding exactly (members, gates, images), whose Diagonalize action is
\* decided once (many calls return the same group)
OptimizeClause(r, c) ==
   LET ic1 == IndexClause(r.words, c.ty, c.idx) IN
   IF ic1 # "ok" THEN ic1
   ELSE IF Len(c.gates) # Len(c.idx) \/ Len(c.images) # Len(c.idx) \/ Len(c.ic) # Len(c.idx) \/ Len(c.dref) # Len(c.idx) THEN "shape"
   ELSE IF \E g \in DOMAIN c.idx : Len(c.images[g]) # Len(c.idx[g]) \/ Len(c.ic[g]) # Len(c.idx[g]) THEN "shape"
   ELSE IF \E g \in DOMAIN c.idx : \E i \in DOMAIN c.idx[g] : ~GdEq(r.coeffs[c.idx[g][i] + 1], c.ic[g][i]) THEN "coefficient-changed"
   ELSE IF \E g \in DOMAIN c.idx : LET d == Traces[c.dref[g]] IN
             \/ d.kind # "diag" \/ d.n # r.n \/ d.gates # c.gates[g] \/ d.images # c.images[g]
             \/ d.group # [i \in DOMAIN c.idx[g] |-> r.words[c.idx[g][i] + 1]] THEN "diag-reference-mismatch"
   ELSE "ok"
CallClause(r, c) == CASE c.fn = "group" -> GroupClause(r.n, r.words, r.coeffs, c.ty, c.groups, c.cgroups)
                      [] c.fn = "index" -> IndexClause(r.words, c.ty, c.idx)
                      [] c.fn = "optimize" -> OptimizeClause(r, c)
Verdict(r) ==
   IF r.kind = "diag" THEN <<0, DiagClause(r.n, r.group, r.gc, r.gates, r.images, r.ic)>>
   ELSE Bind(TLCEval([j \in DOMAIN r.calls |-> CallClause(r, r.calls[j])]),
             LAMBDA cl : LET badj == {j \in DOMAIN cl : cl[j] # "ok"}
                         IN IF badj = {} THEN <<0, "ok">> ELSE LET j == CHOOSE x \in badj : \A y \in badj : x <= y IN <<j, cl[j]>>)
Check == /\ ~done /\ done' = TRUE /\ UNCHANGED tid
         /\ \E v \in {Verdict(Traces[tid])} : PrintT(<<"V", tid, v[1], v[2]>>)
Next == Check
=============================================================================
