----------------------------- MODULE Trace_Specs ------------------------------
(***************************************************************************)
(* Trace validation for C46.  Each record is one resource summary the real *)
(* code reported (qp.specs(qnode, level=...)(...), tape.specs,             *)
(* resources_from_tape) together with the circuit it is about, encoded by  *)
(* the harness from the tape at the requested transform level:             *)
(*   ops = << [g, w, dep] >>   type name, wires (ints), indices of the     *)
(*                             operations it is classically controlled by  *)
(*   mw  = << wires mentioned by the terminal measurements >>              *)
(*   rep = [counts |-> << <<name, n>> >>, total, wires, depth]             *)
(*         depth = -1: not computed (compute_depth = False)                *)
(* TLC recomputes the summary with SpecsModel and prints                   *)
(* <<"V", tid, verdict>>: "ok" or the first disagreeing field.             *)
(***************************************************************************)
EXTENDS SpecsModel, Json, IOUtils
CONSTANT NTRACES
Traces == JsonDeserialize(IOEnv.TRACE_FILE)
VARIABLES tid, done

RECURSIVE CountIn(_, _)
CountIn(cs, g) == IF cs = <<>> THEN 0 ELSE (IF cs[1][1] = g THEN cs[1][2] ELSE 0) + CountIn(Tail(cs), g)
Names(cs) == {cs[i][1] : i \in 1..Len(cs)}

Verdict(r) ==
  LET c == r.ops  rep == r.rep  mw == SeqSet(r.mw)  d == Depth(c, mw) IN
  IF d # DepthASAP(c, mw) THEN "oracle-definitions-disagree"
  ELSE IF \E g \in Types(c) \cup Names(rep.counts) : CountIn(rep.counts, g) # CountOf(c, g) THEN "gate-counts"
  ELSE IF \E i \in 1..Len(rep.counts) : rep.counts[i][2] <= 0 THEN "gate-counts"
  ELSE IF rep.total # Len(c) THEN "total-operations"
  ELSE IF rep.wires # NumWires(c, mw) THEN "num-wires"
  ELSE IF rep.depth >= 0 /\ rep.depth # d THEN "depth"
  ELSE "ok"

TInit == tid \in 1..NTRACES /\ done = FALSE
TNext == /\ ~done /\ done' = TRUE /\ UNCHANGED tid
         /\ PrintT(<<"V", tid, Verdict(Traces[tid])>>)
=============================================================================
