--------------------------- MODULE Trace_Clifford ----------------------------
(***************************************************************************)
(* C70: default.clifford against (a) the exact state-vector semantics of   *)
(* TapeEval.tla at ring level M = 3 and (b) the stabilizer-tableau model   *)
(* Tableau.tla.  One case per behaviour, one gate per TLC step; both       *)
(* models are advanced in lock step.                                       *)
(*                                                                         *)
(* A case: [n, sv, ops, meas, dev, lc]                                     *)
(*   sv   = 1: carry the exact state vector (small n), 0: tableau only     *)
(*   ops  = Clifford gate records (Gates.tla format; mods <<>> or adjoint) *)
(*   meas = TapeEval requests (expval of a Pauli word / probs / state)     *)
(*   dev  = [has, rows]: the tableau default.clifford RETURNED for this    *)
(*          circuit (qp.state(), tableau=True) as 2n rows [x, z, r]        *)
(*   lc   = linear combinations of Pauli words H = sum_i (+-c_i/4) P_i      *)
(*          (terms [c, s, pw], c > 0, s = 1: minus) that are measured with *)
(*          FINITE SHOTS (expval / var of a Sum, Hamiltonian, Hermitian).  *)
(*          TLC decides per combination: the exact expectation num/4; det: *)
(*          every term is +-(a stabilizer), i.e. every single shot of      *)
(*          every term has the same outcome, so ANY sampling estimate      *)
(*          equals num/4 exactly and the state is an eigenstate (var = 0); *)
(*          loose/4 = sum of |c_i| over the terms with expectation 0 (fair *)
(*          coins): a shot estimate deviates by at most z*(loose/4)/sqrt N *)
(*          whatever the correlation between the terms' samples.           *)
(*                                                                         *)
(* At the end TLC                                                          *)
(*  * checks the two models against each other ("self"): every stabilizer  *)
(*    row of the tableau model has exact expectation +1 in the exact state *)
(*    and every requested Pauli expectation agrees (sv = 1); the model     *)
(*    tableau is symplectic (always);                                      *)
(*  * validates the recorded device tableau ("dev"): shape; stabilizer     *)
(*    generators commute; are independent; each one, sign included, has    *)
(*    expectation +1 in the model's stabilizer state and, for sv = 1,      *)
(*    P|psi> = |psi> in the exact state (<psi|P|psi> = 1 exactly);         *)
(*    mechanism facts (rows equal to the model's rows, destabilizer        *)
(*    pairing) are emitted as flags only;                                  *)
(*  * emits the expected value of every request (tableau value and exact   *)
(*    ring value) for the float comparison done by the harness.            *)
(***************************************************************************)
EXTENDS TapeEval, Tableau
VARIABLE tab
NW == Case.n
HasSV == Case.sv = 1

CInit == /\ tid \in 1..NCASES /\ pos = 1
         /\ br = IF Cases[tid].sv = 1 THEN << [o |-> <<>>, v |-> BasisCol(2^Cases[tid].n, 0)] >> ELSE <<>>
         /\ tab = TbInit(Cases[tid].n)

CStep == /\ pos <= Len(Case.ops)
         /\ TbSupported(Case.ops[pos])
         /\ Step
         /\ tab' = TbApply(tab, Case.ops[pos])

\* exact ring scalar [c, k] equals the integer s
EqInt(sc, s) == sc.c = Int2C(s * 2^sc.k)
Sgn(r) == IF r = 0 THEN 1 ELSE -1

SelfVerdict ==
  IF ~TbValid(tab, NW) THEN "model-tableau-not-symplectic"
  ELSE IF ~HasSV THEN "ok"
  ELSE IF \E i \in NW+1..2*NW : ~EqInt(Expval(TbWordOfRow(tab[i])), Sgn(tab[i].r)) THEN "model-stabilizer-does-not-stabilize-exact-state"
  ELSE IF \E j \in 1..Len(Case.meas) : Case.meas[j].t = "expval" /\ ~EqInt(Expval(Case.meas[j].pw), TbExpect(tab, NW, Case.meas[j].pw))
       THEN "model-expectation-differs-from-exact"
  ELSE IF \E k \in 1..Len(Case.lc) : \E i \in 1..Len(Case.lc[k]) :
            ~EqInt(Expval(Case.lc[k][i].pw), TbExpect(tab, NW, Case.lc[k][i].pw))
       THEN "model-expectation-differs-from-exact"
  ELSE "ok"

\* finite-shot linear combinations (see the header)
RECURSIVE LcFold(_, _, _)
LcFold(l, i, acc) ==
  IF i > Len(l) THEN acc
  ELSE LET e == TbExpect(tab, NW, l[i].pw)
           c == IF l[i].s = 1 THEN -l[i].c ELSE l[i].c
       IN LcFold(l, i + 1, [num |-> acc.num + c * e, loose |-> acc.loose + (IF e = 0 THEN l[i].c ELSE 0),
                            nz |-> acc.nz + (IF e = 0 THEN 0 ELSE 1)])
LcVal(l) == LET a == LcFold(l, 1, [num |-> 0, loose |-> 0, nz |-> 0])
            IN [num |-> a.num, loose |-> a.loose, det |-> a.nz = Len(l), nterms |-> Len(l)]

D2 == Case.dev.rows
DevVerdict ==
  IF Case.dev.has = 0 THEN "none"
  ELSE IF ~TbShape(D2, NW) THEN "shape"
  ELSE IF ~TbStabCommute(D2, NW) THEN "stabilizers-do-not-commute"
  ELSE IF ~TbStabIndependent(D2, NW) THEN "stabilizers-dependent"
  ELSE IF \E i \in NW+1..2*NW : TbExpectRow(tab, NW, D2[i]) # 1 THEN "stabilizer-not-in-the-stabilizer-group"
  ELSE IF HasSV /\ \E i \in NW+1..2*NW : ~EqInt(Expval(TbWordOfRow(D2[i])), Sgn(D2[i].r)) THEN "stabilizer-does-not-fix-exact-state"
  ELSE "ok"
DevFlags == IF Case.dev.has = 0 \/ ~TbShape(D2, NW) THEN [eq |-> FALSE, pairing |-> FALSE]
            ELSE [eq |-> D2 = tab, pairing |-> TbPairing(D2, NW)]

CMeas(m) == IF m.t = "expval"
            THEN [t |-> "expval", tb |-> TbExpect(tab, NW, m.pw), v |-> IF HasSV THEN <<Expval(m.pw)>> ELSE <<>>]
            ELSE [t |-> m.t, tb |-> 9, v |-> IF HasSV THEN MeasVal(m).v ELSE <<>>]

CFinish ==
  /\ pos = Len(Case.ops) + 1
  /\ PrintT(ToJson([tid |-> tid, overflow |-> MaxCoef >= 2^12,
                    meas |-> [j \in 1..Len(Case.meas) |-> CMeas(Case.meas[j])],
                    lc |-> [k \in 1..Len(Case.lc) |-> LcVal(Case.lc[k])],
                    tab |-> tab, self |-> SelfVerdict, dev |-> DevVerdict, flags |-> DevFlags]))
  /\ pos' = pos + 1 /\ br' = <<>> /\ tab' = <<>> /\ UNCHANGED tid
CNext == CStep \/ CFinish
=============================================================================
