-------------------------- MODULE Trace_MeasSplit ---------------------------
(***************************************************************************)
(* C20: trace validation of recorded measurement-transform calls           *)
(* (split_non_commuting with every grouping strategy, split_to_single_     *)
(* terms, diagonalize_measurements, broadcast_expand and compositions).    *)
(*                                                                         *)
(* One record per call:                                                    *)
(*   [n, rel, zonly, exact, tin, touts, rows, offs]                        *)
(*   tin / touts[i] = [meas |-> measurement list, vars |-> exact values    *)
(*                     per broadcast variant] (see MeasSplit.tla)          *)
(*   rows / offs    = the post-processing function as an affine map,       *)
(*                    logged by probing the returned function on basis     *)
(*                    result vectors (exact dyadic entries)                *)
(* Action Split(call) is enabled iff                                       *)
(*   - every output tape's observables satisfy the relation the strategy   *)
(*     promises (rel: qwc / commuting / wires / single),                   *)
(*   - zonly => only Z / I letters remain (diagonalize_measurements),      *)
(*   - exact => A * Res(outs) + b = Res(in) exactly in Z[zeta][1/2],       *)
(*     entry by entry and in order (MeasSplit.Recombine).                  *)
(* The verdict <<"V", tid, clause, index>> is printed for every record.    *)
(***************************************************************************)
EXTENDS MeasSplit, Json, IOUtils
CONSTANT NTRACES
Traces == JsonDeserialize(IOEnv.TRACE_FILE)
VARIABLES tid, done
Init == tid \in 1..NTRACES /\ done = FALSE
Check == /\ ~done /\ done' = TRUE /\ UNCHANGED tid
         /\ \E v \in {SplitVerdict(Traces[tid])} : PrintT(<<"V", tid, v[1], v[2]>>)
Next == Check
=============================================================================
