----------------------------- MODULE Trace_Cache -----------------------------
(***************************************************************************)
(* Trace validation for C05.  A trace is one history of qp.execute calls on *)
(* one cache, recorded from the real code through a logging MutableMapping: *)
(*   [nt, key, res, kind, ms, logged,                                       *)
(*    execs: << [batch, ev: <<[op, k, v, r, ev]>>, ret, exc] >>]            *)
(* key[t] / res[t] are the OBSERVED classes of the tapes (equal tape.hash /  *)
(* numerically equal cache=False results), ev the cache events             *)
(*   has(k) -> r      set(k, v) evicting ev      get(k) -> found r, value v *)
(* with values as result classes (0 = Pending/None), ret[i] the class of    *)
(* the value returned for batch[i] and exc the exception class ("" = none). *)
(*                                                                          *)
(* Property-level conjuncts, decided on the recorded trace:                 *)
(*   I1  every cache read of a hit finds a result, no execution raises      *)
(*   I2  ret[i] = res[batch[i]] for every analytic tape                     *)
(* Mechanism: the Cache.tla state machine is run in lock step on the same   *)
(* batches (world = observed classes); its predicted events, returned       *)
(* classes and error are compared with the recorded ones.  A difference is  *)
(* reported as DRIFT (never a violation).                                   *)
(***************************************************************************)
EXTENDS Cache, Json, IOUtils
CONSTANT NTRACES
Traces == JsonDeserialize(IOEnv.TRACE_FILE)
VARIABLES tid, ex, drift, fin
tvars == <<vars, tid, ex, drift, fin>>
Tr == Traces[tid]

\* ------------------------------------------------------------ the property on the recorded trace (pure)
ExcClause(x) == IF x.exc = "" THEN ""
                ELSE IF x.exc = "KeyError" THEN "hit-without-result"
                ELSE IF x.exc = "RuntimeError" THEN "hit-pending-result"
                ELSE "cached-execution-raised"
ReadFails(x) == \E i \in 1..Len(x.ev) : x.ev[i].op = "get" /\ (x.ev[i].r = 0 \/ x.ev[i].v = Pending)
WrongAt(t, x) == \E i \in 1..Len(x.ret) : t.res[x.batch[i]] > 0 /\ x.ret[i] # t.res[x.batch[i]]
RECURSIVE Verdict(_, _)
Verdict(t, e) == IF e > Len(t.execs) THEN "ok"
                 ELSE LET x == t.execs[e] IN
                      IF WrongAt(t, x) THEN "wrong-result"
                      ELSE IF ExcClause(x) # "" THEN ExcClause(x)
                      ELSE IF ReadFails(x) THEN "hit-without-result"
                      ELSE IF Len(x.ret) # Len(x.batch) THEN "results-missing"
                      ELSE Verdict(t, e + 1)

\* ------------------------------------------------------------ lock step with Cache.tla
TInit == /\ tid \in 1..NTRACES /\ ex = 1 /\ drift = "same" /\ fin = FALSE
         /\ world = [id |-> "trace", nt |-> Traces[tid].nt, key |-> Traces[tid].key, res |-> Traces[tid].res, sym |-> FALSE,
                     both |-> FALSE, cfgs |-> {}, maxBatch |-> 99, maxExecs |-> 99, maxTotal |-> 99]
         /\ ccfg = [kind |-> Traces[tid].kind, ms |-> Traces[tid].ms]
         /\ cache = <<>> /\ phase = "idle" /\ batch = <<>> /\ pos = 1 /\ plan = <<>> /\ emitted = <<>> /\ devres = <<>>
         /\ nd = 1 /\ out = <<>> /\ log = <<>> /\ nexec = 0 /\ total = 0 /\ seen = 0 /\ hist = <<>> /\ err = ""
\* the caller's part is taken from the trace
TLoad == /\ ~fin /\ phase = "idle" /\ batch = <<>> /\ err = "" /\ nexec = ex - 1 /\ ex <= Len(Tr.execs)
         /\ batch' = Tr.execs[ex].batch
         /\ UNCHANGED <<world, ccfg, cache, phase, pos, plan, emitted, devres, nd, out, log, nexec, total, seen, hist, err, tid, ex, drift, fin>>
TModel == /\ ~fin /\ (batch # <<>> \/ phase # "idle")
          /\ (Start \/ TransformHit \/ TransformMiss \/ Execute \/ MissPost \/ HitPost \/ Finish)
          /\ UNCHANGED <<tid, ex, drift, fin>>
ErrName(e) == IF e = "missing-key" THEN "KeyError" ELSE IF e = "pending-result" THEN "RuntimeError" ELSE e
SameEv(m, o) == m.op = o.op /\ m.k = o.k /\ m.r = o.r /\ m.ev = o.ev /\ (m.v >= 0 => m.v = o.v)
SameExec(m, o) ==
  /\ ErrName(m.err) = o.exc
  /\ (m.err = "" => (Len(m.out) = Len(o.ret) /\ \A i \in 1..Len(m.out) : m.out[i] > 0 => m.out[i] = o.ret[i]))   \* nothing is returned when execute raises
  /\ (Tr.logged => (Len(m.log) = Len(o.ev) /\ \A i \in 1..Len(m.log) : SameEv(m.log[i], o.ev[i])))
TCheck == /\ ~fin /\ phase = "idle" /\ batch = <<>> /\ nexec = ex /\ ex <= Len(Tr.execs)
          /\ drift' = IF drift = "same" /\ ~SameExec(hist[ex], Tr.execs[ex]) THEN "drift" ELSE drift
          /\ ex' = ex + 1 /\ UNCHANGED <<vars, tid, fin>>
\* the model stopped with an error but the implementation went on (or the other way round): mechanism drift
TDone == /\ ~fin /\ phase = "idle" /\ batch = <<>> /\ nexec = ex - 1 /\ (ex > Len(Tr.execs) \/ err # "")
         /\ PrintT(<<"V", tid, Verdict(Tr, 1), IF ex <= Len(Tr.execs) THEN "drift" ELSE drift>>)
         /\ fin' = TRUE /\ UNCHANGED <<vars, tid, ex, drift>>
TNext == TLoad \/ TModel \/ TCheck \/ TDone
=============================================================================
