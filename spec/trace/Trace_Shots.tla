----------------------------- MODULE Trace_Shots -----------------------------
(***************************************************************************)
(* Trace validation for C44.  Each record is one call into the real Shots  *)
(* class:  [op, a, b, p, q, out]  with                                     *)
(*   op = "one"   : Shots(a)            op = "add" : Shots(a) + Shots(b)   *)
(*   op = "scale" : Shots(a) * (p/q)                                       *)
(*   out = [exc |-> "" | exception class, total, list, vec, bins, part,    *)
(*          ncopies]  what the implementation returned (total None = -1).  *)
(* TLC recomputes the documented view with ShotsSpec and prints one        *)
(* verdict per record: "ok" or the first failing clause.  Scaling a count  *)
(* below 1 is outside the documented domain: verdict "ok", flag "undef".   *)
(***************************************************************************)
EXTENDS ShotsSpec, Json, IOUtils
CONSTANT NTRACES
Traces == JsonDeserialize(IOEnv.TRACE_FILE)
VARIABLES tid, done

Expected(r) == CASE r.op = "one"   -> Expand(r.a)
                 [] r.op = "add"   -> Add(Expand(r.a), Expand(r.b))
                 [] r.op = "scale" -> Scale(Expand(r.a), r.p, r.q)
InDomain(r) == /\ ValidSpec(r.a) /\ ValidSpec(r.b)
               /\ (r.op = "scale" => r.q >= 1 /\ ScaleDefined(Expand(r.a), r.p, r.q))

Verdict(r) ==
  IF ~InDomain(r) THEN "ok"
  ELSE LET l == TLCEval(Expected(r))  o == r.out IN
       IF o.exc # "" THEN "exception:" \o o.exc
       ELSE IF o.total # Total(l) THEN "total_shots"
       ELSE IF o.list # l THEN "iteration"
       ELSE IF o.vec # RLE(l) THEN "shot_vector"
       ELSE IF o.bins # Bins(l) THEN "bins"
       ELSE IF o.part # Partitioned(l) THEN "has_partitioned_shots"
       ELSE IF o.ncopies # NumCopies(l) THEN "num_copies"
       ELSE "ok"

TInit == tid \in 1..NTRACES /\ done = FALSE
TNext == /\ ~done /\ done' = TRUE /\ UNCHANGED tid
         /\ PrintT(<<"V", tid, Verdict(Traces[tid]), IF InDomain(Traces[tid]) THEN "def" ELSE "undef">>)
=============================================================================
