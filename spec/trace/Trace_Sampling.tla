--------------------------- MODULE Trace_Sampling ----------------------------
(***************************************************************************)
(* C29, the exact clauses: what a finite-shot execution returned, checked  *)
(* against the statement                                                   *)
(*   - every sampled outcome is a valid bitstring / eigenvalue,            *)
(*   - counts total the number of shots,                                   *)
(*   - a shot vector is split into the documented bins (ShotsSpec.tla:     *)
(*     one result per element of the expanded list, element i holding      *)
(*     Bins(l)[i][2] - Bins(l)[i][1] shots, a tuple over the bins exactly  *)
(*     when the specification is partitioned).                             *)
(*                                                                         *)
(* One record per (execution, measurement):                                *)
(*  [spec    |-> shot specification in ShotsSpec encoding,                 *)
(*   kind    |-> "sample_w" | "sample_o" | "counts_w" | "counts_all" |     *)
(*               "counts_o" | "probs" | "expval",                          *)
(*   k       |-> number of measured wires,                                 *)
(*   eigs    |-> the integer eigenvalues of the observable (obs kinds),    *)
(*   wrapped |-> 1 iff the result was a tuple over bins,  nb |-> its size, *)
(*   bins    |-> one entry per returned bin:                               *)
(*       [rows |-> number of samples (sample kinds), cols |-> row width,   *)
(*        h    |-> histogram of the DISTINCT outcomes: <<[o, c]>>, o the   *)
(*                 outcome as a sequence of ints (bits / one eigenvalue,   *)
(*                 a non-integer value is recorded as 99999), c its        *)
(*                 multiplicity (sample kinds) or reported count (counts), *)
(*        num  |-> value * shots rounded (probs: one per outcome; expval:  *)
(*                 one), exact |-> 1 iff value * shots is an integer up to *)
(*                 1e-6 ]]                                                 *)
(* TLC prints one verdict per record: "ok" or the first failing clause.    *)
(***************************************************************************)
EXTENDS ShotsSpec, Json, IOUtils
CONSTANT NTRACES
Traces == JsonDeserialize(IOEnv.TRACE_FILE)
VARIABLES tid, done

IsBits(o, k) == Len(o) = k /\ \A j \in 1..k : o[j] \in {0, 1}
InSeq(x, s) == \E j \in 1..Len(s) : s[j] = x
IsEig(o, eigs) == Len(o) = 1 /\ InSeq(o[1], eigs)
Mults(h) == [i \in 1..Len(h) |-> h[i].c]
DistinctKeys(h) == \A i, j \in 1..Len(h) : i # j => h[i].o # h[j].o
Abs(x) == IF x < 0 THEN -x ELSE x

BinVerdict(r, b, size) ==
  CASE r.kind = "sample_w" ->
         IF b.rows # size \/ b.cols # r.k THEN "sample-shape"
         ELSE IF Sum(Mults(b.h)) # size \/ ~DistinctKeys(b.h) THEN "histogram-inconsistent"
         ELSE IF \E i \in 1..Len(b.h) : ~IsBits(b.h[i].o, r.k) THEN "invalid-bitstring" ELSE "ok"
    [] r.kind = "sample_o" ->
         IF b.rows # size \/ b.cols # 1 THEN "sample-shape"
         ELSE IF Sum(Mults(b.h)) # size \/ ~DistinctKeys(b.h) THEN "histogram-inconsistent"
         ELSE IF \E i \in 1..Len(b.h) : ~IsEig(b.h[i].o, r.eigs) THEN "invalid-eigenvalue" ELSE "ok"
    [] r.kind \in {"counts_w", "counts_all"} ->
         IF \E i \in 1..Len(b.h) : ~IsBits(b.h[i].o, r.k) THEN "invalid-bitstring"
         ELSE IF ~DistinctKeys(b.h) THEN "duplicate-outcome"
         ELSE IF r.kind = "counts_all" /\ Len(b.h) # 2^r.k THEN "all-outcomes-missing"
         ELSE IF \E i \in 1..Len(b.h) : b.h[i].c < (IF r.kind = "counts_all" THEN 0 ELSE 1) THEN "non-positive-count"
         ELSE IF Sum(Mults(b.h)) # size THEN "counts-do-not-total-the-shots" ELSE "ok"
    [] r.kind = "counts_o" ->
         IF \E i \in 1..Len(b.h) : ~IsEig(b.h[i].o, r.eigs) THEN "invalid-eigenvalue"
         ELSE IF ~DistinctKeys(b.h) THEN "duplicate-outcome"
         ELSE IF \E i \in 1..Len(b.h) : b.h[i].c < 1 THEN "non-positive-count"
         ELSE IF Sum(Mults(b.h)) # size THEN "counts-do-not-total-the-shots" ELSE "ok"
    [] r.kind = "probs" ->
         IF Len(b.num) # 2^r.k THEN "probs-shape"
         ELSE IF b.exact # 1 \/ \E i \in 1..Len(b.num) : b.num[i] < 0 THEN "probs-not-relative-frequencies"
         ELSE IF Sum(b.num) # size THEN "probs-do-not-total-the-shots" ELSE "ok"
    [] r.kind = "expval" ->
         \* the mean of `size` samples of an observable with eigenvalues +-1 (or 0/1)
         IF b.exact # 1 \/ Len(b.num) # 1 THEN "expval-not-a-mean-of-eigenvalues"
         ELSE IF r.eigs = <<-1, 1>> THEN (IF Abs(b.num[1]) <= size /\ (size - b.num[1]) % 2 = 0 THEN "ok" ELSE "expval-not-a-mean-of-eigenvalues")
         ELSE IF r.eigs = <<0, 1>> THEN (IF b.num[1] >= 0 /\ b.num[1] <= size THEN "ok" ELSE "expval-not-a-mean-of-eigenvalues")
         ELSE "ok"

Verdict(r) ==
  LET l == Expand(r.spec)  bs == Bins(l) IN
  IF ~ValidSpec(r.spec) \/ l = <<>> THEN "not-a-finite-shot-specification"
  ELSE IF r.nb # Len(l) \/ Len(r.bins) # Len(l) THEN "number-of-bins"
  ELSE IF (r.wrapped = 1) # Partitioned(l) THEN "shot-vector-wrapping"
  ELSE LET vs == [i \in 1..Len(l) |-> BinVerdict(r, r.bins[i], bs[i][2] - bs[i][1])]
           bad == {i \in 1..Len(l) : vs[i] # "ok"} IN
       IF bad = {} THEN "ok" ELSE vs[CHOOSE i \in bad : \A j \in bad : i <= j]

TInit == tid \in 1..NTRACES /\ done = FALSE
TNext == /\ ~done /\ done' = TRUE /\ UNCHANGED tid
         /\ PrintT(<<"V", tid, Verdict(Traces[tid])>>)
=============================================================================
