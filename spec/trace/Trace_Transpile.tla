-------------------------- MODULE Trace_Transpile ---------------------------
(***************************************************************************)
(* C19: structural half of the relational action                           *)
(*    Transpile(in, coupling graph, out | error, perm).                    *)
(* One trace = one recorded call:                                          *)
(*   n       number of nodes of the coupling graph (wire positions 1..n)   *)
(*   edges   << <<u, v>>, ... >>  the coupling map                         *)
(*   inar    number of wires of every operation of the input circuit       *)
(*   err     "" or the class name of the exception raised                  *)
(*   outw    wire positions of every operation of the output circuit       *)
(*   min / mout  measured wire positions of the input / output tape,       *)
(*           flattened in measurement order                                *)
(*   perm    the wire permutation read off the remapped measurements       *)
(*           (wire i of the input ends on wire perm[i] of the output);     *)
(*           the same perm is handed to CircuitEq, which decides           *)
(*           U(out) = P_perm U(in) exactly                                 *)
(* The documentation: the coupling map must cover the wires; gates on more *)
(* than two wires are not supported (NotImplementedError); otherwise the   *)
(* call returns and every multi-qubit gate of the result acts on an edge.  *)
(***************************************************************************)
EXTENDS Integers, Sequences, FiniteSets, TLC, Json, IOUtils
CONSTANT NTRACES
Traces == JsonDeserialize(IOEnv.TRACE_FILE)
VARIABLES tid, done
Adj(t, u, v) == \E i \in 1..Len(t.edges) : t.edges[i] = <<u, v>> \/ t.edges[i] = <<v, u>>
Reach(t) == LET B[r \in 0..t.n] == IF r = 0 THEN {1} ELSE B[r-1] \cup {v \in 1..t.n : \E u \in B[r-1] : Adj(t, u, v)} IN B[t.n]
Connected(t) == Reach(t) = 1..t.n
Wide(t) == \E i \in 1..Len(t.inar) : t.inar[i] > 2
OnEdge(t, w) == Len(w) <= 1 \/ (Len(w) = 2 /\ Adj(t, w[1], w[2]))
IsPerm(t) == /\ Len(t.perm) = t.n /\ \A i \in 1..t.n : t.perm[i] \in 1..t.n
             /\ \A i, j \in 1..t.n : t.perm[i] = t.perm[j] => i = j
Verdict(t) ==
  IF ~Connected(t) THEN "bad-case:graph-not-connected"
  ELSE IF Wide(t) THEN (IF t.err = "NotImplementedError" THEN "ok" ELSE "wide-gate-not-rejected")
  ELSE IF t.err # "" THEN "raises-on-valid-input"
  ELSE IF \E i \in 1..Len(t.outw) : ~OnEdge(t, t.outw[i]) THEN "gate-off-coupling-map"
  ELSE IF ~IsPerm(t) THEN "measurement-remap-not-a-permutation"
  ELSE IF Len(t.min) # Len(t.mout) \/ \E i \in 1..Len(t.min) : t.mout[i] # t.perm[t.min[i]] THEN "measurement-not-remapped-by-perm"
  ELSE "ok"
Init == tid \in 1..NTRACES /\ done = FALSE
Next == ~done /\ done' = TRUE /\ UNCHANGED tid /\ PrintT(<<"V", tid, Verdict(Traces[tid])>>)
=============================================================================
