---------------------------- MODULE Trace_Tracker ----------------------------
(***************************************************************************)
(* Trace validation for C73.  A trace is what happened to one real device  *)
(* and its qp.Tracker: context-manager operations performed by the driver  *)
(* and every call of a device entry point (execute, compute_derivatives,   *)
(* execute_and_compute_derivatives, compute_jvp, ...), recorded by a       *)
(* wrapper around the entry points that describes the circuits it is given *)
(* (shots, commuting measurement groups, broadcast size, gates: the        *)
(* independent count).  After every step the driver snapshots              *)
(* tracker.totals / history / latest.  The spec state evolves with the     *)
(* independent record and must equal the snapshot:                         *)
(*   totals-differ:<key>, history-differs:<key> (order included),          *)
(*   latest-inconsistent-with-history.                                     *)
(* Which update was the latest one, and the active flag, are mechanism:    *)
(* reported as drift.  A step with chk = FALSE (an entry point called from *)
(* inside another one) is applied but compared only at the next step.      *)
(***************************************************************************)
EXTENDS Tracker, Json, IOUtils
CONSTANT NTRACES
Traces == JsonDeserialize(IOEnv.TRACE_FILE)
VARIABLES tid, l, bad, drift
Tr == Traces[tid]
Ev == Tr.steps[l]
TInit == /\ tid \in 1..NTRACES /\ l = 1 /\ bad = "" /\ drift = FALSE
         /\ persistent = Traces[tid].persistent /\ depth = 0 /\ active = FALSE
         /\ tot = Zero /\ hist = EmptyH /\ latest = NoLatest /\ ledger = <<>> /\ steps = <<>>
Apply == IF Ev.a = "call" THEN Call(Ev.kind, Ev.batch) ELSE DoCtl(Ev.a)
FirstBad(P(_), ks) == LET I == {i \in 1..Len(ks) : P(ks[i])} IN IF I = {} THEN "" ELSE ks[CHOOSE i \in I : \A j \in I : i <= j]
Judge(t, h, ob) ==
  LET kt == FirstBad(LAMBDA k : ob.tot[k] # t[k], NumKeySeq)
      kh == FirstBad(LAMBDA k : ob.hist[k] # h[k], AllKeySeq) IN
  IF kt # "" THEN "totals-differ:" \o kt
  ELSE IF kh # "" THEN "history-differs:" \o kh
  ELSE IF ~LatestOK(ob.latest, ob.hist) THEN "latest-inconsistent-with-history"
  ELSE ""
TStep == /\ l <= Len(Tr.steps)
         /\ Apply
         /\ bad' = IF bad # "" \/ ~Ev.chk THEN bad ELSE Judge(tot', hist', Ev.obs)
         /\ drift' = (drift \/ Ev.obs.active # active' \/ \E k \in AllKeys : Ev.obs.latest[k] # latest'[k])
         /\ l' = l + 1 /\ UNCHANGED tid
TDone == /\ l = Len(Tr.steps) + 1
         /\ PrintT(<<"V", tid, IF bad = "" THEN "ok" ELSE bad, IF drift THEN "drift" ELSE "same">>)
         /\ l' = l + 1 /\ UNCHANGED <<vars, tid, bad, drift>>
TNext == TStep \/ TDone
=============================================================================
