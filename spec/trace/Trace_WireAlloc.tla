--------------------------- MODULE Trace_WireAlloc ---------------------------
(***************************************************************************)
(* Trace validation for C22.  Each trace is a history replayed through the *)
(* real resolve_dynamic_wires: the events carry the IMPLEMENTATION's       *)
(* concrete wire and whether it emitted a reset.  The ghost state of       *)
(* WireAlloc evolves with the implementation's own choices, and conjuncts  *)
(* (A) NoAlias, (B) NoStatic, (C) zero requests receive clean wires are    *)
(* evaluated at every step.  Whether the implementation picks the same     *)
(* wire as the LIFO model is reported separately as drift (mechanism).     *)
(***************************************************************************)
EXTENDS WireAlloc, Json, IOUtils
CONSTANT NTRACES
Traces == JsonDeserialize(IOEnv.TRACE_FILE)
VARIABLES tid, l, drift
tvars == <<vars, tid, l, drift>>
Tr == Traces[tid]
TInit == /\ tid \in 1..NTRACES /\ l = 1 /\ drift = FALSE
         /\ InitWith([z |-> Traces[tid].cfg.z, a |-> Traces[tid].cfg.a, mi |-> Traces[tid].cfg.mi,
                      ar |-> Traces[tid].cfg.ar, static |-> {Traces[tid].cfg.static[i] : i \in 1..Len(Traces[tid].cfg.static)}])
Ev == Tr.hist[l]
\* registers after the implementation took wire w: remove w wherever the model has it (or from the pool)
Without(s, w) == SelectSeq(s, LAMBDA x : x # w)
TAlloc ==
  /\ Ev.e = "alloc" /\ Ev.w >= 0
  /\ LET c == ModelChoice(Ev.st, Ev.r)
         same == c.ok /\ c.w = Ev.w /\ c.reset = Ev.reset
         \* where does the wire return to?  the implementation's loan record is not observable; the ghost needs only `rest`
         ret == IF same THEN c.ret ELSE IF Ev.r /\ Ev.st = "zero" THEN "zero" ELSE "any"
         zr == IF same THEN c.zr ELSE Without(zeroedReg, Ev.w)
         ar == IF same THEN c.ar ELSE Without(anyReg, Ev.w)
         mi == IF same THEN c.mi ELSE IF minInt >= 0 /\ Ev.w >= minInt THEN Ev.w + 1 ELSE minInt
     IN /\ Grant(Ev.d, Ev.st, Ev.r, Ev.w, Ev.reset, ret, zr, ar, mi)
        /\ drift' = (drift \/ ~same)
  /\ hist' = Append(hist, Ev) /\ l' = l + 1 /\ UNCHANGED tid
TAllocFail ==
  /\ Ev.e = "alloc" /\ Ev.w < 0          \* implementation raised AllocationError: allowed by the property; note drift
  /\ drift' = (drift \/ ModelChoice(Ev.st, Ev.r).ok)
  /\ l' = Len(Tr.hist) + 1 /\ UNCHANGED <<vars, tid>>
TDealloc ==
  /\ Ev.e = "dealloc" /\ Ev.d \in DOMAIN wireMap
  /\ Release(Ev.d) /\ hist' = Append(hist, Ev) /\ l' = l + 1 /\ UNCHANGED <<tid, drift>>
TDone == /\ l = Len(Tr.hist) + 1
         /\ PrintT(<<"V", tid, IF bad = "" THEN "ok" ELSE bad, IF drift THEN "drift" ELSE "same">>)
         /\ l' = l + 1 /\ UNCHANGED <<vars, tid, drift>>
TNext == (l <= Len(Tr.hist) /\ (TAlloc \/ TAllocFail \/ TDealloc)) \/ TDone
=============================================================================
