----------------------------- MODULE Trace_Cut ------------------------------
(***************************************************************************)
(* C24 trace validation of the fragment structure produced by the circuit  *)
(* cutting workflow (tape_to_graph, replace_wire_cut_nodes, fragment_graph,*)
(* graph_to_tape, wire remapping, expand_fragment_tape) on one circuit.    *)
(*                                                                         *)
(* A recorded case:                                                        *)
(*  [dev   : <<device wire ids>>  (other labels get ids outside this set), *)
(*   frags : << [ops  : <<[g, w, id]>>  fragment tape; g = "PREP" / "MEAS" *)
(*                      for PrepareNode / MeasureNode (id = node id),      *)
(*               prep : <<ids>>, meas : <<ids>>, mw : <<wires of meas>>,   *)
(*               obs  : <<<<wire, letter>>>>  observable of the fragment,  *)
(*               tapes: << [ops : <<[g, w]>>, ms : << word >>] >>] >>,     *)
(*   edges : << [m, p] >>]   cut edges of the communication graph          *)
(* Pauli words are sequences of <<wire, letter>> (letter 1..3) sorted by   *)
(* wire.  Property-level conjuncts (first failing one is the verdict):     *)
(*  fits        every operation of every fragment / configuration acts on  *)
(*              device wires only;                                         *)
(*  cut-once    every cut edge has its measure node in exactly one         *)
(*              fragment and its prepare node in exactly one other one;    *)
(*              every node belongs to exactly one edge; in its fragment a  *)
(*              prepare node is the first and a measure node the last      *)
(*              operation on its wire;                                     *)
(*  count       a fragment with p prepare and m measure nodes is expanded  *)
(*              into 4^p * 3^m configurations holding 4^(p+m) expectations;*)
(*  prep        every configuration is the fragment with each prepare node *)
(*              replaced by one of |0>,|1>,|+>,|+i> (I / X / H / H,S) and  *)
(*              the measure nodes removed; every one of the 4^p settings   *)
(*              occurs in exactly 3^m configurations;                      *)
(*  meas        under each preparation setting every Pauli word in         *)
(*              {I,X,Y,Z}^m on the measured wires is measured exactly      *)
(*              once, always together with the fragment's own observable.  *)
(***************************************************************************)
EXTENDS Integers, Sequences, FiniteSets, TLC, Json, IOUtils
CONSTANT NCASES
Cases == JsonDeserialize(IOEnv.TRACE_FILE)
VARIABLES tid, fi, bad
Cs == Cases[tid]
Init == tid \in 1..NCASES /\ fi = 1 /\ bad = ""

SeqSet(s) == {s[i] : i \in 1..Len(s)}
Pow(b, e) == LET P[i \in 0..e] == IF i = 0 THEN 1 ELSE b * P[i-1] IN P[e]
G(g, w) == [g |-> g, w |-> w]
PrepSeq(k, w) == CASE k = 0 -> <<G("Identity", w)>> [] k = 1 -> <<G("PauliX", w)>>
                   [] k = 2 -> <<G("Hadamard", w)>> [] OTHER -> <<G("Hadamard", w), G("S", w)>>
RECURSIVE Expand(_, _, _, _)
Expand(ops, i, j, s) ==
  IF i > Len(ops) THEN <<>>
  ELSE IF ops[i].g = "PREP" THEN PrepSeq(s[j + 1], ops[i].w) \o Expand(ops, i + 1, j + 1, s)
  ELSE IF ops[i].g = "MEAS" THEN Expand(ops, i + 1, j, s)
  ELSE <<G(ops[i].g, ops[i].w)>> \o Expand(ops, i + 1, j, s)
Strip(ops) == [i \in 1..Len(ops) |-> G(ops[i].g, ops[i].w)]

OnMW(word, mw) == [i \in 1..Len(mw) |-> LET hits == {t \in 1..Len(word) : word[t][1] = mw[i]}
                                          IN IF hits = {} THEN 0 ELSE word[CHOOSE t \in hits : TRUE][2]]
Rest(word, mw) == SelectSeq(word, LAMBDA x : \A i \in 1..Len(mw) : mw[i] # x[1])

Fits(f) == LET dev == SeqSet(Cs.dev) IN
   /\ \A i \in 1..Len(f.ops) : SeqSet(f.ops[i].w) \subseteq dev
   /\ \A t \in 1..Len(f.tapes) :
        /\ \A i \in 1..Len(f.tapes[t].ops) : SeqSet(f.tapes[t].ops[i].w) \subseteq dev
        /\ \A j \in 1..Len(f.tapes[t].ms) : \A k \in 1..Len(f.tapes[t].ms[j]) : f.tapes[t].ms[j][k][1] \in dev

NodesOK(f) ==
   LET pidx == SelectSeq([i \in 1..Len(f.ops) |-> i], LAMBDA i : f.ops[i].g = "PREP")
       midx == SelectSeq([i \in 1..Len(f.ops) |-> i], LAMBDA i : f.ops[i].g = "MEAS")
   IN /\ [k \in 1..Len(pidx) |-> f.ops[pidx[k]].id] = f.prep
      /\ [k \in 1..Len(midx) |-> f.ops[midx[k]].id] = f.meas
      /\ [k \in 1..Len(midx) |-> f.ops[midx[k]].w[1]] = f.mw
      /\ Cardinality(SeqSet(f.prep)) = Len(f.prep) /\ Cardinality(SeqSet(f.meas)) = Len(f.meas)
      /\ \A k \in 1..Len(pidx) : \A i \in 1..(pidx[k] - 1) : f.ops[pidx[k]].w[1] \notin SeqSet(f.ops[i].w)
      /\ \A k \in 1..Len(midx) : \A i \in (midx[k] + 1)..Len(f.ops) : f.ops[midx[k]].w[1] \notin SeqSet(f.ops[i].w)
      /\ \A k \in 1..Len(f.obs) : f.obs[k][1] \notin SeqSet(f.mw)

CountOK(f) == LET p == Len(f.prep)  m == Len(f.meas)
                  S[t \in 0..Len(f.tapes)] == IF t = 0 THEN 0 ELSE S[t-1] + Len(f.tapes[t].ms)
              IN Len(f.tapes) = Pow(4, p) * Pow(3, m) /\ S[Len(f.tapes)] = Pow(4, p + m)

CheckFrag(f) ==
  IF ~Fits(f) THEN "fits"
  ELSE IF ~NodesOK(f) THEN "cut-once"
  ELSE IF ~CountOK(f) THEN "count"
  ELSE
    LET p == Len(f.prep)  m == Len(f.meas)
        Settings == [1..p -> 0..3]
        exp == TLCEval([s \in Settings |-> Expand(f.ops, 1, 0, s)])
        sOf == TLCEval([t \in 1..Len(f.tapes) |->
                  LET ok == {s \in Settings : exp[s] = Strip(f.tapes[t].ops)} IN IF ok = {} THEN <<-1>> ELSE CHOOSE s \in ok : TRUE])
    IN IF \E t \in 1..Len(f.tapes) : sOf[t] = <<-1>> THEN "prep"
       ELSE IF \E s \in Settings : Cardinality({t \in 1..Len(f.tapes) : sOf[t] = s}) # Pow(3, m) THEN "prep"
       ELSE IF \E t \in 1..Len(f.tapes) : \E j \in 1..Len(f.tapes[t].ms) : Rest(f.tapes[t].ms[j], f.mw) # f.obs THEN "meas"
       ELSE IF \E s \in Settings : \E wd \in [1..m -> 0..3] :
                 Cardinality({tj \in UNION {{<<t, j>> : j \in 1..Len(f.tapes[t].ms)} : t \in {u \in 1..Len(f.tapes) : sOf[u] = s}} :
                                 OnMW(f.tapes[tj[1]].ms[tj[2]], f.mw) = wd}) # 1 THEN "meas"
       ELSE ""

EdgesOK ==
  LET F == Cs.frags
      holdsM(i, id) == id \in SeqSet(F[i].meas)
      holdsP(i, id) == id \in SeqSet(F[i].prep)
  IN /\ \A e \in 1..Len(Cs.edges) :
          /\ Cardinality({i \in 1..Len(F) : holdsM(i, Cs.edges[e].m)}) = 1
          /\ Cardinality({i \in 1..Len(F) : holdsP(i, Cs.edges[e].p)}) = 1
          /\ \A i \in 1..Len(F) : ~(holdsM(i, Cs.edges[e].m) /\ holdsP(i, Cs.edges[e].p))
     /\ \A i \in 1..Len(F) :
          /\ \A k \in 1..Len(F[i].meas) : Cardinality({e \in 1..Len(Cs.edges) : Cs.edges[e].m = F[i].meas[k]}) = 1
          /\ \A k \in 1..Len(F[i].prep) : Cardinality({e \in 1..Len(Cs.edges) : Cs.edges[e].p = F[i].prep[k]}) = 1
     /\ Len(F) >= 1

Step == /\ fi <= Len(Cs.frags)
        /\ bad' = IF bad = "" THEN CheckFrag(Cs.frags[fi]) ELSE bad
        /\ fi' = fi + 1 /\ UNCHANGED tid
Done == /\ fi = Len(Cs.frags) + 1
        /\ PrintT(<<"V", tid, IF bad # "" THEN bad ELSE IF ~EdgesOK THEN "cut-once" ELSE "ok">>)
        /\ fi' = fi + 1 /\ UNCHANGED <<tid, bad>>
Next == Step \/ Done
=============================================================================
