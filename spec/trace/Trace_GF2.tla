------------------------------ MODULE Trace_GF2 ------------------------------
(***************************************************************************)
(* Trace validation for C50.  One trace = the calls the driver made on one *)
(* binary matrix tA (tm x tn): every event carries the IMPLEMENTATION's    *)
(* output, and TLC validates it BY SUBSTITUTION against the brute-force    *)
(* definitions of GF2.tla (row space / column space / kernel enumerated    *)
(* over all 2^k vectors) - never against the elimination:                  *)
(*   rref   out is a bit matrix of the input shape, IsRREF(out), and       *)
(*          RowSpace(out) = RowSpace(tA)                                   *)
(*   rank   2^val = |RowSpace(tA)|                                         *)
(*   solve  (square tA) a returned x has length tn and tA*x = b; raising   *)
(*          is accepted only when tA is singular                           *)
(*   indep  (documented domain: the columns of tA are independent or span) *)
(*          val <=> b \notin ColSpace(tA); outside the domain: "ood"       *)
(*   basis  the selected columns span ColSpace(tA), are 2-log(|ColSpace|)  *)
(*          many (hence independent), and selected ++ others is a          *)
(*          rearrangement of the columns of tA; greedy order is mechanism  *)
(*   kernel (input inp, an RREF without zero rows) every returned row is   *)
(*          annihilated by inp, the rows span Kernel(inp) and there are    *)
(*          2-log(|Kernel|) of them                                        *)
(*   symgen (tn = 2q, the rows of tA are the terms (x|z) of a Hamiltonian)  *)
(*          every returned word commutes with every term (symplectic form), *)
(*          the words generate the whole symmetry group (brute force over  *)
(*          all 2^tn words) and there are 2-log(|group|) of them           *)
(*   rowsel (RowCol row elimination on the regular matrix inp, unit vector *)
(*          e_val, node set out2) the returned rows are                    *)
(*          (supp(c) + {val}) restricted to the nodes for a selection c of *)
(*          rows of inp whose sum is e_val (brute force over 2^im);        *)
(*          singular inp: not judged, counted                              *)
(* Bases/selected columns are passed as ROWS (transposed) so that empty    *)
(* shapes stay representable.  Output: <<"F", tid, event, clause>> for     *)
(* every failing event and <<"V", tid, #failing, #drift, #ood, #ood-differs, #rowsel-not-judged>> per trace. *)
(***************************************************************************)
EXTENDS GF2, Json, IOUtils
CONSTANT NTRACES
Traces == JsonDeserialize(IOEnv.TRACE_FILE)
VARIABLES tid, l, rs, cs, vd
tvars == <<tid, l, rs, cs, vd>>
Tr == Traces[tid]
tm == Tr.m
tn == Tr.n
tA == Tr.A
Pow2(S) == \E k \in 0..30 : 2^k = Cardinality(S)

CheckRref(ev) ==
  IF ev.exc # "" THEN "rref:exception"
  ELSE IF ~(ev.om = tm /\ ev.on = tn /\ IsBitMat(ev.out, tm, tn)) THEN "rref:shape"
  ELSE IF ~IsRREF(ev.out, tm, tn) THEN "rref:not-reduced-echelon"
  ELSE IF RowSpace(ev.out, tm, tn) # rs THEN "rref:row-space-changed"
  ELSE ""

CheckRank(ev) ==
  IF ev.exc # "" THEN "rank:exception"
  ELSE IF ~(ev.val \in 0..30 /\ 2^ev.val = Cardinality(rs)) THEN "rank:wrong"
  ELSE ""

Regular == tm = tn /\ Cardinality(rs) = 2^tn
CheckSolve(ev) ==
  IF tm # tn THEN "solve:driver-called-on-non-square"
  ELSE IF ev.exc # "" THEN (IF Regular THEN "solve:raised-on-regular-matrix" ELSE "")
  ELSE IF ~(ev.om = 1 /\ ev.on = tn /\ IsBitMat(ev.out, 1, tn)) THEN "solve:shape"
  ELSE IF MulVec(tA, ev.out[1], tm, tn) # ev.b THEN "solve:returned-vector-does-not-solve"
  ELSE ""
SolveDrift(ev) == tm = tn /\ ~Regular /\ (ev.exc = "" \/ ev.exc # "LinAlgError")

MinMN == IF tm < tn THEN tm ELSE tn
IndepDomain == Cardinality(cs) = 2^MinMN
CheckIndep(ev) ==
  IF ~IndepDomain THEN ""
  ELSE IF ev.exc # "" THEN "indep:exception"
  ELSE IF (ev.val = 1) # (ev.b \notin cs) THEN "indep:wrong"
  ELSE ""

CountIn(v, R, k) == Cardinality({i \in 1..k : R[i] = v})
GreedySel == {j \in 1..tn : Col(tA, j, tm) \notin ColSpace([i \in 1..tm |-> SubSeq(tA[i], 1, j - 1)], tm, j - 1)}
GreedyBasis == LET s == SetToSortSeq(GreedySel, LAMBDA a, b : a < b) IN [i \in 1..Len(s) |-> Col(tA, s[i], tm)]
CheckBasis(ev) ==
  LET k == ev.om  o == ev.o2m  At == Transpose(tA, tm, tn) IN
  IF ev.exc # "" THEN "basis:exception"
  ELSE IF ~(IsBitMat(ev.out, k, tm) /\ IsBitMat(ev.out2, o, tm) /\ k + o = tn) THEN "basis:shape"
  ELSE IF RowSpace(ev.out, k, tm) # cs THEN "basis:does-not-span-column-space"
  ELSE IF Cardinality(cs) # 2^k THEN "basis:not-independent"
  ELSE IF \E v \in {At[j] : j \in 1..tn} \cup {ev.out[i] : i \in 1..k} \cup {ev.out2[i] : i \in 1..o} :
            CountIn(v, At, tn) # CountIn(v, ev.out, k) + CountIn(v, ev.out2, o) THEN "basis:not-a-partition-of-the-columns"
  ELSE ""
BasisDrift(ev) == ev.exc = "" /\ (ev.om # Cardinality(GreedySel) \/ \E i \in 1..ev.om : ev.out[i] # GreedyBasis[i])

CheckKernel(ev) ==
  LET k == ev.om  ker == Kernel(ev.inp, ev.im, tn) IN
  IF ev.exc # "" THEN "kernel:exception"
  ELSE IF ~(ev.on = tn /\ IsBitMat(ev.out, k, tn) /\ IsBitMat(ev.inp, ev.im, tn)) THEN "kernel:shape"
  ELSE IF \E i \in 1..k : MulVec(ev.inp, ev.out[i], ev.im, tn) # Zero(ev.im) THEN "kernel:vector-not-annihilated"
  ELSE IF RowSpace(ev.out, k, tn) # ker THEN "kernel:does-not-span-kernel"
  ELSE IF Cardinality(ker) # 2^k THEN "kernel:not-independent"
  ELSE ""

\* symmetry generators of the Hamiltonian whose terms are the rows (x|z) of tA (tn = 2q), returned as rows (x|z)
CheckSymgen(ev) ==
  LET k == ev.om  q == tn \div 2  G == SymGroup(tA, tm, q) IN
  IF ~(tn > 0 /\ tn % 2 = 0) THEN "symgen:driver-called-on-odd-width"
  ELSE IF ev.exc # "" THEN "symgen:exception"
  ELSE IF ~(ev.on = tn /\ IsBitMat(ev.out, k, tn)) THEN "symgen:shape"
  ELSE IF \E i \in 1..k : \E r \in 1..tm : Symp(tA[r], ev.out[i], q) # 0 THEN "symgen:generator-does-not-commute-with-a-term"
  ELSE IF RowSpace(ev.out, k, tn) # G THEN "symgen:does-not-generate-the-symmetry-group"
  ELSE IF Cardinality(G) # 2^k THEN "symgen:not-independent"
  ELSE ""

\* RowCol row selection on the regular matrix inp (im x im) for the unit vector e_val among the nodes out2[1] (indicator):
\* the returned set out[1] (indicator) must be (supp(c) \cup {val}) \cap nodes for a selection c of rows whose sum is e_val
RowselWellFormed(ev) == /\ ev.im \in 1..30 /\ IsBitMat(ev.inp, ev.im, ev.im) /\ ev.val \in 1..ev.im
                        /\ ev.o2m = 1 /\ IsBitMat(ev.out2, 1, ev.im)
RowselJudged(ev) == RowselWellFormed(ev) /\ Cardinality(RowSpace(ev.inp, ev.im, ev.im)) = 2^ev.im
CheckRowsel(ev) ==
  LET k == ev.im  i == ev.val IN
  IF ~RowselWellFormed(ev) THEN "rowsel:driver-malformed-event"
  ELSE IF ~RowselJudged(ev) THEN ""                                      \* singular matrix: outside the domain, counted
  ELSE IF ev.exc # "" THEN "rowsel:raised-on-regular-matrix"
  ELSE IF ~(ev.om = 1 /\ ev.on = k /\ IsBitMat(ev.out, 1, k)) THEN "rowsel:shape"
  ELSE IF ~\E c \in RowSelections(ev.inp, i, k) :
             \A j \in 1..k : (ev.out[1][j] = 1) <=> ((c[j] = 1 \/ j = i) /\ ev.out2[1][j] = 1)
       THEN "rowsel:selected-rows-do-not-sum-to-the-unit-vector"
  ELSE ""

Check(ev) == CASE ev.op = "rref" -> CheckRref(ev)
               [] ev.op = "rank" -> CheckRank(ev)
               [] ev.op = "solve" -> CheckSolve(ev)
               [] ev.op = "indep" -> CheckIndep(ev)
               [] ev.op = "basis" -> CheckBasis(ev)
               [] ev.op = "kernel" -> CheckKernel(ev)
               [] ev.op = "symgen" -> CheckSymgen(ev)
               [] ev.op = "rowsel" -> CheckRowsel(ev)
               [] OTHER -> "unknown-op"
IsDrift(ev) == (ev.op = "solve" /\ SolveDrift(ev)) \/ (ev.op = "basis" /\ BasisDrift(ev))
IsOod(ev) == ev.op = "indep" /\ ~IndepDomain
\* evidence only: outside the documented domain the answer differs from the reference
OodDiffers(ev) == IsOod(ev) /\ (ev.exc # "" \/ (ev.val = 1) # (ev.b \notin cs))

\* the brute-force spaces are computed in a step of their own (initial states are generated by a single thread)
TInit == /\ tid \in 1..NTRACES /\ l = 0 /\ vd = <<>> /\ rs = {} /\ cs = {}
TPrep == /\ l = 0 /\ l' = 1
         /\ rs' = RowSpace(tA, tm, tn)
         /\ cs' = ColSpace(tA, tm, tn)
         /\ UNCHANGED <<tid, vd>>
\* all events of the trace are decided in one step (every Check is evaluated once, into vd); the next step counts and prints
TAll == /\ l = 1 /\ l' = 2
        /\ vd' = [k \in 1..Len(Tr.events) |-> Check(Tr.events[k])]
        /\ UNCHANGED <<tid, rs, cs>>
TDone == /\ l = 2 /\ l' = 3
         /\ LET evs == Tr.events
                 failing == {k \in 1..Len(evs) : vd[k] # ""}
            IN /\ \A k \in failing : PrintT(<<"F", tid, k, vd[k]>>)
               /\ PrintT(<<"V", tid, Cardinality(failing),
                           Cardinality({k \in 1..Len(evs) : vd[k] = "" /\ IsDrift(evs[k])}),
                           Cardinality({k \in 1..Len(evs) : IsOod(evs[k])}),
                           Cardinality({k \in 1..Len(evs) : OodDiffers(evs[k])}),
                           Cardinality({k \in 1..Len(evs) : evs[k].op = "rowsel" /\ RowselWellFormed(evs[k]) /\ ~RowselJudged(evs[k])})>>)
         /\ UNCHANGED <<tid, rs, cs, vd>>
TNext == TPrep \/ TAll \/ TDone
\* the spaces the verdicts are decided against are what they claim to be
TypeOK == l = 1 => /\ Pow2(rs) /\ Pow2(cs) /\ Cardinality(rs) = Cardinality(cs)
                    /\ Zero(tn) \in rs /\ Zero(tm) \in cs
=============================================================================
