-------------------------- MODULE Trace_PipelineApply --------------------------
(***************************************************************************)
(* Trace validation for C23 (application).  Each case is one run of the    *)
(* real CompilePipeline on a batch, synthetic or real transforms alike:    *)
(*   fans   : per stage, the number of tapes each input tape of that stage *)
(*            is turned into WHEN THE TRANSFORM IS APPLIED BY HAND         *)
(*   nout   : size of the batch the pipeline returned                      *)
(*   slices : per stage, the <<lo, hi>> slices found in the pipeline's     *)
(*            post-processing stack (<<>> when not observable)             *)
(*   nres   : number of results returned by the post-processing function   *)
(*   nin    : batch size                                                   *)
(* Clauses: the by-hand fan-out structure is the pipeline's (level sizes   *)
(* chain up, the output batch is the last level, one result per input      *)
(* tape); the recorded slices are exactly the contiguous child ranges the  *)
(* reference semantics needs (SlicesOf) -- with these slices the unwinding *)
(* of PipelineApply yields <<R(t, pipe)>> (Routing, model-checked).        *)
(***************************************************************************)
EXTENDS PipelineOps, Json, IOUtils
CONSTANT NCASES
Cases == JsonDeserialize(IOEnv.TRACE_FILE)
VARIABLES cid, done
Pairs(sl) == [i \in 1..Len(sl) |-> [lo |-> sl[i][1], hi |-> sl[i][2]]]
Verdict(c) ==
  LET S == Len(c.fans) IN
  IF S > 0 /\ Len(c.fans[1]) # c.nin THEN "first-stage-does-not-see-the-batch"
  ELSE IF \E k \in 2..S : Len(c.fans[k]) # SumSeq(c.fans[k - 1]) THEN "level-sizes-do-not-chain"
  ELSE IF c.nout # (IF S = 0 THEN c.nin ELSE SumSeq(c.fans[S])) THEN "output-batch-is-not-the-last-level"
  ELSE IF c.nres # c.nin THEN "not-one-result-per-input-tape"
  ELSE IF c.slices # <<>> /\ (Len(c.slices) # S \/ \E k \in 1..S : Pairs(c.slices[k]) # SlicesOf(c.fans[k])) THEN "slices-are-not-the-child-ranges"
  ELSE "ok"
TInit == cid \in 1..NCASES /\ done = FALSE
TNext == /\ ~done /\ done' = TRUE /\ cid' = cid
         /\ \E v \in {Verdict(Cases[cid])} : PrintT(<<"V", cid, v>>)
=============================================================================
