--------------------------- MODULE Trace_Optimizers ---------------------------
(***************************************************************************)
(* Trace validation for C61.  One trace = one optimizer object driven      *)
(* through a history of public calls on the real code; per call the        *)
(* harness records what the IMPLEMENTATION returned / holds afterwards:    *)
(* the new arguments, the returned cost, the accumulators (accumulation /  *)
(* fm / sm / t), as exact rationals <<n, d>> (a float64 is a rational; the *)
(* harness vouches for the conversion), or the exception class.            *)
(* The spec state evolves by the documented rules (Optimizers!Do) from the *)
(* recorded INPUTS only; every recorded value whose expectation is         *)
(* rational is compared exactly, call by call:                             *)
(*   acc / fm / sm / t   accumulator recurrences                           *)
(*   frozen              a non-trainable argument changed                  *)
(*   x                   new parameters (when no irrational square root    *)
(*                       has entered them; otherwise counted as bridged,   *)
(*                       the harness compares floats against `exp`)        *)
(*   cost...             step_and_cost must return f at the PRE-step       *)
(*                       parameters (does not stop the trace)              *)
(* A trace stops without blame where the history leaves the exact fragment *)
(* (stop = inadmissible | undefined | large).                              *)
(* Verdict: <<"V", tid, clause|"ok", step, calls validated, values         *)
(*     bridged, stop>> and <<"C", tid, costclause|"ok", step>> (two short  *)
(*     lines: TLC wraps long tuples).                                      *)
(***************************************************************************)
EXTENDS Optimizers, Json, IOUtils
CONSTANT NTRACES
\* compact file: [cfgs |-> <<configuration, ...>>, objs |-> <<objective, ...>>,
\*                tr |-> <<[c |-> index into cfgs, k |-> <<<<call kind, recompute_tensor, index into objs>>, ...>>,
\*                          o |-> <<<<x, cost, acc, sm, t, exception class>>, ...>>, e |-> emit the expectations>>, ...>>]
Data == JsonDeserialize(IOEnv.TRACE_FILE)
VARIABLES tid, l, st, verdict, vstep, cverdict, cstep, nval, nbr, stop, exp
tvars == <<tid, l, st, verdict, vstep, cverdict, cstep, nval, nbr, stop, exp>>
Trc == Data.tr[tid]
C == Data.cfgs[Trc.c]
NCalls == Len(Trc.k)
CallAt(j) == [k |-> Trc.k[j][1], rc |-> Trc.k[j][2], o |-> Data.objs[Trc.k[j][3]], ks |-> <<>>]
ObsAt(j) == [x |-> Trc.o[j][1], cost |-> Trc.o[j][2], acc |-> Trc.o[j][3], sm |-> Trc.o[j][4], t |-> Trc.o[j][5], exc |-> Trc.o[j][6]]
ExpOf(r) == <<XOut(r.st.x), AlgOut(r.cost), r.st.acc, r.st.sm, r.st.t, r.shc>>

TInit == /\ tid \in 1..NTRACES /\ l = 1 /\ st = Init0(Data.cfgs[Data.tr[tid].c]) /\ verdict = "ok" /\ vstep = 0
         /\ cverdict = "ok" /\ cstep = 0 /\ nval = 0 /\ nbr = 0 /\ stop = "" /\ exp = <<>>

IsObsRat(q) == Len(q) = 2 /\ q[2] > 0
Idx == {<<i, e>> : i \in 1..NArgs(C), e \in 1..C.D}
TrIdx == {ie \in Idx : C.train[ie[1]]}
AccKinds == {"momentum", "nesterov", "adagrad", "rmsprop"}

\* a float64 is converted back to the rational it stands for only below this denominator (see the harness)
Cmp(q) == q[2] <= 1048576 /\ Abs(q[1]) <= 1073741823
Agree(o, q) == ~Cmp(q) \/ o = q
XAgree(o, a) == ~AIsRat(a) \/ Agree(o, a.r)
\* first failing clause of the values recorded after a gradient call (r = Do(...), ob = recorded)
Clause(r, ob) ==
  IF ob.exc # "" THEN "raised"
  ELSE IF \E ie \in Idx : ~IsObsRat(ob.x[ie[1]][ie[2]]) THEN "not-a-number"
  ELSE IF C.kind \in AccKinds /\ \E ie \in TrIdx : ~Agree(ob.acc[ie[1]][ie[2]], r.st.acc[ie[1]][ie[2]]) THEN "acc"
  ELSE IF C.kind = "adam" /\ ob.t # r.st.t THEN "t"
  ELSE IF C.kind = "adam" /\ \E ie \in TrIdx : ~Agree(ob.acc[ie[1]][ie[2]], r.st.acc[ie[1]][ie[2]]) THEN "fm"
  ELSE IF C.kind = "adam" /\ \E ie \in TrIdx : ~Agree(ob.sm[ie[1]][ie[2]], r.st.sm[ie[1]][ie[2]]) THEN "sm"
  ELSE IF \E ie \in Idx \ TrIdx : ~XAgree(ob.x[ie[1]][ie[2]], r.st.x[ie[1]][ie[2]]) THEN "frozen"
  ELSE IF \E ie \in TrIdx : ~XAgree(ob.x[ie[1]][ie[2]], r.st.x[ie[1]][ie[2]]) THEN "x"
  ELSE "ok"
CostClause(r, ob, call) ==
  IF call.k \notin {"cost", "cost_gf"} \/ ob.exc # "" \/ XAgree(ob.cost, r.cost) THEN "ok"
  ELSE IF C.kind = "nesterov" /\ ob.cost = r.shc THEN "cost-at-shifted-point"
  ELSE "cost"
Exact(a) == AIsRat(a) /\ Cmp(a.r)
Bridged(r, call) == Cardinality({ie \in TrIdx : ~Exact(r.st.x[ie[1]][ie[2]])})
                    + (IF call.k \in {"cost", "cost_gf"} /\ ~Exact(r.cost) THEN 1 ELSE 0)

Halt(why) == /\ stop' = why /\ l' = NCalls + 1
             /\ UNCHANGED <<tid, st, verdict, vstep, cverdict, cstep, nval, nbr, exp>>
TStep ==
  /\ l <= NCalls
  /\ LET call == CallAt(l)
         ob == ObsAt(l)
     IN IF ~Applicable(C, call) THEN Halt("bad-input")
        ELSE IF ~Small(C, st) THEN Halt("large")
        ELSE \E r \in {Do(C, st, call)} :
          IF r.ok # "ok" THEN Halt(r.ok)
          ELSE IF call.k = "reset"
          THEN /\ st' = r.st /\ l' = l + 1 /\ nval' = nval + 1
               /\ exp' = Append(exp, ExpOf(r))
               /\ UNCHANGED <<tid, verdict, vstep, cverdict, cstep, nbr, stop>>
          ELSE \E cl \in {Clause(r, ob)} : \E cc \in {CostClause(r, ob, call)} :
               /\ st' = r.st
               /\ exp' = Append(exp, ExpOf(r))
               /\ IF cc # "ok" /\ cverdict = "ok" THEN cverdict' = cc /\ cstep' = l ELSE UNCHANGED <<cverdict, cstep>>
               /\ IF cl = "ok"
                  THEN /\ l' = l + 1 /\ nval' = nval + 1 /\ nbr' = nbr + Bridged(r, call)
                       /\ UNCHANGED <<verdict, vstep, stop>>
                  ELSE /\ verdict' = cl /\ vstep' = l /\ l' = NCalls + 1 /\ stop' = "failed"
                       /\ UNCHANGED <<nval, nbr>>
               /\ UNCHANGED tid
TDone == /\ l = NCalls + 1
         /\ PrintT(<<"V", tid, verdict, vstep, nval, nbr, stop>>)
         /\ PrintT(<<"C", tid, cverdict, cstep>>)
         /\ (IF Trc.e THEN PrintT(ToJson([tid |-> tid, exp |-> exp])) ELSE TRUE)
         /\ l' = l + 1
         /\ UNCHANGED <<tid, st, verdict, vstep, cverdict, cstep, nval, nbr, stop, exp>>
TNext == TStep \/ TDone
=============================================================================
