--------------------------- MODULE Trace_StatePrep ---------------------------
(***************************************************************************)
(* C57: state-preparation templates prepare their DOCUMENTED state from    *)
(* |0..0>, auxiliary wires end in |0>.                                     *)
(*                                                                         *)
(* The documented states are defined here, from the docstrings, over the   *)
(* exact ring Z[zeta_N][1/2] (no floats):                                  *)
(*   Sparse  sum_i c_i |b_i>              BasisState, BasisEmbedding,      *)
(*                                        Superposition, SumOfSlatersPrep, *)
(*                                        PartialUnaryStatePreparation     *)
(*   Dense   sum_x phi_x |x>  (padded     StatePrep, AmplitudeEmbedding,   *)
(*           with 0 beyond Len(phi))      Mottonen, Multiplexer, QROM-SP   *)
(*   Cosine  sqrt(2^(1-m)) sum_k cos(pi k/2^m - pi/2) |k>   CosineWindow   *)
(*   Mps     sum_s A1[s1] A2[s2] ... An[sn] |s1..sn>        MPSPrep        *)
(* each on the target wires tw of an n-wire register whose other wires     *)
(* (work / precision / enumeration / dynamically allocated wires, idle     *)
(* device wires) must be |0>.                                              *)
(*                                                                         *)
(* One recorded event per case: the template instance (kind + the data of  *)
(* its documented state; the coefficient vector phi is an exact ring state *)
(* that TLC generated itself, TapeEval.tla) and the gate records b that    *)
(* the template's decomposition emitted.  TLC builds the documented state  *)
(* T, applies b to |0..0> one gate per step (state variable V) and decides *)
(*   rel = "exact": V = T      rel = "phase": V = c T                      *)
(*   rel = "emit" : nothing (off-lattice decomposition: float bridge)      *)
(* and in every case prints T (the exact EXPECTED state for the numeric    *)
(* comparisons done by the harness: device primitive, bridged circuits).   *)
(* Verdicts are total: <<"V", tid, clause>>.                               *)
(***************************************************************************)
EXTENDS Gates, Json, IOUtils
CONSTANT NCASES
Cases == JsonDeserialize(IOEnv.TRACE_FILE)
VARIABLES tid, pos, V, T, C
vars == <<tid, pos, V, T, C>>
Case == Cases[tid]

\* ------------------------------------------------------------------ documented states
\* 0-based register index of the basis state with the given bits on the wires tw and 0 on every other wire
IdxOf(bits, tw, n) == LET S[t \in 0..Len(tw)] == IF t = 0 THEN 0 ELSE S[t-1] + bits[t] * 2^(n - tw[t]) IN S[Len(tw)]
\* value of the bits of r on the wires tw (first listed wire most significant)
SubIdxOf(r, tw, n) == LET S[t \in 0..Len(tw)] == IF t = 0 THEN 0 ELSE 2*S[t-1] + Bit(r, tw[t], n) IN S[Len(tw)]
\* all wires outside tw carry 0 in basis index r
OthersZero(r, tw, n) == \A w \in 1..n : (\E t \in 1..Len(tw) : tw[t] = w) \/ Bit(r, w, n) = 0
BitsOf(r, tw, n) == [t \in 1..Len(tw) |-> Bit(r, tw[t], n)]

Col(k, f(_), n) == [k |-> k, e |-> TLCEval([r \in 1..2^n |-> << f(r-1) >>])]

\* sum_i phi[pick_i] |bases_i>
SparseState(c) ==
  LET amp(r) == LET S[i \in 0..Len(c.bases)] == IF i = 0 THEN Zero ELSE
                       IF IdxOf(c.bases[i], c.tw, c.n) = r THEN Add(S[i-1], c.phi.e[c.pick[i] + 1][1]) ELSE S[i-1]
                 IN S[Len(c.bases)]
  IN Col(c.phi.k, amp, c.n)

\* sum_x phi_x |x> on tw (entries beyond Len(phi) are 0: padding), other wires |0>
DenseState(c) ==
  LET amp(r) == IF OthersZero(r, c.tw, c.n) /\ SubIdxOf(r, c.tw, c.n) < Len(c.phi.e)
                THEN c.phi.e[SubIdxOf(r, c.tw, c.n) + 1][1] ELSE Zero
  IN Col(c.phi.k, amp, c.n)

\* sqrt(2^(1-m)) cos(pi k/2^m - pi/2) = sqrt(2)^(1-m) sin(pi k/2^m);  2 sin(a 2pi/N) = S2(a) with a = k N/2^(m+1)
CosineState(c) ==
  LET m == Len(c.tw)
      pref == IF m % 2 = 1 THEN One ELSE Sqrt2
      amp(r) == IF OthersZero(r, c.tw, c.n) THEN Mul(pref, S2(SubIdxOf(r, c.tw, c.n) * (N \div 2^(m+1)))) ELSE Zero
      \* m odd: sqrt(2)^(1-m)/2 = 1/2^(1+(m-1)/2) ;  m even: sqrt(2)^(1-m)/2 = sqrt(2)/2^(1+m/2)
  IN Col(IF m % 2 = 1 THEN 1 + ((m - 1) \div 2) ELSE 1 + (m \div 2), amp, c.n)

\* matrix product state: tensors ts[j] = [sh |-> <<dl, 2, dr>>, k, e |-> row-major flat sequence]; the first tensor has dl = 1,
\* the last dr = 1 (the documentation's rank-2 boundary tensors (phys, bond) and (bond, phys))
TEl(t, a, s, b) == t.e[((a - 1) * 2 + s) * t.sh[3] + b]
MpsAmp(ts, bits) ==
  LET R[j \in 0..Len(ts)] == IF j = 0 THEN << One >>
        ELSE TLCEval([b \in 1..ts[j].sh[3] |->
               LET S[a \in 0..ts[j].sh[1]] == IF a = 0 THEN Zero
                     ELSE Add(S[a-1], Mul(R[j-1][a], TEl(ts[j], a, bits[j], b))) IN S[ts[j].sh[1]]])
  IN R[Len(ts)][1]
MpsK(ts) == LET S[j \in 0..Len(ts)] == IF j = 0 THEN 0 ELSE S[j-1] + ts[j].k IN S[Len(ts)]
MpsState(c) ==
  LET amp(r) == IF OthersZero(r, c.tw, c.n) THEN MpsAmp(c.tens, BitsOf(r, c.tw, c.n)) ELSE Zero
  IN Col(MpsK(c.tens), amp, c.n)

Documented(c) == CASE c.kind = "sparse" -> SparseState(c)
                   [] c.kind = "dense"  -> DenseState(c)
                   [] c.kind = "cosine" -> CosineState(c)
                   [] c.kind = "mps"    -> MpsState(c)

\* <t|t> = 1   (sum |e_r|^2 = 4^k)
AbsSq(x) == Bind(x, LAMBDA y : Bind(Conj(y), LAMBDA yc : Mul(yc, y)))
NormSq(t) == LET S[r \in 0..Len(t.e)] == IF r = 0 THEN Zero ELSE Bind2(S[r-1], AbsSq(t.e[r][1]), LAMBDA acc, z : Add(acc, z)) IN S[Len(t.e)]
Normalised(t) == NormSq(t) = Int2C(4^t.k)

\* ------------------------------------------------------------------ the event
\* The batch file is read once per case (MkTarget copies what the later steps need into the state variable C): every reference
\* to Cases costs time proportional to the size of the batch file.
Init == /\ tid \in 1..NCASES /\ pos = 0 /\ V = <<>> /\ T = <<>> /\ C = <<>>

MkTarget == /\ pos = 0
            /\ \E c \in {Case} :
                 /\ T' = Norm(Documented(c))
                 /\ V' = BasisCol(2^c.n, 0)
                 /\ C' = [n |-> c.n, tw |-> c.tw, rel |-> c.rel, b |-> c.b]
            /\ pos' = 1 /\ UNCHANGED tid

Step == /\ pos >= 1 /\ pos <= Len(C.b)
        /\ \E gt \in {C.b[pos]} : V' = ApplyGate(V, GateM(gt), gt.w, C.n)
        /\ pos' = pos + 1 /\ UNCHANGED <<tid, T, C>>

\* overflow guard (32-bit integers): every coefficient stays below CMat's Bound.  (Not CMat.InBound: its MaxAbs recursion
\* references S[j-1] twice and costs 2^H evaluations per ring element, 65536 at M = 5.)
CoefInBound(m) == \A i \in 1..Len(m.e) : \A j \in 1..Len(m.e[i]) : \A h \in IdxH : m.e[i][j][h] < Bound /\ m.e[i][j][h] > -Bound
AuxDirty(v, c) == \E r \in 1..Len(v.e) : ~OthersZero(r-1, c.tw, c.n) /\ ~IsZero(v.e[r][1])

Verdict(t, v, c) ==
  IF ~CoefInBound(t) \/ ~CoefInBound(v) THEN "overflow"
  ELSE IF ~Normalised(t) THEN "documented-state-not-normalised"
  ELSE IF c.rel = "emit" THEN "ok"
  ELSE IF AuxDirty(v, c) THEN "aux-not-clean"
  ELSE IF c.rel = "exact" THEN (IF EqExact(t, v) THEN "ok" ELSE IF EqUpToScalar(t, v) THEN "equal-only-up-to-phase" ELSE "not-equal")
  ELSE IF EqUpToScalar(t, v) THEN "ok" ELSE "not-equal-up-to-phase"

Finish == /\ pos >= 1 /\ pos = Len(C.b) + 1
          /\ PrintT(<<"V", tid, Verdict(T, V, C)>>)
          /\ PrintT(ToJson([tid |-> tid, t |-> T]))
          /\ pos' = -1 /\ V' = <<>> /\ T' = <<>> /\ C' = <<>> /\ UNCHANGED tid        \* pos = -1: the case is finished

Next == MkTarget \/ Step \/ Finish
\* model-level invariant: every documented state TLC builds is a unit vector (checked on every case)
TargetsNormalised == (pos >= 1 /\ C # <<>>) => Normalised(T)
=============================================================================
