--------------------------- MODULE Trace_FromSamples ---------------------------
(***************************************************************************)
(* Trace validation for C30 (code -> spec).  One record per call of        *)
(* mp.process_samples / mp.process_counts on the real classes (one record  *)
(* per batch entry for batched sample arrays):                             *)
(*   nw, X      the sample array the call was given (shots x nw bits)      *)
(*   mp         the measurement process (record of FromSamples.tla)        *)
(*   lo, hi     shot_range (Python convention; the whole array if none)    *)
(*   bs         bin_size (0 = none)                                        *)
(*   via        "samples" | "counts" (process_counts got the dictionary    *)
(*              of full-width counts of X[lo..hi))                         *)
(*   o          what the implementation returned, as exact data:           *)
(*              probs: sequence of <<n, d>>; expval / var: <<n, d>>;       *)
(*              counts: sequence of <<outcome index, count>> resp.         *)
(*              <<value n, value d, count>>; sample: sequence of bit rows  *)
(*              resp. of <<n, d>>; with bins: the sequence of those.       *)
(* TLC recomputes the result from X with FromSamples.tla and prints        *)
(*   <<"V", tid, "ok" | "ok-strided" | "mismatch" | "malformed">>.         *)
(* With bin_size the statement does not say which shots form a bin: both   *)
(* partitions an implementation can sensibly use (consecutive / strided)   *)
(* are accepted; "ok-strided" is reported separately (mechanism, not a     *)
(* violation).                                                             *)
(***************************************************************************)
EXTENDS FromSamples, Json, IOUtils
CONSTANT NTRACES
Traces == JsonDeserialize(IOEnv.TRACE_FILE)
VARIABLES tid, done
tvars == <<tid, done>>

Match(mp, o, r) == IF mp.kind = "counts"
                   THEN {o[i] : i \in 1..Len(o)} = r /\ Len(o) = Cardinality(r)
                   ELSE o = r
Expected(t, Y) == IF t.via = "counts" THEN ResultC(t.mp, FullCounts(Y, t.nw), t.nw) ELSE Result(t.mp, Y, t.nw)
WellFormed(t) == /\ 0 <= t.lo /\ t.lo < t.hi /\ t.hi <= Len(t.X)
                 /\ \A i \in 1..Len(t.X) : Len(t.X[i]) = t.nw
                 /\ (t.bs > 0 => (t.hi - t.lo) % t.bs = 0 /\ Len(t.o) = (t.hi - t.lo) \div t.bs)
                 /\ (t.via = "counts" => t.mp.kind # "sample" /\ t.bs = 0)
Verdict(t) ==
  IF ~WellFormed(t) THEN "malformed"
  ELSE LET Y == TLCEval(ShotRange(t.X, t.lo, t.hi)) IN
       IF t.bs = 0 THEN (IF Match(t.mp, t.o, Expected(t, Y)) THEN "ok" ELSE "mismatch")
       ELSE LET nb == Len(Y) \div t.bs
                cb == TLCEval(BinsContig(Y, t.bs))
                sb == TLCEval(BinsStrided(Y, t.bs))
            IN IF \A b \in 1..nb : Match(t.mp, t.o[b], Expected(t, cb[b])) THEN "ok"
               ELSE IF \A b \in 1..nb : Match(t.mp, t.o[b], Expected(t, sb[b])) THEN "ok-strided"
               ELSE "mismatch"
TInit == tid \in 1..NTRACES /\ done = FALSE
TNext == /\ ~done /\ done' = TRUE /\ UNCHANGED tid
         /\ PrintT(<<"V", tid, Verdict(Traces[tid])>>)
=============================================================================
