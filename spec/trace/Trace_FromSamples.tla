--------------------------- MODULE Trace_FromSamples ---------------------------
(***************************************************************************)
(* Trace validation for C30 (code -> spec).  One record per call of        *)
(* mp.process_samples / mp.process_counts on the real classes (one record  *)
(* per batch entry for batched sample arrays):                             *)
(*   nw, X      the sample array the call was given (shots x nw bits)      *)
(*   mp         the measurement process (record of FromSamples.tla)        *)
(*   lo, hi     shot_range (Python convention; the whole array if none)    *)
(*   bs         bin_size (0 = none)                                        *)
(*   via        "samples" | "counts" (process_counts got the dictionary    *)
(*              of full-width counts of X[lo..hi))                         *)
(*   o          what the implementation returned, as exact data:           *)
(*              probs: sequence of <<n, d>>; expval / var: <<n, d>>;       *)
(*              counts: sequence of <<outcome index, count>> resp.         *)
(*              <<value n, value d, count>>; sample: sequence of bit rows  *)
(*              resp. of <<n, d>>; with bins: the sequence of those.       *)
(* The file is read once; Split hands one chunk of the records to each of   *)
(* NCHUNKS successor states (validated in parallel); Check recomputes each  *)
(* result from X with FromSamples.tla and prints, for EVERY record,         *)
(*   <<"V", record number, "ok" | "ok-strided" | "mismatch" | "malformed">>. *)
(* With bin_size the statement does not say which shots form a bin: both   *)
(* partitions an implementation can sensibly use (consecutive / strided)   *)
(* are accepted; "ok-strided" is reported separately (mechanism, not a     *)
(* violation).                                                             *)
(***************************************************************************)
EXTENDS FromSamples, Json, IOUtils
CONSTANT NCHUNKS
\* the file is parsed once (TInit); Split hands one chunk of records to each successor state (explored in parallel),
\* Check validates the records of a chunk
VARIABLES todo, base, ph
tvars == <<todo, base, ph>>

Match(kind, o, r) == IF kind = "counts"
                     THEN {o[i] : i \in 1..Len(o)} = r /\ Len(o) = Cardinality(r)
                     ELSE o = r
\* cm: the compiled measurement process; y: the shots (indices + 1) the statistic is taken over
Expected(t, cm, y) == IF t.via = "counts" THEN ResultC(cm, FullCounts(y, t.nw)) ELSE Result(cm, y)
WellFormed(t) == /\ 0 <= t.lo /\ t.lo < t.hi /\ t.hi <= Len(t.X)
                 /\ \A i \in 1..Len(t.X) : Len(t.X[i]) = t.nw
                 /\ (t.bs > 0 => (t.hi - t.lo) % t.bs = 0 /\ Len(t.o) = (t.hi - t.lo) \div t.bs)
                 /\ (t.via = "counts" => t.mp.kind # "sample" /\ t.bs = 0)
Verdict(t) ==
  IF ~WellFormed(t) THEN "malformed"
  ELSE LET cm == TLCEval(Compile(t.mp, t.nw))
           y == TLCEval(ShotRange(IndicesOf(t.X, t.nw), t.lo, t.hi)) IN
       IF t.bs = 0 THEN (IF Match(cm.kind, t.o, Expected(t, cm, y)) THEN "ok" ELSE "mismatch")
       ELSE LET nb == Len(y) \div t.bs
                cb == TLCEval(BinsContig(y, t.bs))
                sb == TLCEval(BinsStrided(y, t.bs))
            IN IF \A b \in 1..nb : Match(cm.kind, t.o[b], Expected(t, cm, cb[b])) THEN "ok"
               ELSE IF \A b \in 1..nb : Match(cm.kind, t.o[b], Expected(t, cm, sb[b])) THEN "ok-strided"
               ELSE "mismatch"
TInit == todo = JsonDeserialize(IOEnv.TRACE_FILE) /\ base = 0 /\ ph = 0
Split == /\ ph = 0 /\ ph' = 1
         /\ LET n == Len(todo)  sz == (n + NCHUNKS - 1) \div NCHUNKS IN
            \E c \in 0..(NCHUNKS - 1) : /\ c * sz < n
                                       /\ base' = c * sz
                                       /\ todo' = SubSeq(todo, c * sz + 1, IF (c + 1) * sz < n THEN (c + 1) * sz ELSE n)
Check == /\ ph = 1 /\ ph' = 2 /\ base' = base /\ todo' = <<>>
         /\ \A i \in 1..Len(todo) : LET t == todo[i] IN PrintT(<<"V", base + i, Verdict(t)>>)
TNext == Split \/ Check
=============================================================================
