----------------------------- MODULE Trace_Qasm ------------------------------
(***************************************************************************)
(* C67: the relation  Denotes(program, tape)  between an OpenQASM program   *)
(* and a PennyLane tape, decided exactly by TLC for every recorded pair.   *)
(*                                                                         *)
(* A case of the batch file:                                               *)
(*   [n    system wires (register positions 1..n),                         *)
(*    k    number of mid-circuit measurements / resets (one fresh ancilla  *)
(*         wire n+i per measurement i),                                    *)
(*    a    the TAPE side: instructions with Gates.tla records,             *)
(*    b    the PROGRAM side: instructions with OpenQASM gate statements    *)
(*         (Qelib1.tla),                                                   *)
(*    rel  "phase": U_b = e^{ic} U_a (per measurement record, see below)    *)
(*         "diag": U_b U_a^+ is diagonal                                   *)
(*         (the program ends in the eigenbasis the tape's reference        *)
(*         diagonalising gates end in),                                    *)
(*    nq, enq      qreg size found in the program / expected,              *)
(*    mp, me, ncreg  terminal measurements <<qubit, cbit>> (0-based) found *)
(*         in the program / expected measured register positions / size of *)
(*         the classical register,                                         *)
(*    pl   placement of the PROGRAM's qubits in the register (import with  *)
(*         a wire_map: program qubit i lives at register position pl[i];   *)
(*         <<>> = qubit i at position i).  Only the program side is placed:*)
(*         the tape side is recorded in register positions]                *)
(* instruction = [k: "g" (Gates record in g) | "q" (OpenQASM statement in  *)
(*   g) | "m" (measure wire w into ancilla anc) | "r" (reset wire w using  *)
(*   ancilla anc),  cw: ancilla indices the instruction is conditioned on, *)
(*   cv: the accepted value tuples of those bits (<<>> = unconditional),   *)
(*   pe, tol: per printed parameter |printed - lattice angle| and the      *)
(*   admissible error at the requested precision, in units of 1e-10]       *)
(*                                                                         *)
(* Semantics (one instruction per TLC step, exact ring arithmetic):        *)
(* measurement is deferred - "m" is a CNOT onto its fresh ancilla, a       *)
(* conditioned gate is the gate controlled on the ancillas (one controlled *)
(* gate per accepted value tuple), "r" copies the wire onto the ancilla    *)
(* and flips the wire back.  Both sides are dilated by the same rule and   *)
(* evaluated on the inputs whose ancillas are |0>.  The rows of a dilation *)
(* with ancilla value o form the Kraus operator K_o of the measurement     *)
(* record o; two programs are the same instrument iff K_o^b = e^{i c_o}    *)
(* K_o^a for every record o (the phase may depend on the record: branches  *)
(* of different records never interfere).                                  *)
(* One verdict <<"V", tid, clause>> per case (verdicts are total).         *)
(***************************************************************************)
EXTENDS Qelib1, Json, IOUtils, FiniteSets
CONSTANT NCASES
Cases == JsonDeserialize(IOEnv.TRACE_FILE)
VARIABLES tid, side, pos, U, Ua
Case == Cases[tid]
TqNT(c) == c.n + c.k
\* the columns whose ancilla wires (the k least significant bits) are 0
TqU0(c) == [k |-> 0, e |-> TLCEval([i \in 1..2^(c.n + c.k) |-> TLCEval([j \in 1..2^c.n |->
                              IF i - 1 = (j - 1) * 2^c.k THEN One ELSE Zero])])]
Init == /\ tid \in 1..NCASES /\ side = 0 /\ pos = 1
        /\ U = TqU0(Cases[tid]) /\ Ua = <<>>
TqSeq(s) == IF s = 0 THEN Case.a ELSE Case.b
InsM(ins) == IF ins.k = "g" THEN GateMB(ins.g) ELSE QasmM(ins.g)
AncW(ins, n) == [i \in 1..Len(ins.cw) |-> n + ins.cw[i]]
\* placement of program qubits (pl = <<>>: identity)
TqPlace(w, pl) == IF Len(pl) = 0 THEN w ELSE [i \in 1..Len(w) |-> pl[w[i]]]
TqPlace1(w, pl) == IF Len(pl) = 0 THEN w ELSE pl[w]
RECURSIVE ApplyCond(_, _, _, _, _, _)
ApplyCond(u, ins, mat, j, c, gw) ==
   IF j > Len(ins.cv) THEN u
   ELSE ApplyCond(ApplyGate(u, CtrlM(mat, ins.cv[j]), AncW(ins, c.n) \o gw, TqNT(c)), ins, mat, j + 1, c, gw)
StepU(u, ins, c, pl) ==
   LET gw == TqPlace(ins.g.w, pl)
       mw == TqPlace1(ins.w, pl) IN
   CASE ins.k \in {"g", "q"} ->
          IF Len(ins.cw) = 0
          THEN (IF Len(ins.g.w) = 0 THEN u      \* an unconditioned scalar: irrelevant for both relations
                ELSE ApplyGate(u, InsM(ins), gw, TqNT(c)))
          ELSE Bind(InsM(ins), LAMBDA mat : ApplyCond(u, ins, mat, 1, c, gw))
     [] ins.k = "m" -> ApplyGate(u, MCNOT, <<mw, c.n + ins.anc>>, TqNT(c))
     [] ins.k = "r" -> ApplyGate(ApplyGate(u, MCNOT, <<mw, c.n + ins.anc>>, TqNT(c)), MCNOT, <<c.n + ins.anc, mw>>, TqNT(c))
Step == /\ side <= 1 /\ pos <= Len(TqSeq(side))
        /\ U' = StepU(U, TqSeq(side)[pos], Case, IF side = 1 THEN Case.pl ELSE <<>>)
        /\ pos' = pos + 1 /\ UNCHANGED <<tid, side, Ua>>
EndA == /\ side = 0 /\ pos > Len(Case.a)
        /\ side' = 1 /\ pos' = 1 /\ Ua' = U /\ U' = TqU0(Case) /\ UNCHANGED tid

RegOK(c) == c.nq = c.enq
MeasuredOK(c) ==
   /\ {c.mp[i][1] : i \in 1..Len(c.mp)} = {c.me[i] : i \in 1..Len(c.me)}
   /\ Cardinality({c.mp[i][1] : i \in 1..Len(c.mp)}) = Len(c.mp)
   /\ Cardinality({c.mp[i][2] : i \in 1..Len(c.mp)}) = Len(c.mp)
   /\ \A i \in 1..Len(c.mp) : c.mp[i][2] >= 0 /\ c.mp[i][2] < c.ncreg /\ c.mp[i][1] >= 0 /\ c.mp[i][1] < c.nq
PrecOK(c) == \A i \in 1..Len(c.b) : \A j \in 1..Len(c.b[i].pe) : c.b[i].pe[j] <= c.b[i].tol[j]
\* Kraus operator of the measurement record o (0 <= o < 2^k): the rows whose ancilla bits spell o
TqBlock(u, o, c) == [k |-> u.k, e |-> TLCEval([r \in 1..2^c.n |-> u.e[(r - 1) * 2^c.k + o + 1]])]
TqSameInstrument(ua, ub, c) == \A o \in 0..(2^c.k - 1) : EqUpToScalar(TqBlock(ua, o, c), TqBlock(ub, o, c))
\* overflow guard (Cyclo.MaxAbs doubles its work per coefficient: unusable at H = 16)
TqInBound(m) == \A i \in 1..Len(m.e) : \A j \in 1..Len(m.e[i]) : \A t \in IdxH : m.e[i][j][t] < Bound /\ m.e[i][j][t] > -Bound
TqIsDiag(m) == \A i \in 1..Len(m.e) : \A j \in 1..Len(m.e[i]) : i # j => IsZero(m.e[i][j])
TqVerdict(ua, ub, c) ==
   IF ~RegOK(c) THEN "qreg-size"
   ELSE IF ~MeasuredOK(c) THEN "measured-register"
   ELSE IF ~PrecOK(c) THEN "angle-precision"
   ELSE IF ~TqInBound(ua) \/ ~TqInBound(ub) THEN "overflow"
   ELSE CASE c.rel = "phase" -> IF TqSameInstrument(ua, ub, c) THEN "ok" ELSE "not-equal-up-to-phase"
          [] c.rel = "diag"  -> IF TqIsDiag(MatMul(ub, Dagger(ua))) THEN "ok" ELSE "not-diagonal-in-eigenbasis"
EndB == /\ side = 1 /\ pos > Len(Case.b)
        /\ PrintT(<<"V", tid, TqVerdict(Ua, U, Case)>>)
        /\ side' = 2 /\ pos' = 1 /\ U' = <<>> /\ UNCHANGED <<tid, Ua>>
Next == Step \/ EndA \/ EndB
=============================================================================
