---------------------------- MODULE Trace_Pipeline ----------------------------
(***************************************************************************)
(* Trace validation for C23 (construction API).  Each case is one call     *)
(* observed on the real CompilePipeline:                                   *)
(*   prev : the pipeline before the call   [seq, mk]  (as observed)        *)
(*   o    : the call (uniform op record of PipelineOps)                    *)
(*   obs  : what the implementation did    [err, seq, ret, mk, intact]     *)
(*          (err = exception class or "", seq = transform kinds in order,  *)
(*          ret = kind returned by pop / [i], mk = markers, intact = the   *)
(*          operands and earlier pipelines of the history are unchanged)   *)
(* The list model is evaluated on the OBSERVED previous state (so the      *)
(* validation is relational and follows the implementation's own choices)  *)
(* and every case gets a verdict:  <<"V", case, clause, drift>>.           *)
(* Property level (clause # "ok"): acceptance / rejection as documented,   *)
(* the resulting sequence, the returned transform, operands not mutated,   *)
(* the marker conjuncts of PipelineOps.MarkerVerdict.  Mechanism level     *)
(* (drift): markers differ from the model's convention although allowed,  *)
(* state touched by a rejected call.                                       *)
(***************************************************************************)
EXTENDS PipelineOps, Json, IOUtils
CONSTANT NCASES
Cases == JsonDeserialize(IOEnv.TRACE_FILE)
VARIABLES cid, done
SameMk(f, g) == DOMAIN f = DOMAIN g /\ \A lb \in DOMAIN f : f[lb] = g[lb]
Verdict(c) ==
  LET st == [seq |-> c.prev.seq, mk |-> MkOf(c.prev.mk)]
      E == Eff(st, c.o)
      om == MkOf(c.obs.mk) IN
  IF c.obs.err # E.err THEN <<"acceptance-differs", "same">>
  ELSE IF E.err # "" THEN
       (IF c.obs.seq # st.seq THEN <<"sequence-changed-by-rejected-call", "same">>
        ELSE <<"ok", IF SameMk(om, st.mk) THEN "same" ELSE "rejected-call-touched-markers">>)
  ELSE IF c.obs.seq # E.seq THEN <<"sequence-differs", "same">>
  ELSE IF c.obs.ret # E.ret THEN <<"returned-transform-differs", "same">>
  ELSE IF ~c.obs.intact THEN <<"operand-mutated", "same">>
  ELSE LET mv == MarkerVerdict(st, c.o, E, om) IN
       IF mv # "" THEN <<mv, "same">>
       ELSE <<"ok", IF SameMk(om, E.mk) THEN "same" ELSE "marker-convention">>
TInit == cid \in 1..NCASES /\ done = FALSE
TNext == /\ ~done /\ done' = TRUE /\ cid' = cid
         /\ \E v \in {Verdict(Cases[cid])} : PrintT(<<"V", cid, v[1], v[2]>>)
=============================================================================
