----------------------------- MODULE Trace_Wires -----------------------------
(***************************************************************************)
(* Trace validation for C45.  The trace file is                            *)
(*   [key |-> sort key of the label table, recs |-> << record, ... >>]     *)
(* Each record is one call into the real Wires class:                      *)
(*   [op, a, b, c, idx, per, m, v, out]   (label ids; see WiresGen.tla)    *)
(*   out = what the implementation returned, as label ids (0 = a label     *)
(*         outside the table), set-valued results sorted ascending with    *)
(*         multiplicity, exc = exception class or "".                      *)
(* TLC recomputes every result with WiresSet and prints one verdict per    *)
(* record: "ok" or the first failing clause; the fourth component flags    *)
(* "undef" (outside the documented domain of subset), "perm" (same labels, *)
(* different order: hashes differ) or "collide" (... hashes equal).        *)
(***************************************************************************)
EXTENDS WiresSet, Json, IOUtils
CONSTANT NTRACES
File == JsonDeserialize(IOEnv.TRACE_FILE)
Key == [isint |-> LSet(File.key.isint), ival |-> File.key.ival, srank |-> File.key.srank]
VARIABLES tid, done

SameSet(x, y) == LSet(x) = LSet(y) /\ DupFree(x)
Helper(name, got, want) == IF ~SameSet(got, want) \/ Len(got) # Len(want) THEN name \o ":set"
                           ELSE IF got # want THEN name \o ":order" ELSE "ok"
First(vs) == IF \A i \in 1..Len(vs) : vs[i] = "ok" THEN "ok" ELSE vs[CHOOSE i \in 1..Len(vs) : vs[i] # "ok" /\ \A j \in 1..i-1 : vs[j] = "ok"]
B(cond, name) == IF cond THEN "ok" ELSE name

VNew(r) == LET o == r.out IN
  IF DupFree(r.a) THEN (IF o.exc # "" THEN "new:valid-labels-rejected:" \o o.exc
                        ELSE IF o.seq # r.a \/ o.len # Len(r.a) THEN "new:labels" ELSE "ok")
  ELSE IF o.exc = "" THEN "new:duplicates-accepted"
  ELSE IF o.exc # "WireError" THEN "new:duplicates-wrong-exception:" \o o.exc ELSE "ok"

VPair(r) == LET o == r.out  a == r.a  b == r.b IN
  IF o.exc # "" THEN "pair:exception:" \o o.exc ELSE
  First(<< B(o.union = SortedSeq(Union(a, b)), "union"),
           B(o.inter = SortedSeq(Inter(a, b)), "intersection"),
           B(o.diff = SortedSeq(Diff(a, b)), "difference"),
           B(o.rdiff = SortedSeq(Diff(b, a)), "difference(reflected)"),
           B(o.sym = SortedSeq(WSymDiff(a, b)), "symmetric_difference"),
           Helper("all_wires", o.all, AllWires(<<a, b>>)),
           Helper("shared_wires", o.shared, Shared(<<a, b>>)),
           Helper("unique_wires", o.unique, Unique(<<a, b>>)),
           B(o.sorted = AllWiresSorted(<<a, b>>, Key), "all_wires(sort=True)"),
           B(o.eq = Eq(a, b), "eq"),
           B(Eq(a, b) => o.hasheq, "hash:equal-objects-differ"),
           B(o.contains = WContains(a, b), "contains_wires"),
           B(o.index = Indices(a, b), "index"),
           B(o.indices_exc = ~IndicesDefined(a, b) /\ (IndicesDefined(a, b) => o.indices = Indices(a, b)), "indices") >>)
PairFlag(r) == IF r.op = "pair" /\ r.a # r.b /\ LSet(r.a) = LSet(r.b) THEN (IF r.out.hasheq THEN "collide" ELSE "perm") ELSE "-"

VTriple(r) == LET o == r.out  l == <<r.a, r.b, r.c>> IN
  IF o.exc # "" THEN "triple:exception:" \o o.exc ELSE
  First(<< Helper("all_wires", o.all, AllWires(l)), Helper("shared_wires", o.shared, Shared(l)),
           Helper("unique_wires", o.unique, Unique(l)) >>)

VSub(r) == LET o == r.out IN
  IF ~SubsetInDomain(r.a, r.idx, r.per) THEN "ok"
  ELSE IF ~SubsetDefined(r.a, r.idx, r.per) THEN (IF o.exc = "" THEN "subset:out-of-range-accepted" ELSE "ok")
  ELSE IF o.exc # "" THEN "subset:exception:" \o o.exc
  ELSE IF o.seq # Subset(r.a, r.idx, r.per) THEN "subset" ELSE "ok"
SubFlag(r) == IF r.op = "sub" /\ ~SubsetInDomain(r.a, r.idx, r.per) THEN "undef" ELSE "-"

VMap(r) == LET o == r.out IN
  IF ~MapDefined(r.a, r.m) THEN (IF o.exc = "" THEN "map:invalid-map-accepted" ELSE "ok")
  ELSE IF o.exc # "" THEN "map:exception:" \o o.exc
  ELSE IF o.seq # MapSeq(r.a, r.m) THEN "map" ELSE "ok"

Verdict(r) == CASE r.op = "new"    -> VNew(r)
                [] r.op = "pair"   -> VPair(r)
                [] r.op = "triple" -> VTriple(r)
                [] r.op = "sub"    -> VSub(r)
                [] r.op = "map"    -> VMap(r)
Flag(r) == IF r.op = "pair" THEN PairFlag(r) ELSE SubFlag(r)

TInit == tid \in 1..NTRACES /\ done = FALSE
TNext == /\ ~done /\ done' = TRUE /\ UNCHANGED tid
         /\ LET r == File.recs[tid] IN PrintT(<<"V", tid, Verdict(r), Flag(r)>>)
=============================================================================
