"""C32 driver: runs one request (see spec/sys/ResultShape.tla) through the real code and returns the observed shape tree.

Used in-process by harness/checks/c32.py and as a worker process (python -m harness.c32_driver JOBS.json OUT.json) for
the jax evaluations, whose per-process XLA warm-up costs about a second per call and is therefore run beside the rest.
A job is {"id", "op", "n", "tapes", "cfg": [device, interface, diff_method], "variant", "args", "ps"}; the result is
{"id", "exc": null | [class, message], "obs": tree | null, "jac": tree | null}."""
import json
import sys
import warnings

import numpy as np

import pennylane as qp
from pennylane import numpy as pnp

warnings.filterwarnings("ignore")
import jax  # noqa: E402
import jax.numpy as jnp  # noqa: E402

jax.config.update("jax_enable_x64", True)

OBS = [qp.Z, qp.X, qp.Y]


def tree_of(x):
    """abstract shape tree of a returned object (list == tuple, as the return type specification says)"""
    if isinstance(x, (tuple, list)):
        return {"k": "T", "s": [], "c": [tree_of(y) for y in x]}
    if isinstance(x, dict):
        return {"k": "D", "s": [], "c": []}
    if isinstance(x, np.ndarray) and x.dtype == object:       # documented: counts after broadcast_expand
        return {"k": "T", "s": [], "c": [tree_of(y) for y in x]}
    shape = tuple(x.shape) if hasattr(x, "shape") else np.shape(x)
    return {"k": "A", "s": [int(d) for d in shape], "c": []}


def show(tr):
    if tr["k"] == "T":
        return "(" + ", ".join(show(c) for c in tr["c"]) + ("," if len(tr["c"]) == 1 else "") + ")"
    return "dict" if tr["k"] == "D" else "A" + str(tr["s"]).replace(" ", "")


def locate(exp, obs, path=()):
    """first difference: (clause, path) with clause 'nesting' | 'shape', or None"""
    if exp["k"] != obs["k"]:
        return "nesting", path
    if exp["k"] == "T":
        if len(exp["c"]) != len(obs["c"]):
            return "nesting", path
        hit = None
        for i, (e, o) in enumerate(zip(exp["c"], obs["c"])):
            r = locate(e, o, path + (i,))
            if r and r[0] == "nesting":
                return r
            hit = hit or r
        return hit
    if exp["k"] == "A" and exp["s"] != obs["s"]:
        return "shape", path
    return None


def conv(v, itf, train=False):
    a = np.asarray(v, dtype=float)
    if itf == "numpy":
        return float(a) if a.shape == () else a
    if itf == "autograd":
        return pnp.array(a, requires_grad=train)
    if itf == "jax":
        return jnp.asarray(a)
    import torch            # imported on first use: the jax worker never needs it
    return torch.tensor(a, dtype=torch.float64, requires_grad=train)


def build_meas(m, i, n):
    w = i % n
    ws = [(w + j) % n for j in range(m["w"])]
    k = m["kind"]
    if k == "expval":
        return qp.expval(OBS[i % 3](w))
    if k == "var":
        return qp.var(OBS[i % 3](w))
    if k == "probs":
        return qp.probs(wires=ws) if ws else qp.probs()
    if k == "sample":
        return qp.sample(wires=ws) if ws else qp.sample()
    if k == "sampleobs":
        return qp.sample(OBS[i % 3](w))
    if k == "counts":
        return qp.counts(wires=ws) if ws else qp.counts()
    if k == "state":
        return qp.state()
    if k == "dm":
        return qp.density_matrix(ws)
    if k == "purity":
        return qp.purity(wires=ws)
    if k == "vnentropy":
        return qp.vn_entropy(wires=ws)
    raise KeyError(f"unknown measurement kind {k}")


def shots_arg(t, variant):
    """the Python shots argument for the expanded list (several equivalent spellings)"""
    sh = t["shots"]
    if not sh:
        return None
    if len(sh) == 1:
        return sh[0] if variant % 2 == 0 else [sh[0]]
    if variant % 2 and len(set(sh)) == 1:
        return [(sh[0], len(sh))]
    return list(sh) if variant % 3 else tuple(sh)


def entangle(n):
    ops = [qp.RY(0.4, 1), qp.CNOT([0, 1])]
    if n >= 3:
        ops += [qp.RY(0.5, 2), qp.CNOT([1, 2])]
    return ops


def bvec(b):
    return 0.3 if b == 0 else np.linspace(0.1, 0.5, b)


def build_script(t, n, itf, variant, params=None):
    """QuantumScript for a request.  params: list of trainable scalars (tape-level Jacobians), else one (broadcast) RX"""
    if params is None:
        ops = [qp.RX(conv(bvec(t["b"]), itf, train=True), 0)] + entangle(n)
        tp = None
    else:
        ops = [(qp.RX, qp.RY)[j % 2](p, j % n) for j, p in enumerate(params)] + [qp.CNOT([0, 1])]
        if n >= 3:
            ops.append(qp.CNOT([1, 2]))
        if t["b"]:
            ops.append(qp.RZ(bvec(t["b"]), 0))
            ops.append(qp.Hadamard(0))
        tp = list(range(len(params)))
    ms = [build_meas(m, i, n) for i, m in enumerate(t["meas"])]
    return qp.tape.QuantumScript(ops, ms, shots=shots_arg(t, variant), trainable_params=tp)


def make_qnode(t, n, dev, itf, dm, variant, argshapes=None):
    b = t["b"]

    def measure():
        ms = [build_meas(m, i, n) for i, m in enumerate(t["meas"])]
        return ms[0] if len(ms) == 1 else tuple(ms)

    if argshapes is None:
        def f(x):
            qp.RX(x, 0)
            for op in entangle(n):
                qp.apply(op)
            return measure()
    else:
        def f(*args):
            j = 0
            for a, shp in zip(args, argshapes):
                for idx in np.ndindex(*shp):
                    (qp.RX, qp.RY)[j % 2](a[idx] if shp else a, j % n)
                    j += 1
            qp.CNOT([0, 1])
            if n >= 3:
                qp.CNOT([1, 2])
            if b:
                qp.RZ(bvec(b), 0)
                qp.Hadamard(0)
            return measure()
    qn = qp.QNode(f, dev, interface=None if itf == "numpy" else itf, diff_method=None if dm == "none" else dm)
    return qp.set_shots(qn, shots_arg(t, variant))


def arg_values(argshapes, itf):
    vals, k = [], 0
    for shp in argshapes:
        size = int(np.prod(shp)) if shp else 1
        a = (0.1 + 0.17 * (k + np.arange(size))).reshape(shp)
        k += size
        vals.append(conv(a, itf, train=True))
    return vals


def flat_leaves(x):
    if isinstance(x, (tuple, list)):
        out = []
        for y in x:
            out += flat_leaves(y)
        return out
    return [x]


def regroup(x, it):
    if isinstance(x, (tuple, list)):
        return tuple(regroup(y, it) for y in x)
    return next(it)


def qnode_jacobian(qn, vals, itf, res):
    """framework Jacobian of the QNode with respect to all arguments (None: the framework cannot express it)"""
    if itf == "autograd":
        if isinstance(res, (tuple, list)):
            return None                      # autograd differentiates array-valued functions only
        return qp.jacobian(qn)(*vals)
    if itf == "jax":
        return jax.jacobian(qn, argnums=0 if len(vals) == 1 else tuple(range(len(vals))))(*vals)
    # torch: functional.jacobian wants a flat tuple of tensors; flatten, differentiate, put back into the result's nesting
    single = not isinstance(res, (tuple, list))

    def fl(*a):
        r = qn(*a)
        return r if single else tuple(flat_leaves(r))
    import torch
    jac = torch.autograd.functional.jacobian(fl, vals[0] if len(vals) == 1 else tuple(vals))
    return jac if single else regroup(res, iter(jac))


class Runner:
    """Executes requests on the real code; every method returns the observed tree or raises the code's exception."""

    def __init__(self):
        self.devs = {}

    def dev(self, name, n):
        if (name, n) not in self.devs:
            self.devs[(name, n)] = qp.device(name, wires=n)
        return self.devs[(name, n)]

    def res_qnode(self, t, n, cfg, variant):
        d, itf, dm = cfg
        qn = make_qnode(t, n, self.dev(d, n), itf, dm, variant)
        return tree_of(qn(conv(bvec(t["b"]), itf, train=True)))

    def res_batch(self, ts, n, cfg, variant):
        d, itf, dm = cfg
        batch = [build_script(t, n, itf, variant + i) for i, t in enumerate(ts)]
        out = qp.execute(batch, self.dev(d, n), diff_method=None if dm == "none" else dm,
                         interface=None if itf == "numpy" else itf)
        return tree_of(out)

    def jac_qnode(self, t, n, cfg, variant, argshapes):
        """-> (result tree, jacobian tree or None)"""
        d, itf, dm = cfg
        qn = make_qnode(t, n, self.dev(d, n), itf, dm, variant, argshapes)
        vals = arg_values(argshapes, itf)
        res = qn(*vals)
        jac = qnode_jacobian(qn, vals, itf, res)
        return tree_of(res), (None if jac is None else tree_of(jac))

    def jac_tape(self, t, n, d, how, variant, P):
        params = [0.1 + 0.17 * k for k in range(P)]
        tape = build_script(t, n, "numpy", variant, params=params)
        dev = self.dev(d, n)
        if how == "parameter-shift":
            gt, fn = qp.gradients.param_shift(tape)
            return tree_of(fn(qp.execute(gt, dev, diff_method=None)))
        cfg = qp.devices.ExecutionConfig(gradient_method="adjoint")
        cfg = dev.setup_execution_config(cfg, tape)
        batch, post = dev.preprocess_transforms(cfg)([tape])
        if len(batch) != 1:
            raise NotImplementedError("preprocessing split the tape")
        return tree_of(dev.compute_derivatives(batch[0], cfg))

    def jac_batch(self, ts, n, d, how, variant, Ps):
        from pennylane.workflow.jacobian_products import DeviceDerivatives, TransformJacobianProducts
        dev = self.dev(d, n)
        batch = tuple(build_script(t, n, "numpy", variant + i, params=[0.1 + 0.17 * k for k in range(P)])
                      for i, (t, P) in enumerate(zip(ts, Ps)))
        if how == "parameter-shift":
            jpc = TransformJacobianProducts(lambda b: qp.execute(b, dev, diff_method=None), qp.gradients.param_shift)
        else:
            cfg = dev.setup_execution_config(qp.devices.ExecutionConfig(gradient_method="adjoint"), batch[0])
            batch, _ = dev.preprocess_transforms(cfg)(batch)
            jpc = DeviceDerivatives(dev, cfg)
        return tree_of(jpc.compute_jacobian(tuple(batch)))



_RUNNER = Runner()


def execute(job):
    """run one job; never raises for an exception of the code under test (it is the recorded outcome)"""
    out = {"id": job["id"], "exc": None, "obs": None, "jac": None}
    cfg, n, ts, v = tuple(job["cfg"]), job["n"], job["tapes"], job["variant"]
    try:
        op = job["op"]
        if op == "res_qnode":
            out["obs"] = _RUNNER.res_qnode(ts[0], n, cfg, v)
        elif op == "res_batch":
            out["obs"] = _RUNNER.res_batch(ts, n, cfg, v)
        elif op == "jac_qnode":
            out["obs"], out["jac"] = _RUNNER.jac_qnode(ts[0], n, cfg, v, job["args"])
        elif op == "jac_tape":
            out["jac"] = _RUNNER.jac_tape(ts[0], n, cfg[0], cfg[2], v, job["ps"][0])
        elif op == "jac_batch":
            out["jac"] = _RUNNER.jac_batch(ts, n, cfg[0], cfg[2], v, job["ps"])
        else:
            raise KeyError(op)
    except KeyError:
        raise
    except Exception as e:  # noqa: BLE001 - an unsupported configuration; the exception class is the recorded outcome
        out["exc"] = [type(e).__name__, str(e)[:200]]
    return out


def main():
    jobs = json.loads(open(sys.argv[1]).read())
    res = [execute(j) for j in jobs]
    with open(sys.argv[2], "w") as f:
        json.dump(res, f)


if __name__ == "__main__":
    main()
