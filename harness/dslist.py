"""C64 helper: executes one DatasetListEdit history (spec/sys/DatasetListEdit.tla, emitted by
spec/gen/DatasetListEditGen.tla) on a real pennylane.data list attribute of a live dataset and compares every call
with what TLC says it must return.

A job is {"id", "start", "loc", "hist": [event...], "final": [token...], "plan": [term per token], "seed"}.
Token k is the k-th value handed to the dataset (the first `start` tokens are the elements of the assigned list);
values of one history are pairwise different under dsvalues.equal, so an element read back identifies its token.
Only the reads named by the history touch the live list before the end of the history (what was read before an
edit is part of the history); at the end the whole list is read through the live object, through a fresh wrapper
of the same storage and from a copy written to disk."""
from __future__ import annotations

import random
import shutil
from pathlib import Path

from . import dsvalues as V
from .dsreplay import make_values

EDITS = ("Insert", "Append", "Del", "SetItem")


class ListRunner:
    def __init__(self, job, root: Path):
        self.job = job
        self.dir = root / f"l{job['id']}"
        shutil.rmtree(self.dir, ignore_errors=True)
        self.dir.mkdir(parents=True)
        self.rng = random.Random(job["seed"])
        self.vals, self.valnames = make_values(job["plan"], self.rng)
        self.notes = []
        self.ds = None

    def tokens(self, seq, where):
        out = []
        for j, got in enumerate(seq):
            t = 0
            for k, v in enumerate(self.vals):
                if V.equal(v, got):
                    t = k + 1
                    break
            if t == 0 and len(self.notes) < 4:
                self.notes.append(f"{where}[{j}]: read back {V.describe(got)}, equal to none of the values of the history")
            out.append(t)
        return out

    def from_disk(self, tag):
        from pennylane.data import Dataset
        p = str(self.dir / f"save_{tag}.h5")
        self.ds.write(p, "w")
        cp = Dataset.open(p, "copy")
        try:
            return self.tokens(list(cp.a), "disk")
        finally:
            cp.close()

    def call(self, e, step):
        """-> tokens returned by the call"""
        from pennylane.data import Dataset
        act, i = e["act"], e["i"]
        lst = self.ds.a
        if act == "Get":
            return self.tokens([lst[i]], f"a[{i}]")
        if act == "GetAll":
            return self.tokens(list(lst), "list(a)")
        if act == "Save":
            return self.from_disk(step)
        if act == "Reopen":
            self.ds.close()
            self.ds = Dataset.open(str(self.dir / "p.h5"), "a")
        elif act == "Insert":
            lst.insert(i, self.vals[e["v"] - 1])
        elif act == "Append":
            lst.append(self.vals[e["v"] - 1])
        elif act == "Del":
            del lst[i]
        elif act == "SetItem":
            lst[i] = self.vals[e["v"] - 1]
        else:  # pragma: no cover
            raise RuntimeError(f"unknown list action {act}")
        return []

    def run(self):
        from pennylane.data import Dataset
        job = self.job
        steps, final = [], {}
        try:
            self.ds = Dataset() if job["loc"] == "mem" else Dataset.open(str(self.dir / "p.h5"), "w")
            self.ds.a = [self.vals[k] for k in range(job["start"])]
            for n, e in enumerate(job["hist"]):
                exc, ret = "", []
                try:
                    ret = self.call(e, n)
                except Exception as ex:
                    exc = type(ex).__name__
                    if len(self.notes) < 4 and not e["err"]:
                        self.notes.append(f"{e['act']}({e['i']}) raised {exc}: {str(ex)[:160]}")
                try:
                    ln = len(self.ds.a)
                except Exception:  # pragma: no cover
                    ln = -1
                steps.append({"ret": ret, "len": ln, "exc": exc})
            for name, fn in (("live", lambda: self.tokens(list(self.ds.a), "final live")),
                             ("fresh", lambda: self.tokens(list(Dataset(self.ds.bind).a), "final fresh wrapper")),
                             ("disk", lambda: self.from_disk("final"))):
                try:
                    final[name] = fn()
                except Exception as ex:
                    final[name] = [-1]
                    if len(self.notes) < 4:
                        self.notes.append(f"final {name} read raised {type(ex).__name__}: {str(ex)[:160]}")
        finally:
            try:
                if self.ds is not None and self.ds.bind:
                    self.ds.close()
            except Exception:  # pragma: no cover
                pass
            self.ds = None
            shutil.rmtree(self.dir, ignore_errors=True)
        return steps, final


def compare(job, steps, final):
    """the comparator: observed calls against the TLC-emitted expectation -> (step (1-based; len+1 = final), act, clause) | None"""
    for n, (e, o) in enumerate(zip(job["hist"], steps)):
        if o["exc"] != e["err"]:
            return n + 1, e["act"], (f"raised-{o['exc']}" if o["exc"] else f"did-not-raise-{e['err']}")
        if o["ret"] != list(e["ret"]):
            return n + 1, e["act"], "returned-wrong-element"
        if o["len"] != e["len"]:
            return n + 1, e["act"], "length"
    want = list(job["final"])
    k = len(job["hist"]) + 1
    if final["live"] != want:
        return k, "final", ("live-list-shows-stale-element" if final["fresh"] == want else "live-list-content")
    if final["fresh"] != want:
        return k, "final", "storage-content"
    if final["disk"] != want:
        return k, "final", "written-copy-content"
    return None


def run_chunk(args):
    jobs, root = args
    import pennylane as qp
    out = []
    with qp.queuing.QueuingManager.stop_recording():
        for j in jobs:
            r = ListRunner(j, Path(root))
            steps, final = r.run()
            out.append({"id": j["id"], "steps": steps, "final": final, "notes": r.notes, "values": r.valnames})
    return out


def execute(jobs, root, nproc):
    tasks = [(jobs[i:i + 40], root) for i in range(0, len(jobs), 40)]
    out = {}
    if nproc <= 1:
        for t in tasks:
            for r in run_chunk(t):
                out[r["id"]] = r
        return out
    import gc
    import multiprocessing as mp
    V.pools()
    gc.collect()
    gc.freeze()
    with mp.get_context("fork").Pool(nproc) as pool:
        for res in pool.imap_unordered(run_chunk, tasks):
            for r in res:
                out[r["id"]] = r
    gc.unfreeze()
    return out


def short(job, upto=None):
    out = [f"d=Dataset{'()' if job['loc'] == 'mem' else '.open(p,w)'}; d.a=[v1..v{job['start']}]"]
    for e in job["hist"][:upto]:
        a, i, v = e["act"], e["i"], e["v"]
        out.append({"Get": f"d.a[{i}]", "GetAll": "list(d.a)", "Save": "d.write(q,'w');open(q,'copy')", "Reopen": "d.close();d=open(p,'a')",
                    "Insert": f"d.a.insert({i},v{v})", "Append": f"d.a.append(v{v})", "Del": f"del d.a[{i}]",
                    "SetItem": f"d.a[{i}]=v{v}"}[a])
    return out
