"""Shared machinery for C57 (state-preparation templates) and C58 (block-encoding / oracle / algorithm templates):
expansion of a template's decomposition into reference-table gate records (exact where every angle is on the lattice,
float records for the bridge otherwise), decomposition sources (op.decomposition() and the registered rules), the
default.qubit primitive path, and TLC-side target generation (short Clifford+T circuits evaluated exactly)."""
from __future__ import annotations

import random

import numpy as np

import pennylane as qp

from . import bridge, lib, rel
from .codec import OffLattice, encode_op, rec


class Skip(Exception):
    pass


MAT_OPS = ("QubitUnitary", "DiagonalQubitUnitary", "BlockEncode")


def _float_mat_record(o, wpos):
    w = [wpos[x] for x in o.wires]
    return dict(rec("MAT", w), fm=np.asarray(qp.matrix(o), dtype=complex))


def flatten2(ops, wpos, M, depth=0, dyn=None):
    """-> (records | None, float records, info).  Non-table operators are expanded with their own decomposition();
    matrix-data operators with entries outside the level-3 ring become float MAT records (bridge only).
    wpos is extended with dynamically allocated wires (Allocate)."""
    from .checks.c17 import _float_record
    recs, exact, flt, info = [], True, [], {"expanded": 0, "names": set()}
    dyn = {} if dyn is None else dyn
    for o in ops:
        nm = o.name
        if nm == "Allocate":
            for w in o.wires:
                wpos[w] = len(wpos) + 1
                dyn[w] = (str(o.hyperparameters.get("state", "zero")), bool(o.hyperparameters.get("restored", False)))
            continue
        if nm in ("Deallocate", "Barrier", "Snapshot"):
            continue
        if nm in ("MidMeasure", "MidMeasureMP", "Conditional", "PauliMeasure") or type(o).__name__ in (
                "Conditional", "MidMeasure", "PauliMeasure", "MidMeasureMP"):
            raise Skip("contains measurement")
        try:
            r = encode_op(o, wpos, M)
            if r is not None:
                recs.append(r)
                flt.append(r)
            continue
        except OffLattice as e:
            msg = str(e)
        except (KeyError, AttributeError, TypeError):
            msg = "no table entry"
        if nm in MAT_OPS and "matrix entry" in msg:
            exact = False
            flt.append(_float_mat_record(o, wpos))
            continue
        if "no table entry" in msg or "matrix entry" in msg or "power" in msg or "non-scalar" in msg:
            if depth > 10:
                raise Skip("expansion too deep")
            try:
                sub = o.decomposition()
            except Exception as e:
                raise Skip(f"cannot expand {nm}: {type(e).__name__}")
            info["names"].add(nm.split("(")[0] if not nm.startswith(("Adjoint(", "C(", "Pow(")) else nm.split("(")[0] + "(..)")
            r2, f2, i2 = flatten2(sub, wpos, M, depth + 1, dyn)
            info["expanded"] += 1 + i2["expanded"]
            info["names"] |= i2["names"]
            if r2 is None:
                exact = False
            else:
                recs += r2
            flt += f2
        else:
            exact = False
            try:
                flt.append(_float_record(o, wpos))
            except OffLattice:
                # an off-lattice operator that is not in the bridge table either: expand it
                try:
                    sub = o.decomposition()
                except Exception as e:
                    raise Skip(f"no bridge entry for {nm}")
                r2, f2, i2 = flatten2(sub, wpos, M, depth + 1, dyn)
                info["expanded"] += 1 + i2["expanded"]
                info["names"] |= i2["names"]
                flt += f2
    info["dyn"] = dyn
    return (recs if exact else None), flt, info


def decomposition_sources(op):
    """[(source name, [operators])]: op.decomposition() and every registered rule that reports itself applicable.
    A source that raises is returned as (name, exception)."""
    from pennylane.decomposition import list_decomps
    from .decomp import emitted_ops
    from pennylane.decomposition.utils import _get_decomp_args
    out = []
    try:
        out.append(("decomposition()", list(op.decomposition())))
    except Exception as e:           # DecompositionUndefinedError is legitimate: the operator may only have rules
        if type(e).__name__ != "DecompositionUndefinedError":
            out.append(("decomposition()", e))
    try:
        rules = list_decomps(op)
        rp = _get_decomp_args(op)[0]
    except Exception:
        rules, rp = [], {}
    for rule in rules:
        try:
            ok = rule.is_applicable(**rp)
        except Exception:
            ok = False
        if not ok:
            continue
        try:
            ops, _ = emitted_ops(op, rule)
            out.append((f"rule:{rule.name}", ops))
        except Exception as e:
            out.append((f"rule:{rule.name}", e))
    return out


def bridge_state(flt, n, M):
    """state of the float circuit on |0..0> (numpy evaluator, not PennyLane)."""
    U = np.zeros((1 << n, 1), dtype=complex)
    U[0, 0] = 1.0
    for it in flt:
        r, fp, fm = it, it.get("fp"), it.get("fm")
        U = bridge.apply(U, bridge.gate_matrix(r, M, fp, fm), r["w"], n)
    return U[:, 0]


def bridge_unitary(flt, n, M, cols=None):
    D = 1 << n
    if cols:
        U = np.zeros((D, len(cols)), dtype=complex)
        for j, c in enumerate(cols):
            U[c, j] = 1.0
    else:
        U = np.eye(D, dtype=complex)
    for it in flt:
        r, fp, fm = it, it.get("fp"), it.get("fm")
        U = bridge.apply(U, bridge.gate_matrix(r, M, fp, fm), r["w"], n)
    return U


def device_state(op, wires, n_extra=0):
    """state prepared by the operator as a device primitive / through the device's own preprocessing (default.qubit);
    n_extra spare device wires (appended, least significant) serve dynamic allocation."""
    dev = qp.device("default.qubit", wires=list(wires) + [f"_spare{i}" for i in range(n_extra)])

    @qp.qnode(dev)
    def circ():
        qp.apply(op)
        return qp.state()
    return np.asarray(circ(), dtype=complex)


def equal_up_to_phase_vec(a, b, tol):
    a, b = np.asarray(a).ravel(), np.asarray(b).ravel()
    if a.shape != b.shape:
        return False
    i = int(np.argmax(np.abs(b)))
    if abs(a[i]) < 1e-9:
        return False
    ph = a[i] / b[i]
    return abs(abs(ph) - 1) < 1e-6 and np.allclose(a, ph * b, atol=tol, rtol=0)


# ------------------------------------------------------------------------------------- TLC-generated exact targets
G1 = ["Hadamard", "S", "T", "PauliX", "PauliZ", "PauliY"]
G2 = ["CNOT", "CZ"]


def g(name, *w, p=(), mods=()):
    return rec(name, list(w), list(p), mods=list(mods))


def random_clifford_t(rng: random.Random, k, depth):
    c = [g("Hadamard", w) for w in range(1, k + 1) if rng.random() < 0.7]
    for _ in range(depth):
        if k >= 2 and rng.random() < 0.4:
            a, b = rng.sample(range(1, k + 1), 2)
            c.append(g(rng.choice(G2), a, b))
        else:
            c.append(g(rng.choice(G1), rng.randint(1, k)))
    return c


def lift(mat, m_from, m_to):
    """re-index a ring matrix from level m_from to the finer level m_to (zeta_from = zeta_to^(2^(m_to-m_from))): exact."""
    if m_from == m_to:
        return mat
    step, H = 1 << (m_to - m_from), 1 << (m_to - 1)
    rows = []
    for row in mat["e"]:
        rr = []
        for c in row:
            v = [0] * H
            for i, x in enumerate(c):
                v[i * step] = x
            rr.append(v)
        rows.append(rr)
    return {"k": mat["k"], "e": rows}


def exact_targets(pid, items, m_run, m_out, name="targets"):
    """items: [(k, [gate records], "state" | "unitary")] -> ([ring matrices at level m_out], [numpy arrays], stats).
    One TLC run (CircuitEq.tla, 'emit'): TLC evaluates every circuit exactly at level m_run and prints U|0> (column 0 only)
    or the whole U; the ring values are only re-indexed to level m_out before they are fed back to the trace specs."""
    cases = [{"n": k, "a": c, "cs": [0] if what == "state" else [], "bs": [{"b": [], "rel": "emit"}]} for k, c, what in items]
    _, emitted, st = rel.validate(pid, cases, m_run, name=name)
    ring = [lift(emitted[i], m_run, m_out) for i in range(len(items))]
    flt = []
    for (k, c, what), u in zip(items, ring):
        a = lib.ring_matrix_to_numpy(u, m_out)
        flt.append(a[:, 0] if what == "state" else a)
    return ring, flt, st
