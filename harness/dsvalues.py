"""C64 helper: the finite grammar of dataset attribute values (instances per leaf class), construction of a
python value from a TLC-emitted term, and per-type equality of a written value and the value read back.

The comparison never uses pennylane.data; for operators it compares class, wires, parameters, sub-operators and
(for small operators) the matrix, not `qp.equal`."""
from __future__ import annotations

import numbers
from collections.abc import Mapping, Sequence

import numpy as np
import scipy.sparse as sp

import pennylane as qp
from pennylane import numpy as pnp

_POOLS = None


def pools():
    """leaf class -> list of (name, value).  Built once per process."""
    global _POOLS
    if _POOLS is not None:
        return _POOLS
    rs = np.random.RandomState(1234)
    with qp.queuing.QueuingManager.stop_recording():
        P = {
            "scalar": [("int", 3), ("negint", -7), ("zero", 0), ("float", 0.25), ("tiny", -1e-300), ("complex", 1.5 - 2j),
                       ("true", True), ("false", False), ("npint32", np.int32(4)), ("npfloat32", np.float32(0.5)),
                       ("big", 2 ** 62), ("npcomplex64", np.complex64(1j)), ("inf", float("inf")), ("npuint8", np.uint8(200))],
            "str": [("hello", "hello"), ("empty", ""), ("unicode", "Zürich ψ ⊗ 量子"), ("newline", "a\nb\tc"), ("lead", "  x "),
                    ("long", "0123456789" * 80), ("digits", "42")],
            "none": [("none", None)],
            "array": [("i2x3", np.arange(6).reshape(2, 3)), ("c1", np.array([1 + 2j, 3j])), ("empty0x2", np.zeros((0, 2))),
                      ("bool", np.array([True, False, True])), ("f32", np.array([1.5, 2.5], dtype=np.float32)),
                      ("zerod", np.array(2.0)), ("i8", np.array([[1], [-2]], dtype=np.int8)),
                      ("rand50x3", rs.standard_normal((50, 3))), ("c3d", (rs.standard_normal((2, 2, 2)) + 1j).astype(np.complex64)),
                      ("tensor", pnp.array([0.1, 0.2], requires_grad=False)), ("tensor_train", pnp.array([[0.1], [0.2]], requires_grad=True)),
                      ("u64", np.array([2 ** 63 + 5], dtype=np.uint64))],
            "sparse": [("csr_array", sp.csr_array(np.array([[0, 1.5], [2, 0]]))), ("csc_matrix", sp.csc_matrix(np.eye(3))),
                       ("coo_complex", sp.coo_array(np.array([[0, 1j], [0, 0]]))), ("zero_csr_matrix", sp.csr_matrix((2, 3))),
                       ("bsr", sp.bsr_array(np.kron(np.eye(2), np.ones((2, 2))))), ("dia", sp.dia_matrix(np.diag([1.0, 2.0, 3.0]))),
                       ("lil", sp.lil_array(np.array([[0, 0, 3], [4, 0, 0]]))), ("dok", sp.dok_matrix(np.array([[0, 7], [0, 0]]))),
                       ("rect_int", sp.csr_array(np.array([[1, 0, 0, 2]], dtype=np.int64))),
                       ("rand", sp.random(8, 6, density=0.3, random_state=rs, format="csc"))],
            "op": [("RX", qp.RX(0.5, wires=0)), ("CNOT_str", qp.CNOT(["a", 1])), ("Rot", qp.Rot(0.1, 0.2, 0.3, wires="q")),
                   ("H", qp.Hadamard(2)), ("QubitUnitary", qp.QubitUnitary(np.array([[0, 1], [1, 0]]), wires=0)),
                   ("Adjoint", qp.adjoint(qp.S(0))), ("CRY", qp.ctrl(qp.RY(0.3, 1), control=0)), ("Pow", qp.pow(qp.T(0), 2)),
                   ("Exp", qp.exp(qp.X(0), 0.5j)), ("Prod", qp.X(0) @ qp.Z(1)), ("Sum", qp.X(0) + 2.0 * qp.Y(1)),
                   ("SProd", 3.0 * qp.Z(0)), ("MultiRZ", qp.MultiRZ(0.3, wires=[0, 1, 2])),
                   ("BasisState", qp.BasisState(np.array([1, 0]), wires=[0, 1])), ("PauliRot", qp.PauliRot(0.2, "XY", wires=[0, 1])),
                   ("Toffoli", qp.Toffoli([2, 0, 1])), ("Projector", qp.Projector(np.array([1, 0]), wires=[0, 1])),
                   ("Hermitian", qp.Hermitian(np.array([[1, 1j], [-1j, 2]]), wires="w")),
                   ("Controlled", qp.ctrl(qp.Rot(0.1, 0.2, 0.3, wires=3), control=[0, 1], control_values=[0, 1])),
                   ("U3", qp.U3(0.1, -0.2, 0.3, wires=5)), ("IsingXX", qp.IsingXX(-0.7, wires=[1, 0])),
                   ("DoubleExcitation", qp.DoubleExcitation(0.4, wires=[0, 1, 2, 3])), ("Identity", qp.Identity(wires=[0, 1]))],
            "ham": [("Hamiltonian", qp.Hamiltonian([0.5, -1.2], [qp.Z(0) @ qp.X(1), qp.Y(2)])),
                    ("LinearCombination", qp.ops.LinearCombination([1.0, 2.0], [qp.X(0), qp.Z(0)])),
                    ("ham_str_wires", qp.Hamiltonian([0.25], [qp.Z("a") @ qp.Z("b")])),
                    ("ham_identity", qp.Hamiltonian([1.0, -0.5, 0.125], [qp.Identity(0), qp.Z(0), qp.X(0) @ qp.Y(1) @ qp.Z(2)])),
                    ("ham_complex", qp.Hamiltonian(np.array([1.0 + 0j, 2.0j]), [qp.X(0), qp.Y(1)])),
                    ("ham_h2", qp.Hamiltonian([-0.04, 0.17, -0.22, 0.12, 0.16], [qp.Identity(0), qp.Z(0), qp.Z(2), qp.Z(0) @ qp.Z(1),
                                                                               qp.Y(0) @ qp.X(1) @ qp.X(2) @ qp.Y(3)]))],
            "mol": [("H2", qp.qchem.Molecule(["H", "H"], np.array([[0.0, 0, 0], [0, 0, 1.4]]))),
                    ("H3p", qp.qchem.Molecule(["H", "H", "H"], np.array([[0.0, 0, 0], [0, 0, 1.8], [0, 1.6, 0.9]]), charge=1)),
                    ("HeH_631g", qp.qchem.Molecule(["He", "H"], np.array([[0.0, 0, 0], [0, 0, 1.5]]), charge=1, basis_name="6-31g"))],
            "pytree": [("expval", qp.expval(qp.Z(0))), ("probs", qp.probs(wires=[0, 1])), ("var", qp.var(qp.X(0) @ qp.Y(1))),
                       ("tape", qp.tape.QuantumScript([qp.RX(0.1, 0), qp.CNOT([0, 1])], [qp.expval(qp.Z(1))], shots=100)),
                       ("tape_noshots", qp.tape.QuantumScript([qp.Rot(0.1, 0.2, 0.3, "a")], [qp.probs(wires=["a"]), qp.expval(qp.X("a"))])),
                       ("sample", qp.sample(wires=[1, 0])), ("state", qp.state())],
        }
    _POOLS = P
    return P


CLASSES = ("scalar", "str", "none", "array", "sparse", "op", "ham", "mol", "pytree")
CHEAP = ("scalar", "str", "none", "array")


def build(term, rng, names=None):
    """TLC term {"k": kind, "ch": [...]} -> python value.  Leaves pick an instance of their class with `rng`."""
    k = term["k"]
    if k in ("list", "tuple", "dict"):
        ch = [build(c, rng, names) for c in term["ch"]]
        if k == "list":
            return ch
        if k == "tuple":
            return tuple(ch)
        return {f"k{i}": c for i, c in enumerate(ch)}
    pool = pools()[k]
    name, v = pool[rng.randrange(len(pool))]
    if names is not None:
        names.append(f"{k}/{name}")
    return v


def leaf(kind, name):
    for nm, v in pools()[kind]:
        if nm == name:
            return v
    raise KeyError((kind, name))


# ----------------------------------------------------------------------------------------- equality per type
def _is_num(x):
    return isinstance(x, (numbers.Number, np.generic)) and not isinstance(x, (str, bytes))


def _arr_eq(w, g):
    w, g = np.asarray(w), np.asarray(g)
    if w.shape != g.shape:
        return False
    if w.dtype.kind in "fc" or g.dtype.kind in "fc":
        return bool(np.array_equal(w, g, equal_nan=True))
    return bool(np.array_equal(w, g))


def _hyper_sig(op):
    out = []
    for k, v in sorted(getattr(op, "hyperparameters", {}).items()):
        if isinstance(v, (str, int, float, bool, type(None))):
            out.append((k, v))
        elif isinstance(v, (list, tuple)) and all(isinstance(x, (str, int, float, bool)) for x in v):
            out.append((k, tuple(v)))
    return out


def _subops(op):
    subs = []
    if isinstance(op, qp.ops.LinearCombination):
        cs, os_ = op.terms()
        return list(os_), [np.asarray(c) for c in cs]
    if hasattr(op, "operands"):
        subs = list(op.operands)
    elif hasattr(op, "base") and isinstance(getattr(op, "base"), qp.operation.Operator):
        subs = [op.base]
    extra = []
    for nm in ("scalar", "z", "coeff"):
        if hasattr(op, nm):
            try:
                extra.append(np.asarray(getattr(op, nm)))
            except Exception:  # pragma: no cover
                pass
    return subs, extra


def op_equal(w, g, depth=0):
    if type(w).__name__ != type(g).__name__ or not isinstance(g, qp.operation.Operator):
        return False
    if w.wires.tolist() != g.wires.tolist():
        return False
    if len(w.data) != len(g.data) or not all(_arr_eq(a, b) for a, b in zip(w.data, g.data)):
        return False
    if _hyper_sig(w) != _hyper_sig(g):
        return False
    sw, ew = _subops(w)
    sg, eg = _subops(g)
    if len(sw) != len(sg) or len(ew) != len(eg):
        return False
    if not all(_arr_eq(a, b) for a, b in zip(ew, eg)):
        return False
    if not all(op_equal(a, b, depth + 1) for a, b in zip(sw, sg)):
        return False
    if depth == 0 and len(w.wires) <= 3:
        try:
            mw = qp.matrix(w, wire_order=w.wires.tolist())
        except Exception:
            mw = None
        if mw is not None:
            try:
                mg = qp.matrix(g, wire_order=w.wires.tolist())
            except Exception:
                return False
            if not np.allclose(mw, mg, atol=1e-12):
                return False
    return True


def mp_equal(w, g):
    if type(w).__name__ != type(g).__name__:
        return False
    if (w.obs is None) != (g.obs is None):
        return False
    if w.obs is not None and not op_equal(w.obs, g.obs):
        return False
    if w.wires.tolist() != g.wires.tolist():
        return False
    ew, eg = getattr(w, "_eigvals", None), getattr(g, "_eigvals", None)
    if (ew is None) != (eg is None) or (ew is not None and not _arr_eq(ew, eg)):
        return False
    return True


def tape_equal(w, g):
    if not isinstance(g, qp.tape.QuantumScript):
        return False
    if len(w.operations) != len(g.operations) or len(w.measurements) != len(g.measurements):
        return False
    if not all(op_equal(a, b) for a, b in zip(w.operations, g.operations)):
        return False
    if not all(mp_equal(a, b) for a, b in zip(w.measurements, g.measurements)):
        return False
    return w.shots.shot_vector == g.shots.shot_vector and w.shots.total_shots == g.shots.total_shots


_MOL_FIELDS = ("symbols", "coordinates", "charge", "mult", "basis_name", "l", "alpha", "coeff", "n_electrons", "nuclear_charges")


def mol_equal(w, g):
    if not isinstance(g, qp.qchem.Molecule):
        return False
    return all(equal(getattr(w, f), getattr(g, f), lists_as_seq=True) for f in _MOL_FIELDS)


def equal(w, g, lists_as_seq=False):
    """Is the value `g` read back equal to the written value `w`?  Per type; container kinds are kept
    (a list reads back as a sequence that is not a tuple, a tuple as a tuple, a dict as a mapping)."""
    try:
        return _equal(w, g, lists_as_seq)
    except Exception:
        return False


def _equal(w, g, las):
    if w is None:
        return g is None
    if isinstance(w, str):
        return isinstance(g, str) and g == w
    if isinstance(w, qp.qchem.Molecule):
        return mol_equal(w, g)
    if isinstance(w, qp.tape.QuantumScript):
        return tape_equal(w, g)
    if isinstance(w, qp.measurements.MeasurementProcess):
        return isinstance(g, qp.measurements.MeasurementProcess) and mp_equal(w, g)
    if isinstance(w, qp.operation.Operator):
        return op_equal(w, g)
    if sp.issparse(w):
        if not sp.issparse(g) or w.shape != g.shape:
            return False
        return (sp.csr_array(w) != sp.csr_array(g)).nnz == 0
    if isinstance(w, np.ndarray):
        return isinstance(g, np.ndarray) and _arr_eq(w, g)
    if _is_num(w):
        if not _is_num(g) or np.ndim(g) != 0:
            return False
        return bool(w == g) or (w != w and g != g)
    if isinstance(w, tuple):
        if not (isinstance(g, tuple) or (las and isinstance(g, Sequence) and not isinstance(g, str))):
            return False
        return len(w) == len(g) and all(_equal(a, b, las) for a, b in zip(w, g))
    if isinstance(w, Mapping):
        if not isinstance(g, Mapping) or set(w.keys()) != set(g.keys()):
            return False
        return all(_equal(w[k], g[k], las) for k in w)
    if isinstance(w, Sequence):
        if isinstance(g, (str, bytes)) or not isinstance(g, (Sequence, np.ndarray)):
            return False
        if isinstance(g, tuple) and not las:
            return False
        if isinstance(g, np.ndarray) and not las:
            return False
        return len(w) == len(g) and all(_equal(a, b, las) for a, b in zip(w, g))
    raise TypeError(f"no comparison for {type(w)}")


def fidelity_notes(w, g):
    """Differences that `equal` tolerates (reported as drift, never as a violation): numeric kind, dtype,
    sparse class, requires_grad."""
    notes = []
    try:
        if _is_num(w) and _is_num(g) and np.asarray(w).dtype.kind != np.asarray(g).dtype.kind:
            notes.append("scalar-kind")
        if isinstance(w, np.ndarray) and isinstance(g, np.ndarray):
            if w.dtype != g.dtype:
                notes.append("array-dtype")
            if getattr(w, "requires_grad", None) != getattr(g, "requires_grad", None):
                notes.append("requires-grad")
        if sp.issparse(w) and sp.issparse(g) and type(w) is not type(g):
            notes.append("sparse-class")
    except Exception:  # pragma: no cover
        pass
    return notes


def describe(v):
    try:
        s = repr(v)
    except Exception:  # pragma: no cover
        s = f"<{type(v).__name__}>"
    s = " ".join(s.split())
    return f"{type(v).__name__}:{s[:120]}"
