"""Registry of claimed properties -> MANIFEST.json (tools/gen_manifest.py).  One entry per built check."""
CHECKS = {
 "C02": dict(level="model_checking", design_ref="8/C02", technique="TLC-generated exact reference table (Gates.tla, unitarity model-checked) replayed into qp.matrix",
   text="TLC enumerates every named gate over the whole angle lattice (theta = a*4pi/2^M), computes the documented matrix exactly in Z[zeta_N][1/2], "
        "proves it unitary, and the driver replays every instance into PennyLane (qp.matrix, op.matrix, broadcast kernel, reversed wire listing). "
        "Exhaustive inside the lattice; the lattice over-determines the degree-1 trigonometric entries.",
   note="Reference table transcribed by hand from the docstrings (spec/ir/Gates.tla); floats compared at 1e-8; real angles off the lattice are covered by the trigonometric-polynomial argument only."),
 "C17": dict(level="model_checking", design_ref="8/C17", technique="relational trace validation: TLC recomputes exact unitaries of recorded pass inputs/outputs (CircuitEq.tla)",
   text="Each pass is a relational action ApplyPass(in,out) enabled iff U(out) = U(in) up to phase; the driver records real pass inputs/outputs on generated circuits "
        "and TLC decides the relation exactly in the cyclotomic ring; any exception on a valid circuit is a violation. Off-lattice outputs (fusion) are compared numerically against TLC's exact input unitary.",
   note="Angles on the lattice 4pi/16; passes covered so far: cancel_inverses, merge_rotations, commute_controlled, undo_swaps, remove_barrier, combine_global_phases, single_qubit_fusion, compile; bridged comparisons at 1e-6."),
}
NOT_APPLICABLE = {
 "C48": "relational statement between four floating-point array back-ends: no abstract state or transition, the only oracle is another interface (differential testing, a different family)",
 "C62": "numerical quadrature / SCF / FCI compared with a second numerical code; nothing lives in an exact domain a TLA+ specification can hold",
 "C63": "agreement of an adaptive ODE integrator with the Schroedinger equation; only the constant-Pauli corner is exact and it is already C02's PauliRot",
}
