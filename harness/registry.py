"""Registry of claimed properties -> MANIFEST.json (tools/gen_manifest.py).
One JSON file per built check in harness/registry.d/<ID>.json with keys level, design_ref, technique, text, note."""
import json
from pathlib import Path

# a check is claimed in MANIFEST.json only once the lead has accepted it: its id is listed in harness/ready.txt
READY = set((Path(__file__).parent / "ready.txt").read_text().split())
CHECKS = {p.stem: json.loads(p.read_text()) for p in sorted((Path(__file__).parent / "registry.d").glob("C*.json")) if p.stem in READY}
NOT_APPLICABLE = {
 "C48": "relational statement between four floating-point array back-ends: no abstract state or transition, the only oracle is another interface (differential testing, a different family)",
 "C62": "numerical quadrature / SCF / FCI compared with a second numerical code; nothing lives in an exact domain a TLA+ specification can hold",
 "C63": "agreement of an adaptive ODE integrator with the Schroedinger equation; only the constant-Pauli corner is exact and it is already C02's PauliRot",
}
