"""One codec for both binding directions: PennyLane object <-> the spec's gate records (Gates.tla).

gate record: {"g": name, "w": [1-based wire positions], "p": [lattice ints], "x": [ints],
              "m": [] | {"k": int, "e": rows of coefficient tuples}, "mods": [{"t": "adj"}|{"t":"pow","z":int}|{"t":"ctrl","cv":[..]}]}
Angles: theta = a * 4*pi / 2**M.  `encode_op` is total: it raises OffLattice with a reason when the
object has no exact image at level M (the caller routes the case to the float bridge and counts it).
"""
from __future__ import annotations

import math

import numpy as np

import pennylane as qp

from .lib import angle_of, to_lattice


class OffLattice(Exception):
    pass


ONE_PARAM = ["RX", "RY", "RZ", "PhaseShift", "U1", "CRX", "CRY", "CRZ", "ControlledPhaseShift",
             "CPhaseShift00", "CPhaseShift01", "CPhaseShift10", "IsingXX", "IsingYY", "IsingZZ", "IsingXY", "PSWAP",
             "SingleExcitation", "SingleExcitationPlus", "SingleExcitationMinus", "FermionicSWAP",
             "DoubleExcitation", "DoubleExcitationPlus", "DoubleExcitationMinus", "GlobalPhase", "MultiRZ", "PauliRot"]
NO_PARAM = ["Identity", "PauliX", "PauliY", "PauliZ", "Hadamard", "S", "T", "SX", "CNOT", "CY", "CZ", "CH", "SWAP", "ISWAP",
            "SISWAP", "ECR", "Toffoli", "CCZ", "CSWAP", "QubitSum", "QubitCarry"]
MULTI_PARAM = {"Rot": 3, "U2": 2, "U3": 3, "CRot": 3}
ARITY = {"Identity": 1, "PauliX": 1, "PauliY": 1, "PauliZ": 1, "Hadamard": 1, "S": 1, "T": 1, "SX": 1, "RX": 1, "RY": 1, "RZ": 1,
         "PhaseShift": 1, "U1": 1, "Rot": 1, "U2": 1, "U3": 1, "GlobalPhase": 1,
         "CNOT": 2, "CY": 2, "CZ": 2, "CH": 2, "SWAP": 2, "ISWAP": 2, "SISWAP": 2, "ECR": 2, "CRX": 2, "CRY": 2, "CRZ": 2,
         "CRot": 2, "ControlledPhaseShift": 2, "CPhaseShift00": 2, "CPhaseShift01": 2, "CPhaseShift10": 2,
         "IsingXX": 2, "IsingYY": 2, "IsingZZ": 2, "IsingXY": 2, "PSWAP": 2, "SingleExcitation": 2,
         "SingleExcitationPlus": 2, "SingleExcitationMinus": 2, "FermionicSWAP": 2,
         "Toffoli": 3, "CCZ": 3, "CSWAP": 3, "QubitSum": 3, "QubitCarry": 4,
         "DoubleExcitation": 4, "DoubleExcitationPlus": 4, "DoubleExcitationMinus": 4}
KNOWN = set(ONE_PARAM) | set(NO_PARAM) | set(MULTI_PARAM) | {"QFT", "MultiControlledX", "SQISW", "CPhase"}
PW = {"I": 0, "X": 1, "Y": 2, "Z": 3}
PWI = "IXYZ"


def rec(g, w, p=(), x=(), m=None, mods=()):
    return {"g": g, "w": list(w), "p": list(p), "x": list(x), "m": m if m is not None else [], "mods": list(mods)}


def _lat(theta, M):
    t = qp.math.unwrap([theta])[0] if not isinstance(theta, (int, float)) else theta
    try:
        t = float(np.real(t))
    except Exception as e:
        raise OffLattice(f"non-scalar parameter {theta!r}") from e
    a = to_lattice(t, M)
    if a is None:
        raise OffLattice(f"angle {t} not on lattice M={M}")
    return int(a)


def ring_round_M3(z: complex, tol=1e-9, B=64):
    """Round a complex number to Z[zeta_8]/2^k (k<=6) when (and only when) a unique candidate exists within tol.
    Used only for level-3-representable matrix data (see DESIGN 5.1); returns (coeffs, k) or None."""
    # z = (a + b*w + c*w^2 + d*w^3)/2^k with w = e^{i pi/4}: Re = (a + (b-d)/sqrt2)/2^k, Im = (c + (b+d)/sqrt2)/2^k
    s2 = math.sqrt(2.0)
    for k in range(0, 7):
        re, im = z.real * (1 << k), z.imag * (1 << k)
        sol = []
        for q in range(-2 * B, 2 * B + 1):      # q = b-d
            p = re - q / s2
            if abs(p - round(p)) < tol * (1 << k):
                sol.append((round(p), q))
        if not sol:
            continue
        sol2 = []
        for q2 in range(-2 * B, 2 * B + 1):     # q2 = b+d
            p = im - q2 / s2
            if abs(p - round(p)) < tol * (1 << k):
                sol2.append((round(p), q2))
        for (a, q) in sol:
            for (c, q2) in sol2:
                if (q + q2) % 2 == 0:
                    b, d = (q + q2) // 2, (q2 - q) // 2
                    if max(abs(a), abs(b), abs(c), abs(d)) <= B:
                        return [a, b, c, d], k
    return None


def matrix_to_ring(mat, M):
    """Exact ring image of a numeric matrix whose entries are Clifford+T-ring numbers (level 3), lifted to level M."""
    if M < 3:
        raise OffLattice("matrix data need M >= 3")
    mat = np.asarray(mat, dtype=complex)
    ents, kmax = [], 0
    for row in mat:
        r = []
        for z in row:
            rr = ring_round_M3(complex(z))
            if rr is None:
                raise OffLattice("matrix entry not in D[omega] within bounds")
            r.append(rr)
            kmax = max(kmax, rr[1])
        ents.append(r)
    step = (1 << M) // 8
    H = (1 << M) // 2
    rows = []
    for r in ents:
        rr = []
        for (c4, k) in r:
            v = [0] * H
            for i, c in enumerate(c4):
                v[i * step] = c * (1 << (kmax - k))
            rr.append(v)
        rows.append(rr)
    return {"k": kmax, "e": rows}


def is_pow(op):
    # Pow / Pow2: the name is "Pow(base)" or "<base name>**z" (so a power of an adjoint starts with "Adjoint(")
    return hasattr(op, "base") and hasattr(op, "z") and (op.name.startswith("Pow(") or "**" in op.name)


def is_adjoint(op):
    return op.name.startswith("Adjoint(") and hasattr(op, "base") and not is_pow(op)


def is_ctrl(op):
    return hasattr(op, "control_wires") and hasattr(op, "base") and hasattr(op, "control_values") and (
        op.name.startswith("C(") or type(op).__name__ in ("Controlled", "ControlledOp", "ControlledOp2", "ControlledQubitUnitary"))


def encode_op(op, wpos: dict, M: int):
    """-> gate record.  wpos maps wire label -> 1-based position."""
    name = op.name
    if is_adjoint(op):
        r = encode_op(op.base, wpos, M)
        r["mods"] = r["mods"] + [{"t": "adj"}]
        return r
    if is_pow(op):
        z = op.z
        if not (isinstance(z, (int, np.integer)) or (isinstance(z, float) and float(z).is_integer())):
            raise OffLattice(f"non-integer power {z}")
        r = encode_op(op.base, wpos, M)
        r["mods"] = r["mods"] + [{"t": "pow", "z": int(z)}]
        return r
    if is_ctrl(op) and name not in KNOWN:
        r = encode_op(op.base, wpos, M)
        cv = [int(bool(v)) for v in op.control_values]
        r["w"] = [wpos[w] for w in op.control_wires] + r["w"]
        r["mods"] = r["mods"] + [{"t": "ctrl", "cv": cv}]
        return r
    w = [wpos[x] for x in op.wires]
    if name in NO_PARAM:
        return rec(name, w)
    if name == "PauliRot":
        pw = op.hyperparameters["pauli_word"]
        return rec(name, w, [_lat(op.data[0], M)], [PW[c] for c in pw])
    if name in ONE_PARAM:
        # a wire-less GlobalPhase is a zero-wire gate (1x1 matrix): ApplyGate multiplies the register by the scalar and
        # CtrlM of it is the multi-controlled phase on the control wires
        return rec(name, w, [_lat(op.data[0], M)])
    if name in MULTI_PARAM:
        return rec(name, w, [_lat(d, M) for d in op.data])
    if name == "MultiControlledX":
        cv = [int(bool(v)) for v in op.control_values]
        aw = list(op.control_wires) + list(op.target_wires if hasattr(op, "target_wires") else op.wires[len(cv):len(cv) + 1])
        return rec(name, [wpos[x] for x in aw], [], cv)
    if name == "QFT":
        if (1 << M) < (1 << len(w)):
            raise OffLattice("QFT needs N >= 2^n")
        return rec(name, w)
    if name == "Barrier" or name == "Snapshot" or name == "WireCut":
        return None
    if name in ("QubitUnitary", "DiagonalQubitUnitary", "BlockEncode"):
        mat = qp.matrix(op)
        return rec("MAT", w, m=matrix_to_ring(mat, M))
    raise OffLattice(f"no table entry for {name}")


def encode_ops(ops, wpos, M):
    out = []
    for op in ops:
        r = encode_op(op, wpos, M)
        if r is not None:
            out.append(r)
    return out


def wire_positions(wires):
    return {w: i + 1 for i, w in enumerate(wires)}


# ------------------------------------------------------------------------------------- decode
def decode_gate(r, M, labels=None):
    """gate record -> PennyLane operator (labels: list, position i -> label; default 0-based ints)."""
    lab = (lambda i: labels[i - 1]) if labels is not None else (lambda i: i - 1)
    mods = r.get("mods", [])
    nctrl = sum(len(md["cv"]) for md in mods if md["t"] == "ctrl")
    wires = [lab(i) for i in r["w"]]
    tw = wires[nctrl:]
    g = r["g"]
    th = [angle_of(a, M) for a in r["p"]]
    if g == "PauliRot":
        op = qp.PauliRot(th[0], "".join(PWI[c] for c in r["x"]), wires=tw)
    elif g == "MultiControlledX":
        op = qp.MultiControlledX(wires=tw, control_values=[bool(v) for v in r["x"]])
    elif g == "MAT":
        from .lib import ring_matrix_to_numpy
        op = qp.QubitUnitary(ring_matrix_to_numpy(r["m"], M), wires=tw)
    elif g == "GlobalPhase":
        op = qp.GlobalPhase(th[0])      # wire-less in this tree: acts as a scalar on the whole register
    elif g == "PauliWord":
        op = qp.pauli.string_to_pauli_word("".join(PWI[c] for c in r["x"]), wire_map={w: i for i, w in enumerate(tw)})
    elif g == "QFT":
        op = qp.QFT(wires=tw)
    else:
        cls = getattr(qp, g)
        op = cls(*th, wires=tw)
    ci = 0
    cw_all = wires[:nctrl]
    # mods are innermost first; the outermost ctrl owns the first control wires
    ctrl_mods = [md for md in mods if md["t"] == "ctrl"]
    offs, acc = [], nctrl
    for md in ctrl_mods:
        acc -= len(md["cv"])
        offs.append(acc)
    ci = 0
    for md in mods:
        if md["t"] == "adj":
            op = qp.adjoint(op)
        elif md["t"] == "pow":
            op = qp.pow(op, md["z"])
        else:
            o = offs[ci]
            ci += 1
            op = qp.ctrl(op, cw_all[o:o + len(md["cv"])], control_values=[bool(v) for v in md["cv"]])
    return op


def encode_tape_ops(tape, M, wire_order=None):
    wires = list(wire_order) if wire_order is not None else list(tape.wires)
    wpos = wire_positions(wires)
    return encode_ops(tape.operations, wpos, M), wires
