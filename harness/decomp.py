"""Shared machinery for C10 (rules implement their operator exactly) and C11 (declared resources match):
operator-instance generator over the live rule registry, rule application, encoding of emitted circuits."""
from __future__ import annotations

import itertools
import random

import numpy as np

import pennylane as qp
from pennylane.decomposition import list_decomps
from pennylane.decomposition.resources import abstractify
from pennylane.decomposition.utils import _get_decomp_args

from . import lib
from .codec import ARITY, KNOWN, MULTI_PARAM, NO_PARAM, ONE_PARAM, OffLattice, encode_op

M = 5                      # finest level used: theta = a*pi/8.  Inputs are multiples of pi/2, so theta/2 is on the M=4
                           # lattice (pi/4) and theta/4 on the M=5 lattice; each event is validated at the coarsest level
                           # that represents it exactly (M=4 costs a quarter of M=5)
LABELS = ["a", 3, "c", 0, "e", 7, "g", 11]


def _angles(rng, k):
    base = [4, 12, 20, 28, 8, 24, 16, 0]       # pi/2, 3pi/2, 5pi/2, 7pi/2, pi, 3pi, 2pi, 0
    return [lib.angle_of(rng.choice(base[:6] if rng.random() < 0.85 else base), M) for _ in range(k)]


def base_instances(rng, per_gate=2):
    """Instances of the table operators (one per angle choice), on mixed wire labels."""
    out = []
    for name in sorted(KNOWN):
        if name in ("SQISW", "CPhase", "QFT", "MultiControlledX", "PauliRot", "MultiRZ", "GlobalPhase", "QubitSum", "QubitCarry"):
            continue
        ar = ARITY[name]
        npar = 1 if name in ONE_PARAM else MULTI_PARAM.get(name, 0)
        for _ in range(per_gate if npar else 1):
            wires = rng.sample(LABELS, ar)
            cls = getattr(qp, name)
            out.append(cls(*_angles(rng, npar), wires=wires))
    for nw in (1, 2, 3):
        out.append(qp.MultiRZ(_angles(rng, 1)[0], wires=rng.sample(LABELS, nw)))
    for pw in ("X", "Y", "Z", "XZ", "YY", "ZXY", "IZ", "XI", "YIZ"):
        out.append(qp.PauliRot(_angles(rng, 1)[0], pw, wires=rng.sample(LABELS, len(pw))))
    out.append(qp.GlobalPhase(_angles(rng, 1)[0]))
    out.append(qp.QubitSum(wires=rng.sample(LABELS, 3)))
    out.append(qp.QubitCarry(wires=rng.sample(LABELS, 4)))
    for n in (1, 2, 3):
        out.append(qp.QFT(wires=rng.sample(LABELS, n)))
    # matrix-defined operators with Clifford+T (ring level 3) data: diagonal and generic targets
    import numpy as _np
    mats = {"S": qp.matrix(qp.S(0)), "T": qp.matrix(qp.T(0)), "Z": qp.matrix(qp.Z(0)), "H": qp.matrix(qp.H(0)),
            "TH": qp.matrix(qp.T(0)) @ qp.matrix(qp.H(0)), "HTS": qp.matrix(qp.H(0)) @ qp.matrix(qp.T(0)) @ qp.matrix(qp.S(0)),
            "SXT": qp.matrix(qp.SX(0)) @ qp.matrix(qp.T(0))}
    for nm, m_ in mats.items():
        out.append(qp.QubitUnitary(m_, wires=rng.sample(LABELS, 1)))
        for nc, cv in ((1, [1]), (2, [1, 1]), (2, [0, 1]), (3, [1, 0, 1])):
            ws = rng.sample(LABELS, nc + 1)
            out.append(qp.ControlledQubitUnitary(m_, wires=ws, control_values=cv))
    out.append(qp.QubitUnitary(_np.kron(mats["TH"], mats["S"]), wires=rng.sample(LABELS, 2)))
    out.append(qp.QubitUnitary(qp.matrix(qp.CNOT([0, 1])) @ _np.kron(mats["H"], mats["T"]), wires=rng.sample(LABELS, 2)))
    out.append(qp.DiagonalQubitUnitary(_np.diag(_np.kron(mats["T"], mats["S"])), wires=rng.sample(LABELS, 2)))
    return out


def template_instances(rng):
    """Templates / arithmetic subroutines without a reference-table entry (register shapes, partial work-wire sets, nested
    controls with zero control values).  Used by C11 (resources need no semantics) and, where the operator has a matrix,
    by C10 with the operator's own matrix as a (weaker) oracle."""
    import numpy as _np
    mk = [
        lambda: qp.SemiAdder([0, 1, 2], [10, 11, 12, 13], work_wires=[20]),
        lambda: qp.SemiAdder([0, 1, 2], [10, 11], work_wires=[20]),
        lambda: qp.SemiAdder([0, 1], [10, 11, 12], work_wires=[20, 21]),
        lambda: qp.SemiAdder([0, 1, 2], [10, 11, 12], work_wires=None),
        lambda: qp.SemiAdder([0], [10, 11, 12, 13], work_wires=[20, 21]),
        lambda: qp.SemiAdder([0, 1, 2, 3], [10, 11, 12], work_wires=[20, 21]),
        lambda: qp.Adder(3, [0, 1, 2], mod=8),
        lambda: qp.Adder(3, [0, 1, 2], mod=7, work_wires=[5, 6]),
        lambda: qp.PhaseAdder(3, [0, 1, 2], mod=8),
        lambda: qp.PhaseAdder(2, [0, 1, 2], mod=5, work_wire=[4]),
        lambda: qp.Multiplier(3, [0, 1, 2], mod=8, work_wires=[5, 6, 7]),
        lambda: qp.OutAdder([0, 1], [2, 3], [4, 5, 6]),
        lambda: qp.OutMultiplier([0, 1], [2, 3], [4, 5, 6, 7]),
        lambda: qp.ControlledSequence(qp.ctrl(qp.Adder(3, [0, 1, 2]), control=[10], control_values=[0]), control=[20, 21]),
        lambda: qp.ControlledSequence(qp.ctrl(qp.PhaseAdder(1, [0, 1, 2]), control=[10, 11], control_values=[1, 0]), control=[20]),
        lambda: qp.ControlledSequence(qp.RX(0.5, 0), control=[1, 2, 3]),
        lambda: qp.QROM(["01", "11", "10", "00"], control_wires=[0, 1], target_wires=[2, 3], work_wires=[4, 5]),
        lambda: qp.QROM(["1", "0", "0", "1"], control_wires=[0, 1], target_wires=[2], work_wires=None),
        lambda: qp.Select([qp.X(2), qp.Y(2), qp.Z(3), qp.H(2)], control=[0, 1]),
        lambda: qp.Select([qp.X(2), qp.Y(2), qp.Z(3)], control=[0, 1]),
        lambda: qp.QuantumPhaseEstimation(qp.RX(0.5, 0), estimation_wires=[1, 2]),
        lambda: qp.QuantumPhaseEstimation(qp.PhaseShift(0.5, 0), estimation_wires=[1, 2, 3]),
        lambda: qp.AQFT(order=1, wires=[0, 1, 2]),
        lambda: qp.BasisState(_np.array([1, 0, 1]), wires=[0, 1, 2]),
        lambda: qp.Reflection(qp.H(0), 0.5),
        lambda: qp.GroverOperator(wires=[0, 1, 2]),
        lambda: qp.TemporaryAND([0, 1, 2]),
        lambda: qp.TemporaryAND([0, 1, 2], control_values=(0, 1)),
        lambda: qp.IntegerComparator(2, geq=True, wires=[0, 1, 2]),
        lambda: qp.IntegerComparator(1, geq=False, wires=[0, 1, 2]),
        lambda: qp.PCPhase(0.5, dim=2, wires=[0, 1]),
        lambda: qp.PCPhase(0.5, dim=3, wires=[0, 1]),
        lambda: qp.OrbitalRotation(0.5, wires=[0, 1, 2, 3]),
        lambda: qp.TrotterProduct(qp.X(0) + qp.Z(0), 0.5, n=2, order=2),
        lambda: qp.Permute([2, 0, 1], wires=[0, 1, 2]),
        lambda: qp.FlipSign([1, 0], wires=[0, 1]),
        lambda: qp.MottonenStatePreparation(_np.array([0.5, 0.5, 0.5, 0.5]), wires=[0, 1]),
        lambda: qp.Incrementer(wires=[0, 1, 2]),
        lambda: qp.ctrl(qp.Incrementer(wires=[0, 1, 2]), control=[5], control_values=[0]),
        lambda: qp.ctrl(qp.SemiAdder([0, 1], [10, 11, 12], work_wires=[20, 21]), control=[30]),
    ]
    out = []
    for f in mk:
        try:
            out.append(f())
        except Exception:      # a constructor that does not exist / changed signature in this tree: not our concern here
            pass
    return out


def symbolic_instances(rng, bases, tier):
    out = []
    small = [b for b in bases if len(b.wires) <= 2 and b.name not in ("GlobalPhase",)]
    for b in bases:
        if b.name != "GlobalPhase" or True:
            out.append(qp.adjoint(b, lazy=True) if _lazy_ok() else qp.adjoint(b))
    for b in bases:
        for z in ([2, 3, -1] if tier == "quick" else [2, 3, 5, -1, -2, 0, 1, 4, 8]):
            if len(b.wires) <= 3:
                out.append(qp.pow(b, z, lazy=True))
    # controlled: 1..3 controls, control values, work wires of both types
    cvs = {1: [[1], [0]], 2: [[1, 1], [0, 1], [1, 0], [0, 0]], 3: [[1, 1, 1], [1, 0, 1], [0, 0, 1]]}
    for b in small:
        free = [l for l in LABELS if l not in b.wires]
        for nc in (1, 2, 3):
            if len(b.wires) + nc > 4:
                continue
            choices = cvs[nc] if tier != "quick" else [rng.choice(cvs[nc])] + ([cvs[nc][0]] if rng.random() < 0.5 else [])
            for cv in choices:
                cw = rng.sample(free, nc)
                rest = [l for l in free if l not in cw]
                for nwork, wtype in ((0, "borrowed"), (1, "zeroed"), (1, "borrowed"), (2, "zeroed")):
                    if tier == "quick" and nwork and rng.random() < 0.6:
                        continue
                    if len(b.wires) + nc + nwork > 5:
                        continue
                    ww = rest[:nwork]
                    try:
                        out.append(qp.ctrl(b, cw, control_values=cv, work_wires=ww, work_wire_type=wtype) if nwork else
                                   qp.ctrl(b, cw, control_values=cv))
                    except TypeError:
                        out.append(qp.ctrl(b, cw, control_values=cv))
    # MultiControlledX with explicit work wires
    for nc in (1, 2, 3, 4):
        for cv in ([[1] * nc] + ([[0] + [1] * (nc - 1)] if nc > 1 else [[0]])):
            for nwork, wtype in ((0, "borrowed"), (1, "zeroed"), (1, "borrowed"), (2, "zeroed"), (2, "borrowed")):
                if nc + 1 + nwork > 6 or (nc < 3 and nwork > 0):
                    continue
                ws = rng.sample(LABELS, nc + 1 + nwork)
                out.append(qp.MultiControlledX(wires=ws[:nc + 1], control_values=cv, work_wires=ws[nc + 1:], work_wire_type=wtype))
    return out


def _lazy_ok():
    return True


class Skip(Exception):
    pass


def work_wires_of(op):
    ww = getattr(op, "work_wires", None)
    if ww is None:
        ww = op.hyperparameters.get("work_wires", ()) if hasattr(op, "hyperparameters") else ()
    return list(ww)


def work_type_of(op):
    t = getattr(op, "work_wire_type", None) or (op.hyperparameters.get("work_wire_type") if hasattr(op, "hyperparameters") else None)
    return str(t) if t else "borrowed"


def emitted_ops(op, rule):
    rp, args, kw = _get_decomp_args(op)
    with qp.queuing.AnnotatedQueue() as q:
        rule(*args, **kw)
    return [o for o in q.queue if isinstance(o, (qp.operation.Operator,)) or hasattr(o, "wires")], rp


def flatten(ops, wpos, M_, depth=0):
    """-> (records, float_records_or_None, info).  Non-table operators are expanded with their own decomposition."""
    from .checks.c17 import _float_record
    recs, exact, flt, info = [], True, [], {"expanded": 0}
    dyn = {}
    for o in ops:
        nm = o.name
        if nm == "Allocate":
            for w in o.wires:
                wpos[w] = len(wpos) + 1
                dyn[w] = (str(o.hyperparameters.get("state", "zero")), bool(o.hyperparameters.get("restored", False)))
            continue
        if nm == "Deallocate":
            continue
        if nm in ("MidMeasure", "MidMeasureMP", "Conditional", "PauliMeasure") or type(o).__name__ in ("Conditional", "MidMeasure", "PauliMeasure"):
            raise Skip("contains measurement (C13)")
        try:
            r = encode_op(o, wpos, M_)
            if r is not None:
                recs.append(r)
                flt.append(r)
            continue
        except OffLattice as e:
            msg = str(e)
        except (KeyError, AttributeError) as e:
            msg = "no table entry"
        if "no table entry" in msg or "matrix entry" in msg or "power" in msg:
            if depth > 8:
                raise Skip("expansion too deep")
            try:
                sub = o.decomposition()
            except Exception:
                raise Skip(f"cannot expand {nm}")
            r2, f2, i2 = flatten(sub, wpos, M_, depth + 1)
            info["expanded"] += 1 + i2["expanded"]
            dyn.update(i2.get("dyn", {}))
            if r2 is None:
                exact = False
            else:
                recs += r2
            flt += f2
        else:
            exact = False
            try:
                flt.append(_float_record(o, wpos))
            except OffLattice:
                raise Skip(f"no bridge entry for {nm}")
    info["dyn"] = dyn
    return (recs if exact else None), flt, info


def resource_counts(ops):
    """multiset of compressed resource reps of the emitted operators and number of allocated wires."""
    cnt, alloc = {}, 0
    for o in ops:
        if type(o).__name__ == "Conditional":
            o = o.base
        if o.name == "Allocate":
            alloc += len(o.wires)
            continue
        if o.name == "Deallocate":
            continue
        rep = abstractify(o)
        cnt[rep] = cnt.get(rep, 0) + 1
    return cnt, alloc
