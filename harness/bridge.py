"""The float bridge (DESIGN 5.3): a small numeric evaluator of gate records whose formulas mirror Gates.tla.
It is NOT PennyLane's matrix code.  `selfcheck(table_cases, M)` compares it with the matrices TLC computed from
Gates.tla at every lattice point (run by C02 and by setup); it is used only for circuits containing
off-lattice angles, where TLC cannot hold the value exactly."""
from __future__ import annotations

import cmath
import math

import numpy as np

I2 = np.eye(2, dtype=complex)
X = np.array([[0, 1], [1, 0]], dtype=complex)
Y = np.array([[0, -1j], [1j, 0]], dtype=complex)
Z = np.array([[1, 0], [0, -1]], dtype=complex)
H = np.array([[1, 1], [1, -1]], dtype=complex) / math.sqrt(2)
PAULI = [I2, X, Y, Z]


def ctrl(g, cv):
    d = len(g)
    nc = len(cv)
    D = (1 << nc) * d
    out = np.eye(D, dtype=complex)
    sel = int("".join(str(int(v)) for v in cv), 2) if nc else 0
    out[sel * d:(sel + 1) * d, sel * d:(sel + 1) * d] = g
    return out


def rx(t):
    c, s = math.cos(t / 2), math.sin(t / 2)
    return np.array([[c, -1j * s], [-1j * s, c]])


def ry(t):
    c, s = math.cos(t / 2), math.sin(t / 2)
    return np.array([[c, -s], [s, c]], dtype=complex)


def rz(t):
    return np.array([[cmath.exp(-0.5j * t), 0], [0, cmath.exp(0.5j * t)]])


def rot(f, t, w):
    return rz(w) @ ry(t) @ rz(f)


def pauli_word(x):
    m = np.eye(1, dtype=complex)
    for c in x:
        m = np.kron(m, PAULI[c])
    return m


def base_matrix(g, th, x, nw, m=None):
    e = cmath.exp
    if g == "Identity":
        return np.eye(1 << nw, dtype=complex)
    if g == "PauliX": return X
    if g == "PauliY": return Y
    if g == "PauliZ": return Z
    if g == "Hadamard": return H
    if g == "S": return np.diag([1, 1j])
    if g == "T": return np.diag([1, e(0.25j * math.pi)])
    if g == "SX": return 0.5 * np.array([[1 + 1j, 1 - 1j], [1 - 1j, 1 + 1j]])
    if g == "RX": return rx(th[0])
    if g == "RY": return ry(th[0])
    if g == "RZ": return rz(th[0])
    if g in ("PhaseShift", "U1"): return np.diag([1, e(1j * th[0])])
    if g == "Rot": return rot(*th)
    if g == "U2":
        f, d = th
        return np.array([[1, -e(1j * d)], [e(1j * f), e(1j * (f + d))]]) / math.sqrt(2)
    if g == "U3":
        t, f, d = th
        c, s = math.cos(t / 2), math.sin(t / 2)
        return np.array([[c, -e(1j * d) * s], [e(1j * f) * s, e(1j * (f + d)) * c]])
    if g == "GlobalPhase": return e(-1j * th[0]) * np.eye(1 << nw, dtype=complex)
    if g == "CNOT": return ctrl(X, [1])
    if g == "CY": return ctrl(Y, [1])
    if g == "CZ": return ctrl(Z, [1])
    if g == "CH": return ctrl(H, [1])
    if g == "SWAP": return np.array([[1, 0, 0, 0], [0, 0, 1, 0], [0, 1, 0, 0], [0, 0, 0, 1]], dtype=complex)
    if g == "ISWAP": return np.array([[1, 0, 0, 0], [0, 0, 1j, 0], [0, 1j, 0, 0], [0, 0, 0, 1]], dtype=complex)
    if g in ("SISWAP", "SQISW"):
        r = 1 / math.sqrt(2)
        return np.array([[1, 0, 0, 0], [0, r, 1j * r, 0], [0, 1j * r, r, 0], [0, 0, 0, 1]], dtype=complex)
    if g == "ECR":
        return np.array([[0, 0, 1, 1j], [0, 0, 1j, 1], [1, -1j, 0, 0], [-1j, 1, 0, 0]]) / math.sqrt(2)
    if g == "CRX": return ctrl(rx(th[0]), [1])
    if g == "CRY": return ctrl(ry(th[0]), [1])
    if g == "CRZ": return ctrl(rz(th[0]), [1])
    if g == "CRot": return ctrl(rot(*th), [1])
    if g in ("ControlledPhaseShift", "CPhase"): return np.diag([1, 1, 1, e(1j * th[0])])
    if g == "CPhaseShift00": return np.diag([e(1j * th[0]), 1, 1, 1])
    if g == "CPhaseShift01": return np.diag([1, e(1j * th[0]), 1, 1])
    if g == "CPhaseShift10": return np.diag([1, 1, e(1j * th[0]), 1])
    if g in ("IsingXX", "IsingYY", "IsingZZ"):
        P = {"IsingXX": np.kron(X, X), "IsingYY": np.kron(Y, Y), "IsingZZ": np.kron(Z, Z)}[g]
        return math.cos(th[0] / 2) * np.eye(4) - 1j * math.sin(th[0] / 2) * P
    if g == "IsingXY":
        c, s = math.cos(th[0] / 2), math.sin(th[0] / 2)
        return np.array([[1, 0, 0, 0], [0, c, 1j * s, 0], [0, 1j * s, c, 0], [0, 0, 0, 1]])
    if g == "PSWAP":
        p = e(1j * th[0])
        return np.array([[1, 0, 0, 0], [0, 0, p, 0], [0, p, 0, 0], [0, 0, 0, 1]])
    if g in ("SingleExcitation", "SingleExcitationPlus", "SingleExcitationMinus"):
        c, s = math.cos(th[0] / 2), math.sin(th[0] / 2)
        ph = {"SingleExcitation": 1, "SingleExcitationPlus": e(0.5j * th[0]), "SingleExcitationMinus": e(-0.5j * th[0])}[g]
        return np.array([[ph, 0, 0, 0], [0, c, -s, 0], [0, s, c, 0], [0, 0, 0, ph]])
    if g == "FermionicSWAP":
        c, s, p = math.cos(th[0] / 2), math.sin(th[0] / 2), e(0.5j * th[0])
        return np.array([[1, 0, 0, 0], [0, p * c, -1j * p * s, 0], [0, -1j * p * s, p * c, 0], [0, 0, 0, p * p]])
    if g == "Toffoli": return ctrl(X, [1, 1])
    if g == "CCZ": return ctrl(Z, [1, 1])
    if g == "CSWAP": return ctrl(base_matrix("SWAP", [], [], 2), [1])
    if g == "MultiRZ":
        return np.diag([e((-0.5j if bin(i).count("1") % 2 == 0 else 0.5j) * th[0]) for i in range(1 << nw)])
    if g == "PauliRot":
        P = pauli_word(x)
        return math.cos(th[0] / 2) * np.eye(len(P)) - 1j * math.sin(th[0] / 2) * P
    if g in ("DoubleExcitation", "DoubleExcitationPlus", "DoubleExcitationMinus"):
        c, s = math.cos(th[0] / 2), math.sin(th[0] / 2)
        ph = {"DoubleExcitation": 1, "DoubleExcitationPlus": e(0.5j * th[0]), "DoubleExcitationMinus": e(-0.5j * th[0])}[g]
        m_ = ph * np.eye(16, dtype=complex)
        m_[3, 3] = c; m_[12, 12] = c; m_[3, 12] = -s; m_[12, 3] = s
        return m_
    if g == "QFT":
        d = 1 << nw
        return np.array([[e(2j * math.pi * i * j / d) for j in range(d)] for i in range(d)]) / math.sqrt(d)
    if g == "MultiControlledX": return ctrl(X, x)
    if g == "QubitSum":
        P = np.zeros((8, 8), dtype=complex)
        for i in range(8):
            a, b, c = (i >> 2) & 1, (i >> 1) & 1, i & 1
            P[4 * a + 2 * b + ((a + b + c) % 2), i] = 1
        return P
    if g == "QubitCarry":
        P = np.zeros((16, 16), dtype=complex)
        for i in range(16):
            a, b, c, d = (i >> 3) & 1, (i >> 2) & 1, (i >> 1) & 1, i & 1
            P[8 * a + 4 * b + 2 * ((b + c) % 2) + ((d + b * c + ((b + c) % 2) * a) % 2), i] = 1
        return P
    if g == "PauliWord": return pauli_word(x)
    if g == "MAT": return np.asarray(m, dtype=complex)
    raise KeyError(g)


def gate_matrix(r, M=None, float_params=None, float_mat=None):
    """Matrix of a gate record; angles are lattice ints at level M unless float_params is given."""
    from .lib import angle_of, ring_matrix_to_numpy
    mods = r.get("mods", [])
    nctrl = sum(len(md["cv"]) for md in mods if md["t"] == "ctrl")
    th = float_params if float_params is not None else [angle_of(a, M) for a in r["p"]]
    m = float_mat if float_mat is not None else (ring_matrix_to_numpy(r["m"], M) if r.get("m") else None)
    g = base_matrix(r["g"], th, r.get("x", []), len(r["w"]) - nctrl, m)
    for md in mods:
        if md["t"] == "adj":
            g = g.conj().T
        elif md["t"] == "pow":
            g = np.linalg.matrix_power(g if md["z"] >= 0 else g.conj().T, abs(md["z"]))
        else:
            g = ctrl(g, md["cv"])
    return g


def apply(U, g, ws, n):
    """left-multiply U (2^n x c) by gate g on 1-based wires ws, wire 1 = most significant."""
    q = len(ws)
    T = U.reshape([2] * n + [-1])
    G = np.asarray(g, dtype=complex).reshape([2] * (2 * q))
    axes = [w - 1 for w in ws]
    T = np.tensordot(G, T, axes=(list(range(q, 2 * q)), axes))
    T = np.moveaxis(T, list(range(q)), axes)
    return T.reshape(1 << n, -1)


def circuit_unitary(gates, n, M=None):
    """gates: list of (record, float_params|None, float_mat|None) or plain records."""
    U = np.eye(1 << n, dtype=complex)
    for it in gates:
        if isinstance(it, dict):
            r, fp, fm = it, it.get("fp"), it.get("fm")
        else:
            r, fp, fm = it
        U = apply(U, gate_matrix(r, M, fp, fm), r["w"], n)
    return U


def equal_up_to_phase(A, B, tol=1e-8):
    A, B = np.asarray(A), np.asarray(B)
    if A.shape != B.shape:
        return False
    i = np.unravel_index(np.argmax(np.abs(A)), A.shape)
    if abs(B[i]) < 1e-12:
        return False
    ph = A[i] / B[i]
    return abs(abs(ph) - 1) < 1e-6 and np.allclose(A, ph * B, atol=tol, rtol=0)


def selfcheck(table_cases, M, tol=1e-12):
    """Compare this evaluator with TLC's exact table (list of {"c": record, "mat": ring matrix}); returns mismatches."""
    from .lib import ring_matrix_to_numpy
    bad = []
    for it in table_cases:
        exp = ring_matrix_to_numpy(it["mat"], M)
        got = gate_matrix(it["c"], M)
        if got.shape != exp.shape or not np.allclose(got, exp, atol=tol, rtol=0):
            bad.append(it["c"])
    return bad
