"""REL pattern support: circuit generators and exact validation of (input, outputs) histories by TLC (CircuitEq.tla)."""
from __future__ import annotations

import itertools
import json
import random

from . import lib
from .codec import ARITY, rec


def validate(pid, cases, M, name="rel", workers=None, timeout=3000, chunk=20000):
    """cases: [{"n", "a": [gate records], "bs": [{"b": [...], "rel", "perm"}]}]
    -> (verdicts {(tid0, s0): clause}, emitted {tid0: ring matrix}, stats).  tid0/s0 are 0-based."""
    verdicts, emitted = {}, {}
    for c in cases:                      # every record field must be present for TLC
        c.setdefault("cs", [])
        for o in c["bs"]:
            o.setdefault("perm", [])
    stats = {"generated": 0, "distinct": 0, "wall_s": 0.0, "runs": 0}
    for off in range(0, len(cases), chunk):
        part = cases[off:off + chunk]
        wd = lib.workdir(pid, f"{name}_{off}")
        (wd / "cases.json").write_text(json.dumps(part))
        r = lib.run_tlc("CircuitEq", lib.cfg(constants={"M": M, "NCASES": len(part)}), wd,
                        env={"TRACE_FILE": str(wd / "cases.json")}, workers=workers, timeout=timeout)
        lib.require_ok(r, f"CircuitEq batch {name}@{off}")
        for t in r.tuples:
            if t[0] == "V":
                verdicts[(off + t[1] - 1, t[2] - 1)] = t[3]
        for j in r.json_lines:
            emitted[off + j["tid"] - 1] = j["u"]
        stats["generated"] += r.generated
        stats["distinct"] += r.distinct
        stats["wall_s"] += r.wall_s
        stats["runs"] += 1
    expected = sum(len(c["bs"]) for c in cases)
    if len(verdicts) != expected:
        raise lib.MachineryError(f"verdicts are not total: {len(verdicts)} of {expected}")
    return verdicts, emitted, stats


def placements(arity, n):
    return [list(p) for p in itertools.permutations(range(1, n + 1), arity)]


def instances(alphabet, n, angles):
    """All gate records over an alphabet [(name, nparams)] on n wires with every wire placement and lattice angle."""
    out = []
    for name, npar in alphabet:
        ar = ARITY[name]
        if ar > n:
            continue
        for w in placements(ar, n):
            for p in itertools.product(angles, repeat=npar):
                out.append(rec(name, w, list(p)))
    return out


def all_circuits(insts, length):
    return itertools.product(insts, repeat=length)


def random_circuit(rng: random.Random, insts, length, bias_pairs=0.35):
    """Random circuit biased to contain inverse / mergeable neighbours on the same wires."""
    c = []
    while len(c) < length:
        if c and rng.random() < bias_pairs:
            prev = rng.choice(c)
            same = [g for g in insts if g["w"] == prev["w"]]
            c.append(rng.choice(same))
        else:
            c.append(rng.choice(insts))
    return c
