"""C06 support: instance space (operators + measurement processes), the reproduction actions on real objects, the
content encoding and the id()-graph of mutable containers.  Everything here only DRIVES the code and converts data;
the comparisons are made by TLC (Trace_OpHeap.tla / CircuitEq.tla)."""
from __future__ import annotations

import copy
import hashlib
import inspect
import pickle
import re

import numpy as np

import pennylane as qp
from pennylane.core.measurements import MeasurementProcess
from pennylane.core.operator import Operator
from pennylane.core.operator.operator2 import Operator2
from pennylane.wires import Wires

from . import codec
from .codec import rec

M = 4                      # lattice level used for the table operators: angles are multiples of 4*pi/16 = pi/4
UNIT = 4.0 * np.pi / (1 << M)


def ang(a):
    return a * UNIT


# ------------------------------------------------------------------------------------------------ instance space
class Inst:
    """One point of the instance space.  make(v) builds a FRESH object; v = 0 is the object under test, v = 1 the same
    class / wires / hyperparameters with different parameter values (the 'new parameters' of Rebind)."""

    def __init__(self, label, family, make, table=None, int_wires=True, is_mp=False, nwires=0):
        self.label, self.family, self.make, self.table = label, family, make, table
        self.int_wires, self.is_mp, self.nwires = int_wires, is_mp, nwires


LABEL_POOLS = {
    "int": [0, 1, 2, 3, 4, 5, 6, 7],
    "str": ["a", "b", "c", "d", "e", "f", "g", "h"],
    "mix": ["q0", 3, "anc", 11, -1, "z", 40, "w7"],
}

U2 = np.array([[1, 1], [1, -1]]) / np.sqrt(2)
U2B = np.array([[0, 1], [1, 0]], dtype=complex)
U4 = np.kron(U2, U2B)
U4B = np.kron(U2B, U2)
H2 = np.array([[1.0, 0.5], [0.5, -1.0]])
H2B = np.array([[0.25, 1j], [-1j, 2.0]])


def table_instances(pool_name, rng, angles_per_class):
    """Every operator class of the codec's KNOWN table at lattice angles, as gate records + decoded objects."""
    L = LABEL_POOLS[pool_name]
    out = []
    names = sorted(codec.KNOWN - {"SQISW", "CPhase"})
    for g in names:
        if g == "QFT":
            ar, npar = 3, 0
        elif g == "MultiControlledX":
            ar, npar = 3, 0
        elif g in ("MultiRZ", "PauliRot"):
            ar, npar = 2, 1
        elif g == "GlobalPhase":
            ar, npar = 0, 1
        else:
            ar = codec.ARITY[g]
            npar = 1 if g in codec.ONE_PARAM else codec.MULTI_PARAM.get(g, 0)
        n = max(ar, 1)
        for k in range(angles_per_class if npar else 1):
            perm = list(range(1, n + 1))
            rng.shuffle(perm)
            w = perm[:ar]
            p0 = [rng.randrange(1, 16) for _ in range(npar)]
            p1 = [(a + rng.randrange(1, 15)) % 16 for a in p0]          # always different from p0
            x = []
            if g == "PauliRot":
                x = [rng.randrange(1, 4) for _ in range(ar)]
            if g == "MultiControlledX":
                x = [rng.randrange(2) for _ in range(ar - 1)]
            recs = [rec(g, w, p, x) for p in (p0, p1)]
            labels = L[:n]

            def mk(v, recs=recs, labels=labels):
                return codec.decode_gate(recs[v], M, labels=labels)
            out.append(Inst(f"{g}{p0}@{pool_name}{w}", "table", mk, table={"recs": recs, "n": n, "labels": labels},
                            int_wires=pool_name == "int", nwires=n))
    return out


def wrapper_instances(pool_name, rng, stride=1):
    """Symbolic wrappers around table operators (kept inside the codec: adjoint / integer pow / ctrl)."""
    L = LABEL_POOLS[pool_name]
    out = []
    bases = [("RX", 1, 1), ("Rot", 1, 3), ("CRY", 2, 1), ("IsingXY", 2, 1), ("T", 1, 0), ("SX", 1, 0), ("CNOT", 2, 0), ("U2", 1, 2),
             ("PhaseShift", 1, 1), ("SWAP", 2, 0), ("DoubleExcitation", 4, 1), ("Toffoli", 3, 0), ("U3", 1, 3), ("S", 1, 0)]
    modsets = [[{"t": "adj"}], [{"t": "pow", "z": 2}], [{"t": "pow", "z": -1}], [{"t": "pow", "z": 3}, {"t": "adj"}],
               [{"t": "ctrl", "cv": [1]}], [{"t": "ctrl", "cv": [0, 1]}], [{"t": "adj"}, {"t": "ctrl", "cv": [1, 0]}],
               [{"t": "ctrl", "cv": [1]}, {"t": "adj"}], [{"t": "pow", "z": 2}, {"t": "ctrl", "cv": [0]}],
               [{"t": "ctrl", "cv": [1]}, {"t": "ctrl", "cv": [0]}], [{"t": "adj"}, {"t": "adj"}]]
    for bi, (g, ar, npar) in enumerate(bases):
        for mi, mods in enumerate(modsets):
            if (bi + mi) % stride:
                continue
            nc = sum(len(m["cv"]) for m in mods if m["t"] == "ctrl")
            n = ar + nc
            if n > 5:
                continue
            perm = list(range(1, n + 1))
            rng.shuffle(perm)
            p0 = [rng.randrange(1, 16) for _ in range(npar)]
            p1 = [(a + rng.randrange(1, 15)) % 16 for a in p0]
            recs = [rec(g, perm, p, [], None, mods) for p in (p0, p1)]
            labels = L[:n]

            def mk(v, recs=recs, labels=labels):
                return codec.decode_gate(recs[v], M, labels=labels)
            tag = "+".join(m["t"] + (str(m.get("z", "")) if m["t"] == "pow" else "".join(map(str, m.get("cv", [])))) for m in mods)
            out.append(Inst(f"{tag}({g}{p0})@{pool_name}", "wrapper", mk, table={"recs": recs, "n": n, "labels": labels},
                            int_wires=pool_name == "int", nwires=n))
    return out


def _block(weights, wires):
    qp.CNOT(wires=[wires[0], wires[1]])
    qp.RY(weights[0], wires=wires[0])
    qp.RY(weights[1], wires=wires[1])


def _trotter_qfunc(time, theta, wires, flip=False):
    qp.RX(time * theta, wires[0])
    if flip:
        qp.CNOT(wires)


def _poly(x, y):
    return x + y


def _qmc_fn(i):
    return 0.5


def _recipes(L):
    """(family, label, lambda v: object) for everything outside the gate table.  v in {0, 1} selects the parameter set."""
    a = ang
    R = []

    def add(family, label, f):
        R.append((family, label, f))
    P = lambda v, x, y: x if v == 0 else y        # noqa: E731
    # ---- symbolic wrappers outside the codec (fractional powers, work wires, legacy bases, arithmetic)
    add("symbolic", "pow(IsingXX,2.5)", lambda v: qp.pow(qp.IsingXX(a(P(v, 1, 3)), [L[0], L[1]]), 2.5))
    add("symbolic", "pow(RX,0.5)", lambda v: qp.pow(qp.RX(a(P(v, 1, 5)), L[0]), 0.5))
    add("symbolic", "pow(Hermitian,2)", lambda v: qp.pow(qp.Hermitian(P(v, H2, H2B), L[0]), 2))
    add("symbolic", "pow(QubitUnitary,3)", lambda v: qp.pow(qp.QubitUnitary(P(v, U2, U2B), L[1]), 3))
    add("symbolic", "adjoint(Hermitian)", lambda v: qp.adjoint(qp.Hermitian(P(v, H2, H2B), L[0])))
    add("symbolic", "adjoint(QubitUnitary)", lambda v: qp.adjoint(qp.QubitUnitary(P(v, U4, U4B), [L[0], L[2]])))
    add("symbolic", "adjoint(SEL)", lambda v: qp.adjoint(qp.StronglyEntanglingLayers(np.full((2, 2, 3), a(P(v, 1, 2))), wires=[L[0], L[1]])))
    add("symbolic", "adjoint(adjoint(pow(RY)))", lambda v: qp.adjoint(qp.adjoint(qp.pow(qp.RY(a(P(v, 3, 7)), L[2]), 2))))
    add("symbolic", "ctrl(RX;work)", lambda v: qp.ctrl(qp.RX(a(P(v, 3, 6)), L[0]), control=[L[1], L[2]], control_values=[1, 0],
                                                       work_wires=[L[3]], work_wire_type="zeroed"))
    add("symbolic", "ctrl(Rot;work2)", lambda v: qp.ctrl(qp.Rot(a(P(v, 3, 6)), a(1), a(P(v, 2, 9)), L[0]), control=[L[1]],
                                                         work_wires=[L[3], L[4]]))
    add("symbolic", "ctrl(QubitUnitary)", lambda v: qp.ctrl(qp.QubitUnitary(P(v, U2, U2B), L[0]), control=[L[1], L[3]], control_values=[0, 1]))
    add("symbolic", "ctrl(SEL)", lambda v: qp.ctrl(qp.StronglyEntanglingLayers(np.full((1, 2, 3), a(P(v, 1, 2))), wires=[L[0], L[1]]),
                                                   control=[L[2]], work_wires=[L[4]]))
    add("symbolic", "ctrl(ctrl(adjoint(pow(RZ))))", lambda v: qp.ctrl(qp.ctrl(qp.adjoint(qp.pow(qp.RZ(a(P(v, 1, 2)), L[0]), 3)), L[1]), L[2],
                                                                     control_values=[0]))
    add("symbolic", "ctrl(prod)", lambda v: qp.ctrl(qp.prod(qp.RX(a(P(v, 1, 2)), L[0]), qp.Y(L[1])), control=[L[2]]))
    add("symbolic", "ctrl(X)->native", lambda v: qp.ctrl(qp.X(L[0]), control=[L[1], L[2], L[3]], control_values=[1, 0, 1], work_wires=[L[4]]))
    add("symbolic", "ControlledQubitUnitary", lambda v: qp.ControlledQubitUnitary(P(v, U2, U2B), wires=[L[1], L[2], L[0]], control_values=[0, 1]))
    add("symbolic", "prod(X,Y,Z)", lambda v: qp.prod(qp.X(L[0]), qp.Y(L[1]), qp.Z(L[0])))
    add("symbolic", "prod(RX,RY,RZ)", lambda v: qp.prod(qp.RX(a(P(v, 1, 9)), L[0]), qp.RY(a(P(v, 2, 3)), L[0]), qp.RZ(a(3), L[1])))
    add("symbolic", "prod(prod,sum)", lambda v: qp.prod(qp.prod(qp.X(L[0]), qp.RY(a(P(v, 2, 5)), L[1])), qp.sum(qp.Z(L[2]), qp.X(L[0]))))
    add("symbolic", "matmul", lambda v: qp.RX(a(P(v, 1, 9)), L[0]) @ qp.CNOT([L[0], L[1]]) @ qp.adjoint(qp.S(L[1])))
    add("symbolic", "sum(X,Z)", lambda v: qp.sum(qp.X(L[0]), qp.Z(L[0])))
    add("symbolic", "sum(dups)", lambda v: qp.sum(qp.X(L[0]), qp.X(L[0]), qp.Z(L[1]), qp.Z(L[1])))
    add("symbolic", "sum(sprod,prod)", lambda v: qp.sum(qp.s_prod(P(v, 0.5, -1.25), qp.X(L[0])), qp.prod(qp.Y(L[1]), qp.Z(L[2])), qp.RX(a(P(v, 1, 2)), L[3])))
    add("symbolic", "add/sub/neg", lambda v: qp.X(L[0]) + P(v, 2.0, 3.0) * qp.Y(L[1]) - qp.Z(L[2]))
    add("symbolic", "sprod(RX)", lambda v: qp.s_prod(P(v, 1.5, 2.5), qp.RX(a(P(v, 1, 2)), L[0])))
    add("symbolic", "sprod(complex,prod)", lambda v: qp.s_prod(P(v, 0.5j, 2 - 1j), qp.X(L[0]) @ qp.Y(L[1])))
    add("symbolic", "sprod(sprod)", lambda v: qp.s_prod(P(v, 2.0, 4.0), qp.s_prod(P(v, 3.0, 0.5), qp.Z(L[1])), lazy=True))
    add("symbolic", "exp(X,real)", lambda v: qp.exp(qp.X(L[0]), P(v, 1.25, 0.5)))
    add("symbolic", "exp(prod,imag)", lambda v: qp.exp(qp.X(L[0]) @ qp.Z(L[1]), P(v, 0.5j, -0.75j)))
    add("symbolic", "exp(sum)", lambda v: qp.exp(qp.sum(qp.X(L[0]), qp.s_prod(0.5, qp.Z(L[1]))), P(v, 0.25j, 1j)))
    add("symbolic", "Evolution", lambda v: qp.ops.Evolution(qp.X(L[0]), P(v, 5.25, 0.5)))
    add("symbolic", "evolve(H)", lambda v: qp.evolve(qp.Hamiltonian([P(v, 1.0, 2.0), 0.5], [qp.X(L[0]), qp.Z(L[1]) @ qp.Z(L[0])]), P(v, 0.75, 1.5)))
    add("symbolic", "LinearCombination", lambda v: qp.ops.LinearCombination([P(v, 1.25, 2.5), 2.25], [qp.X(L[0]), qp.Z(L[1])]))
    add("symbolic", "Hamiltonian(nested)", lambda v: qp.Hamiltonian([P(v, 0.5, 0.25), -1.0, 2.0], [qp.X(L[0]) @ qp.Y(L[1]), qp.Hermitian(H2, L[2]), qp.Identity(L[0])]))
    add("symbolic", "Hamiltonian(grouped)", lambda v: qp.Hamiltonian([P(v, 0.5, 0.25), -1.0, 2.0], [qp.X(L[0]), qp.Z(L[0]), qp.X(L[1])], grouping_type="qwc"))
    add("symbolic", "ChangeOpBasis", lambda v: qp.ops.op_math.ChangeOpBasis(qp.T(L[0]), qp.RZ(a(P(v, 1, 2)), L[0])))
    # ---- channels
    add("channel", "BitFlip", lambda v: qp.BitFlip(P(v, 0.25, 0.5), L[0]))
    add("channel", "PhaseFlip", lambda v: qp.PhaseFlip(P(v, 0.125, 0.75), L[1]))
    add("channel", "DepolarizingChannel", lambda v: qp.DepolarizingChannel(P(v, 0.25, 0.5), L[0]))
    add("channel", "AmplitudeDamping", lambda v: qp.AmplitudeDamping(P(v, 0.25, 0.5), L[2]))
    add("channel", "GeneralizedAmplitudeDamping", lambda v: qp.GeneralizedAmplitudeDamping(P(v, 0.25, 0.5), P(v, 0.75, 0.125), L[0]))
    add("channel", "PhaseDamping", lambda v: qp.PhaseDamping(P(v, 0.25, 0.5), L[0]))
    add("channel", "ResetError", lambda v: qp.ResetError(P(v, 0.25, 0.125), P(v, 0.5, 0.25), L[0]))
    add("channel", "PauliError", lambda v: qp.PauliError("XZ", P(v, 0.25, 0.5), wires=[L[0], L[1]]))
    add("channel", "QubitChannel", lambda v: qp.QubitChannel([np.array([[1, 0], [0, P(v, 0.8, 0.6)]]), np.array([[0, P(v, 0.6, 0.8)], [0, 0]])], wires=L[0]))
    add("channel", "ThermalRelaxationError", lambda v: qp.ThermalRelaxationError(P(v, 0.25, 0.5), 1e-4, 1.2e-4, 2e-8, L[0]))
    add("channel", "adjoint?ctrl-free:pow-free", lambda v: qp.PhaseFlip(np.array(P(v, 0.125, 0.75)), L[1]))
    # ---- observables
    add("observable", "Hermitian", lambda v: qp.Hermitian(P(v, H2, H2B), L[0]))
    add("observable", "Hermitian(2q)", lambda v: qp.Hermitian(np.kron(P(v, H2, H2B), H2), [L[1], L[0]]))
    add("observable", "Projector(basis)", lambda v: qp.Projector(P(v, [1, 0], [0, 1]), [L[0], L[1]]))
    add("observable", "Projector(state)", lambda v: qp.Projector(P(v, np.array([1, 0, 0, 1]) / np.sqrt(2), np.array([0, 1, 1, 0]) / np.sqrt(2)), [L[0], L[1]]))
    add("observable", "SparseHamiltonian", lambda v: qp.SparseHamiltonian(qp.Hamiltonian([P(v, 1.25, 2.5)], [qp.X(L[0])]).sparse_matrix(), [L[0]]))
    add("observable", "Identity(multi)", lambda v: qp.Identity([L[0], L[2]]))
    add("observable", "X@Z@Hermitian", lambda v: qp.X(L[0]) @ qp.Z(L[1]) @ qp.Hermitian(P(v, H2, H2B), L[2]))
    # ---- matrix / state-prep style operations
    add("matrix", "QubitUnitary(1q)", lambda v: qp.QubitUnitary(P(v, U2, U2B), L[0]))
    add("matrix", "QubitUnitary(2q)", lambda v: qp.QubitUnitary(P(v, U4, U4B), [L[1], L[0]]))
    add("matrix", "DiagonalQubitUnitary", lambda v: qp.DiagonalQubitUnitary(P(v, [1, 1j, -1, -1j], [1, -1, 1j, 1]), wires=[L[0], L[1]]))
    add("matrix", "SpecialUnitary", lambda v: qp.SpecialUnitary(P(v, [0.25, 0.5, 1.0], [1.0, 0.125, 0.5]), [L[0]]))
    add("matrix", "BlockEncode", lambda v: qp.BlockEncode(P(v, [[0.1, 0.2], [0.3, 0.4]], [[0.4, 0.1], [0.2, 0.3]]), wires=[L[0], L[1]]))
    add("matrix", "PCPhase", lambda v: qp.PCPhase(P(v, 0.25, 1.5), dim=2, wires=[L[0], L[1]]))
    add("matrix", "IntegerComparator", lambda v: qp.IntegerComparator(1, geq=False, wires=[L[0], L[1], L[2]]))
    add("matrix", "BasisState", lambda v: qp.BasisState(P(v, [1, 0, 1], [0, 1, 1]), wires=[L[0], L[1], L[2]]))
    add("matrix", "BasisState(arr)", lambda v: qp.BasisState(np.array(P(v, [1], [0])), wires=[L[3]]))
    add("matrix", "StatePrep", lambda v: qp.StatePrep(P(v, np.array([0, 1.0]), np.array([1.0, 0])), L[0]))
    add("matrix", "StatePrep(2q,pad)", lambda v: qp.StatePrep(np.array(P(v, [1.0, 1.0, 0], [0, 1.0, 1.0])), [L[0], L[1]], pad_with=0.0, normalize=True))
    add("matrix", "QubitDensityMatrix", lambda v: qp.QubitDensityMatrix(P(v, np.diag([0.5, 0.5]), np.diag([0.25, 0.75])), L[0]))
    add("matrix", "Snapshot(tag)", lambda v: qp.Snapshot(tag="tag"))
    add("matrix", "Snapshot(meas)", lambda v: qp.Snapshot(measurement=qp.expval(qp.Z(L[0])), tag="hi"))
    add("matrix", "Barrier", lambda v: qp.Barrier(wires=[L[0], L[1]], only_visual=True))
    add("matrix", "WireCut", lambda v: qp.WireCut(wires=[L[0]]))
    add("matrix", "GlobalPhase(wire)", lambda v: qp.GlobalPhase(a(P(v, 1, 3)), wires=[L[0], L[1]]))
    add("matrix", "Identity(param-free)", lambda v: qp.Identity(L[0]))
    add("matrix", "MultiRZ(3)", lambda v: qp.MultiRZ(a(P(v, 1, 3)), wires=[L[2], L[0], L[1]]))
    add("matrix", "PauliRot(IXYZ)", lambda v: qp.PauliRot(a(P(v, 5, 3)), "IXYZ", wires=[L[2], L[0], L[1], L[3]]))
    add("matrix", "MCX(work)", lambda v: qp.MultiControlledX(wires=[L[0], L[1], L[2], L[3]], control_values=[1, 0, 1], work_wires=[L[4]], work_wire_type="zeroed"))
    add("matrix", "OrbitalRotation", lambda v: qp.OrbitalRotation(a(P(v, 1, 3)), wires=[L[0], L[1], L[2], L[3]]))
    add("matrix", "RX(batched)", lambda v: qp.RX(np.array(P(v, [a(1), a(2), a(3)], [a(3), a(1), a(5)])), L[0]))
    add("matrix", "Rot(mixed-batched)", lambda v: qp.Rot(np.array(P(v, [a(1), a(2)], [a(3), a(1)])), a(1), np.array(a(P(v, 1, 2))), L[0]))
    add("matrix", "MidMeasure", lambda v: qp.ops.MidMeasure(wires=L[0], reset=True, postselect=1))
    add("matrix", "PauliMeasure", lambda v: qp.ops.PauliMeasure("XZ", wires=[L[0], L[1]]))
    # ---- templates
    add("template", "QFT(4)", lambda v: qp.QFT(wires=[L[0], L[1], L[2], L[3]]))
    add("template", "StronglyEntanglingLayers", lambda v: qp.StronglyEntanglingLayers(np.arange(18).reshape(2, 3, 3) * a(1) * P(v, 1, 3), wires=[L[0], L[1], L[2]]))
    add("template", "StronglyEntanglingLayers(ranges,imprimitive)", lambda v: qp.StronglyEntanglingLayers(
        np.arange(18).reshape(2, 3, 3) * a(1) * P(v, 1, 3), wires=[L[0], L[1], L[2]], ranges=[2, 1], imprimitive=qp.CZ))
    add("template", "BasicEntanglerLayers", lambda v: qp.BasicEntanglerLayers(np.arange(6).reshape(2, 3) * a(P(v, 1, 2)), wires=[L[0], L[1], L[2]], rotation=qp.RY))
    add("template", "RandomLayers", lambda v: qp.RandomLayers(np.arange(4).reshape(2, 2) * a(P(v, 1, 2)), wires=[L[0], L[1]], seed=12))
    add("template", "SimplifiedTwoDesign", lambda v: qp.SimplifiedTwoDesign(np.array([a(P(v, 1, 5)), a(2)]), np.full((1, 1, 2), a(P(v, 3, 2))), wires=[L[0], L[1]]))
    add("template", "AngleEmbedding", lambda v: qp.AngleEmbedding(np.array([a(P(v, 1, 4)), a(2)]), wires=[L[0], L[1]], rotation="Y"))
    add("template", "AmplitudeEmbedding", lambda v: qp.AmplitudeEmbedding(np.array(P(v, [1.0, 0, 0, 1.0], [0, 1.0, 1.0, 0])) / np.sqrt(2), wires=[L[0], L[1]]))
    add("template", "BasisEmbedding", lambda v: qp.BasisEmbedding(P(v, [1, 0], [1, 1]), wires=[L[0], L[1]]))
    add("template", "IQPEmbedding", lambda v: qp.IQPEmbedding(np.array([a(P(v, 1, 4)), a(2)]), wires=[L[0], L[1]], n_repeats=2, pattern=[[L[0], L[1]]]))
    add("template", "QAOAEmbedding", lambda v: qp.QAOAEmbedding(np.array([a(1), a(2)]), np.full((1, 3), a(P(v, 1, 4))), wires=[L[0], L[1]], local_field="X"))
    add("template", "ArbitraryUnitary", lambda v: qp.ArbitraryUnitary(np.arange(3) * a(P(v, 1, 2)), wires=[L[0]]))
    add("template", "ArbitraryStatePreparation", lambda v: qp.ArbitraryStatePreparation(np.arange(2) * a(P(v, 1, 2)), wires=[L[0]]))
    add("template", "MottonenStatePreparation", lambda v: qp.MottonenStatePreparation(np.array(P(v, [1.0, 0, 0, 1.0], [0, 1.0, 1.0, 0])) / np.sqrt(2), wires=[L[0], L[1]]))
    add("template", "AllSinglesDoubles", lambda v: qp.AllSinglesDoubles(np.array([a(P(v, 1, 2)), a(3)]), wires=[L[0], L[1], L[2], L[3]], hf_state=np.array([1, 1, 0, 0]),
                                                                        singles=[[L[0], L[2]]], doubles=[[L[0], L[1], L[2], L[3]]]))
    add("template", "GroverOperator", lambda v: qp.GroverOperator(wires=[L[0], L[1], L[2]], work_wires=[L[3]]))
    add("template", "QuantumPhaseEstimation", lambda v: qp.QuantumPhaseEstimation(qp.RX(a(P(v, 1, 2)), L[0]), estimation_wires=[L[1], L[2]]))
    add("template", "Permute", lambda v: qp.Permute([L[2], L[0], L[1]], wires=[L[0], L[1], L[2]]))
    add("template", "TrotterProduct", lambda v: qp.TrotterProduct(qp.sum(qp.s_prod(P(v, 0.5, 0.75), qp.X(L[0])), qp.Z(L[1])), P(v, 0.25, 1.5), n=2, order=2))
    add("template", "ApproxTimeEvolution", lambda v: qp.ApproxTimeEvolution(qp.Hamiltonian([P(v, 0.5, 0.75), 1.0], [qp.X(L[0]), qp.Z(L[1])]), P(v, 0.25, 1.5), 2))
    add("template", "CommutingEvolution", lambda v: qp.CommutingEvolution(qp.Hamiltonian([P(v, 0.5, 0.75), 1.0], [qp.X(L[0]) @ qp.X(L[1]), qp.Y(L[0]) @ qp.Y(L[1])]), P(v, 0.25, 1.5)))
    add("template", "QDrift", lambda v: qp.QDrift(qp.sum(qp.s_prod(P(v, 0.5, 0.75), qp.X(L[0])), qp.Z(L[1])), P(v, 0.25, 1.5), n=3, seed=7))
    add("template", "Select", lambda v: qp.Select([qp.X(L[2]), qp.RY(a(P(v, 1, 2)), L[2]), qp.Z(L[2])], control=[L[0], L[1]]))
    add("template", "ControlledSequence", lambda v: qp.ControlledSequence(qp.RX(a(P(v, 1, 2)), L[2]), control=[L[0], L[1]]))
    add("template", "QSVT", lambda v: qp.QSVT(qp.BlockEncode(np.array([[P(v, 0.1, 0.3), 0.2], [0.3, 0.4]]), wires=[L[0], L[1]]),
                                              [qp.PCPhase(a(P(v, 1, 2)), dim=2, wires=[L[0], L[1]]), qp.PCPhase(a(3), dim=2, wires=[L[0], L[1]])]))
    add("template", "PrepSelPrep", lambda v: qp.PrepSelPrep(qp.ops.LinearCombination([P(v, 0.25, 0.5), 0.75], [qp.Z(L[2]), qp.X(L[2])]), control=[L[0]]))
    add("template", "Qubitization", lambda v: qp.Qubitization(qp.ops.LinearCombination([P(v, 0.25, 0.5), 0.75], [qp.Z(L[2]), qp.X(L[2])]), control=[L[0]]))
    add("template", "FermionicDoubleExcitation", lambda v: qp.FermionicDoubleExcitation(a(P(v, 1, 2)), wires1=[L[0], L[1]], wires2=[L[2], L[3]]))
    add("template", "FermionicSingleExcitation", lambda v: qp.FermionicSingleExcitation(a(P(v, 1, 2)), wires=[L[0], L[1], L[2]]))
    add("template", "UCCSD", lambda v: qp.UCCSD(np.array([a(P(v, 1, 2)), a(3)]), wires=[L[0], L[1], L[2], L[3]], s_wires=[[L[0], L[1], L[2]]],
                                                d_wires=[[[L[0], L[1]], [L[2], L[3]]]], init_state=np.array([1, 1, 0, 0])))
    add("template", "kUpCCGSD", lambda v: qp.kUpCCGSD(np.full((1, 6), a(P(v, 1, 2))), wires=[L[0], L[1], L[2], L[3]], k=1, delta_sz=0, init_state=np.array([1, 1, 0, 0])))
    add("template", "ParticleConservingU1", lambda v: qp.ParticleConservingU1(np.full((1, 1, 2), a(P(v, 1, 2))), wires=[L[0], L[1]], init_state=np.array([1, 0])))
    add("template", "ParticleConservingU2", lambda v: qp.ParticleConservingU2(np.full((1, 3), a(P(v, 1, 2))), wires=[L[0], L[1]], init_state=np.array([1, 0])))
    add("template", "QROM", lambda v: qp.QROM(["01", "11", "10", "00"], control_wires=[L[0], L[1]], target_wires=[L[2], L[3]], work_wires=[L[4]]))
    add("template", "QROMStatePreparation", lambda v: qp.QROMStatePreparation(np.array(P(v, [0.5, 0.5, 0.5, 0.5], [0.5, -0.5, 0.5, -0.5])), wires=[L[0], L[1]],
                                                                              precision_wires=[L[2], L[3]], work_wires=[L[4]]))
    add("template", "Reflection", lambda v: qp.Reflection(qp.Hadamard(L[0]), a(P(v, 1, 2))))
    add("template", "AmplitudeAmplification", lambda v: qp.AmplitudeAmplification(qp.Hadamard(L[0]), qp.Z(L[0]), iters=2))
    add("template", "FABLE", lambda v: qp.FABLE(np.array([[P(v, 0.1, 0.3), 0.2], [0.3, 0.4]]), wires=[L[0], L[1], L[2]], tol=0.0))
    add("template", "Adder", lambda v: qp.Adder(3, x_wires=[L[0], L[1], L[2]], mod=7, work_wires=[L[3], L[4]]))
    add("template", "PhaseAdder", lambda v: qp.PhaseAdder(3, x_wires=[L[0], L[1], L[2]], mod=7, work_wire=[L[3]]))
    add("template", "Multiplier", lambda v: qp.Multiplier(2, x_wires=[L[0], L[1]], mod=3, work_wires=[L[2], L[3], L[4], L[5]]))
    add("template", "ModExp", lambda v: qp.ModExp(x_wires=[L[0]], output_wires=[L[1], L[2]], base=2, mod=3, work_wires=[L[3], L[4], L[5], L[6]]))
    add("template", "OutAdder", lambda v: qp.OutAdder(x_wires=[L[0]], y_wires=[L[1]], output_wires=[L[2], L[3]]))
    add("template", "OutMultiplier", lambda v: qp.OutMultiplier(x_wires=[L[0]], y_wires=[L[1]], output_wires=[L[2], L[3]]))
    add("template", "SemiAdder", lambda v: qp.SemiAdder(x_wires=[L[0], L[1]], y_wires=[L[2], L[3]], work_wires=[L[4]]))
    add("template", "TemporaryAND", lambda v: qp.TemporaryAND(wires=[L[0], L[1], L[2]], control_values=(0, 1)))
    add("template", "Elbow(adj)", lambda v: qp.adjoint(qp.TemporaryAND(wires=[L[0], L[1], L[2]])))
    add("template", "SelectPauliRot", lambda v: qp.SelectPauliRot(np.arange(4) * a(P(v, 1, 2)), control_wires=[L[0], L[1]], target_wire=L[2], rot_axis="Y"))
    add("template", "Superposition", lambda v: qp.Superposition(np.sqrt(np.array(P(v, [0.5, 0.5], [0.25, 0.75]))), [[0, 1], [1, 1]], wires=[L[0], L[1]], work_wire=L[2]))
    add("template", "CosineWindow", lambda v: qp.CosineWindow(wires=[L[0], L[1]]))
    add("template", "MPS/TTN/MERA-free:TwoLocalSwapNetwork", lambda v: qp.templates.TwoLocalSwapNetwork(
        [L[0], L[1], L[2], L[3]], acquaintances=None, weights=None, fermionic=True, shift=False))
    add("template", "BasisRotation", lambda v: qp.BasisRotation(wires=[L[0], L[1]], unitary_matrix=P(v, U2, U2B.real)))
    add("template", "AQFT", lambda v: qp.AQFT(order=1, wires=[L[0], L[1], L[2]]))
    add("template", "GQSP", lambda v: qp.GQSP(qp.RX(a(1), L[1]), np.full((3, 2), a(P(v, 1, 2))), control=L[0]))
    add("template", "HilbertSchmidt", lambda v: qp.HilbertSchmidt([qp.RZ(a(P(v, 1, 2)), L[1])], [qp.Hadamard(L[0])]))
    add("template", "FlipSign", lambda v: qp.FlipSign([1, 0], wires=[L[0], L[1]]))
    add("template", "QutritBasisStatePreparation-free:Interferometer-free:GateFabric", lambda v: qp.GateFabric(
        np.full((1, 1, 2), a(P(v, 1, 2))), wires=[L[0], L[1], L[2], L[3]], init_state=np.array([1, 1, 0, 0]), include_pi=True))
    # ---- further classes (module-level callables so that pickling by reference is possible)
    from pennylane.drawer.label import LabelledOp
    from pennylane.fourier.mark import MarkedOp
    from pennylane.templates.subroutines.time_evolution.trotter import TrotterizedQfunc
    add("symbolic", "LabelledOp", lambda v: LabelledOp(qp.RX(a(P(v, 1, 2)), L[0]), "my-x"))
    add("symbolic", "MarkedOp", lambda v: MarkedOp(qp.RX(a(P(v, 1, 2)), L[0]), "m"))
    add("symbolic", "Conditional", lambda v: qp.ops.Conditional(qp.measure(L[1]), qp.RX(a(P(v, 1, 2)), L[0])))
    add("matrix", "TmpPauliRot", lambda v: qp.ops.qubit.special_unitary.TmpPauliRot(a(P(v, 1, 2)), "X", [L[0]]))
    add("matrix", "MeasureNode", lambda v: qp.qcut.MeasureNode(wires=L[0]))
    add("matrix", "PrepareNode", lambda v: qp.qcut.PrepareNode(wires=L[0]))
    add("template", "Incrementer", lambda v: qp.templates.Incrementer(wires=[L[0], L[1]], work_wires=[L[2]]))
    add("template", "MPS", lambda v: qp.MPS([L[0], L[1], L[2]], 2, _block, 2, np.full((2, 2), a(P(v, 1, 2)))))
    add("template", "TTN", lambda v: qp.TTN([L[0], L[1], L[2], L[3]], 2, _block, 2, np.full((3, 2), a(P(v, 1, 2)))))
    add("template", "MERA", lambda v: qp.MERA([L[0], L[1], L[2], L[3]], 2, _block, 2, np.full((5, 2), a(P(v, 1, 2)))))
    add("template", "MPSPrep", lambda v: qp.MPSPrep([np.array(P(v, [[0.0, 1.0], [1.0, 0.0]], [[1.0, 0.0], [0.0, 1.0]])), np.array([[1.0, 0.0], [0.0, 1.0]])],
                                                    wires=[L[0], L[1]]))
    add("template", "QuantumMonteCarlo", lambda v: qp.QuantumMonteCarlo(np.array(P(v, [0.25, 0.25, 0.25, 0.25], [0.5, 0.25, 0.125, 0.125])), _qmc_fn,
                                                                        target_wires=[L[0], L[1], L[2]], estimation_wires=[L[3], L[4]]))
    add("template", "TrotterizedQfunc", lambda v: TrotterizedQfunc(P(v, 0.25, 0.5), 2.5, qfunc=_trotter_qfunc, n=2, order=2, wires=[L[0], L[1]], flip=True))
    add("template", "LocalHilbertSchmidt", lambda v: qp.LocalHilbertSchmidt([qp.RZ(a(P(v, 1, 2)), L[1])], [qp.Hadamard(L[0])]))
    add("template", "MultiplexerStatePreparation", lambda v: qp.MultiplexerStatePreparation(np.array(P(v, [0.5, 0.5, 0.5, 0.5], [0.5, -0.5, 0.5, -0.5])), wires=[L[0], L[1]]))
    add("template", "SumOfSlatersPrep", lambda v: qp.SumOfSlatersPrep(np.array(P(v, [0.6, 0.8], [0.8, 0.6])), wires=[L[0], L[1]], indices=[0, 3]))
    add("template", "OutPoly", lambda v: qp.OutPoly(_poly, input_registers=[[L[0]], [L[1]]], output_wires=[L[2], L[3]]))
    add("template", "FirstQuantization", lambda v: qp.estimator.FirstQuantization(1, 2, 1))
    # ---- parameters from the autodiff interfaces
    add("interface", "RX(autograd)", lambda v: qp.RX(qp.numpy.array(a(P(v, 1, 2)), requires_grad=True), L[0]))
    add("interface", "Rot(autograd,nograd)", lambda v: qp.Rot(qp.numpy.array(a(P(v, 1, 2)), requires_grad=False), qp.numpy.array(a(1), requires_grad=True), a(3), L[0]))
    add("interface", "Hermitian(autograd)", lambda v: qp.Hermitian(qp.numpy.array(P(v, H2, H2B), requires_grad=False), L[0]))
    add("interface", "SEL(autograd)", lambda v: qp.StronglyEntanglingLayers(qp.numpy.array(np.full((1, 2, 3), a(P(v, 1, 2))), requires_grad=True), wires=[L[0], L[1]]))

    def jx(x):
        import jax.numpy as jnp
        return jnp.array(x)
    add("interface", "RX(jax)", lambda v: qp.RX(jx(a(P(v, 1, 2))), L[0]))
    add("interface", "QubitUnitary(jax)", lambda v: qp.QubitUnitary(jx(P(v, U2, U2B)), L[0]))
    add("interface", "StatePrep(jax)", lambda v: qp.StatePrep(jx(P(v, [0, 1.0], [1.0, 0])), L[0]))
    add("interface", "ctrl(RY(jax))", lambda v: qp.ctrl(qp.RY(jx(a(P(v, 1, 2))), L[0]), control=[L[1]]))

    def tc(x, g=False):
        import torch
        return torch.tensor(x, requires_grad=g, dtype=torch.float64)
    add("interface", "RX(torch)", lambda v: qp.RX(tc(a(P(v, 1, 2))), L[0]))
    add("interface", "RY(torch,grad)", lambda v: qp.RY(tc(a(P(v, 1, 2)), True), L[0]))
    add("interface", "Hermitian(torch)", lambda v: qp.Hermitian(tc(P(v, H2, H2.T * 2)), L[0]))
    add("interface", "sprod(torch)", lambda v: qp.s_prod(tc(P(v, 0.5, 0.25), True), qp.X(L[0])))
    return R


def _mp_recipes(L):
    R = []

    def add(label, f):
        R.append(("measurement", label, f))
    add("expval(Z)", lambda v: qp.expval(qp.Z(L[0])))
    add("expval(X@Y)", lambda v: qp.expval(qp.X(L[0]) @ qp.Y(L[1])))
    add("expval(Hermitian)", lambda v: qp.expval(qp.Hermitian(H2, L[0])))
    add("expval(Hamiltonian)", lambda v: qp.expval(qp.Hamiltonian([0.5, 1.5], [qp.X(L[0]), qp.Z(L[1]) @ qp.Z(L[0])])))
    add("expval(sum(sprod))", lambda v: qp.expval(qp.sum(qp.s_prod(0.5, qp.X(L[0])), qp.Projector([1], L[1]))))
    add("var(Z)", lambda v: qp.var(qp.Z(L[0])))
    add("var(Projector)", lambda v: qp.var(qp.Projector([1, 0], [L[0], L[1]])))
    add("sample()", lambda v: qp.sample())
    add("sample(wires)", lambda v: qp.sample(wires=[L[1], L[0]]))
    add("sample(op)", lambda v: qp.sample(qp.Y(L[0])))
    add("counts()", lambda v: qp.counts())
    add("counts(wires,all)", lambda v: qp.counts(wires=[L[0], L[2]], all_outcomes=True))
    add("counts(op)", lambda v: qp.counts(qp.X(L[0]) @ qp.Z(L[1])))
    add("probs(wires)", lambda v: qp.probs(wires=[L[2], L[0]]))
    add("probs(op)", lambda v: qp.probs(op=qp.Hadamard(L[0])))
    add("probs()", lambda v: qp.probs())
    add("state()", lambda v: qp.state())
    add("density_matrix", lambda v: qp.density_matrix(wires=[L[0], L[1]]))
    add("vn_entropy", lambda v: qp.vn_entropy(wires=[L[0]], log_base=2))
    add("purity", lambda v: qp.purity(wires=[L[0], L[1]]))
    add("mutual_info", lambda v: qp.mutual_info(wires0=[L[0]], wires1=[L[1], L[2]], log_base=10))
    add("classical_shadow", lambda v: qp.classical_shadow(wires=[L[0], L[1]], seed=5))
    add("shadow_expval", lambda v: qp.shadow_expval(qp.Hamiltonian([0.5, 1.5], [qp.X(L[0]), qp.Z(L[1])]), k=2, seed=3))
    add("MP(eigvals)", lambda v: qp.measurements.ExpectationMP(eigvals=np.array([1.0, -1.0, -1.0, 1.0]), wires=Wires([L[0], L[1]])))
    add("sample(eigvals)", lambda v: qp.measurements.SampleMP(eigvals=np.array([0.5, -0.5]), wires=Wires([L[2]])))
    add("NullMeasurement", lambda v: qp.measurements.NullMeasurement())
    add("expval(mcm)", lambda v: qp.expval(qp.measure(L[0])))
    add("probs(mcms)", lambda v: qp.probs(op=[qp.measure(L[0]), qp.measure(L[1])]))
    return R


def build_space(tier, seed):
    """-> (instances, dropped recipes [(label, exception)]).  Deterministic for (tier, seed)."""
    import random
    rng = random.Random(7000 + seed)
    insts = []
    per = 2 if tier == "quick" else 5
    for pool in ("int", "str", "mix"):
        insts += table_instances(pool, rng, per if pool == "int" else max(1, per // 2))
        stride = {"int": 2, "str": 0, "mix": 3}[pool] if tier == "quick" else {"int": 1, "str": 2, "mix": 2}[pool]
        if stride:
            insts += wrapper_instances(pool, rng, stride)
    dropped = []
    for pool in ("int", "mix") if tier == "quick" else ("int", "str", "mix"):
        L = LABEL_POOLS[pool]
        for family, label, f in _recipes(L) + _mp_recipes(L):
            if pool != "int" and family == "interface":
                continue
            try:
                with qp.queuing.QueuingManager.stop_recording():
                    o0, o1 = f(0), f(1)
                nw = len(o0.wires)
            except Exception as e:                     # recipe not constructible on this tree: counted, never silent
                dropped.append((f"{label}@{pool}", f"{type(e).__name__}: {e}"[:160]))
                continue
            insts.append(Inst(f"{label}@{pool}", family, f, int_wires=pool == "int", is_mp=family == "measurement", nwires=nw))
    return insts, dropped


def all_concrete_classes():
    """Names of every Operator / Operator2 / MeasurementProcess subclass defined inside pennylane (for the coverage count)."""
    def sub(c, seen):
        for s in c.__subclasses__():
            if s not in seen:
                seen.add(s)
                sub(s, seen)
        return seen
    cls = sub(Operator, set()) | sub(Operator2, set()) | sub(MeasurementProcess, set())
    return {c.__module__ + "." + c.__qualname__ for c in cls if c.__module__.startswith("pennylane.") and not inspect.isabstract(c)}


# ------------------------------------------------------------------------------------------------ content encoding
_ADDR = re.compile(r" at 0x[0-9a-fA-F]+")


def _iface(v):
    try:
        i = qp.math.get_interface(v)
    except Exception:
        i = "?"
    return {"scipy": "numpy", "builtins": "numpy"}.get(i, i)


_MODE = {"mask": False}
_IFACES = []              # interfaces / trainability of the values met while a content record is built (field `ifc`)


def tok(v, param=True):
    """Value token of one parameter: shape and the exact values (repr of float64 / complex128).  The interface and
    trainability of the value go to the `ifc` field of the content record.  In mask mode every parameter of an operator
    and every non-integer number prints as '_'."""
    if _MODE["mask"]:
        if param or not isinstance(v, (int, np.integer)):
            return "_"
        return repr(int(v))
    iface = _iface(v)
    rg = ""
    if iface in ("autograd", "torch"):
        rg = "g" if getattr(v, "requires_grad", False) else "n"
    try:
        if hasattr(v, "toarray"):
            arr = np.asarray(v.toarray())
        elif iface == "torch":
            arr = v.detach().cpu().numpy()
        else:
            arr = np.asarray(v)
    except Exception:
        return f"obj:{_ADDR.sub('', repr(v))[:80]}"
    if arr.dtype == object:
        return f"obj:{_ADDR.sub('', repr(v))[:80]}"
    flat = arr.reshape(-1)
    if np.iscomplexobj(flat) and np.any(flat.imag != 0):
        vals = [repr(complex(x)) for x in flat]
    else:
        vals = [repr(float(np.real(x))) for x in flat]
    body = ",".join(vals)
    if len(body) > 60:
        body = "#" + hashlib.sha1(body.encode()).hexdigest()[:16]
    _IFACES.append(iface + rg)
    return f"{tuple(arr.shape)}:{body}"


def wlabel(w):
    if isinstance(w, (bool, np.bool_)):
        return f"b{int(w)}"
    if isinstance(w, (int, np.integer)):
        return f"i{int(w)}"
    if isinstance(w, str):
        return f"s{w}"
    try:
        if np.ndim(w) == 0 and np.issubdtype(np.asarray(w).dtype, np.integer):
            return f"i{int(w)}"
    except Exception:
        pass
    return "r" + _ADDR.sub("", repr(w))


def canon(x, depth=0):
    """Canonical text of a hyperparameter-like value (nested operators by their content)."""
    if depth > 12:
        return "<deep>"
    if isinstance(x, (Operator, Operator2, MeasurementProcess)):
        c = content(x, depth + 1)
        return f"{c['cls']}[{','.join(c['wires'])}]({';'.join(c['params'])}){{{c['hyper']}}}"
    if isinstance(x, Wires):
        return "W[" + ",".join(wlabel(w) for w in x) + "]"
    if x is None or isinstance(x, (bool, str)):
        return repr(x)
    if isinstance(x, (int, float, complex, np.number)):
        return tok(x, param=False)
    if isinstance(x, dict):
        return "{" + ",".join(f"{canon(k, depth + 1)}:{canon(v, depth + 1)}" for k, v in x.items()) + "}"
    if isinstance(x, (list, tuple)):
        return "[" + ",".join(canon(v, depth + 1) for v in x) + "]"          # list vs tuple is not an attribute of the operator
    if isinstance(x, (set, frozenset)):
        return "set{" + ",".join(sorted(canon(v, depth + 1) for v in x)) + "}"
    if isinstance(x, type):
        return "type:" + x.__module__ + "." + x.__qualname__
    if hasattr(x, "shape") or hasattr(x, "toarray"):
        return tok(x)
    if callable(x):
        return "fn:" + getattr(x, "__module__", "?") + "." + getattr(x, "__qualname__", type(x).__name__)
    mv = type(x).__name__
    if mv == "MeasurementValue":
        return "MV(" + ",".join(canon(m, depth + 1) for m in x.measurements) + ")"
    return type(x).__name__ + ":" + _ADDR.sub("", repr(x))[:200]


def _wires_norm(x):
    """raw wires of a measurement process -> nested lists of labels (None and an empty register are the same thing)."""
    if x is None:
        return []
    if isinstance(x, Wires):
        return [wlabel(w) for w in x]
    if isinstance(x, (list, tuple)):
        return [_wires_norm(v) if isinstance(v, (Wires, list, tuple)) else wlabel(v) for v in x]
    return [wlabel(x)]


def _hyper_of(obj, full=True):
    """full: every bound argument of an Operator2 (dynamic ones too: e.g. the control values of ControlledOp2 are dynamic but not
    in `data`); not full (the masked `shape` text): without the dynamic arguments, which Rebind is allowed to change."""
    if isinstance(obj, MeasurementProcess):
        hyper = {"obs": obj.obs, "mv": obj.mv, "raw_wires": str(_wires_norm(getattr(obj, "raw_wires", None)))}
        for k in sorted(vars(obj)):
            if k not in ("obs", "mv", "_wires", "_eigvals", "id", "_shortname"):
                hyper[k] = vars(obj)[k]
        return hyper
    if isinstance(obj, Operator2):
        hyper = {k: v for k, v in obj.arguments.items() if full or k not in obj.dynamic_argnames}
    else:
        hyper = dict(obj.hyperparameters)
        for attr in ("control_values", "work_wires", "control_wires", "z", "scalar", "grouping_indices"):
            try:
                if attr not in hyper and hasattr(obj, attr):
                    hyper["." + attr] = getattr(obj, attr)
            except Exception:
                pass
    hyper[".name"] = obj.name
    hyper[".batch"] = getattr(obj, "batch_size", None)
    return hyper


def content(obj, depth=0):
    """Structural encoding through the PUBLIC accessors: class, wire labels, parameter tokens, hyperparameters.
    `hyper` holds nested operators with their parameter values, `shape` the same text with every numeric value masked
    (names, classes, wires, strings, nesting: a necessary part of what must survive Rebind)."""
    cls = type(obj).__module__ + "." + type(obj).__qualname__
    hyper = _hyper_of(obj, full=not _MODE["mask"])
    if depth == 0 and not _MODE["mask"]:
        del _IFACES[:]
    if isinstance(obj, MeasurementProcess):
        ev = getattr(obj, "_eigvals", None)
        params = [] if ev is None else [tok(ev)]
    else:
        params = [tok(d) for d in obj.data]
    out = {"cls": cls, "wires": [wlabel(w) for w in obj.wires], "params": params, "hyper": canon(hyper, depth + 1)}
    if depth == 0 and not _MODE["mask"]:
        out["ifc"] = ",".join(_IFACES)
        _MODE["mask"] = True
        try:
            out["shape"] = canon(_hyper_of(obj, full=False), 1)
        finally:
            _MODE["mask"] = False
    return out


def safe_content(obj):
    try:
        return content(obj)
    except Exception as e:                       # an object broken by a leaked mutation: still a (different) fingerprint
        return {"cls": "RAISES:" + type(e).__name__, "wires": [], "params": [], "hyper": str(e)[:80], "shape": "", "ifc": ""}


# ------------------------------------------------------------------------------------------------ id()-graph of mutable cells
_WALK_TYPES = (Operator, Operator2, MeasurementProcess)


def cell_graph(obj):
    """Mutable containers reachable from obj through instance attributes / container elements:
    -> {id: (kind, object)} with kind in arr | list | dict | set | obj (nested operator / measurement / measurement value)."""
    cells, seen = {}, set()
    stack = [(obj, True)]
    while stack:
        x, root = stack.pop()
        i = id(x)
        if i in seen:
            continue
        seen.add(i)
        if isinstance(x, np.ndarray):
            if x.ndim >= 0 and x.dtype != object:
                cells[i] = ("arr", x)
            else:
                cells[i] = ("arr", x)
                stack.extend((e, False) for e in x.reshape(-1))
            b = x.base
            if isinstance(b, np.ndarray):
                stack.append((b, False))
            continue
        if isinstance(x, (str, bytes, int, float, complex, bool, type(None), np.generic, type, Wires)):
            continue
        if isinstance(x, dict):
            cells[i] = ("dict", x)
            stack.extend((v, False) for v in x.values())
            stack.extend((k, False) for k in x.keys() if not isinstance(k, (str, int)))
            continue
        if isinstance(x, list):
            cells[i] = ("list", x)
            stack.extend((v, False) for v in x)
            continue
        if isinstance(x, (set,)):
            cells[i] = ("set", x)
            stack.extend((v, False) for v in x)
            continue
        if isinstance(x, (tuple, frozenset)):
            stack.extend((v, False) for v in x)
            continue
        if isinstance(x, inspect.BoundArguments):
            stack.append((x.arguments, False))
            continue
        if hasattr(x, "toarray") and hasattr(x, "data") and hasattr(x, "indices"):       # scipy sparse
            cells[i] = ("obj", x)
            stack.extend([(x.data, False), (x.indices, False), (getattr(x, "indptr", None), False)])
            continue
        if isinstance(x, _WALK_TYPES) or type(x).__name__ in ("MeasurementValue",):
            if not root:
                cells[i] = ("obj", x)
            d = getattr(x, "__dict__", None)
            if d is not None:
                stack.extend((v, False) for v in d.values())
            continue
        # anything else (functions, jax / torch arrays, enum members, PauliWord keys ...) is opaque and not counted as a cell
    return cells


def legacy_data_ids(obj):
    """ids of the parameter containers (ndarray / sparse matrix and their buffers) held in `data` of every LEGACY Operator
    (pennylane.core.operator.base.Operator, whose __deepcopy__ documents a shallow copy of `_data`) reachable from obj."""
    ids = set()
    ops = [obj] + [x for (k, x) in cell_graph(obj).values() if k == "obj"]
    for o in ops:
        if isinstance(o, Operator) and not isinstance(o, Operator2):
            try:
                stack = list(o.data)
            except Exception:
                continue
            while stack:
                d = stack.pop()
                if isinstance(d, (list, tuple)):
                    stack.extend(d)
                    continue
                ids.add(id(d))
                if isinstance(d, np.ndarray) and isinstance(d.base, np.ndarray):
                    stack.append(d.base)
                if hasattr(d, "toarray") and hasattr(d, "indices"):
                    stack.extend(a for a in (d.data, d.indices, getattr(d, "indptr", None)) if a is not None)
    return ids


def classify_cells(obj, cell_items):
    """'legacy-data' when every given cell (id, (kind, object)) is a parameter container of a legacy Operator reachable from
    obj, otherwise the sorted kinds of the other cells.  Descriptive only (refines the violation key); TLC does not see it."""
    leg = legacy_data_ids(obj)
    other = sorted({k for i, (k, x) in cell_items if i not in leg})
    return "legacy-data" if not other else "+".join(other)


def wrapper_features(obj):
    f = []
    b = getattr(obj, "base", None)
    if b is not None and getattr(b, "base", None) is not None and isinstance(b, (Operator, Operator2)):
        f.append("nested-wrapper")
    try:
        if len(getattr(obj, "work_wires", ())) > 0:
            f.append("work-wires")
    except Exception:
        pass
    return "+".join(f)


# ------------------------------------------------------------------------------------------------ actions on real objects
class Skip(Exception):
    """The action does not apply to this object (e.g. capture with non-integer wires): counted, not a verdict."""


def act_shallow(o):
    return copy.copy(o)


def act_deep(o):
    return copy.deepcopy(o)


def act_pickle(o):
    return pickle.loads(pickle.dumps(o))


def act_flat_pl(o):
    leaves, struct = qp.pytrees.flatten(o)
    return qp.pytrees.unflatten(leaves, struct)


def act_flat_jax(o):
    import jax
    leaves, struct = jax.tree_util.tree_flatten(o)
    return jax.tree_util.tree_unflatten(struct, leaves)


def act_bind(o):
    """Re-create the object through its capture primitive: trace the construction into a jaxpr, evaluate the jaxpr."""
    import jax
    if not all(isinstance(w, (int, np.integer)) for w in o.wires):
        raise Skip("capture needs integer wires")
    leaves, struct = jax.tree_util.tree_flatten(o)
    for l in leaves:
        if isinstance(l, str) or _iface(l) in ("torch", "autograd") and getattr(l, "requires_grad", False):
            raise Skip("leaf not traceable by jax")
        if _iface(l) == "torch":
            raise Skip("leaf not traceable by jax")
    qp.capture.enable()
    try:
        def f(*args):
            new = jax.tree_util.tree_unflatten(struct, args)
            if isinstance(new, Operator2):
                new._bind_primitive()                     # pylint: disable=protected-access
                return new.tracer
            return new
        try:
            jaxpr = jax.make_jaxpr(f)(*leaves)
            prims = [str(e.primitive) for e in jaxpr.eqns]
            with qp.queuing.AnnotatedQueue():
                out = jax.core.eval_jaxpr(jaxpr.jaxpr, jaxpr.consts, *leaves)
        except NotImplementedError as e:
            raise Skip("capture not implemented for this object") from e
        except jax.errors.JAXTypeError as e:             # the class converts traced values (numpy()/bool()): not capture-compatible
            raise Skip("not traceable: " + type(e).__name__) from e
        except TypeError as e:
            if "not a valid JAX type" in str(e) or "as an abstract array" in str(e):
                raise Skip("argument is not a valid JAX type") from e
            raise
    finally:
        qp.capture.disable()
    if len(out) != 1 or not prims:
        raise Skip(f"construction bound no primitive ({len(out)} outputs, {len(prims)} equations)")
    return out[0]


def act_rebind(o, newp):
    return qp.ops.functions.bind_new_parameters(o, newp)


ACTIONS = {"shallow": act_shallow, "deep": act_deep, "pickle": act_pickle, "flat_pl": act_flat_pl, "flat_jax": act_flat_jax, "bind": act_bind}


def mutate_cell(kind, x):
    """In-place change of one mutable container."""
    if kind == "arr":
        if not x.flags.writeable or x.size == 0:
            return False
        if x.dtype == object:
            return False
        if x.dtype == bool:
            x.flat[0] = not x.flat[0]
        else:
            x.flat[0] = x.flat[0] + 1
        return True
    if kind == "dict":
        x["__c06__"] = 1
        return True
    if kind == "list":
        x.append(0)
        return True
    return False
