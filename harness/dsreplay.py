"""C64 helper: executes one DatasetStore history on real pennylane.data objects and temporary HDF5 files and
records, after every call, what can be read back (the trace validated by spec/trace/Trace_DatasetStore.tla).

A job is a dict {"id", "hist": [event...], "plan": [term per token], "seed"}; events are the records emitted by
spec/gen/DatasetStoreGen.tla.  Values: token k (the k-th assigned value) is built from plan[k-1] with dsvalues.build;
tokens of one history are pairwise different under dsvalues.equal so that a value read back identifies its token."""
from __future__ import annotations

import hashlib
import os
import random
import shutil
from pathlib import Path

from . import dsvalues as V

ATTRS = ("a", "b")
_FALLBACK = [{"k": "scalar", "ch": []}, {"k": "str", "ch": []}, {"k": "array", "ch": []}]


def make_values(plan, rng):
    vals, names = [], []
    for term in plan:
        t = term
        for attempt in range(40):
            nm = []
            v = V.build(t, rng, nm)
            if not any(V.equal(v, o) or V.equal(o, v) for o in vals):
                break
            if attempt >= 3:
                t = _FALLBACK[rng.randrange(len(_FALLBACK))]
        else:  # pragma: no cover
            raise RuntimeError("could not draw pairwise different values")
        vals.append(v)
        names.append({"term": t, "leaves": nm})
    return vals, names


class Runner:
    def __init__(self, job, root: Path, nD: int, nP: int):
        self.job = job
        self.dir = root / f"j{job['id']}"
        shutil.rmtree(self.dir, ignore_errors=True)
        self.dir.mkdir(parents=True)
        self.nD, self.nP = nD, nP
        self.slot = {d: None for d in range(1, nD + 1)}          # python variables
        self.bound = {d: 0 for d in range(1, nD + 1)}            # path the slot's dataset was opened on (0: in memory)
        self.rng = random.Random(job["seed"])
        self.vals, self.valnames = make_values(job["plan"], self.rng)
        self.issued = 0
        self.notes = []           # readable details of unrecognised values
        self.fidelity = {}
        self.last, self.reused, self.read = {}, 0, 0

    def path(self, p):
        return str(self.dir / f"p{p}.h5")

    # ------------------------------------------------------------------ one public call per event
    def call(self, e):
        from pennylane.data import Dataset
        act, d, s, p, a = e["act"], e["d"], e["s"], e["p"], e["a"]
        attrs = None if e["all"] else list(e["attrs"])
        if act == "New":
            self.slot[d] = None
            self.slot[d], self.bound[d] = Dataset(), 0
        elif act == "Set":
            self.issued = max(self.issued, e["v"])
            setattr(self.slot[d], a, self.vals[e["v"] - 1])
        elif act == "SetDS":
            setattr(self.slot[d], a, self.slot[s])
        elif act == "SetIn":
            self.issued = max(self.issued, e["v"])
            setattr(getattr(self.slot[d], a), e["x"], self.vals[e["v"] - 1])
        elif act == "Del":
            delattr(self.slot[d], a)
        elif act == "WritePath":
            self.slot[s].write(self.path(p), e["mode"], attributes=attrs, overwrite=e["ow"])
        elif act == "WriteDS":
            self.slot[s].write(self.slot[d], attributes=attrs, overwrite=e["ow"])
        elif act == "Open":
            new = Dataset.open(self.path(p), e["mode"])
            self.slot[d] = None
            self.slot[d], self.bound[d] = new, (0 if e["mode"] == "copy" else p)
        elif act == "ReadPath":
            self.slot[d].read(self.path(p), attrs, overwrite=e["ow"])
        elif act == "ReadDS":
            self.slot[d].read(self.slot[s], attrs, overwrite=e["ow"])
        elif act == "Close":
            self.slot[d].close()
        else:  # pragma: no cover
            raise RuntimeError(f"unknown action {act}")

    # ------------------------------------------------------------------ observation
    def token_of(self, got, where):
        for k in range(self.issued):
            if V.equal(self.vals[k], got):
                for nt in V.fidelity_notes(self.vals[k], got):
                    self.fidelity[nt] = self.fidelity.get(nt, 0) + 1
                return k + 1
        if len(self.notes) < 4:
            self.notes.append(f"{where}: read back {V.describe(got)}, equal to none of the values assigned so far")
        return 0

    def contents(self, dsobj, where):
        """-> (rows in ATTRS order, number of unexpected attribute names)"""
        from pennylane.data import Dataset
        names = list(dsobj.list_attributes())
        extra = len([x for x in names if x not in ATTRS])
        rows = []
        for a in ATTRS:
            if a not in names:
                rows.append(["-", 0] + [0] * len(ATTRS))
                continue
            try:
                got = getattr(dsobj, a)
            except Exception as ex:  # unreadable attribute
                if len(self.notes) < 4:
                    self.notes.append(f"{where}.{a}: reading raised {type(ex).__name__}: {str(ex)[:120]}")
                rows.append(["!", 0] + [0] * len(ATTRS))
                continue
            if isinstance(got, Dataset):
                inner_names = list(got.list_attributes())
                extra += len([x for x in inner_names if x not in ATTRS])
                inner = []
                for x in ATTRS:
                    if x in inner_names:
                        try:
                            inner.append(self.token_of(getattr(got, x), f"{where}.{a}.{x}"))
                        except Exception:
                            inner.append(-1)
                    else:
                        inner.append(0)
                rows.append(["d", 0] + inner)
            else:
                rows.append(["v", self.token_of(got, f"{where}.{a}")] + [0] * len(ATTRS))
        return rows, extra

    def is_open(self, d):
        o = self.slot[d]
        try:
            return o is not None and bool(o.bind)
        except Exception:  # pragma: no cover
            return False

    def _image(self, o):
        return hashlib.blake2b(o.bind.file.id.get_file_image(), digest_size=12).digest()

    def observe(self, e):
        """Everything readable after call `e`.  A place that did not take part in the call and whose storage bytes
        (HDF5 file image) are unchanged since it was last read is not read again: its last observation is reused."""
        from pennylane.data import Dataset
        part_d, part_p = {e["d"], e["s"]}, e["p"]
        dsl, held = [], set()
        for d in range(1, self.nD + 1):
            o = self.slot[d]
            if o is None:
                dsl.append(["none", 0, False, 0, 0])
            elif not self.is_open(d):
                dsl.append(["closed", 0, False, 0, 0])
            else:
                if self.bound[d]:
                    held.add(self.bound[d])
                try:
                    fp = (id(o), self._image(o))
                except Exception:  # pragma: no cover
                    fp = None
                old = self.last.get(("d", d))
                if d not in part_d and fp is not None and old is not None and old[0] == fp:
                    self.reused += 1
                    dsl.append(["open", old[1], False, 0, old[2]])
                    continue
                self.read += 1
                c, extra = self.contents(o, f"slot{d}")
                f = 0
                # calls that write into the storage of an existing handle: also look through a fresh wrapper
                if e["act"] in ("WriteDS", "ReadPath", "ReadDS") and e["d"] == d:
                    try:
                        f, _ = self.contents(Dataset(o.bind), f"slot{d}(fresh)")
                        if f == c:
                            f = 0
                    except Exception:  # pragma: no cover
                        f = 0
                if fp is not None:
                    try:
                        fp = (id(o), self._image(o))
                        self.last[("d", d)] = (fp, c, extra)
                    except Exception:  # pragma: no cover
                        self.last.pop(("d", d), None)
                dsl.append(["open", c, f != 0, f, extra])
        fl = []
        for p in range(1, self.nP + 1):
            ex = os.path.exists(self.path(p))
            if not ex:
                fl.append([False, False, 0, 0])
            elif p in held:
                fl.append([True, True, 0, 0])
            else:
                try:
                    with open(self.path(p), "rb") as fh:
                        fp = hashlib.blake2b(fh.read(), digest_size=12).digest()
                except Exception:  # pragma: no cover
                    fp = None
                old = self.last.get(("p", p))
                if p != part_p and fp is not None and old is not None and old[0] == fp:
                    self.reused += 1
                    fl.append([True, False, old[1], old[2]])
                    continue
                self.read += 1
                try:
                    cp = Dataset.open(self.path(p), "copy")
                    c, extra = self.contents(cp, f"file{p}")
                    cp.close()
                    if fp is not None:
                        self.last[("p", p)] = (fp, c, extra)
                except Exception as ex2:
                    if len(self.notes) < 4:
                        self.notes.append(f"file{p}: cannot be opened for reading: {type(ex2).__name__}: {str(ex2)[:120]}")
                    c, extra = [["!", 0] + [0] * len(ATTRS) for _ in ATTRS], 0
                fl.append([True, False, c, extra])
        return {"ds": dsl, "files": fl}

    def run(self):
        trace = []
        try:
            first = self.job.get("obs_from", 0)
            for i, e in enumerate(self.job["hist"]):
                exc = ""
                try:
                    self.call(e)
                except Exception as ex:
                    exc = type(ex).__name__
                    if len(self.notes) < 4 and not e.get("err"):
                        self.notes.append(f"{e['act']} raised {exc}: {str(ex)[:160]}")
                ev = {k: e[k] for k in ("act", "d", "s", "p", "a", "x", "mode", "all", "attrs", "ow", "v")}
                chk = i >= first
                trace.append({"e": ev, "exc": exc, "chk": chk, "obs": self.observe(e) if chk else {"ds": [], "files": []}})
        finally:
            for d in self.slot:
                try:
                    if self.is_open(d):
                        self.slot[d].close()
                except Exception:  # pragma: no cover
                    pass
            self.slot = {}
            shutil.rmtree(self.dir, ignore_errors=True)
        return trace


def run_job(args):
    job, root, nD, nP = args
    r = Runner(job, Path(root), nD, nP)
    trace = r.run()
    return {"id": job["id"], "trace": trace, "notes": r.notes, "fidelity": r.fidelity, "values": r.valnames, "reused": r.reused, "read": r.read}


def run_chunk(args):
    jobs, root, nD, nP = args
    import pennylane as qp
    out = []
    with qp.queuing.QueuingManager.stop_recording():
        for j in jobs:
            out.append(run_job((j, root, nD, nP)))
    return out


def exp_to_obs(exp):
    """generator snapshot -> the comparable part of an observation (status + rows per slot, exists + rows per path)"""
    def rows(c):
        return [[c[a]["k"], c[a]["t"]] + [c[a]["c"][x] for x in ATTRS] for a in ATTRS]
    return {"ds": [[d["st"], rows(d["c"]) if d["st"] == "open" else 0] for d in exp["ds"]],
            "files": [[f["ex"], rows(f["c"]) if f["ex"] else 0] for f in exp["files"]]}
