"""C18 helper: discovery of the public tape transforms, a minimal valid-argument recipe for each, circuit families, and the
fingerprint of a tape (taken BEFORE and AFTER every call)."""
import hashlib
import importlib
import pkgutil

import numpy as np

import pennylane as qp
from pennylane.core.transforms.transform import Transform
from pennylane.tape import QuantumScript


# ------------------------------------------------------------------ discovery
def discover():
    """All Transform objects reachable under public names -> {short name: (qualified name, object)}."""
    seen = {}

    def scan(modname):
        try:
            mod = importlib.import_module(modname)
        except Exception:          # optional dependencies
            return
        for n, o in list(vars(mod).items()):
            if isinstance(o, Transform) and not n.startswith("_"):
                seen.setdefault(id(o), (o, []))[1].append(modname + "." + n)
    scan("pennylane")
    for m in pkgutil.walk_packages(qp.__path__, "pennylane."):
        if any(x in m.name for x in (".labs", ".capture", ".compiler", "._")) or m.name.split(".")[-1].startswith("_"):
            continue
        scan(m.name)
    out = {}
    for o, names in seen.values():
        names.sort(key=lambda s: (s.count("."), len(s), s))
        q = names[0]
        short = q.split(".")[-1]
        if short in out:                      # two different objects under one short name: qualify the deeper one
            short = ".".join(q.split(".")[-2:])
        out[short] = (q, o)
    return dict(sorted(out.items()))


# ------------------------------------------------------------------ circuit families
# parameter representations: how the user hands a gate parameter to the circuit.  A python float is immutable (``+=`` rebinds), a
# numpy array / pennylane.numpy tensor is a mutable object OWNED BY THE INPUT CIRCUIT (``+=`` writes into it): spec/sys/HeapData.tla
REPS = ["float", "nd0", "pnp", "nd1"]


def wrap(rep, x):
    if rep == "nd0":
        return np.array(x)                                   # 0-d ndarray
    if rep == "pnp":
        return qp.numpy.array(x, requires_grad=True)         # autograd tensor
    if rep == "nd1":
        return np.array([x, round(x + 0.25, 6)])             # broadcasted batch of two
    return float(x)


def _ang(rng):
    x = float(rng.choice([0.1, 0.2, 0.3, 0.4, 0.5, 0.7, 0.9, 1.1, 1.3, -0.2, -0.6]))
    return wrap(getattr(rng, "rep", "float"), x)


def fam_rot(rng):
    """rotations with mergeable neighbours, inverse pairs, entanglers; expectation values"""
    ops = []
    for _ in range(rng.randint(3, 6)):
        w = rng.randrange(3)
        kind = rng.choice(["RX", "RY", "RZ", "Rot", "PhaseShift", "pair", "inv", "cnot", "cz", "H"])
        if kind in ("RX", "RY", "RZ", "PhaseShift"):
            ops.append(getattr(qp, kind)(_ang(rng), w))
        elif kind == "Rot":
            ops.append(qp.Rot(_ang(rng), _ang(rng), _ang(rng), w))
        elif kind == "pair":
            g = rng.choice(["RX", "RY", "RZ"])
            ops += [getattr(qp, g)(_ang(rng), w), getattr(qp, g)(_ang(rng), w)]
        elif kind == "inv":
            ops += rng.choice([[qp.H(w), qp.H(w)], [qp.CNOT([w, (w + 1) % 3]), qp.CNOT([w, (w + 1) % 3])], [qp.S(w), qp.adjoint(qp.S(w))]])
        elif kind == "cnot":
            ops.append(qp.CNOT([w, (w + 1) % 3]))
        elif kind == "cz":
            ops.append(qp.CZ([w, (w + 2) % 3]))
        else:
            ops.append(qp.H(w))
    ops.insert(rng.randrange(len(ops) + 1), qp.RX(_ang(rng), 0))
    ops.append(qp.RY(_ang(rng), 1))
    ops.append(qp.RY(_ang(rng), 1))
    return QuantumScript(ops, [qp.expval(qp.Z(0)), qp.expval(qp.X(1) @ qp.Z(2))])


def fam_ctrl(rng):
    """controlled gates with Paulis to push through, swaps, barriers, Toffoli"""
    ops = [qp.CNOT([0, 1]), qp.X(1), qp.CNOT([0, 1]), qp.Z(0)]
    extra = [qp.Toffoli([0, 1, 2]), qp.CRX(_ang(rng), [0, 2]), qp.SWAP([1, 2]), qp.Barrier([0, 1, 2]), qp.CZ([1, 2]), qp.Y(2), qp.X(2),
             qp.CY([2, 0]), qp.RZ(_ang(rng), 0), qp.RX(_ang(rng), 2), qp.S(0), qp.T(1), qp.CNOT([1, 2]), qp.Z(1), qp.CRY(_ang(rng), [1, 0])]
    rng.shuffle(extra)
    ops += extra[: rng.randint(3, 7)]
    if rng.random() < 0.5:
        rng.shuffle(ops)
        ops = [qp.CNOT([0, 1]), qp.X(1)] + ops
    return QuantumScript(ops, [qp.expval(qp.Z(0) @ qp.Z(1)), qp.probs(wires=[2])])


def fam_noncomm(rng):
    """non-commuting observables and a Hamiltonian"""
    ops = [qp.RX(_ang(rng), 0), qp.RY(_ang(rng), 1), qp.CNOT([0, 1]), qp.RZ(_ang(rng), 1)]
    H = qp.Hamiltonian([0.5, 0.3, -0.2], [qp.Z(0) @ qp.Z(1), qp.X(0), qp.Y(1)])
    meas = [qp.expval(qp.X(0)), qp.expval(qp.Z(0)), qp.expval(qp.Y(1)), qp.expval(H)]
    rng.shuffle(meas)
    return QuantumScript(ops, meas[: rng.randint(2, 4)] + ([qp.var(qp.Z(1))] if rng.random() < 0.3 else []))


def fam_qwc(rng):
    """qubit-wise commuting observables that share wires"""
    ops = [qp.RX(_ang(rng), 0), qp.RY(_ang(rng), 1), qp.CNOT([0, 1]), qp.RY(_ang(rng), 0)]
    meas = [qp.expval(qp.X(0)), qp.expval(qp.X(0) @ qp.Y(1))] + [qp.var(qp.Y(1)), qp.expval(qp.Y(1))][: rng.randint(0, 2)]
    rng.shuffle(meas)
    return QuantumScript(ops, meas)


def fam_ham(rng):
    """a single Hamiltonian expectation value"""
    ops = [qp.RX(_ang(rng), 0), qp.RY(_ang(rng), 1), qp.CNOT([0, 1])]
    return QuantumScript(ops, [qp.expval(qp.Hamiltonian([0.5, 0.3, -0.2], [qp.Z(0) @ qp.Z(1), qp.Z(0), qp.Z(1)]))])


def fam_shots(rng):
    """finite shots with sample-based measurements"""
    ops = [qp.RX(_ang(rng), 0), qp.RY(_ang(rng), 1), qp.CNOT([0, 1]), qp.H(2)]
    meas = [qp.expval(qp.Z(0)), qp.counts(wires=[0, 1]), qp.sample(wires=[2]), qp.probs(wires=[1, 2]), qp.var(qp.Z(1))]
    rng.shuffle(meas)
    return QuantumScript(ops, meas[: rng.randint(1, 3)], shots=rng.choice([20, 50, [10, 20]]))


def fam_mcm(rng):
    """mid-circuit measurement with a conditional"""
    with qp.queuing.AnnotatedQueue() as q:
        qp.RX(_ang(rng), 0)
        qp.H(1)
        m = qp.measure(0, reset=rng.random() < 0.5)
        qp.cond(m, qp.X)(1)
        qp.RY(_ang(rng), 1)
        if rng.random() < 0.5:
            m2 = qp.measure(1)
            qp.cond(m2, qp.RZ)(_ang(rng), 2)
        qp.expval(qp.Z(1))
        qp.probs(wires=[2])
    return QuantumScript.from_queue(q, shots=rng.choice([20, 40]))


def fam_bcast(rng):
    """broadcasted parameters"""
    n = rng.choice([2, 3])
    ops = [qp.RX(np.array([_ang(rng) for _ in range(n)]), 0), qp.RY(_ang(rng), 1), qp.CNOT([0, 1]), qp.RZ(np.array([_ang(rng) for _ in range(n)]), 1)]
    return QuantumScript(ops, [qp.expval(qp.Z(0)), qp.expval(qp.Z(1))], trainable_params=[0, 2])


def fam_bcast_in(rng):
    """broadcasted non-trainable inputs"""
    n = rng.choice([2, 3])
    ops = [qp.RX(np.array([_ang(rng) for _ in range(n)]), 0), qp.RY(_ang(rng), 1), qp.CNOT([0, 1])]
    return QuantumScript(ops, [qp.expval(qp.Z(0)), qp.expval(qp.Z(1))], trainable_params=[1])


def fam_mbqc(rng):
    """the MBQC gate set with a single sample measurement"""
    pool = [qp.H(0), qp.S(1), qp.CNOT([0, 1]), qp.RZ(_ang(rng), 1), qp.X(0), qp.Z(1), qp.H(1), qp.S(0)]
    rng.shuffle(pool)
    return QuantumScript(pool[: rng.randint(2, 4)], [qp.sample(wires=[0, 1])], shots=10)


def fam_cnot(rng):
    """CNOT-only circuits"""
    ops = []
    for _ in range(rng.randint(3, 7)):
        a = rng.randrange(4)
        b = rng.choice([x for x in range(4) if x != a])
        ops.append(qp.CNOT([a, b]))
    return QuantumScript(ops, [qp.expval(qp.Z(0))])


def fam_cnotrz(rng):
    """CNOT + RZ circuits (phase polynomials)"""
    ops = []
    for _ in range(rng.randint(4, 8)):
        a = rng.randrange(3)
        if rng.random() < 0.4:
            ops.append(qp.RZ(_ang(rng), a))
        else:
            ops.append(qp.CNOT([a, rng.choice([x for x in range(3) if x != a])]))
    return QuantumScript(ops, [qp.expval(qp.Z(0))])


def fam_cut(rng):
    ops = [qp.RX(_ang(rng), 0), qp.RY(_ang(rng), 1), qp.CNOT([0, 1]), qp.WireCut(wires=1), qp.CNOT([1, 2]), qp.RX(_ang(rng), 2)]
    return QuantumScript(ops, [qp.expval(qp.Z(0) @ qp.Z(1) @ qp.Z(2))])


def fam_cutmc(rng):
    ops = [qp.RX(_ang(rng), 0), qp.H(1), qp.CNOT([0, 1]), qp.WireCut(wires=1), qp.CNOT([1, 2]), qp.RX(_ang(rng), 2)]
    return QuantumScript(ops, [qp.sample(wires=[0, 1, 2])], shots=20)


def fam_alloc(rng):
    from pennylane.allocation import Allocate, Deallocate, DynamicWire
    w = DynamicWire()
    ops = [qp.RX(_ang(rng), 0), Allocate([w], state="zero", restored=False), qp.CNOT([0, w]), qp.RY(_ang(rng), w), qp.CNOT([w, 1]), Deallocate([w]), qp.H(1)]
    return QuantumScript(ops, [qp.expval(qp.Z(1))])


def fam_embed(rng):
    """state preparation templates, arbitrary unitaries, global phases, snapshots"""
    v = np.array([0.6, 0.8])
    U = qp.matrix(qp.Rot(_ang(rng), _ang(rng), _ang(rng), 0))
    ops = [qp.AmplitudeEmbedding(v, wires=0), qp.AmplitudeEmbedding(np.array([1.0, 0.0]), wires=1), qp.QubitUnitary(U, wires=0),
           qp.GlobalPhase(_ang(rng)), qp.RX(_ang(rng), 1), qp.Snapshot("s"), qp.GlobalPhase(_ang(rng)), qp.CNOT([0, 1]),
           qp.QubitUnitary(qp.matrix(qp.RY(_ang(rng), 0)), wires=1)]
    return QuantumScript(ops, [qp.expval(qp.Z(0)), qp.expval(qp.Z(1))])


def fam_clifft(rng):
    """Clifford + T + a few rotations (for synthesis, ZX, MBQC passes)"""
    pool = [qp.H(0), qp.S(1), qp.T(0), qp.CNOT([0, 1]), qp.RZ(_ang(rng), 1), qp.X(0), qp.Z(1), qp.H(1), qp.CNOT([1, 0]), qp.RX(_ang(rng), 0), qp.Y(1),
            qp.adjoint(qp.T(1)), qp.SWAP([0, 1])]
    rng.shuffle(pool)
    return QuantumScript(pool[: rng.randint(4, 8)], [qp.expval(qp.Z(0)), qp.expval(qp.X(1))])


def fam_toffoli(rng):
    """relative-phase Toffoli / controlled-iX patterns"""
    ops = [qp.ctrl(qp.S(2), control=[0, 1]), qp.Toffoli([0, 1, 2]), qp.H(2), qp.T(2), qp.CNOT([1, 2]), qp.adjoint(qp.T(2)), qp.CNOT([0, 2]), qp.T(2),
           qp.CNOT([1, 2]), qp.adjoint(qp.T(2)), qp.H(2), qp.ctrl(qp.S(1), control=[0]), qp.Toffoli([0, 1, 2]), qp.RX(_ang(rng), 0), qp.H(3), qp.CNOT([2, 3])]
    return QuantumScript(ops, [qp.expval(qp.Z(2))])


def fam_shadow(rng):
    ops = [qp.H(0), qp.CNOT([0, 1]), qp.RX(_ang(rng), 1)]
    return QuantumScript(ops, [qp.classical_shadow(wires=[0, 1], seed=7)], shots=20)


def fam_pauli(rng):
    """Pauli product rotations / measurements"""
    ops = [qp.PauliRot(np.pi / 4, "XZ", wires=[0, 1]), qp.PauliRot(np.pi / 2, "Y", wires=[1]), qp.PauliRot(np.pi / 8, "ZZ", wires=[0, 1]), qp.H(0)]
    rng.shuffle(ops)
    return QuantumScript(ops, [qp.expval(qp.Z(0))])


def fam_rzonly(rng):
    ops = [qp.H(0), qp.RZ(_ang(rng), 0), qp.CNOT([0, 1]), qp.RZ(_ang(rng), 1), qp.RZ(_ang(rng), 0)]
    return QuantumScript(ops, [qp.expval(qp.X(0))])


def fam_unitary(rng):
    """a plain unitary circuit A on wires 0,1 (for quantum Monte Carlo style transforms)"""
    ops = [qp.RY(_ang(rng), 0), qp.RY(_ang(rng), 1), qp.CNOT([0, 1]), qp.RY(_ang(rng), 1)]
    return QuantumScript(ops, [qp.probs(wires=[0, 1])])


def fam_accum(rng):
    """neighbouring gates whose parameters a pass adds up: several global phases, rotation pairs, Rot pairs, phase shifts"""
    blocks = [[qp.RX(_ang(rng), 0), qp.RX(_ang(rng), 0)], [qp.RZ(_ang(rng), 1), qp.RZ(_ang(rng), 1), qp.RZ(_ang(rng), 1)],
              [qp.Rot(_ang(rng), _ang(rng), _ang(rng), 2), qp.Rot(_ang(rng), _ang(rng), _ang(rng), 2)],
              [qp.PhaseShift(_ang(rng), 1), qp.PhaseShift(_ang(rng), 1)], [qp.CNOT([0, 1])], [qp.CRX(_ang(rng), [1, 2]), qp.CRX(_ang(rng), [1, 2])],
              [qp.RY(_ang(rng), 0), qp.H(0)]]
    rng.shuffle(blocks)
    ops = [o for b in blocks[: rng.randint(4, 7)] for o in b]
    for _ in range(rng.randint(2, 3)):
        ops.insert(rng.randrange(len(ops) + 1), qp.GlobalPhase(_ang(rng)))
    ops.insert(0, qp.GlobalPhase(_ang(rng)))
    return QuantumScript(ops, [qp.expval(qp.Z(0)), qp.probs(wires=[1, 2])])


def _chain_ops(rng):
    """gates that every basic gate set contains, two-qubit gates only between neighbours of the line 0-1-2-3 (nothing to expand or route)"""
    pool = [qp.RX(_ang(rng), 0), qp.CNOT([0, 1]), qp.RY(_ang(rng), 2), qp.CNOT([1, 2]), qp.RZ(_ang(rng), 1), qp.H(0), qp.CNOT([2, 1]), qp.RY(_ang(rng), 1)]
    rng.shuffle(pool)
    return pool[: rng.randint(3, 6)]


def fam_mw_probs(rng):
    """terminal measurements that name no wires (all wires of whatever runs the circuit): probs()"""
    meas = [qp.probs()] + ([qp.expval(qp.Z(1))] if rng.random() < 0.6 else [])
    rng.shuffle(meas)
    return QuantumScript(_chain_ops(rng), meas)


def fam_mw_state(rng):
    """the full state, no wires named"""
    return QuantumScript(_chain_ops(rng), [qp.state()])


def fam_mw_samp(rng):
    """finite shots, sample() / counts() without wires"""
    meas = [rng.choice([qp.sample(), qp.counts()])] + ([qp.expval(qp.Z(0))] if rng.random() < 0.5 else [])
    return QuantumScript(_chain_ops(rng), meas, shots=rng.choice([20, 30]))


FAMILIES = {"rot": fam_rot, "ctrl": fam_ctrl, "noncomm": fam_noncomm, "ham": fam_ham, "shots": fam_shots, "mcm": fam_mcm, "bcast": fam_bcast,
            "cnot": fam_cnot, "cnotrz": fam_cnotrz, "cut": fam_cut, "cutmc": fam_cutmc, "alloc": fam_alloc, "embed": fam_embed,
            "clifft": fam_clifft, "toffoli": fam_toffoli, "shadow": fam_shadow, "pauli": fam_pauli, "rzonly": fam_rzonly, "unitary": fam_unitary,
            "bcast_in": fam_bcast_in, "mbqc": fam_mbqc, "qwc": fam_qwc,
            "accum": fam_accum, "mw_probs": fam_mw_probs, "mw_state": fam_mw_state, "mw_samp": fam_mw_samp}


# ------------------------------------------------------------------ recipes: minimal valid arguments per transform
def _noise_model():
    return qp.NoiseModel({qp.noise.op_eq("RX") | qp.noise.op_eq("RY"): qp.noise.partial_wires(qp.AmplitudeDamping, 0.05)})


def _prim(op):
    return op.name in {"RX", "RY", "RZ", "CNOT", "Hadamard", "PauliX", "PauliY", "PauliZ", "S", "T", "CZ", "PhaseShift", "GlobalPhase", "SWAP",
                       "Toffoli", "Barrier", "Snapshot", "MidMeasureMP", "MidMeasure", "Conditional", "WireCut", "QubitUnitary", "Adjoint(S)", "Adjoint(T)"}


RECIPES = {
    "add_noise": lambda: ((_noise_model(),), {}),
    "apply_controlled_Q": lambda: ((), dict(wires=[0, 1], target_wire=1, control_wire="c", work_wires=None)),
    "batch_input": lambda: ((), dict(argnum=[0])),
    "append_gate": lambda: ((), dict(params=[0.3], gates=[qp.RX(0.1, 0)])),
    "append_time_evolution": lambda: ((), dict(riemannian_gradient=qp.Hamiltonian([0.5, 0.2], [qp.X(0), qp.Z(0) @ qp.Z(1)]), t=0.1, n=1)),
    "algebra_commutator": lambda: ((), dict(lie_algebra_basis_names=["XI", "ZZ"], nqubits=2)),
    "cut_circuit": lambda: ((), dict(device_wires=qp.wires.Wires([0, 1]))),
    "cut_circuit_mc": lambda: ((), dict(device_wires=qp.wires.Wires([0, 1]))),
    "to_openqasm.decompose": lambda: ((), dict(stopping_condition=_prim, name="verif")),
    "clifford_t_decomposition": lambda: ((), dict(epsilon=0.05)),
    "decompose": lambda: ((), dict(gate_set={"RX", "RY", "RZ", "CNOT", "GlobalPhase", "Hadamard", "PhaseShift"})),
    "preprocess.decompose": lambda: ((), dict(stopping_condition=_prim, name="verif")),
    "fold_global": lambda: ((3,), {}),
    "insert": lambda: ((qp.AmplitudeDamping, 0.05), dict(position="all")),
    "map_wires": lambda: ((), dict(wire_map={0: "a", 1: "b", 2: "c", 3: "d"})),
    "metric_tensor": lambda: ((), dict(approx="block-diag")),
    "mitigate_with_zne": lambda: (([1.0, 2.0, 3.0], qp.fold_global, qp.richardson_extrapolate), {}),
    "pattern_matching_optimization": lambda: ((), dict(pattern_tapes=[QuantumScript([qp.S(0), qp.S(0), qp.Z(0)]),
                                                                       QuantumScript([qp.CNOT([0, 1]), qp.X(1), qp.CNOT([0, 1]), qp.X(1)])])),
    "quantum_monte_carlo": lambda: ((), dict(wires=[0, 1], target_wire=1, estimation_wires=["e0", "e1"])),
    "resolve_dynamic_wires": lambda: ((), dict(min_int=10)),
    "device_resolve_dynamic_wires": lambda: ((), dict(wires=None)),
    "rz_phase_gradient": lambda: ((), dict(angle_wires=qp.wires.Wires(["a0", "a1", "a2"]), phase_grad_wires=qp.wires.Wires(["p0", "p1", "p2"]),
                                           work_wires=qp.wires.Wires(["w0", "w1"]))),
    "transpile": lambda: ((), dict(coupling_map=[(0, 1), (1, 2), (2, 3)])),
    "hadamard_grad": lambda: ((), dict(aux_wire="aux")),
    "spsa_grad": lambda: ((), dict(sampler_rng=np.random.default_rng(11))),
    "quantum_fisher": lambda: ((qp.device("default.qubit"),), {}),
    "shadow_state": lambda: ((), dict(wires=[0])),
    "validate_device_wires": lambda: ((), dict(wires=qp.wires.Wires([0, 1, 2, 3, "a", "b", "c", "d", "aux"]))),
    "validate_multiprocessing_workers": lambda: ((None, qp.device("default.qubit")), {}),
    "validate_observables": lambda: ((lambda o: True,), {}),
    "validate_measurements": lambda: ((), {}),
    "commute_controlled": lambda: ((), {}),
    "commute_controlled[left]": lambda: ((), dict(direction="left")),
    "cancel_inverses": lambda: ((), {}),
    "merge_rotations": lambda: ((), {}),
    "match_controlled_iX_gate": lambda: ((), dict(num_controls=1)),
    "adjoint_state_measurements": lambda: ((), dict(device_vjp=False)),
    "legacy_device_batch_transform": None, "legacy_device_expand_fn": None,      # need a legacy device object: no recipe
    # ---- variants: the same transform object called through its OPTIONAL arguments (other call paths)
    "transpile[device]": lambda: ((), dict(coupling_map=[(0, 1), (1, 2), (2, 3)], device=qp.device("default.qubit", wires=[0, 1, 2, 3]))),
    "transpile[device,mixed]": lambda: ((), dict(coupling_map=[(0, 1), (1, 2), (2, 3)], device=qp.device("default.mixed", wires=[0, 1, 2, 3]))),
    "batch_params[all_operations]": lambda: ((), dict(all_operations=True)),
    "cancel_inverses[nonrecursive]": lambda: ((), dict(recursive=False)),
    "compile[basis_set]": lambda: ((), dict(basis_set=["CNOT", "RX", "RY", "RZ", "GlobalPhase"], num_passes=2)),
    "decompose[stopping_condition]": lambda: ((), dict(stopping_condition=_prim, max_expansion=2)),
    "defer_measurements[noreduce]": lambda: ((), dict(reduce_postselected=False, num_wires=8)),
    "device_resolve_dynamic_wires[wires]": lambda: ((), dict(wires=qp.wires.Wires([0, 1, 2, 3, 7, 8]), allow_resets=False)),
    "diagonalize_measurements[to_eigvals]": lambda: ((), dict(to_eigvals=True)),
    "diagonalize_measurements[base_obs]": lambda: ((), dict(supported_base_obs=(qp.Z, qp.X, qp.Identity))),
    "dynamic_one_shot[fill-shots]": lambda: ((), dict(postselect_mode="fill-shots")),
    "finite_diff[center]": lambda: ((), dict(strategy="center", approx_order=2, argnum=[0])),
    "hadamard_grad[reversed]": lambda: ((), dict(aux_wire="aux", mode="reversed")),
    "hadamard_grad[direct]": lambda: ((), dict(mode="direct")),
    "insert[start,before]": lambda: ((qp.PhaseDamping, 0.05), dict(position="start", before=True)),
    "merge_rotations[include_gates]": lambda: ((), dict(include_gates=["RX", "RZ"], atol=1e-6)),
    "metric_tensor[full]": lambda: ((), dict(approx=None, aux_wire="aux")),
    "param_shift[broadcast]": lambda: ((), dict(broadcast=True)),
    "param_shift[argnum,shifts]": lambda: ((), dict(argnum=[0], shifts=[(0.7,)])),
    "parity_matrix[wire_order]": lambda: ((), dict(wire_order=[3, 2, 1, 0])),
    "resolve_dynamic_wires[zeroed]": lambda: ((), dict(zeroed=(7, 8), any_state=(9,))),
    "shadow_state[diffable]": lambda: ((), dict(wires=[0], diffable=True)),
    "sign_expand[circuit]": lambda: ((), dict(circuit=True, J=4)),
    "single_qubit_fusion[exclude_gates]": lambda: ((), dict(exclude_gates=["RX"], atol=1e-6)),
    "split_non_commuting[wires]": lambda: ((), dict(grouping_strategy="wires")),
    "split_non_commuting[qwc]": lambda: ((), dict(grouping_strategy="qwc")),
    "split_non_commuting[none]": lambda: ((), dict(grouping_strategy=None)),
    "spsa_grad[forward]": lambda: ((), dict(strategy="forward", approx_order=1, num_directions=2, sampler_rng=np.random.default_rng(12))),
    "to_zx[expand_measurements]": lambda: ((), dict(expand_measurements=True)),
    "validate_device_wires[none]": lambda: ((), dict(wires=None)),
    "validate_measurements[lists]": lambda: ((), dict(analytic_measurements=lambda m: True, sample_measurements=lambda m: True)),
    "circuit_spectrum[encoding_gates]": lambda: ((), dict(encoding_gates=["x"], decimals=4)),
    "add_noise[level]": lambda: ((_noise_model(),), dict(level="top")),
}
# transforms that need the graph-based decomposition system switched on around the call
NEEDS_GRAPH = {"convert_to_mbqc_gateset", "convert_to_mbqc_formalism", "decomp_inspector"}
# variants of one transform object with different options: (variant name, transform short name)
VARIANTS = {"commute_controlled[left]": "commute_controlled"}
VARIANTS.update({n: n.split("[")[0] for n in RECIPES if "[" in n})


def recipe(name):
    r = RECIPES.get(name, lambda: ((), {}))
    return None if r is None else r()


# ------------------------------------------------------------------ fingerprints
def _s(x):
    """a bounded ASCII string for TLC"""
    s = x if isinstance(x, str) else repr(x)
    s = s.encode("ascii", "replace").decode().replace("\\", "/").replace('"', "'").replace("\n", " ")
    return s if len(s) <= 90 else s[:60] + "#" + hashlib.sha1(s.encode()).hexdigest()[:16]


def _num(x):
    try:
        a = np.asarray(qp.math.unwrap([x])[0] if not isinstance(x, (int, float, complex, np.ndarray)) else x)
    except Exception:
        return _s(x)
    if a.dtype.kind in "fc":
        a = np.round(a, 12) + 0.0
    return _s(f"{a.dtype.kind}{list(a.shape)}:{a.tolist()}")


def _h(o):
    try:
        return str(hash(o))
    except Exception as e:         # unhashable parameter types
        return "unhashable:" + type(e).__name__


def _opstr(op):
    try:
        data = [_num(d) for d in op.data]
    except Exception:
        data = ["?"]
    return _s(f"{type(op).__name__}|{_s(op)}|w={list(getattr(op, 'wires', []))}|{data}|h={_h(op)}")


class Interner:
    def __init__(self):
        self.t = {}

    def __call__(self, o):
        return self.t.setdefault(id(o), len(self.t) + 1)


def fresh_hash(tape):
    """tape.hash recomputed (the cached value may be stale after an in-place change)"""
    try:
        return str(QuantumScript.hash.func(tape))
    except Exception as e:
        return "unhashable:" + type(e).__name__


def fingerprint(tape, intern):
    ops = list(tape.operations)
    meas = list(tape.measurements)
    try:
        par = [_num(p) for p in tape.get_parameters(trainable_only=False)]
    except Exception as e:
        par = ["EXC:" + type(e).__name__]
    try:
        tr = [int(i) for i in tape.trainable_params]
    except Exception:
        tr = [-1]
    try:
        bs = str(tape.batch_size)
    except Exception as e:
        bs = "EXC:" + type(e).__name__
    return {"ops": [_opstr(o) for o in ops], "meas": [_s(f"{_s(m)}|h={_h(m)}") for m in meas], "par": par, "tr": tr,
            "shots": [int(s) for s in tape.shots] if tape.shots else [], "hash": fresh_hash(tape), "bs": bs,
            "cont": intern(tape.operations), "mcont": intern(tape.measurements), "opids": [intern(o) for o in ops], "self": intern(tape)}


def result_digest(tape, seed=4242):
    """execute on a freshly seeded default.qubit and canonicalise the result to a string"""
    def canon(r):
        if isinstance(r, dict):
            return {str(k): canon(v) for k, v in sorted(r.items(), key=lambda kv: str(kv[0]))}
        if isinstance(r, (tuple, list)):
            return [canon(x) for x in r]
        a = np.asarray(r)
        if a.dtype.kind in "fc":
            a = np.round(a, 9) + 0.0
        return a.tolist()
    try:
        dev = qp.device("default.qubit", seed=seed)
        res = qp.execute([tape], dev, diff_method=None)
        return "R:" + hashlib.sha1(repr(canon(res)).encode()).hexdigest()[:20], res
    except Exception as e:
        return "EXC:" + type(e).__name__, None
