"""Exact derivatives of tapes (DESIGN 3.2 `Deriv.tla`): TLC evaluates psi, d_k psi and d_j d_k psi exactly in the ring by
inserting the generator matrix A_k = dU_k/dtheta U_k^-1 (Gates.AGen, tied to the gate table by GenSelf.tla) after gate k
(TapeEval instruction GEN).  Jacobians / Hessians / metric tensors are bilinear forms of these exact states, formed here
with numpy from TLC's emitted vectors."""
from __future__ import annotations

import itertools

import numpy as np

from . import bridge, lib, tapeeval

GEN_GATES = {"RX", "RY", "RZ", "IsingXX", "IsingYY", "IsingZZ", "MultiRZ", "PauliRot", "CRX", "CRY", "CRZ", "SingleExcitation",
             "SingleExcitationPlus", "SingleExcitationMinus", "DoubleExcitation", "DoubleExcitationPlus", "DoubleExcitationMinus",
             "IsingXY", "PhaseShift", "U1", "ControlledPhaseShift", "CPhaseShift00", "CPhaseShift01", "CPhaseShift10", "PSWAP",
             "FermionicSWAP"}


def has_gen(g):
    return g["g"] in GEN_GATES and len(g["p"]) == 1 and all(md["t"] in ("adj", "ctrl") for md in g.get("mods", []))


def selfcheck(pid, M):
    """Model-check the derivative table against the gate table (oracle soundness); MachineryError if it fails."""
    r = lib.run_tlc("GenSelf", lib.cfg(constants={"M": M}, invariants=["GenOK"]), lib.workdir(pid, "genself"))
    if r.invariant_violated:
        raise lib.MachineryError("derivative table disagrees with the gate table (oracle error)")
    lib.require_ok(r, "GenSelf")
    return r


def insert_gen(ops, positions):
    """ops with a GEN instruction after each listed position (positions may repeat: second derivative)."""
    out = []
    for i, g in enumerate(ops):
        out.append(g)
        for _ in range(positions.count(i)):
            out.append({"g": "GEN", "of": g})
    return out


def states(pid, cases, M, order=1, name="deriv"):
    """cases: [{"n", "ops", "tr": [gate positions]}] -> per case {"psi", "d": {k: vec}, "dd": {(j,k): vec}} (numpy)."""
    tc, owner = [], []
    for ci, c in enumerate(cases):
        tc.append({"n": c["n"], "ops": c["ops"], "meas": [{"t": "state"}]})
        owner.append((ci, ()))
        for k in c["tr"]:
            tc.append({"n": c["n"], "ops": insert_gen(c["ops"], [k]), "meas": [{"t": "state"}]})
            owner.append((ci, (k,)))
        if order >= 2:
            for j, k in itertools.combinations_with_replacement(c["tr"], 2):
                tc.append({"n": c["n"], "ops": insert_gen(c["ops"], [j, k]), "meas": [{"t": "state"}]})
                owner.append((ci, (j, k)))
    res, stats = tapeeval.evaluate(pid, tc, M, name=name)
    out = [{"d": {}, "dd": {}} for _ in cases]
    for (ci, key), r in zip(owner, res):
        v = np.asarray(r["meas"][0]).reshape(-1)
        if key == ():
            out[ci]["psi"] = v
        elif len(key) == 1:
            out[ci]["d"][key[0]] = v
        else:
            out[ci]["dd"][key] = v
            out[ci]["dd"][(key[1], key[0])] = v
    return out, stats


def word_matrix(pw):
    return bridge.pauli_word(pw)


def marginal(vec2, wires, n):
    """sum of a per-basis-state real vector over the wires not listed (1-based, listed order)."""
    t = vec2.reshape([2] * n)
    keep = [w - 1 for w in wires]
    rest = tuple(i for i in range(n) if i not in keep)
    t = t.sum(axis=rest) if rest else t
    order = sorted(range(len(keep)), key=lambda i: keep[i])
    inv = [order.index(i) for i in range(len(keep))]
    return np.transpose(t, inv).reshape(-1)


def herm_apply(vec, m, n):
    """(H on wires m[1], matrix m[2]) applied to a state vector"""
    return bridge.apply(np.asarray(vec).reshape(-1, 1), np.asarray(m[2], dtype=complex), list(m[1]), n).reshape(-1)


def value(m, st, n):
    psi = st["psi"]
    if m[0] == "hexp":
        return float(np.real(psi.conj() @ herm_apply(psi, m, n)))
    if m[0] == "expval":
        return float(np.real(psi.conj() @ word_matrix(m[1]) @ psi))
    if m[0] == "var":
        e = float(np.real(psi.conj() @ word_matrix(m[1]) @ psi))
        return 1.0 - e * e
    if m[0] == "probs":
        return marginal(np.abs(psi) ** 2, m[1], n)
    raise KeyError(m[0])


def grad(m, st, n, k):
    """d/d theta_k of measurement m."""
    psi, d = st["psi"], st["d"][k]
    if m[0] == "hexp":
        return float(2 * np.real(psi.conj() @ herm_apply(d, m, n)))
    if m[0] == "expval":
        return float(2 * np.real(psi.conj() @ word_matrix(m[1]) @ d))
    if m[0] == "var":
        O = word_matrix(m[1])
        e = float(np.real(psi.conj() @ O @ psi))
        return float(-2 * e * 2 * np.real(psi.conj() @ O @ d))
    if m[0] == "probs":
        return marginal(2 * np.real(psi.conj() * d), m[1], n)
    raise KeyError(m[0])


def hess(m, st, n, j, k):
    psi, dj, dk, djk = st["psi"], st["d"][j], st["d"][k], st["dd"][(j, k)]
    if m[0] == "expval":
        O = word_matrix(m[1])
        return float(2 * np.real(dj.conj() @ O @ dk + psi.conj() @ O @ djk))
    if m[0] == "probs":
        return marginal(2 * np.real(dj.conj() * dk + psi.conj() * djk), m[1], n)
    raise KeyError(m[0])


def fubini_study(st, j, k):
    psi, dj, dk = st["psi"], st["d"][j], st["d"][k]
    return float(np.real(dj.conj() @ dk - (dj.conj() @ psi) * (psi.conj() @ dk)))
