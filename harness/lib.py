"""Shared plumbing for the model-based checks: TLC runner, evidence, known findings, verdicts.

Exit-code contract (see DESIGN.md section 7):
  0  property held on everything explored (KNOWN-FINDING lines allowed)
  1  at least one VIOLATION not listed in known_findings.json
  2  machinery failure (TLC crash, parse error, negative control accepted, vacuity)
"""
from __future__ import annotations

import json
import os
import re
import shutil
import subprocess
import sys
import time
from dataclasses import dataclass, field
from pathlib import Path

VERIF = Path(__file__).resolve().parent.parent
SPEC = VERIF / "spec"
WORK = VERIF / ".work"
EVID = VERIF / "evidence"
REPLAYS = VERIF / "replays"
TLA_JAR = "/opt/veriftools/tla/tla2tools.jar"
TLA_DEPS = "/opt/veriftools/tla/CommunityModules-deps.jar"
SPEC_DIRS = [SPEC / d for d in ("alg", "ir", "sys", "trace", "gen")]


class MachineryError(Exception):
    """Something in the verification machinery (not the property) failed -> exit 2."""


@dataclass
class TLCResult:
    rc: int
    out: str
    generated: int = 0
    distinct: int = 0
    depth: int = 0
    json_lines: list = field(default_factory=list)
    tuples: list = field(default_factory=list)
    wall_s: float = 0.0
    error: str | None = None
    invariant_violated: str | None = None
    coverage: dict = field(default_factory=dict)

    def ok(self):
        return self.rc == 0 and self.error is None


_TUP = re.compile(r'^<<(.*)>>\s*$')


def _parse_printed(out: str):
    """PrintT(ToJson(rec)) prints one line: a TLA+ string literal holding JSON."""
    js, tups = [], []
    for line in out.splitlines():
        if line.startswith('"{') or line.startswith('"['):
            try:
                js.append(json.loads(json.loads(line)))
            except Exception as e:  # pragma: no cover
                raise MachineryError(f"unparseable TLC JSON line: {line[:200]} ({e})")
        elif line.startswith("<<\""):
            m = _TUP.match(line)
            if m:
                try:
                    tups.append(json.loads("[" + m.group(1) + "]"))
                except Exception:
                    pass
    return js, tups


def run_tlc(module: str, cfg_text: str, workdir: Path, *, workers: int | str | None = None, env: dict | None = None,
            simulate: str | None = None, depth: int | None = None, seed: int | None = None,
            timeout: int = 1800, coverage: bool = False, deadlock: bool = False, heap: str = "8g",
            extra_modules: dict | None = None, dfs: bool = False) -> TLCResult:
    """Run TLC on spec module `module` (searched in SPEC_DIRS) with the given cfg text.

    The module is run from a scratch directory containing a two-line wrapper, so that cfg and
    metadir live in `workdir` and nothing is written next to the specs."""
    if workers is None:
        workers = os.environ.get("VERIF_TLC_WORKERS", "16")
    workdir.mkdir(parents=True, exist_ok=True)
    cfg = workdir / f"{module}.cfg"
    cfg.write_text(cfg_text)
    src = None
    for d in SPEC_DIRS:
        if (d / f"{module}.tla").exists():
            src = d / f"{module}.tla"
    if extra_modules:
        for name, text in extra_modules.items():
            (workdir / f"{name}.tla").write_text(text)
            if name == module:
                src = workdir / f"{module}.tla"
    if src is None:
        raise MachineryError(f"spec module {module} not found")
    if src.parent != workdir:
        shutil.copy(src, workdir / f"{module}.tla")
    meta = workdir / "meta"
    shutil.rmtree(meta, ignore_errors=True)
    lib = ":".join(str(d) for d in SPEC_DIRS)
    jopts = f"-DTLA-Library={lib}"
    if dfs:
        jopts += " -Dtlc2.tool.queue.IStateQueue=StateDeque"
    cmd = ["java", "-XX:+UseParallelGC", f"-Xmx{heap}", "-Xss256m", "-cp", f"{TLA_JAR}:{TLA_DEPS}", *jopts.split(),
           "tlc2.TLC", "-workers", str(workers), "-metadir", str(meta), "-noGenerateSpecTE",
           "-config", str(cfg)]
    if not deadlock:
        cmd += ["-deadlock"]
    if coverage:
        cmd += ["-coverage", "1"]
    if simulate:
        cmd += ["-simulate", simulate]
    if depth is not None:
        cmd += ["-depth", str(depth)]
    if seed is not None:
        cmd += ["-seed", str(seed)]
    cmd += [str(workdir / f"{module}.tla")]
    e = dict(os.environ)
    e.pop("JAVA_TOOL_OPTIONS", None)
    if env:
        e.update({k: str(v) for k, v in env.items()})
    t0 = time.time()
    try:
        p = subprocess.run(cmd, cwd=workdir, env=e, capture_output=True, text=True, timeout=timeout)
        out, rc = p.stdout + p.stderr, p.returncode
    except subprocess.TimeoutExpired as ex:
        out = (ex.stdout or b"").decode() if isinstance(ex.stdout, bytes) else (ex.stdout or "")
        rc = 124
    res = TLCResult(rc=rc, out=out, wall_s=time.time() - t0)
    m = re.search(r"(\d+) states generated, (\d+) distinct states found", out)
    if m:
        res.generated, res.distinct = int(m.group(1)), int(m.group(2))
    m = re.search(r"depth of the complete state graph search is (\d+)", out)
    if m:
        res.depth = int(m.group(1))
    m = re.search(r"Invariant (\S+) is violated", out)
    if m:
        res.invariant_violated = m.group(1)
    if rc == 124:
        res.error = "timeout"
    elif rc != 0 and not res.invariant_violated:
        errs = [l for l in out.splitlines() if l.startswith("Error:") or "Exception" in l]
        res.error = "; ".join(errs[:4]) or f"rc={rc}"
    res.json_lines, res.tuples = _parse_printed(out)
    if coverage:
        for mm in re.finditer(r"<(\w+) line \d+, col \d+ to line \d+, col \d+ of module (\w+)>: (\d+):(\d+)", out):
            res.coverage[mm.group(1)] = res.coverage.get(mm.group(1), 0) + int(mm.group(4))
    shutil.rmtree(meta, ignore_errors=True)
    return res


def require_ok(res: TLCResult, what: str):
    if not res.ok():
        lines = res.out.splitlines()
        cause = [l for l in lines if any(t in l for t in ("Attempted", "should be", "was not in the domain", "is not a", "overflow",
                                                           "Error: ", "evaluating", "violated"))][:12]
        tail = "\n".join(cause + ["..."] + lines[-15:])
        raise MachineryError(f"TLC failed for {what}: {res.error or res.invariant_violated}\n{tail}")


# ----------------------------------------------------------------------------- ring -> float
import cmath
import math


def ring_to_complex(coeffs, k, M):
    """Evaluate (sum c_i zeta_N^i)/2^k, N = 2^M, to a Python complex (error < 1e-14 for |c| < 2^20)."""
    N = 1 << M
    z = 0j
    for i, c in enumerate(coeffs):
        if c:
            z += c * cmath.exp(2j * math.pi * i / N)
    return z / (1 << k)


def ring_matrix_to_numpy(mat, M):
    import numpy as np
    k = mat["k"]
    return np.array([[ring_to_complex(e, k, M) for e in row] for row in mat["e"]], dtype=complex)


def angle_of(a: int, M: int) -> float:
    """Lattice angle a -> theta = a * 4 pi / 2^M."""
    return a * 4.0 * math.pi / (1 << M)


def to_lattice(theta: float, M: int, tol: float = 1e-10):
    """float angle -> lattice int, or None when off-lattice at level M."""
    u = 4.0 * math.pi / (1 << M)
    a = round(theta / u)
    return a if abs(theta - a * u) < tol else None


# ----------------------------------------------------------------------------- verdict plumbing
@dataclass
class Violation:
    key: str          # canonical signature of the failing input/history (matched against known findings)
    detail: str
    replay: dict | None = None


@dataclass
class CheckResult:
    coverage: dict
    violations: list = field(default_factory=list)
    assumptions: list = field(default_factory=list)
    level: str = "model_checking"


def load_known():
    p = VERIF / "known_findings.json"
    if not p.exists():
        return []
    return json.loads(p.read_text()).get("findings", [])


def finish(pid: str, tier: str, seed: int, res: CheckResult, wall_s: float) -> int:
    """Write evidence, print KNOWN-FINDING / VIOLATION lines, return exit code."""
    known = [k for k in load_known() if k["property"] == pid and k.get("status") == "open"]
    new, seen_known = [], {}
    for v in res.violations:
        hit = None
        for k in known:
            if v.key in k.get("keys", []) or any(re.fullmatch(rx, v.key) for rx in k.get("key_regex", [])):
                hit = k
                break
        if hit:
            seen_known.setdefault(hit["id"], (hit, []))[1].append(v)
        else:
            new.append(v)
    for kid, (k, vs) in seen_known.items():
        print(f"KNOWN-FINDING: property={pid} {k['what']} [{kid}; reproduced on {len(vs)} case(s), e.g. {vs[0].key}]")
    rc = 0
    if new:
        rc = 1
        d = REPLAYS / pid
        d.mkdir(parents=True, exist_ok=True)
        for i, v in enumerate(new[:20]):
            path = d / f"{tier}_{seed}_{i}.json"
            path.write_text(json.dumps({"property": pid, "key": v.key, "detail": v.detail, "replay": v.replay}, indent=1,
                                       default=str))
            print(f"VIOLATION property={pid} replay={path}")
            print(f"  {v.key}: {v.detail[:400]}")
        if len(new) > 20:
            print(f"  ... and {len(new) - 20} more violations")
    cov = dict(res.coverage)
    cov.setdefault("samples", [])
    ev = {"property_id": pid, "tier": tier, "seed": seed, "level": res.level, "coverage": cov,
          "assumptions": res.assumptions, "wall_s": round(wall_s, 2), "violations": len(new),
          "known_findings_reproduced": sorted(seen_known)}
    EVID.mkdir(exist_ok=True)
    (EVID / f"{pid}.json").write_text(json.dumps(ev, indent=1, default=str))
    return rc


def workdir(pid: str, name: str = "") -> Path:
    d = WORK / pid / name if name else WORK / pid
    d.mkdir(parents=True, exist_ok=True)
    return d


def clean_work(pid: str):
    shutil.rmtree(WORK / pid, ignore_errors=True)


def cfg(init="Init", next_="Next", constants: dict | None = None, invariants=(), constraints=(),
        properties=(), postcondition=None, view=None, spec=None, action_constraints=()) -> str:
    lines = []
    if spec:
        lines.append(f"SPECIFICATION {spec}")
    else:
        lines += [f"INIT {init}", f"NEXT {next_}"]
    if constants:
        lines.append("CONSTANTS")
        for k, v in constants.items():
            lines.append(f"  {k} {v}" if str(v).startswith("<-") else f"  {k} = {v}")
    for i in invariants:
        lines.append(f"INVARIANT {i}")
    for c in constraints:
        lines.append(f"CONSTRAINT {c}")
    for c in action_constraints:
        lines.append(f"ACTION_CONSTRAINT {c}")
    for p in properties:
        lines.append(f"PROPERTY {p}")
    if postcondition:
        lines.append(f"POSTCONDITION {postcondition}")
    if view:
        lines.append(f"VIEW {view}")
    return "\n".join(lines) + "\n"


def run_tlc_mc(base: str, defs: dict, workdir_: Path, *, constants: dict | None = None, extends: str = "", **kw) -> TLCResult:
    """Run `base` through a generated wrapper module MC_<base> that defines structured constants as TLA+
    expressions (cfg files accept only atoms and sets): defs = {CONSTNAME: 'tla expression'}."""
    name = f"MC_{base}"
    body = [f"---- MODULE {name} ----", f"EXTENDS {base}{(', ' + extends) if extends else ''}"]
    subst = {}
    for k, v in defs.items():
        body.append(f"MCdef_{k} == {v}")
        subst[k] = f"MCdef_{k}"
    body.append("====")
    cfg_kw = {k: kw.pop(k) for k in ("init", "next_", "invariants", "constraints", "properties", "postcondition", "view", "spec",
                                     "action_constraints") if k in kw}
    allc = dict(constants or {})
    allc.update({k: f"<- {v}" for k, v in subst.items()})
    text = cfg(constants=allc, **cfg_kw)
    workdir_.mkdir(parents=True, exist_ok=True)
    for d in SPEC_DIRS:
        if (d / f"{base}.tla").exists():
            shutil.copy(d / f"{base}.tla", workdir_ / f"{base}.tla")
    return run_tlc(name, text, workdir_, extra_modules={name: "\n".join(body) + "\n"}, **kw)
