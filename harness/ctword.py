"""Exact matrices of Clifford+T words of any length through spec/trace/CTWordEval.tla (residue number system, see the spec).

evaluate(pid, words) runs TLC and returns, per word, the exact matrix W = e / sqrt2^k with e over Z[omega] as Python integers
(Chinese-remainder reconstruction of TLC's residues: a change of representation), its float image, and TLC's answer to "is W = T^tk up to
a scalar".  compare_with_ring() cross-checks a result with the matrix CircuitEq computed from the reference table Gates.tla."""
from __future__ import annotations

import json
import math

import numpy as np

from . import lib

BASE_NAMES = {"Identity", "PauliX", "PauliY", "PauliZ", "Hadamard", "S", "SX", "T", "CNOT", "CY", "CZ", "SWAP", "ISWAP"}


def _is_prime(n):
    if n < 2:
        return False
    for p in (2, 3, 5, 7, 11, 13, 17, 19, 23, 29, 31, 37):
        if n % p == 0:
            return n == p
    d, s = n - 1, 0
    while d % 2 == 0:
        d //= 2
        s += 1
    for a in (2, 3, 5, 7):              # deterministic below 3.2e9
        x = pow(a, d, n)
        if x in (1, n - 1):
            continue
        for _ in range(s - 1):
            x = x * x % n
            if x == n - 1:
                break
        else:
            return False
    return True


_PRIMES = []


def primes(count):
    """the `count` largest primes below 2^30"""
    n = (1 << 30) - 1 if not _PRIMES else _PRIMES[-1] - 2
    while len(_PRIMES) < count:
        if _is_prime(n):
            _PRIMES.append(n)
        n -= 2
    return _PRIMES[:count]


def split_name(name):
    """'Adjoint(S)' -> ('S', 1)"""
    if name.startswith("Adjoint(") and name.endswith(")"):
        return name[8:-1], 1
    return name, 0


def word_record(names_wires):
    """[(operator name, [1-based wire positions])] -> gate records for the spec, or None when a name is outside the alphabet"""
    out = []
    for name, w in names_wires:
        b, adj = split_name(name)
        if b not in BASE_NAMES:
            return None
        out.append({"g": b, "adj": adj, "w": list(w)})
    return out


def n_primes(gates):
    kk = sum(1 if g["g"] == "Hadamard" else 2 if g["g"] == "SX" else 0 for g in gates)
    bits = kk / 2 + 3                      # |coefficient| <= sqrt2^k ; the product of the primes must exceed 2 sqrt2^k + 1
    return int(bits // 29) + 1


def _crt(res, ps):
    x, m = 0, 1
    for r, p in zip(res, ps):
        t = ((r - x) * pow(m, -1, p)) % p
        x += m * t
        m *= p
    return x - m if x > m // 2 else x


def _to_complex(coef, k):
    """(c0 + c1 w + c2 w^2 + c3 w^3) / sqrt2^k as a complex float, for coefficients of any size"""
    h = k // 2
    sh = max(0, h - 900)                   # keep the quotient inside the float range
    z = 0j
    for m, c in enumerate(coef):
        if c:
            v = (c >> sh) if sh else c
            z += (float(v) / 2.0 ** (h - sh)) * complex(math.cos(m * math.pi / 4), math.sin(m * math.pi / 4))
    return z / math.sqrt(2.0) if k % 2 else z


def evaluate(pid, words, name="ctword", chunk=4000, timeout=3000):
    """words: [{"n", "gates": word_record(...), "tk": int (-1: no question)}]
    -> (results [{"k", "e": rows of cols of 4 ints, "W": numpy, "eq"}], stats)"""
    results = [None] * len(words)
    stats = {"generated": 0, "distinct": 0, "runs": 0, "max_primes": 0}
    order = sorted(range(len(words)), key=lambda i: -len(words[i]["gates"]))       # long words first: better balance across workers
    for off in range(0, len(order), chunk):
        part = order[off:off + chunk]
        cases = []
        for i in part:
            w = words[i]
            cases.append({"n": w["n"], "np": n_primes(w["gates"]), "gates": w["gates"], "tk": w.get("tk", -1)})
        npmax = max(c["np"] for c in cases)
        stats["max_primes"] = max(stats["max_primes"], npmax)
        ps = primes(npmax)
        wd = lib.workdir(pid, f"{name}_{off}")
        (wd / "cases.json").write_text(json.dumps({"primes": ps, "cases": cases}))
        r = lib.run_tlc("CTWordEval", lib.cfg(constants={"NCASES": len(cases)}), wd, env={"TRACE_FILE": str(wd / "cases.json")}, timeout=timeout)
        lib.require_ok(r, f"CTWordEval {name}@{off}")
        got = 0
        for j in r.json_lines:
            c = cases[j["tid"] - 1]
            pp = ps[:c["np"]]
            e = [[[_crt(coef, pp) for coef in ent] for ent in row] for row in j["e"]]
            k = j["k"]
            bound = 2 ** (k // 2 + 1)
            if any(abs(x) > bound for row in e for ent in row for x in ent):
                raise lib.MachineryError("CTWordEval: reconstructed coefficient exceeds the a-priori bound sqrt2^k (not enough primes)")
            W = np.array([[_to_complex(ent, k) for ent in row] for row in e], dtype=complex)
            results[part[j["tid"] - 1]] = {"k": k, "e": e, "W": W, "eq": j["eq"]}
            got += 1
        if got != len(cases):
            raise lib.MachineryError(f"CTWordEval: {got} of {len(cases)} words evaluated (a gate outside the alphabet blocks its word)")
        stats["generated"] += r.generated
        stats["distinct"] += r.distinct
        stats["runs"] += 1
    return results, stats


# ------------------------------------------------------------------------------------------------ cross-check with CircuitEq / CMat
def _zmul(a, b):
    """product in Z[omega] of 4-vectors"""
    out = [0, 0, 0, 0]
    for i, x in enumerate(a):
        if x:
            for j, y in enumerate(b):
                if y:
                    m = i + j
                    if m < 4:
                        out[m] += x * y
                    else:
                        out[m - 4] -= x * y
    return out


def compare_with_ring(res, ring):
    """res: a result of evaluate(); ring: matrix {"k", "e"} emitted by CircuitEq at ring level 3 (value e / 2^k).
    Exact test of  res.e / sqrt2^res.k == ring.e / 2^ring.k  by cross-multiplication in Z[omega]."""
    k, k2 = res["k"], ring["k"]
    s2 = [0, 1, 0, -1]                                   # sqrt2 = w - w^3
    left_scale = [1 << k2, 0, 0, 0]                      # e * 2^k2
    right = [1 << (k // 2), 0, 0, 0]
    if k % 2:
        right = _zmul(right, s2)                         # ring.e * sqrt2^k
    for row_a, row_b in zip(res["e"], ring["e"]):
        for a, b in zip(row_a, row_b):
            if _zmul(list(a), left_scale) != _zmul(list(b), right):
                return False
    return True
