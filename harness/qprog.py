"""QProg ASTs (spec/ir/QProg.tla) <-> real PennyLane quantum functions, for C41 / C43.

`Runner` builds the quantum function denoted by an AST out of real PennyLane calls (nested AnnotatedQueue contexts,
QueuingManager.stop_recording, qp.adjoint / qp.ctrl / qp.pow / qp.s_prod / qp.prod / qp.sum and their dunder forms,
qp.apply, measurements, raised exceptions, qp.for_loop / qp.while_loop / qp.cond in tape mode, qp.cond on a mid-circuit
measurement, qp.adjoint(fn) / qp.ctrl(fn)), runs it under qp.tape.make_qscript and records, after every primitive
action, the observable state: QueuingManager._active_contexts and the contents of every recording queue, with objects
named by their construction order.  `compare` checks that record against the behaviours emitted by TLC.
`LowLevel` wraps QueuingManager.append/remove, AnnotatedQueue.__enter__/__exit__ and stop_recording in-process and logs
one event per call for trace validation (spec/trace/Trace_Queuing.tla)."""
import contextlib
import random

import pennylane as qp
from pennylane.measurements import MeasurementProcess
from pennylane.queuing import AnnotatedQueue, QueuingManager

UK = ["adj", "ctrl", "pow", "sprod"]
PK = ["prod", "sum"]
MK = ["expval", "var", "sample", "counts"]
EK = ["epow", "eadj", "esprod", "simplify"]          # eager wrappers (node E)
ZS = [2, 4, 0, 1, 3, -1, 0.5, 5]                     # exponents of pow(.., lazy=False), chosen by place
MAXREF = 2
CARRY0 = 100


class VerifRaise(Exception):
    """The exception raised by `raise` statements of a program."""


def caught(e):
    """Exceptions a program's try/except handles: its own raise, and a QuantumTape rejected when it is built at exit."""
    return isinstance(e, VerifRaise) or (isinstance(e, ValueError) and "must occur prior to measurements" in str(e))


def pick(kinds, p, flav):
    return kinds[(sum(p) + len(p) + flav) % len(kinds)]


def label(p, iv):
    return "p" + ".".join(map(str, p)) + "|" + ",".join(map(str, iv))


def unlabel(w):
    w = str(w).rstrip("'")
    a, b = w[1:].split("|")
    return [int(x) for x in a.split(".") if x], [int(x) for x in b.split(",") if x]


def gate(p, iv, k=None):
    lab = label(p, iv)
    k = sum(p) % 5 if k is None else k
    if k == 3:
        return qp.IsingXX(0.5, wires=[lab, lab + "'"])
    return (qp.S, qp.T, qp.SX, None, qp.X)[k](wires=lab)


def _names(o):
    return {c.__name__ for c in type(o).__mro__}


def _flat(k, ts):
    """a + b on a Sum (a @ b on a Prod) splices the operands instead of nesting: compare sums / products flattened."""
    out = []
    for t in ts:
        out += t["a"] if t["k"] == k else [t]
    return {"k": k, "a": out}


def term(o):
    """Structural description of a recorded object, in the vocabulary of the specification."""
    n = _names(o)
    if "QuantumScript" in n:
        return {"k": "tape"}
    if type(o).__name__ in ("S", "T", "SX", "IsingXX", "PauliX", "X") and str(o.wires[0]).startswith("p"):
        p, iv = unlabel(o.wires[0])
        return {"k": "g", "p": p, "iv": iv}
    if "Conditional" in n:
        return {"k": "cond+" if o.meas_val.processing_fn(1) else "cond-", "a": [term(o.base)]}
    if n & {"MidMeasure", "MidMeasureMP"}:
        p, iv = unlabel(str(o.wires[0])[1:])
        return {"k": "mid", "p": p, "iv": iv}
    if isinstance(o, MeasurementProcess):
        k = {"ExpectationMP": "expval", "VarianceMP": "var", "SampleMP": "sample", "CountsMP": "counts",
             "ProbabilityMP": "probs"}.get(type(o).__name__, type(o).__name__)
        return {"k": k, "a": [term(o.obs)] if o.obs is not None else []}
    if n & {"Adjoint", "Adjoint2"}:
        return {"k": "adj", "a": [term(o.base)]}
    if n & {"Controlled", "Controlled2"}:
        t = term(o.base)
        for _ in o.control_wires:          # nested controls are flattened into one multi-controlled operator
            t = {"k": "ctrl", "a": [t]}
        return t
    if n & {"Pow", "Pow2"}:
        return {"k": "pow", "a": [term(o.base)]}
    if "SProd" in n:
        return {"k": "sprod", "a": [term(o.base)]}
    if "Prod" in n:
        return _flat("prod", [term(x) for x in o.operands])
    if "Sum" in n:
        return _flat("sum", [term(x) for x in o.operands])
    try:
        p, iv = unlabel(o.wires[0])
        return {"k": "g", "p": p, "iv": iv}
    except Exception:                       # an object the programs never construct
        return {"k": "?" + type(o).__name__}


def tmatch(got, exp):
    """Structural agreement; the result of an eager wrapper may be any operator."""
    if exp["k"] == "eager":
        return True
    if exp["k"] in ("prod", "sum") and any(x["k"] == "eager" for x in exp["a"]):
        return got.get("k") == exp["k"]          # the result may itself be a product / sum that gets spliced in
    if got.get("k") != exp["k"] or got.get("p") != exp.get("p") or got.get("iv") != exp.get("iv"):
        return False
    ga, ea = got.get("a", []), exp.get("a", [])
    return len(ga) == len(ea) and all(tmatch(x, y) for x, y in zip(ga, ea))


def expand(objs, i):
    """Expected nested term of object i from the flat table emitted by TLC."""
    t = objs[i - 1]
    if t["k"] in ("tape", "eager"):
        return {"k": t["k"]}
    if t["k"] in ("g", "mid"):
        return {"k": t["k"], "p": list(t["p"]), "iv": list(t["iv"])}
    if t["k"] in ("prod", "sum"):
        return _flat(t["k"], [expand(objs, x) for x in t["a"]])
    return {"k": t["k"], "a": [expand(objs, x) for x in t["a"]]}


class Runner:
    def __init__(self, prog, flav):
        self.prog, self.flav = prog, flav
        self.steps, self.objs, self.idmap = [], [], {}
        self.queues, self.qmap = [], {}
        self.recent = []
        self.info = {}
        self.fuel = 2000

    # ------------------------------------------------------------------ observation
    def new(self, o):
        """Name a freshly constructed object.  An eager wrapper may hand back an operator that already has a name
        (adjoint(Adjoint(g), lazy=False) is g; simplify(g) outside recording is g): it takes the new name only when it
        is recorded as the result (it is in the active queue), otherwise it keeps the name it is recorded under."""
        self.objs.append(o)
        ctx = QueuingManager.active_context()
        if id(o) not in self.idmap or (ctx is not None and any(x is o for x in ctx.queue)):
            self.idmap[id(o)] = len(self.objs)
        return len(self.objs)

    def qid(self, q):
        if id(q) not in self.qmap:
            self.queues.append(q)
            self.qmap[id(q)] = len(self.queues)
        return self.qmap[id(q)]

    def seen(self):
        """Register the recording contexts PennyLane entered on its own (make_qscript)."""
        for q in list(QueuingManager._active_contexts):
            self.qid(q)

    def adopt(self):
        """Objects queued by PennyLane itself (lifted operators): named in queue order when first observed."""
        for q in list(QueuingManager._active_contexts):
            self.qid(q)
        for q in self.queues:
            for o in q.queue:
                if id(o) not in self.idmap:
                    self.new(o)

    def log(self, a, n=0, r=0):
        st = [self.qid(q) for q in QueuingManager._active_contexts]
        qs = [[self.idmap.get(id(o), -1) for o in q.queue] for q in self.queues]
        self.steps.append({"a": a, "n": n, "r": r, "st": st, "qs": qs})

    def push(self, o):
        self.recent = ([o] + self.recent)[:MAXREF]

    # ------------------------------------------------------------------ expressions
    def ev(self, e, p, iv):
        t = e["t"]
        if t == "G":
            o = gate(p, iv, e["n"][0] if e["n"] else None)      # n = <<class>> pins the gate class (explicit families)
            self.log("g", self.new(o))
            return o
        if t == "R":
            return self.recent[e["n"][0] - 1]
        alt = (sum(p) + self.flav) % 2 == 1
        if t == "U":
            a = self.ev(e["c"][0][0], p + [1], iv)
            k = pick(UK, p, self.flav)
            if k == "adj":
                w = qp.adjoint(a)
            elif k == "ctrl":
                w = qp.ctrl(a, control="c" + label(p, iv), control_values=[0]) if alt else qp.ctrl(a, control="c" + label(p, iv))
            elif k == "pow":
                w = a ** 2 if alt else qp.pow(a, 2)
            else:
                w = 2.0 * a if alt and "SProd" not in _names(a) else qp.s_prod(2.0, a)
            self.log("u", self.new(w))
            return w
        if t == "E":
            a = self.ev(e["c"][0][0], p + [1], iv)
            k = EK[e["n"][0]] if e["n"] else pick(EK, p, self.flav)   # n = <<kind, exponent>> pins both
            z = ZS[e["n"][1]] if e["n"] else ZS[(sum(p) + self.flav) % len(ZS)]
            if k == "epow":
                w = qp.pow(a, z, lazy=False)
            elif k == "eadj":
                w = qp.adjoint(a, lazy=False)
            elif k == "esprod":
                w = qp.s_prod(2.0, a, lazy=False)
            else:
                w = qp.simplify(a)
            self.info[len(self.steps)] = (k + (f"[z={z}]" if k == "epow" else ""), type(a).__name__)
            self.log("e", self.new(w))
            return w
        if t == "P":
            a = self.ev(e["c"][0][0], p + [1], iv)
            b = self.ev(e["c"][1][0], p + [2], iv)
            k = pick(PK, p, self.flav)
            if k == "prod":
                w = a @ b if alt else qp.prod(a, b)
            else:
                w = a + b if alt else qp.sum(a, b)
            self.log("p", self.new(w))
            return w
        raise ValueError(t)

    # ------------------------------------------------------------------ statements
    def block(self, b, p, iv):
        self.fuel -= 1
        if self.fuel < 0:                            # a loop that does not terminate (never on the unchanged tree)
            raise RuntimeError("runaway loop")
        for j, s in enumerate(b, 1):
            self.stmt(s, p + [j], iv)

    def lifted(self, fn, bodies, p, iv):
        """fn(callables) runs a PennyLane transform over bodies executed in PennyLane's own recording context."""
        def mk(j, first):
            def f():
                self.seen()
                if not first:
                    self.adopt()
                    self.log("mark")
                self.block(bodies[j], p + [j + 1], iv)
            return f
        fn(*[mk(j, j == 0) for j in range(len(bodies))])
        self.adopt()
        self.log("mark")

    def stmt(self, s, p, iv):
        t = s["t"]
        if t == "do":
            self.push(self.ev(s["c"][0][0], p + [1], iv))
        elif t == "meas":
            if s["c"]:
                o = self.ev(s["c"][0][0], p + [1], iv)
                m = {"expval": qp.expval, "var": qp.var, "sample": qp.sample, "counts": qp.counts}[pick(MK, p, self.flav)](o)
            else:
                m = qp.probs(wires=[label(p, iv)])
            self.log("meas", self.new(m))
        elif t == "apply":
            src = self.recent[s["n"][0] - 1]
            try:
                o = qp.apply(src)
            except RuntimeError:
                self.log("applyerr")
                raise VerifRaise() from None
            self.log("apply", self.new(o))
            self.push(o)
        elif t == "raise":
            raise VerifRaise()
        elif t == "ctx":
            q = AnnotatedQueue()
            try:
                with q:
                    self.log("enter")
                    self.block(s["c"][0], p + [1], iv)
            finally:
                self.log("exit")
        elif t == "tape":
            tp = qp.tape.QuantumTape()
            try:
                with tp:                                  # __exit__ builds the tape and may reject it
                    self.log("tenter", self.new(tp))
                    self.block(s["c"][0], p + [1], iv)
            finally:
                self.log("texit")
        elif t == "stop":
            try:
                with QueuingManager.stop_recording():
                    self.log("stopenter")
                    self.block(s["c"][0], p + [1], iv)
            finally:
                self.log("stopexit")
        elif t == "try":
            r = 0
            try:
                self.block(s["c"][0], p + [1], iv)
            except Exception as e:            # pylint: disable=broad-except
                if not caught(e):
                    raise
                r = 1
            self.log("tryend", 0, r)
        elif t == "for":
            lo, hi, st, carry = s["n"]
            forms = [(lo, hi, st)] + ([(lo, hi)] if st == 1 else []) + ([(hi,)] if st == 1 and lo == 0 else [])
            args = forms[(sum(p) + self.flav) % len(forms)]
            if carry:
                def body(i, acc):
                    self.block(s["c"][0], p + [1], [int(i), int(acc)] + iv)
                    return acc + i + 1
                out = qp.for_loop(*args)(body)(CARRY0)
                self.log("ret", 0, int(out))
            else:
                def body0(i):
                    self.block(s["c"][0], p + [1], [int(i)] + iv)
                qp.for_loop(*args)(body0)()
        elif t == "while":
            x0, k, d = s["n"]

            def wbody(x):
                self.block(s["c"][0], p + [1], [int(x)] + iv)
                return x + d
            out = qp.while_loop(lambda x: x < k)(wbody)(x0)
            self.log("ret", 0, int(out))
        elif t == "cond":
            i = iv[0] if iv else 0
            preds = [pred_value(c, i, (sum(p) + self.flav) // 2 + j) for j, c in enumerate(s["n"])]
            fns = [(lambda j=j: self.block(s["c"][j], p + [j + 1], iv)) for j in range(len(s["c"]))]
            has_else = len(s["c"]) > len(preds)
            if (sum(p) + self.flav) % 2 == 0:
                qp.cond(preds[0], fns[0], fns[-1] if has_else else None, elifs=[(preds[j], fns[j]) for j in range(1, len(preds))])()
            else:
                c = qp.cond(preds[0])(fns[0])
                for j in range(1, len(preds)):
                    c.else_if(preds[j])(fns[j])
                if has_else:
                    c.otherwise(fns[-1])
                c()
        elif t == "mcond":
            m = qp.measure("m" + label(p, iv))
            self.log("mmeas", self.new(m.measurements[0]))
            self.lifted(lambda *f: qp.cond(m, *f)(), s["c"], p, iv)
        elif t == "adjfn":
            self.lifted(lambda f: qp.adjoint(f)(), s["c"], p, iv)
        elif t == "ctrlfn":
            self.lifted(lambda f: qp.ctrl(f, control="f" + label(p, iv))(), s["c"], p, iv)
        else:
            raise ValueError(t)

    # ------------------------------------------------------------------ whole program
    def run(self):
        leaked = len(QueuingManager._active_contexts)
        if leaked:                                   # left over by an earlier program (a violation reported there)
            QueuingManager._active_contexts = []
        for j in range(MAXREF, 0, -1):               # the operators that exist before the quantum function runs
            o = gate([0, j], [])
            self.recent.insert(0, o)
        for o in self.recent:
            self.new(o)

        def qfunc():
            r = 0
            self.seen()
            try:
                self.block(self.prog, [], [])
            except Exception as e:            # pylint: disable=broad-except
                if not caught(e):
                    raise
                r = 1
            self.log("tryend", 0, r)
        tape, crash = None, None
        try:
            script = qp.tape.make_qscript(qfunc)()
            tape = {"err": False, "ops": [self.idmap.get(id(o), -1) for o in script.operations],
                    "meas": [self.idmap.get(id(o), -1) for o in script.measurements]}
        except Exception as e:            # pylint: disable=broad-except
            if isinstance(e, ValueError) and "must occur prior to measurements" in str(e):
                tape = {"err": True, "ops": [], "meas": []}
            else:                          # the program crashed inside PennyLane: never expected
                crash = f"{type(e).__name__}: {e}"
                QueuingManager._active_contexts = []
        if crash is None:
            self.log("fin")
        return {"steps": self.steps, "tape": tape, "terms": [term(o) for o in self.objs], "leaked_before": leaked, "crash": crash, "info": self.info}


def first_diff(got, exp):
    """None when the observed run is the expected behaviour, else (stable key, detail)."""
    gs, es = got["steps"], exp["steps"]
    for i in range(max(len(gs), len(es))):
        if i >= len(gs) and got.get("crash"):
            return "crash:" + got["crash"].split(":")[0], f"after step {i - 1} ({gs[-1] if gs else None}): {got['crash']}"
        if i >= len(gs):
            return f"missing-action:{es[i]['a']}", f"step {i}: expected {es[i]}, run ended"
        if i >= len(es):
            return f"extra-action:{gs[i]['a']}", f"step {i}: unexpected {gs[i]}"
        g, e = gs[i], es[i]
        if g["a"] != e["a"]:
            return f"action:{e['a']}->{g['a']}", f"step {i}: expected {e}, got {g}"
        for fld, what in (("st", "context-stack"), ("qs", "queues"), ("n", "object"), ("r", "value")):
            if g[fld] != e[fld]:
                key = f"{e['a']}:{what}"
                if e["a"] == "e" and i in got.get("info", {}):
                    kind, base = got["info"][i]
                    key += f":{kind}"
                    if fld == "qs" and g["qs"] == [[x for x in q if x != e["n"]] for q in e["qs"]]:
                        key = f"eager-result-not-recorded:{kind}:{base}"     # operand removed, result never queued
                return key, f"step {i} ({e['a']}): {what} expected {e[fld]}, got {g[fld]}; expected step {e}, got {g}"
    if got["tape"] != exp["tape"]:
        return "final-tape", f"expected tape {exp['tape']}, got {got['tape']}"
    for i, t in enumerate(got["terms"], 1):
        if i <= len(exp["objs"]) and not tmatch(t, expand(exp["objs"], i)):
            return f"term:{exp['objs'][i - 1]['k']}", f"object {i}: expected {expand(exp['objs'], i)}, got {t}"
    return None


def replay(prog, flav, variants):
    """Run prog once; it must be one of the behaviours (variants) TLC emitted for it."""
    got = Runner(prog, flav).run()
    diffs = [first_diff(got, v) for v in variants]
    for k, d in enumerate(diffs):
        if d is None:
            return got, k, None
    # report against the variant that agrees longest
    def agree(v):
        n = 0
        for g, e in zip(got["steps"], v["steps"]):
            if g != e:
                break
            n += 1
        return n
    k = max(range(len(variants)), key=lambda i: agree(variants[i]))
    return got, k, diffs[k]


# ---------------------------------------------------------------------- classical predicates of cond
NUM_PRED_CODES = tuple(range(4, 15))


def pred_value(code, i, rep=0):
    """The Python object handed to qp.cond for a predicate code of QProg.tla at loop value i.  Codes 0-3 are bools; codes
    >= 4 are numbers (the objects `if n % 3:` / `elif count:` would test), as Python or as numpy scalars by `rep`."""
    if code <= 3:
        return {0: False, 1: True, 2: i % 2 == 0, 3: i > 0}[code]
    v = {4: i % 3, 5: i, 6: -1, 7: 3, 8: 0, 9: 0.5, 10: -1.0, 11: 0.0, 12: 2.0, 13: 2 - i, 14: i / 2}[code]
    if rep % 3 == 2:
        import numpy as np
        return np.float64(v) if isinstance(v, float) else np.int64(v)
    return v


def widen_preds(prog, rng, p=0.5):
    """Re-draw (in place, seeded) the predicates of some cond nodes of a generated program among the number-valued codes."""
    for s in prog:
        if s["t"] == "cond" and rng.random() < p:
            s["n"] = [rng.choice(NUM_PRED_CODES) if rng.random() < 0.8 else c for c in s["n"]]
        for b in s["c"]:
            widen_preds(b, rng, p)
    return prog


def nonbool_cond_stats(prog, iv=()):
    """(number of cond nodes with a number-valued predicate, number of those whose STATIC predicate tuple at loop value 0
    separates 'first truthy' from 'largest' / 'last truthy') - only a vacuity count, not an oracle."""
    n = d = 0
    for s in prog:
        if s["t"] == "cond" and any(c >= 4 for c in s["n"]):
            n += 1
            for i in range(-3, 4):
                vals = [pred_value(c, i) for c in s["n"]]
                truthy = [j for j, v in enumerate(vals) if v]
                if truthy and (max(range(len(vals)), key=lambda j: (vals[j], -j)) != truthy[0]):
                    d += 1
                    break
        for b in s["c"]:
            a, b2 = nonbool_cond_stats(b)
            n, d = n + a, d + b2
    return n, d


# ---------------------------------------------------------------------- random programs (seeded)
def rand_expr(rng, kinds, depth):
    opts = [k for k in ("G", "R") if k in kinds]
    if depth > 0:
        opts += [k for k in ("U", "U", "P", "E") if k in kinds]
    t = rng.choice(opts)
    if t == "G":
        return {"t": "G", "n": [], "c": []}
    if t == "R":
        return {"t": "R", "n": [rng.randint(1, MAXREF)], "c": []}
    if t in ("U", "E"):
        return {"t": t, "n": [], "c": [[rand_expr(rng, kinds, depth - 1)]]}
    return {"t": "P", "n": [], "c": [[rand_expr(rng, kinds, depth - 1)], [rand_expr(rng, kinds, depth - 1)]]}


def rand_block(rng, kinds, depth, budget, lift=False, top=False):
    n = rng.randint(1, max(1, min(4, budget)))
    out = []
    for _ in range(n):
        s = rand_stmt(rng, kinds, depth, max(1, budget // n), lift)
        out.append(s)
        if s["t"] == "raise":
            break
    return out


def rand_stmt(rng, kinds, depth, budget, lift):
    simple = [k for k in ("do", "do", "do", "meas", "apply", "raise") if k in kinds and not (lift and k == "meas")]
    comp = [k for k in ("ctx", "stop", "try", "tape", "for", "while", "cond", "mcond", "adjfn", "ctrlfn") if k in kinds
            and not (lift and k in ("mcond", "tape"))]
    t = rng.choice(simple + (comp * 2 if depth > 0 and budget > 1 else []))
    nd = lambda t, n, c: {"t": t, "n": n, "c": c}
    sub = lambda lf=lift: rand_block(rng, kinds, depth - 1, budget - 1, lf)
    if t == "do":
        return nd("do", [], [[rand_expr(rng, kinds, 2)]])
    if t == "meas":
        return nd("meas", [], [[rand_expr(rng, kinds, 1)]] if rng.random() < 0.7 else [])
    if t == "apply":
        return nd("apply", [rng.randint(1, MAXREF)], [])
    if t == "raise":
        return nd("raise", [], [])
    if t in ("ctx", "stop", "try", "tape"):
        return nd(t, [], [sub()])
    if t == "for":
        st = rng.choice([-3, -2, -1, 1, 1, 2, 3])
        return nd("for", [rng.randint(-2, 3), rng.randint(-2, 3), st, rng.randint(0, 1)], [sub()])
    if t == "while":
        return nd("while", [rng.randint(-1, 2), rng.randint(-1, 3), rng.randint(1, 2)], [sub()])
    if t == "cond":
        k = rng.randint(1, 3)
        return nd("cond", [rng.randint(0, 3) for _ in range(k)], [sub() for _ in range(k + rng.randint(0, 1))])
    if t == "mcond":
        return nd("mcond", [], [sub(True) for _ in range(rng.randint(1, 2))])
    return nd(t, [], [sub(True)])


def rand_prog(rng, kinds, depth, budget):
    return rand_block(rng, kinds, depth, budget)


# ---------------------------------------------------------------------- low-level event log (trace validation)
class LowLevel:
    """Wraps the public queuing entry points in-process; one event per call with the observed state after it."""

    def __init__(self):
        self.events, self.omap, self.qmap, self.queues, self.keep = [], {}, {}, [], []

    def oid(self, o):
        o = getattr(o, "obj", o) if type(o).__name__ == "WrappedObj" else o
        if id(o) not in self.omap:
            self.keep.append(o)
            self.omap[id(o)] = len(self.keep)
        return self.omap[id(o)]

    def qid(self, q):
        if id(q) not in self.qmap:
            self.queues.append(q)
            self.qmap[id(q)] = len(self.queues)
        return self.qmap[id(q)]

    def ev(self, e, o=0, exc=False):
        st = [self.qid(q) for q in QueuingManager._active_contexts]
        qs = [[self.oid(x) for x in q.queue] for q in self.queues]
        self.events.append({"e": e, "o": o, "x": bool(exc), "st": st, "qs": qs})

    @contextlib.contextmanager
    def installed(self):
        ll = self
        o_app, o_rem = QueuingManager.__dict__["append"], QueuingManager.__dict__["remove"]
        o_ent, o_exi = AnnotatedQueue.__enter__, AnnotatedQueue.__exit__
        o_stop = QueuingManager.__dict__["stop_recording"]
        QT = qp.tape.QuantumTape
        o_tent, o_texi = QT.__enter__, QT.__exit__

        def app(cls, obj, **kw):
            o_app.__func__(cls, obj, **kw)
            ll.ev("append", ll.oid(obj))

        def rem(cls, obj):
            o_rem.__func__(cls, obj)
            ll.ev("remove", ll.oid(obj))

        def ent(self_):
            r = o_ent(self_)
            ll.qid(self_)
            ll.ev("enter", ll.qid(self_))
            return r

        def exi(self_, et, ev_, tb):
            r = o_exi(self_, et, ev_, tb)
            ll.ev("exit", ll.qid(self_), et is not None)
            return r

        def tent(self_):
            r = o_tent(self_)
            ll.ev("enter", ll.qid(self_))
            return r

        def texi(self_, et, ev_, tb):
            failed = True
            try:
                r = o_texi(self_, et, ev_, tb)
                failed = False
            finally:
                ll.ev("exit", ll.qid(self_), et is not None or failed)
            return r

        @contextlib.contextmanager
        def stop(cls):
            exc = False
            cm = o_stop.__func__(cls)
            cm.__enter__()
            ll.ev("stop")
            try:
                yield
            except BaseException:
                exc = True
                import sys
                if not cm.__exit__(*sys.exc_info()):
                    ll.ev("resume", 0, True)
                    raise
            else:
                cm.__exit__(None, None, None)
            if not exc:
                ll.ev("resume")

        QueuingManager.append, QueuingManager.remove = classmethod(app), classmethod(rem)
        QueuingManager.stop_recording = classmethod(stop)
        AnnotatedQueue.__enter__, AnnotatedQueue.__exit__ = ent, exi
        QT.__enter__, QT.__exit__ = tent, texi
        try:
            yield self
        finally:
            QueuingManager.append, QueuingManager.remove, QueuingManager.stop_recording = o_app, o_rem, o_stop
            AnnotatedQueue.__enter__, AnnotatedQueue.__exit__ = o_ent, o_exi
            QT.__enter__, QT.__exit__ = o_tent, o_texi


# ---------------------------------------------------------------------- shared driver (C41, C43)
INVARIANTS = ["NoDup", "ProgramOrder", "RecordedExactly", "NothingUnderStop", "ConsumedGone", "StackSane", "Good", "Unwound"]


def N(t, n=(), c=()):
    return {"t": t, "n": list(n), "c": list(c)}


def _bad_order(behaviour, step, i):
    """the context left at step i holds an operator after a measurement"""
    prev = behaviour["steps"][i - 1]["st"] if i else []
    if not prev:
        return False
    seen_m = False
    for o in step["qs"][prev[-1] - 1]:
        m = behaviour["objs"][o - 1]["k"] in ("expval", "var", "sample", "counts", "probs")
        if seen_m and not m:
            return True
        seen_m = seen_m or m
    return False


def features(prog, behaviour):
    """Which interesting situations a behaviour exercises (for the vacuity counts)."""
    f = set()
    acts = [s["a"] for s in behaviour["steps"]]
    depth = max((len(s["st"]) for s in behaviour["steps"]), default=0)
    if depth >= 2:
        f.add("nested-contexts")
    if "stopenter" in acts:
        f.add("stop_recording")
    if "tenter" in acts:
        f.add("tape-context")
    if "e" in acts:
        f.add("eager-wrapper")
    for i, s in enumerate(behaviour["steps"]):           # a tape rejected at exit: the next observable action is the except
        if s["a"] == "texit" and i + 1 < len(behaviour["steps"]) and behaviour["steps"][i + 1]["a"] in ("tryend", "exit", "stopexit", "texit") \
                and _bad_order(behaviour, s, i):
            f.add("tape-rejected-at-exit")
    if any(s["a"] in ("u", "p", "e", "meas") and behaviour["objs"][s["n"] - 1]["a"] for s in behaviour["steps"]):
        f.add("operand-consumed")
    if "apply" in acts:
        f.add("apply")
    if "applyerr" in acts:
        f.add("apply-outside-recording")
    if any(s["a"] == "tryend" and s["r"] == 1 for s in behaviour["steps"]):
        f.add("exception")
    js = str(prog)
    for k in ("for", "while", "cond", "mcond", "adjfn", "ctrlfn"):
        if f"'t': '{k}'" in js:
            f.add(k)
    # an exception that unwinds at least one context / stop_recording block
    for i, s in enumerate(behaviour["steps"]):
        if s["a"] == "tryend" and s["r"] == 1 and i > 0 and behaviour["steps"][i - 1]["a"] in ("exit", "stopexit", "texit"):
            f.add("exception-through-context")
    return f


def drive(pid, tier, seed, *, defs, constants, extras, trace_limit, what):
    """generator (TLC) -> replay into PennyLane -> low-level traces validated by TLC -> negative controls."""
    import collections
    import copy
    import json

    from . import lib
    from .lib import MachineryError, Violation

    import time
    t0 = time.time()
    phase = {}
    wd = lib.workdir(pid, "gen")
    # de-duplicate the explicit programs
    seenp, ex = set(), []
    for p in extras:
        k = json.dumps(p, sort_keys=True)
        if k not in seenp:
            seenp.add(k)
            ex.append(p)
    (wd / "extra.json").write_text(json.dumps(ex))
    consts = dict(constants)
    consts.update({"MaxRef": MAXREF, "UseExtra": "TRUE"})
    g = lib.run_tlc_mc("QProgGen", defs, wd, constants=consts, init="InitLaw", invariants=INVARIANTS, properties=["InnermostOnly"], constraints=["Emit"],
                       timeout=3300, env={"EXTRA_FILE": str(wd / "extra.json")})
    if g.invariant_violated:
        raise MachineryError(f"the queuing MODEL violates {g.invariant_violated} (specification error)\n" + g.out[-2500:])
    lib.require_ok(g, "QProgGen")
    phase["tlc_generate_s"] = round(time.time() - t0, 1)
    t0 = time.time()
    groups = collections.OrderedDict()
    for line in g.json_lines:
        groups.setdefault((json.dumps(line["prog"], sort_keys=True), line["flav"]), []).append(line)
    if len(groups) < 50:
        raise MachineryError(f"generator produced only {len(groups)} programs")
    viol, feats, nontriv, samples = [], collections.Counter(), set(), []
    nkey = collections.Counter()
    n_steps, n_variants, chosen = 0, 0, collections.Counter()
    acts = collections.Counter()
    kinds = collections.Counter()
    runs = []
    for (pj, flav), vs in groups.items():
        prog = vs[0]["prog"]
        try:
            got, k, d = replay(prog, flav, vs)
        except MachineryError:
            raise
        except Exception as e:                       # the program crashed inside PennyLane: never expected
            QueuingManager._active_contexts = []
            d, k, got = (f"crash:{type(e).__name__}", f"{type(e).__name__}: {e}"), 0, None
        if d is not None:
            nkey[d[0]] += 1
            if nkey[d[0]] > 3:                       # three witnesses per failing clause are enough
                continue
            viol.append(Violation(key=f"{pid}:{d[0]}", detail=f"{d[1]} | program {pj} flavour {flav}",
                                  replay={"prog": prog, "flav": flav, "variants": vs}))
            continue
        runs.append((prog, flav, vs[k]))
        n_steps += len(got["steps"])
        if len(vs) > 1:
            n_variants += 1
            size = lambda v: sum(len(q) for s in v["steps"] for q in s["qs"])
            chosen["operand-taken" if size(vs[k]) == min(size(v) for v in vs) else "operand-kept"] += 1
        f = features(prog, vs[k])
        for x in f:
            feats[x] += 1
        for s in vs[k]["steps"]:
            acts[s["a"]] += 1
        for t in vs[k]["objs"]:
            kinds[t["k"]] += 1
        if len(f) >= 2:
            nontriv.add((pj, flav))
            if len(samples) < 3 and len(f) >= 3 and len(pj) < 700:
                samples.append({"program": prog, "flavour": flav, "features": sorted(f),
                                "final_queues": vs[k]["steps"][-1]["qs"], "tape": vs[k]["tape"]})
    # ---------------------------------------------------------------- negative controls of the comparator
    neg_rej, neg_tot = 0, 0
    for prog, flav, exp in runs[:: max(1, len(runs) // 25)]:
        bad = copy.deepcopy(exp)
        cand = [i for i, s in enumerate(bad["steps"]) if any(len(q) >= 1 for q in s["qs"])]
        if not cand:
            continue
        s = bad["steps"][cand[len(cand) // 2]]
        q = next(q for q in s["qs"] if q)
        if len(q) >= 2:
            q[0], q[1] = q[1], q[0]               # two recorded objects out of program order
        else:
            q.pop()                                # a recorded object is missing
        neg_tot += 1
        neg_rej += first_diff(Runner(prog, flav).run(), bad) is not None
    if neg_tot == 0 or neg_rej != neg_tot:
        raise MachineryError(f"replay negative controls rejected {neg_rej}/{neg_tot}")
    # ---------------------------------------------------------------- low-level traces -> Trace_Queuing
    step = max(1, len(runs) // trace_limit)
    traces, tmeta = [], []
    for prog, flav, exp in runs[::step]:
        ll = LowLevel()
        try:
            with ll.installed():
                got = Runner(prog, flav).run()
        except Exception:
            QueuingManager._active_contexts = []
            continue
        if first_diff(got, exp) is not None:
            raise MachineryError("instrumentation changed the behaviour of a program")
        traces.append(ll.events)
        tmeta.append((prog, flav))
    negs = []
    for tr in traces:
        if len(negs) >= 12:
            break
        for i, e in enumerate(tr):
            if e["e"] == "append" and len(e["st"]) >= 2 and e["o"] in e["qs"][e["st"][-1] - 1] and len(negs) % 3 == 0:
                t2 = copy.deepcopy(tr)                       # the object lands in the OUTER context
                t2[i]["qs"][e["st"][-1] - 1].remove(e["o"])
                t2[i]["qs"][e["st"][-2] - 1].append(e["o"])
                negs.append(t2)
                break
            if e["e"] == "resume" and e["x"] and e["st"] and len(negs) % 3 == 1:
                t2 = copy.deepcopy(tr)                       # stack not given back after an exception
                t2[i]["st"] = []
                negs.append(t2)
                break
            if e["e"] == "append" and not e["st"] and e["qs"] and len(negs) % 3 == 2:
                t2 = copy.deepcopy(tr)                       # recorded although nothing records
                t2[i]["qs"][0] = t2[i]["qs"][0] + [e["o"]]
                negs.append(t2)
                break
    phase["replay_and_trace_recording_s"] = round(time.time() - t0, 1)
    t0 = time.time()
    wd2 = lib.workdir(pid, "trace")
    allt = traces + negs
    (wd2 / "traces.json").write_text(json.dumps(allt))
    r = lib.run_tlc("Trace_Queuing", lib.cfg(init="TInit", next_="TNext", constants={"NTRACES": len(allt)}, invariants=["TNoDup"]),
                    wd2, env={"TRACE_FILE": str(wd2 / "traces.json")}, timeout=3000)
    lib.require_ok(r, "Trace_Queuing")
    phase["tlc_trace_validation_s"] = round(time.time() - t0, 1)
    verd = {t[1]: t[2:] for t in r.tuples if t[0] == "V"}
    if len(verd) != len(allt):
        raise MachineryError(f"trace verdicts not total: {len(verd)} of {len(allt)}")
    tneg = sum(1 for i in range(len(traces) + 1, len(allt) + 1) if verd[i][0] != "ok")
    if not negs or tneg != len(negs):
        raise MachineryError(f"trace negative controls rejected {tneg}/{len(negs)}")
    for i, (prog, flav) in enumerate(tmeta, 1):
        if verd[i][0] != "ok":
            viol.append(Violation(key=f"{pid}:trace:{verd[i][0]}:{verd[i][1]}",
                                  detail=f"event {verd[i][2]} ({verd[i][1]}) of the recorded trace is not a step of Queuing.tla: {verd[i][0]} | "
                                         f"program {json.dumps(prog)} flavour {flav} | events {json.dumps(traces[i - 1])[:1500]}",
                                  replay={"prog": prog, "flav": flav, "events": traces[i - 1]}))
    cov = {"states": g.distinct + r.distinct, "transitions": g.generated + r.generated,
           "traces_validated_against_impl": len(traces), "evaluations": len(groups),
           "distinct_nontrivial": len(nontriv),
           "rule": "distinct (program, flavour) pairs replayed into PennyLane that combine at least two of: " + what,
           "samples": samples, "exhaustive": True,
           "model": {"module": "QProgGen (QProg + Queuing)", "invariants": INVARIANTS + ["[][InnermostOnlyStep]_qvars", "RangeLaw"], "states": g.distinct, **{k: v for k, v in constants.items()}},
           "violating_programs_by_clause": dict(nkey), "programs": len(groups), "explicit_programs": len(ex), "behaviours_emitted": len(g.json_lines),
           "observed_states_compared": n_steps, "features": dict(feats), "actions": dict(acts), "object_kinds": dict(kinds),
           "programs_with_underdetermined_consumption": n_variants, "underdetermined_outcomes_observed": dict(chosen),
           "trace_events": sum(len(t) for t in traces),
           "phase_wall_s": phase, "negative_controls_rejected": neg_rej + tneg, "negative_controls": neg_tot + len(negs)}
    return cov, viol, feats


def replay_file(pid, path):
    """./check <ID> --replay PATH: rerun one stored violation."""
    import json

    from .lib import CheckResult, Violation
    rep = json.loads(open(path).read())["replay"]
    viol = []
    if "variants" in rep:
        try:
            got, k, d = replay(rep["prog"], rep["flav"], rep["variants"])
        except Exception as e:
            QueuingManager._active_contexts = []
            d = (f"crash:{type(e).__name__}", str(e))
        if d:
            viol.append(Violation(key=f"{pid}:{d[0]}", detail=d[1], replay=rep))
    return CheckResult(coverage={"states": 0, "transitions": 0, "traces_validated_against_impl": 0, "evaluations": 1,
                                 "distinct_nontrivial": 0, "rule": "replay of one stored program", "samples": [rep.get("prog")],
                                 "exhaustive": False}, violations=viol)
