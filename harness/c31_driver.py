"""Driver process for C31: seeded default.qubit executions of a small batch under one executor backend / worker count,
with the completion order of the workers forced to a TLC-generated schedule.
Run as `python -m harness.c31_driver JOB OUT` with VERIF_C31_DIR=<log directory>.

The pools use the `spawn` start method: every worker re-imports THIS module as __mp_main__ before it unpickles its first
task, so the module-level hook below is installed in the parent and in every worker without touching the repository.
The hook wraps default_qubit._simulate_wrapper (the function handed to executor.map): it looks the circuit up in the
current schedule file, logs Start(i, pid, seq, seed received), runs the original, and finishes (End record with a digest
of the result it computed) only after its predecessor in the schedule has finished (turnstile, harness/exec_tasks.py)."""
import hashlib
import json
import os
import sys
import time

import numpy as np

import pennylane as qp
from pennylane.devices import default_qubit as _dq

from harness import exec_tasks as T

LOGDIR = os.environ.get("VERIF_C31_DIR")


def canon(x):
    if isinstance(x, dict):
        return ["d", sorted((str(k), canon(v)) for k, v in x.items())]
    if isinstance(x, (tuple, list)):
        return ["t", [canon(v) for v in x]]
    a = np.asarray(x)
    return ["a", a.dtype.str, list(a.shape), a.tobytes().hex()]


def digest(x):
    return int(hashlib.sha256(json.dumps(canon(x)).encode()).hexdigest()[:7], 16)      # < 2^28: a TLC integer


def shape_of(x):
    if isinstance(x, dict):
        return ["d"]
    if isinstance(x, (tuple, list)):
        return ["t", [shape_of(v) for v in x]]
    a = np.asarray(x)
    return [a.dtype.kind, list(a.shape)]


def tape_key(t):
    """Process-independent identity of a circuit (tape.hash depends on the interpreter's string-hash seed)."""
    ops = [f"{op.name}{list(op.wires)}{[round(float(p), 9) for p in op.data]}" for op in t.operations]
    ms = [repr(m) for m in t.measurements]
    return hashlib.sha256("|".join(ops + ms + [str(t.shots.shot_vector)]).encode()).hexdigest()[:16]


def _current():
    with open(os.path.join(LOGDIR, "current.json")) as f:
        return json.load(f)


def turnstile_batch(run, i, preds, w, wait):
    """Turnstile for the batch-layer families (large batches, stragglers that are overtaken by many tasks): as
    exec_tasks.turnstile, but a task gives way only when the real execution is stuck - its predecessor has not started, all
    w workers hold unfinished tasks and every one of those is itself waiting for an unfinished predecessor - or after
    `wait` seconds.  -> True iff the predecessor finished first."""
    rd = T.rundir(LOGDIR, run)
    open(os.path.join(rd, f"s{i}"), "w").close()
    pred = preds.get(i, 0)
    if not pred:
        return True
    m = os.path.join(rd, f"e{pred}")
    t_end = time.monotonic() + wait
    k = 0
    while not os.path.exists(m):
        k += 1
        if k % 20 == 0:
            if time.monotonic() > t_end:
                return False
            names = set(os.listdir(rd))
            if f"s{pred}" not in names:
                running = [int(x[1:]) for x in names if x[0] == "s" and "e" + x[1:] not in names]
                if len(running) >= w and all(preds.get(j, 0) and f"e{preds[j]}" not in names for j in running):
                    return os.path.exists(m)
        time.sleep(0.0005)
    time.sleep(T.GAP_S)
    return True


if LOGDIR and not getattr(_dq, "_verif_hooked", False):
    _orig = _dq._simulate_wrapper

    def _simulate_wrapper(circuit, kwargs):
        try:
            cur = _current()
            i, pred = cur["tasks"][tape_key(circuit)]
        except Exception:  # noqa: BLE001 - not one of ours: behave exactly like the original
            return _orig(circuit, kwargs)
        run = cur["run"]
        rng = kwargs.get("rng")
        seed = int(rng) if isinstance(rng, (int, np.integer)) else -1
        T.log_event(LOGDIR, {"run": run, "e": "s", "i": i, "t": time.monotonic_ns(), "seed": seed})
        res = _orig(circuit, kwargs)
        if cur.get("wait"):     # batch-layer families
            ok = turnstile_batch(run, i, {a: b for a, b in cur["tasks"].values()}, cur["w"], float(cur["wait"]))
        else:
            ok = T.turnstile(LOGDIR, run, i, pred, cur["w"])
        T.finish(LOGDIR, run, i, digest(res), ok)
        return res

    _simulate_wrapper.__module__ = _orig.__module__
    _simulate_wrapper.__qualname__ = _simulate_wrapper.__name__ = "_simulate_wrapper"
    _dq._simulate_wrapper = _simulate_wrapper
    _dq._verif_hooked = True


def batch(n, variant):
    """n pairwise different small circuits: finite-shot ones (samples, counts, expval) and analytic ones."""
    v = 0.1 * variant
    mk = qp.tape.QuantumScript
    all_ = [
        mk([qp.RX(0.4 + v, 0), qp.CNOT([0, 1])], [qp.sample(wires=[0, 1])], shots=7),
        mk([qp.RY(0.3 + v, 0), qp.CNOT([0, 1])], [qp.expval(qp.Z(0)), qp.probs(wires=[0, 1])]),
        mk([qp.H(0), qp.RX(1.1 + v, 1)], [qp.expval(qp.X(0)), qp.counts(wires=[1])], shots=11),
        mk([qp.RX(0.7 + v, 0), qp.RZ(0.2, 0), qp.H(1)], [qp.expval(qp.Y(0)), qp.var(qp.Z(1))]),
        mk([qp.H(0), qp.CNOT([0, 1]), qp.RY(0.5 + v, 1)], [qp.sample(qp.Z(0)), qp.probs(wires=[1])], shots=13),
        mk([qp.RY(0.9 + v, 1), qp.CNOT([1, 0])], [qp.expval(qp.Z(0) @ qp.Z(1))], shots=[5, 6]),
    ]
    return all_[:n]


def batch_mask(mask, variant):
    """Batch with the composition chosen by TLC (ExecutorMix.mask): position i holds a finite-shot circuit iff mask[i] = 1,
    an analytic one otherwise.  Circuits are pairwise different (angle depends on the position); every finite-shot circuit
    has more than 20 bits of sampling entropy (uniform wires 1, 2), so that two executions that do not share their seed cannot agree."""
    mk = qp.tape.QuantumScript
    out = []
    for i, b in enumerate(mask):
        a = 0.1 * variant + 0.07 * (i + 1)
        pre = [qp.H(0), qp.H(1), qp.H(2), qp.RY(a, 0), qp.CNOT([0, 1])]
        if b:
            out.append([
                lambda: mk(pre, [qp.sample(wires=[0, 1, 2])], shots=24),
                lambda: mk(pre + [qp.RX(0.3, 2)], [qp.expval(qp.Z(0) @ qp.Z(2)), qp.counts(wires=[0, 1, 2])], shots=40),
                lambda: mk(pre + [qp.RZ(0.2, 1)], [qp.sample(qp.Z(1)), qp.probs(wires=[0, 2])], shots=60),
                lambda: mk(pre + [qp.RY(0.4, 2)], [qp.expval(qp.Z(0)), qp.expval(qp.Z(1)), qp.var(qp.Z(2))], shots=[50, 70]),
            ][i % 4]())
        else:
            out.append([
                lambda: mk(pre, [qp.expval(qp.Z(0)), qp.probs(wires=[0, 1])]),
                lambda: mk(pre + [qp.RX(0.3, 2)], [qp.expval(qp.Y(0)), qp.var(qp.Z(1))]),
                lambda: mk(pre + [qp.RZ(0.2, 1)], [qp.probs(wires=[0, 1, 2])]),
            ][i % 3]())
    return out


def session(s, out):
    """One device: s = {sid, backend, workers, seed, n, variant, rounds: [completion order per execute]} and optionally
    masks: [composition of the batch per execute] (default: the fixed batch above), wait: turnstile time-out in seconds."""
    from pennylane.concurrency.executors import get_executor
    from pennylane.devices import ExecutionConfig
    n = s["n"]
    ref_dev = qp.device("default.qubit", seed=s["seed"])
    dev = qp.device("default.qubit", seed=s["seed"], max_workers=s["workers"])
    for r, corder in enumerate(s["rounds"], start=1):
        run = f"{s['sid']}.{r}"
        pred = {i: 0 for i in range(1, n + 1)}
        for a, b in zip(corder, corder[1:]):
            pred[b] = a
        rec = {"sid": s["sid"], "round": r, "run": run, "exc": "", "digests": [], "flags": True, "shapes_ok": True, "analytic_ok": True}
        try:
            tapes = batch_mask(s["masks"][r - 1], s["variant"]) if s.get("masks") else batch(n, s["variant"])
            cfg = ExecutionConfig(executor_backend=get_executor(s["backend"])) if s["backend"] else ExecutionConfig()
            cfg = dev.setup_execution_config(cfg)
            prog = dev.preprocess_transforms(cfg)
            tapes2, post = prog(tapes)
            if len(tapes2) != n or len({tape_key(t) for t in tapes2}) != n:
                raise RuntimeError("preprocessing changed the batch size / circuits not distinguishable")
            tmp = os.path.join(LOGDIR, "current.tmp")
            with open(tmp, "w") as f:
                json.dump({"run": run, "w": min(s["workers"] or 1, n), "wait": s.get("wait", 0), "tasks": {tape_key(t): [i, pred[i]] for i, t in enumerate(tapes2, start=1)}}, f)
            os.replace(tmp, os.path.join(LOGDIR, "current.json"))
            t0 = time.time()
            res = post(dev.execute(tapes2, cfg))
            rec["wall"] = round(time.time() - t0, 2)
            os.replace(os.path.join(LOGDIR, "current.json"), os.path.join(LOGDIR, "done.json"))   # reference runs are not logged
            ref = ref_dev.execute(tapes2, ExecutionConfig())
            if len(res) != n:
                rec["exc"] = "WrongLength"
            else:
                rec["digests"] = [digest(x) for x in res]
                for i, t in enumerate(tapes2):
                    if shape_of(res[i]) != shape_of(ref[i]):
                        rec["shapes_ok"] = False
                    if t.shots.total_shots is None:
                        try:
                            for a, b in zip(res[i] if isinstance(res[i], tuple) else (res[i],), ref[i] if isinstance(ref[i], tuple) else (ref[i],)):
                                if np.shape(a) != np.shape(b) or not np.allclose(a, b, atol=1e-10, rtol=0):
                                    rec["analytic_ok"] = False
                        except Exception:  # noqa: BLE001 - not comparable at all
                            rec["analytic_ok"] = False
                rec["flags"] = rec["shapes_ok"] and rec["analytic_ok"]
        except Exception as e:  # noqa: BLE001 - recorded, decided by the trace spec
            rec["exc"] = type(e).__name__
            rec["msg"] = str(e)[:300]
        out.write(json.dumps(rec) + "\n")
        out.flush()


def main():
    t_end = time.time() + float(os.environ.get("VERIF_JOB_WAIT", "900"))
    while not os.path.exists(sys.argv[1]):
        if time.time() > t_end:
            sys.exit(3)
        time.sleep(0.05)
    job = json.load(open(sys.argv[1]))
    out = open(sys.argv[2], "w")
    out.write(json.dumps({"sid": "", "pennylane": os.path.dirname(qp.__file__), "hooked": bool(getattr(_dq, "_verif_hooked", False))}) + "\n")
    out.flush()
    for s in job["sessions"]:
        session(s, out)
    out.close()
    sys.stdout.flush()
    os._exit(0)       # pools leaked by non-persistent executors must not block interpreter shutdown


if __name__ == "__main__":
    main()
