"""Driver process for C65: runs a job file of executor calls against one native backend of the real
pennylane.concurrency.executors and writes one JSON line per call.  Run as `python -m harness.exec_driver JOB OUT`.

Pool workers are started with `spawn` and re-import this module as __mp_main__: keep the module level light
(pennylane is imported inside main only)."""
import itertools
import json
import os
import sys
import threading
import time
from functools import partial

from harness import exec_tasks as T

CALL_TIMEOUT = float(os.environ.get("VERIF_CALL_TIMEOUT", "240"))


def enc(v):
    if isinstance(v, bool) or v is None:
        return {"repr": repr(v)}
    if isinstance(v, int):
        return v
    if isinstance(v, list) and all(isinstance(x, int) and not isinstance(x, bool) for x in v):
        return v
    return {"repr": repr(v)[:300], "type": type(v).__name__}


def guarded(f):
    """Run f() in a thread; -> (result, exception record)."""
    box = {}

    def body():
        try:
            box["res"] = f()
        except BaseException as e:  # noqa: BLE001 - everything the call raises is an observation
            box["exc"] = {"cls": type(e).__name__, "msg": str(e)[:300],
                          "cause": type(e.__cause__).__name__ if e.__cause__ is not None else ""}
    th = threading.Thread(target=body, daemon=True)
    th.start()
    th.join(CALL_TIMEOUT)
    if th.is_alive():
        return None, {"cls": "Timeout", "msg": f"no return within {CALL_TIMEOUT}s", "cause": ""}
    return box.get("res"), box.get("exc")


def do_call(ex, call):
    fn = T.FUNCS[call["fn"]]
    kw = {"k": call["k"]} if call["haskw"] else {}
    its = call["its"]
    if call.get("tuples"):
        its = [tuple(x) for x in its]
    if call["api"] == "map":
        return ex.map(fn, *its, **kw)
    if call["api"] == "starmap":
        return ex.starmap(fn, [tuple(t) for t in its], **kw)
    return ex.submit(fn, *its[0], **kw)


def builtin(call):
    fn = partial(T.FUNCS[call["fn"]], **({"k": call["k"]} if call["haskw"] else {}))
    if call["api"] == "map":
        return list(map(fn, *call["its"]))
    if call["api"] == "starmap":
        return list(itertools.starmap(fn, [tuple(t) for t in call["its"]]))
    return fn(*call["its"][0])


def main():
    from pennylane.concurrency.executors import create_executor
    import pennylane
    t_end = time.time() + float(os.environ.get("VERIF_JOB_WAIT", "900"))
    while not os.path.exists(sys.argv[1]):      # started early (import overlaps the TLC generators); the job arrives later
        if time.time() > t_end:
            sys.exit(3)
        time.sleep(0.05)
    job = json.load(open(sys.argv[1]))
    out = open(sys.argv[2], "w")
    backend, d = job["backend"], job["dir"]
    out.write(json.dumps({"id": -1, "pennylane": os.path.dirname(pennylane.__file__)}) + "\n")
    cache = {}

    def executor(w, persist):
        if not persist:
            return create_executor(backend) if backend == "serial" else create_executor(backend, max_workers=w)
        if (w, True) not in cache:
            cache[(w, True)] = (create_executor(backend, persist=True) if backend == "serial"
                                else create_executor(backend, max_workers=w, persist=True))
        return cache[(w, True)]

    for it in job["items"]:
        ex = executor(it["workers"], it["persist"])
        rec = {"id": it["id"]}
        if it["kind"] == "conv":
            res, exc = guarded(lambda: do_call(ex, it["call"]))
            try:
                rec["builtin"] = enc(builtin(it["call"]))
            except Exception as e:  # noqa: BLE001
                rec["builtin"] = {"raises": type(e).__name__}
        else:
            n, run = it["n"], str(it["id"])
            pred = {i: 0 for i in range(1, n + 1)}
            for a, b in zip(it["corder"], it["corder"][1:]):
                pred[b] = a
            ids = list(range(1, n + 1))
            toks = [f"{d}|{run}|{pred[i]}|{it['workers']}" for i in ids]
            if it["api"] == "map":
                res, exc = guarded(lambda: ex.map(T.sched, ids, toks))
            elif it["api"] == "starmap":
                res, exc = guarded(lambda: ex.starmap(T.sched, list(zip(ids, toks))))
            else:  # n independent submit calls (serial by construction)
                res, exc = guarded(lambda: [ex.submit(T.sched, i, t) for i, t in zip(ids, toks)])
        rec["res"], rec["exc"] = enc(res), exc
        out.write(json.dumps(rec) + "\n")
        out.flush()
        if exc and exc["cls"] == "Timeout":
            break
    out.close()
    for ex in cache.values():
        try:
            ex.shutdown()
        except Exception:  # noqa: BLE001
            pass
    sys.stdout.flush()
    os._exit(0)   # leaked (non-persistent) pools must not block interpreter shutdown


if __name__ == "__main__":
    main()
