"""QProg ASTs (spec/ir/QProg.tla) as quantum functions that can be built BOTH ways, for C42:
tape mode (qp.tape.make_qscript, capture disabled) and program capture (make_plxpr / jax.make_jaxpr -> plxpr_to_tape).

Unlike harness/qprog.py (string wire labels, Python-int loop values) every quantity that depends on a loop value is computed
with arithmetic that also works on jax tracers, because under capture a loop body is traced ONCE with an abstract index:
  leaf gate at AST path p with loop values iv (innermost first; a carrying for-loop contributes i, acc):
      kind  = (S, T, SX, IsingXX, RX)[sum(p) % 5]
      wire  = (H(p) + W(iv)) % 6            H(p) = sum (k+1) p_k + 3 len(p),  W(iv) = sum (k+1) iv_k
      angle = x (1 + H(p) % 4) + y iv_0     x, y are ARGUMENTS of the quantum function (dynamic parameters)
  control wires are static: 10 + 4 len(p) + H(p) % 4 (operator ctrl), 60 + ... (qp.ctrl(fn)); measured wire 120 + (H + W) % 4.
`concretize` applies the same formulas, on plain ints, to the recording expected by TLC (terms with p, iv)."""
import math

import pennylane as qp
from pennylane.measurements import MeasurementProcess

UK = ["adj", "ctrl", "pow", "sprod"]
PK = ["prod", "sum"]
MK = ["expval", "var", "sample", "counts"]
CARRY0 = 100
NW = 6


def pick(kinds, p, flav):
    return kinds[(sum(p) + len(p) + flav) % len(kinds)]


def H(p):
    return sum((k + 1) * v for k, v in enumerate(p)) + 3 * len(p)


def W(iv):
    s = 0
    for k, v in enumerate(iv):
        s = s + (k + 1) * v
    return s


def leaf_wire(p, iv):
    return (H(p) + W(iv)) % NW


def leaf_angle(p, iv, x, y):
    return x * (1 + H(p) % 4) + (y * iv[0] if len(iv) else 0.0)


def ctrl_wire(p, fn=False):
    return (60 if fn else 10) + 4 * len(p) + H(p) % 4


def mid_wire(p, iv):
    return 120 + (H(p) + W(iv)) % 4


GATES = ["S", "T", "SX", "IsingXX", "RX"]


def gate(p, iv, x, y):
    k = sum(p) % 5
    w = leaf_wire(p, iv)
    if k == 3:
        return qp.IsingXX(leaf_angle(p, iv, x, y), wires=[w, (w + 1) % NW])
    if k == 4:
        return qp.RX(leaf_angle(p, iv, x, y), wires=w)
    return (qp.S, qp.T, qp.SX)[k](wires=w)


@qp.capture.subroutine
def sub_rx(theta, w):
    qp.RX(theta, wires=w)


@qp.capture.subroutine
def sub_ixx(theta, w0, w1):
    qp.IsingXX(theta, wires=[w0, w1])


class Builder:
    """prog, flav -> qfunc(x, y, k).  k is an integer argument that is 0 at run time: flavours add it to loop bounds and
    compare it in predicates so that bounds / conditions are dynamic values of the captured program."""

    def __init__(self, prog, flav, dyn=False, sub=False):
        self.prog, self.flav, self.dyn, self.sub = prog, flav, dyn, sub
        self.fuel = 4000

    # ------------------------------------------------------------------ expressions
    def ev(self, e, p, iv):
        t = e["t"]
        if t == "G":
            return gate(p, iv, self.x, self.y)
        alt = (sum(p) + self.flav) % 2 == 1
        if t == "U":
            a = self.ev(e["c"][0][0], p + [1], iv)
            k = pick(UK, p, self.flav)
            if k == "adj":
                return qp.adjoint(a)
            if k == "ctrl":
                return qp.ctrl(a, control=ctrl_wire(p), control_values=[0]) if alt else qp.ctrl(a, control=ctrl_wire(p))
            if k == "pow":
                return a ** 2 if alt else qp.pow(a, 2)
            return 2.0 * a if alt and "SProd" not in {c.__name__ for c in type(a).__mro__} else qp.s_prod(2.0, a)
        if t == "P":
            a = self.ev(e["c"][0][0], p + [1], iv)
            b = self.ev(e["c"][1][0], p + [2], iv)
            if pick(PK, p, self.flav) == "prod":
                return a @ b if alt else qp.prod(a, b)
            return a + b if alt else qp.sum(a, b)
        raise ValueError(t)

    # ------------------------------------------------------------------ statements
    def block(self, b, p, iv):
        self.fuel -= 1
        if self.fuel < 0:
            raise RuntimeError("runaway loop")
        for j, s in enumerate(b, 1):
            self.stmt(s, p + [j], iv, top=(p == []))

    def stmt(self, s, p, iv, top=False):
        t = s["t"]
        K = self.k if self.dyn else 0
        if t == "do":
            e = s["c"][0][0]
            g = sum(p + [1]) % 5
            if self.sub and e["t"] == "G" and g >= 3:      # a statement that is one parametrised gate: through a subroutine
                w = leaf_wire(p + [1], iv)
                th = leaf_angle(p + [1], iv, self.x, self.y)
                if g == 3:
                    sub_ixx(th, w, (w + 1) % NW)
                else:
                    sub_rx(th, w)
            else:
                self.ev(e, p + [1], iv)
        elif t == "meas":
            if s["c"]:
                o = self.ev(s["c"][0][0], p + [1], iv)
                {"expval": qp.expval, "var": qp.var, "sample": qp.sample, "counts": qp.counts}[pick(MK, p, self.flav)](o)
            else:
                qp.probs(wires=[leaf_wire(p, iv)])
        elif t == "for":
            lo, hi, st, carry = s["n"]
            forms = [(lo + K, hi + K, st)] + ([(lo + K, hi + K)] if st == 1 else []) + ([(hi + K,)] if st == 1 and lo == 0 else [])
            args = forms[(sum(p) + self.flav) % len(forms)]
            if carry:
                def body(i, acc):
                    self.block(s["c"][0], p + [1], [i, acc] + iv)
                    return acc + i + 1
                out = qp.for_loop(*args)(body)(CARRY0)
                if top:
                    self.rets.append(out)
            else:
                def body0(i):
                    self.block(s["c"][0], p + [1], [i] + iv)
                qp.for_loop(*args)(body0)()
        elif t == "while":
            x0, k, d = s["n"]

            def wbody(v):
                self.block(s["c"][0], p + [1], [v] + iv)
                return v + d
            out = qp.while_loop(lambda v: v < k + K)(wbody)(x0 + K)
            if top:
                self.rets.append(out)
        elif t == "cond":
            i = iv[0] if iv else 0
            if self.dyn:
                val = {0: K != 0, 1: K == 0, 2: (i + K) % 2 == 0, 3: i + K > 0}
            else:
                val = {0: False, 1: True, 2: i % 2 == 0, 3: i > 0}
            preds = [val[c] for c in s["n"]]

            def mk(j):
                def f():
                    self.block(s["c"][j], p + [j + 1], iv)
                return f
            fns = [mk(j) for j in range(len(s["c"]))]
            has_else = len(s["c"]) > len(preds)
            if (sum(p) + self.flav) % 2 == 0:
                qp.cond(preds[0], fns[0], fns[-1] if has_else else None, elifs=[(preds[j], fns[j]) for j in range(1, len(preds))])()
            else:
                c = qp.cond(preds[0])(fns[0])
                for j in range(1, len(preds)):
                    c.else_if(preds[j])(fns[j])
                if has_else:
                    c.otherwise(fns[-1])
                c()
        elif t == "mcond":
            m = qp.measure(mid_wire(p, iv))

            def mkb(j):
                def f():
                    self.block(s["c"][j], p + [j + 1], iv)
                return f
            qp.cond(m, *[mkb(j) for j in range(len(s["c"]))])()
        elif t == "adjfn":
            def fa():
                self.block(s["c"][0], p + [1], iv)
            qp.adjoint(fa)()
        elif t == "ctrlfn":
            def fc():
                self.block(s["c"][0], p + [1], iv)
            qp.ctrl(fc, control=ctrl_wire(p, fn=True))()
        else:
            raise ValueError(t)

    def qfunc(self, x, y, k):
        self.x, self.y, self.k = x, y, k
        self.rets = []
        self.fuel = 4000
        self.block(self.prog, [], [])
        return tuple(self.rets)


# ---------------------------------------------------------------------- observed objects -> canonical nested terms
def _names(o):
    return {c.__name__ for c in type(o).__mro__}


def _w(ws):
    return [int(w) for w in ws]


def _flat(k, ts):
    out = []
    for t in ts:
        out += t["a"] if t["k"] == k else [t]
    return {"k": k, "a": out}


def _ctrl(cs, t):
    """nested controls are one multi-controlled operator: collect the (wire, value) pairs"""
    if t["k"] == "ctrl":
        return {"k": "ctrl", "cs": sorted(cs + t["cs"]), "a": t["a"]}
    return {"k": "ctrl", "cs": sorted(cs), "a": [t]}


def describe(o):
    n = _names(o)
    if "Conditional" in n:
        mv = o.meas_val
        return {"k": "cond+" if mv.processing_fn(1) else "cond-", "m": _w(mv.measurements[0].wires), "a": [describe(o.base)]}
    if n & {"MidMeasure", "MidMeasureMP"}:
        return {"k": "mid", "w": _w(o.wires)}
    if isinstance(o, MeasurementProcess):
        k = {"ExpectationMP": "expval", "VarianceMP": "var", "SampleMP": "sample", "CountsMP": "counts",
             "ProbabilityMP": "probs"}.get(type(o).__name__, type(o).__name__)
        if o.obs is not None:
            return {"k": k, "a": [describe(o.obs)]}
        return {"k": k, "a": [], "w": _w(o.wires)}
    if "CollectedSubroutine" in n:                    # a subroutine call stands for the operators it applies
        inner = o.decomposition()
        return describe(inner[0]) if len(inner) == 1 else {"k": "subroutine", "a": [describe(x) for x in inner]}
    if n & {"Adjoint", "Adjoint2"}:
        return {"k": "adj", "a": [describe(o.base)]}
    if hasattr(o, "base") and hasattr(o, "control_wires") and len(o.control_wires) > 0:
        cs = [[int(w), int(bool(v))] for w, v in zip(o.control_wires, o.control_values)]
        return _ctrl(cs, describe(o.base))
    if n & {"Pow", "Pow2"}:
        return {"k": "pow", "z": float(o.z), "a": [describe(o.base)]}
    if "SProd" in n:
        sc = o.scalar
        try:
            sc = float(sc)
        except TypeError:                               # an OPERATOR in the place of the scalar (never on a correct recording)
            return {"k": "sprod<op>", "s": f"<{type(sc).__name__}>", "a": [describe(o.base)]}
        return {"k": "sprod", "s": sc, "a": [describe(o.base)]}
    if "Prod" in n:
        return _flat("prod", [describe(x) for x in o.operands])
    if "Sum" in n:
        return _flat("sum", [describe(x) for x in o.operands])
    return {"k": "g", "name": o.name, "w": _w(o.wires), "p": [round(float(qp.math.unwrap([d])[0] if not isinstance(d, (int, float)) else d), 9) for d in o.data]}


def describe_tape(tape):
    return {"ops": [describe(o) for o in tape.operations], "meas": [describe(m) for m in tape.measurements]}


# ---------------------------------------------------------------------- TLC's expected recording -> the same terms
def concretize(objs, i, flav, x, y):
    t = objs[i - 1]
    k, p, iv = t["k"], list(t["p"]), list(t["iv"])
    if k == "g":
        g = sum(p) % 5
        w = leaf_wire(p, iv)
        if g == 3:
            return {"k": "g", "name": "IsingXX", "w": [w, (w + 1) % NW], "p": [round(leaf_angle(p, iv, x, y), 9)]}
        if g == 4:
            return {"k": "g", "name": "RX", "w": [w], "p": [round(leaf_angle(p, iv, x, y), 9)]}
        return {"k": "g", "name": GATES[g], "w": [w], "p": []}
    if k == "mid":
        return {"k": "mid", "w": [mid_wire(p, iv)]}
    a = [concretize(objs, j, flav, x, y) for j in t["a"]]
    if k in ("prod", "sum"):
        return _flat(k, a)
    if k in MK:
        return {"k": k, "a": a}
    if k == "probs":
        return {"k": k, "a": [], "w": [leaf_wire(p, iv)]}
    if k in ("cond+", "cond-"):
        return {"k": k, "m": [mid_wire(p[:-1], iv)], "a": a}
    if k == "adj":
        return {"k": k, "a": a}
    if k == "pow":
        return {"k": k, "z": 2.0, "a": a}
    if k == "sprod":
        return {"k": k, "s": 2.0, "a": a}
    if k == "ctrl":
        operand = objs[t["a"][0] - 1]
        if list(operand["p"]) == p + [1]:                       # operator form qp.ctrl(op, control) at expression path p
            alt = (sum(p) + flav) % 2 == 1
            return _ctrl([[ctrl_wire(p), 0 if alt else 1]], a[0])
        return _ctrl([[ctrl_wire(p[:-1], fn=True), 1]], a[0])  # lifted by qp.ctrl(fn, control)(): p is the body's path
    raise ValueError(k)


def expected_tape(rec, x, y):
    return {"ops": [concretize(rec["objs"], i, rec["flav"], x, y) for i in rec["tape"]["ops"]],
            "meas": [concretize(rec["objs"], i, rec["flav"], x, y) for i in rec["tape"]["meas"]]}


def close(a, b, tol=1e-6):
    """structural equality of two canonical descriptions with float tolerance"""
    if isinstance(a, dict) and isinstance(b, dict):
        return a.keys() == b.keys() and all(close(a[k], b[k], tol) for k in a)
    if isinstance(a, (list, tuple)) and isinstance(b, (list, tuple)):
        return len(a) == len(b) and all(close(u, v, tol) for u, v in zip(a, b))
    if isinstance(a, float) or isinstance(b, float):
        return isinstance(a, (int, float)) and isinstance(b, (int, float)) and math.isclose(a, b, abs_tol=tol)
    return a == b


def diff_sig(g, e):
    """where two terms differ, as a short stable signature: the chain of node kinds down to the first difference"""
    if g.get("k") != e.get("k"):
        return f"{e.get('k')}->{g.get('k')}"
    k = e["k"]
    if k == "g":
        for f, what in (("name", "name"), ("w", "wires"), ("p", "params")):
            if not close(g.get(f), e.get(f)):
                return f"g:{what}"
    ga, ea = g.get("a", []), e.get("a", [])
    for x, y in zip(ga, ea):
        if not close(x, y):
            return f"{k}/" + diff_sig(x, y)
    if len(ga) != len(ea):
        return f"{k}:arity"
    for f in e:
        if f not in ("k", "a") and not close(g.get(f), e.get(f)):
            return f"{k}:{f}"
    return f"{k}:?"


def first_diff(got, exp):
    """None | (clause, detail) comparing two tape descriptions"""
    for part in ("ops", "meas"):
        g, e = got[part], exp[part]
        for i in range(max(len(g), len(e))):
            if i >= len(g):
                return f"missing-{part}", f"{part}[{i}]: expected {e[i]}, sequence ended ({len(g)} of {len(e)})"
            if i >= len(e):
                return f"extra-{part}", f"{part}[{i}]: unexpected {g[i]}"
            if not close(g[i], e[i]):
                sig = diff_sig(g[i], e[i])
                # an operator taken for a scalar (op + composite under capture): one key whatever surrounds it
                sig = "operator-used-as-scalar" if sig.endswith("->sprod<op>") else "/".join(sig.split("/")[-2:])
                return f"{part}:{sig}", f"{part}[{i}]: expected {e[i]}, got {g[i]}"
    return None


def features(prog):
    js = str(prog)
    return {k for k in ("for", "while", "cond", "mcond", "adjfn", "ctrlfn", "meas", "U", "P") if f"'t': '{k}'" in js}


# ---------------------------------------------------------------------- programs as Python SOURCE with native control flow
# (for make_plxpr(..., autograph=True): autograph needs the source of the function; the same function run under
#  make_qscript is the program "built directly with tapes" - plain Python for / while / if)
def _wsum(ivn):
    return "".join(f" + {k + 1} * {v}" for k, v in enumerate(ivn))


def _src_wire(p, ivn):
    return f"({H(p)}{_wsum(ivn)}) % {NW}"


def _src_angle(p, ivn):
    return f"x * {1 + H(p) % 4}" + (f" + y * {ivn[0]}" if ivn else " + 0.0")


def _src_expr(e, p, ivn, flav):
    t = e["t"]
    if t == "G":
        k = sum(p) % 5
        w = _src_wire(p, ivn)
        if k == 3:
            return f"qp.IsingXX({_src_angle(p, ivn)}, wires=[{w}, ({w} + 1) % {NW}])"
        if k == 4:
            return f"qp.RX({_src_angle(p, ivn)}, wires={w})"
        return f"qp.{GATES[k]}(wires={w})"
    alt = (sum(p) + flav) % 2 == 1
    if t == "U":
        a = _src_expr(e["c"][0][0], p + [1], ivn, flav)
        k = pick(UK, p, flav)
        if k == "adj":
            return f"qp.adjoint({a})"
        if k == "ctrl":
            return f"qp.ctrl({a}, control={ctrl_wire(p)}" + (", control_values=[0])" if alt else ")")
        if k == "pow":
            return f"({a}) ** 2" if alt else f"qp.pow({a}, 2)"
        child = e["c"][0][0]
        child_is_sprod = child["t"] == "U" and pick(UK, p + [1], flav) == "sprod"
        return f"2.0 * ({a})" if alt and not child_is_sprod else f"qp.s_prod(2.0, {a})"
    if t == "P":
        a = _src_expr(e["c"][0][0], p + [1], ivn, flav)
        b = _src_expr(e["c"][1][0], p + [2], ivn, flav)
        if pick(PK, p, flav) == "prod":
            return f"({a}) @ ({b})" if alt else f"qp.prod({a}, {b})"
        return f"({a}) + ({b})" if alt else f"qp.sum({a}, {b})"
    raise ValueError(t)


def _src_block(b, p, ivn, flav, dyn, ind, out, rets, scope):
    for j, s in enumerate(b, 1):
        _src_stmt(s, p + [j], ivn, flav, dyn, ind, out, rets, scope, top=(p == []))


def _src_scope(b, p, ivn, flav, dyn, ind, out, rets):
    """the body of one Python function.  autograph restriction: a loop-carried variable that is read by a function DEFINED
    inside a loop must exist before the outermost loop (else AutoGraphError 'potentially uninitialized'), so a scope that
    defines functions initialises its loop variables first."""
    scope = {"vars": [], "defs": False}
    body = []
    _src_block(b, p, ivn, flav, dyn, ind, body, rets, scope)
    if scope["defs"]:
        out.extend(f"{ind}{v} = 0" for v in scope["vars"])
    out.extend(body)


def _src_stmt(s, p, ivn, flav, dyn, ind, out, rets, scope, top):
    t = s["t"]
    tag = "_".join(map(str, p))
    K = " + k" if dyn else ""
    if t == "do":
        out.append(f"{ind}{_src_expr(s['c'][0][0], p + [1], ivn, flav)}")
    elif t == "meas":
        if s["c"]:
            out.append(f"{ind}qp.{pick(MK, p, flav)}({_src_expr(s['c'][0][0], p + [1], ivn, flav)})")
        else:
            out.append(f"{ind}qp.probs(wires=[{_src_wire(p, ivn)}])")
    elif t == "for":
        lo, hi, st, carry = s["n"]
        forms = [f"{lo}{K}, {hi}{K}, {st}"] + ([f"{lo}{K}, {hi}{K}"] if st == 1 else []) + ([f"{hi}{K}"] if st == 1 and lo == 0 else [])
        args = forms[(sum(p) + flav) % len(forms)]
        i, a = f"i_{tag}", f"a_{tag}"
        scope["vars"] += [i, a] if carry else [i]
        if carry:
            out.append(f"{ind}{a} = {CARRY0}")
        out.append(f"{ind}for {i} in range({args}):")
        _src_block(s["c"][0], p + [1], ([i, a] if carry else [i]) + ivn, flav, dyn, ind + "    ", out, rets, scope)
        if carry:
            out.append(f"{ind}    {a} = {a} + {i} + 1")
            if top:
                rets.append(a)
    elif t == "while":
        x0, k, d = s["n"]
        v = f"v_{tag}"
        scope["vars"].append(v)
        out.append(f"{ind}{v} = {x0}{K}")
        out.append(f"{ind}while {v} < {k}{K}:")
        _src_block(s["c"][0], p + [1], [v] + ivn, flav, dyn, ind + "    ", out, rets, scope)
        out.append(f"{ind}    {v} = {v} + {d}")
        if top:
            rets.append(v)
    elif t == "cond":
        i = ivn[0] if ivn else "0"
        if dyn:
            val = {0: "k != 0", 1: "k == 0", 2: f"({i} + k) % 2 == 0", 3: f"{i} + k > 0"}
        else:
            val = {0: "False", 1: "True", 2: f"{i} % 2 == 0", 3: f"{i} > 0"}
        for j, c in enumerate(s["n"]):
            out.append(f"{ind}{'if' if j == 0 else 'elif'} {val[c]}:")
            _src_block(s["c"][j], p + [j + 1], ivn, flav, dyn, ind + "    ", out, rets, scope)
        if len(s["c"]) > len(s["n"]):
            out.append(f"{ind}else:")
            _src_block(s["c"][-1], p + [len(s["c"])], ivn, flav, dyn, ind + "    ", out, rets, scope)
    elif t in ("mcond", "adjfn", "ctrlfn"):
        names = []
        scope["defs"] = True
        for j in range(len(s["c"])):
            fn = f"f_{tag}_{j + 1}"
            names.append(fn)
            out.append(f"{ind}def {fn}():")
            _src_scope(s["c"][j], p + [j + 1], ivn, flav, dyn, ind + "    ", out, rets)
        if t == "mcond":
            out.append(f"{ind}m_{tag} = qp.measure(120 + ({H(p)}{_wsum(ivn)}) % 4)")
            out.append(f"{ind}qp.cond(m_{tag}, {', '.join(names)})()")
        elif t == "adjfn":
            out.append(f"{ind}qp.adjoint({names[0]})()")
        else:
            out.append(f"{ind}qp.ctrl({names[0]}, control={ctrl_wire(p, fn=True)})()")
    else:
        raise ValueError(t)


def source(prog, flav, dyn, name):
    """Python source of the program as a function name(x, y, k) with native for / while / if"""
    out, rets = [f"def {name}(x, y, k):"], []
    _src_scope(prog, [], [], flav, dyn, "    ", out, rets)
    out.append("    return (" + "".join(r + ", " for r in rets) + ")")
    return "\n".join(out) + "\n"


def write_module(path, items):
    """items: [(name, prog, flav, dyn)] -> a module file with one function per program; returns the imported module"""
    import importlib.util
    text = "import pennylane as qp\n\n\n" + "\n\n".join(source(p, f, d, n) for n, p, f, d in items)
    path.write_text(text)
    spec = importlib.util.spec_from_file_location(path.stem, str(path))
    mod = importlib.util.module_from_spec(spec)
    spec.loader.exec_module(mod)
    return mod
