"""Codec between the spec's Pauli data (spec/alg/PauliAlg.tla) and PennyLane objects, shared by C51 / C52.

word        list of letters 0..3 (I, X, Y, Z), position i (1-based in the spec) <-> wire label labels[i-1]
coefficient [re, im, k] meaning (re + i*im) / 2**k  (Gaussian dyadic, exact)
terms       [{"w": word, "c": coefficient}, ...]
"""
from __future__ import annotations

import numpy as np

import pennylane as qp
from pennylane.pauli import PauliSentence, PauliWord

from .lib import Violation

LET = "IXYZ"
L2I = {"I": 0, "X": 1, "Y": 2, "Z": 3}
LABEL_POOLS = [[0, 1, 2, 3, 4, 5, 6], ["a", "b", "c", "d", "e", "f", "g"], [3, "x", 7, -1, "q", 10, "w0"], [6, 5, 4, 3, 2, 1, 0],
               ["q2", 11, "q0", 5, "aux", 2, 9]]


def labels_for(rng, n):
    """n + 1 distinct wire labels: positions 1..n of the spec, and one foreign wire (position 0 in a wire order)."""
    pool = list(rng.choice(LABEL_POOLS))
    if rng.random() < 0.5:
        rng.shuffle(pool)
    return pool[:n + 1]


def wire_order(order, labels):
    n = len(labels) - 1
    return [labels[o - 1] if o > 0 else labels[n] for o in order]


def gd_to_number(c, rng=None):
    """Exact coefficient -> python number (int / float / complex; all values used are exactly representable)."""
    re, im, k = c
    if im == 0:
        if k == 0 and rng is not None and rng.random() < 0.3:
            return int(re)
        return re / (1 << k)
    return complex(re / (1 << k), im / (1 << k))


def to_gd(z, kmax=40):
    """python / numpy number -> exact Gaussian dyadic [re, im, k], or None when it is not one (or too large for TLC)."""
    z = complex(z)
    for k in range(kmax + 1):
        re, im = z.real * (1 << k), z.imag * (1 << k)
        if float(re).is_integer() and float(im).is_integer():
            if abs(re) < 2 ** 28 and abs(im) < 2 ** 28:
                return [int(re), int(im), k]
            return None
    return None


def make_pw(word, labels, rng=None):
    d = {labels[i]: LET[c] for i, c in enumerate(word) if c != 0 or (rng is not None and rng.random() < 0.3)}
    return PauliWord(d)


_OPC = {1: qp.X, 2: qp.Y, 3: qp.Z}


def make_op(word, labels, identity="wire"):
    """Operator form of a word: a single Pauli, a Prod of Paulis, or an Identity (on the first label / wire-less)."""
    f = [_OPC[c](labels[i]) for i, c in enumerate(word) if c]
    if not f:
        return qp.Identity(labels[0]) if identity == "wire" else qp.Identity()
    return f[0] if len(f) == 1 else qp.prod(*f)


def word_of_pw(pw, labels):
    """PauliWord -> letters over `labels`; None when it acts on a wire outside `labels`."""
    n = len(labels)
    pos = {l: i for i, l in enumerate(labels)}
    w = [0] * n
    for wire, ch in pw.items():
        if ch == "I":
            continue
        if wire not in pos or ch not in L2I:
            return None
        w[pos[wire]] = L2I[ch]
    return tuple(w)


def ps_to_dict(ps, labels):
    """PauliSentence -> {word tuple: complex} (words over labels, equal words added up); None on a foreign wire."""
    out = {}
    for pw, c in ps.items():
        w = word_of_pw(pw, labels)
        if w is None:
            return None
        out[w] = out.get(w, 0) + complex(qp.math.unwrap([c])[0] if not isinstance(c, (int, float, complex)) else c)
    return out


def terms_to_dict(terms):
    out = {}
    for t in terms:
        re, im, k = t["c"]
        out[tuple(t["w"])] = out.get(tuple(t["w"]), 0) + complex(re, im) / (1 << k)
    return out


def dict_to_terms(d):
    """{word: complex} -> (terms, exact) with exact dyadic coefficients."""
    terms, exact = [], True
    for w, c in sorted(d.items()):
        g = to_gd(c)
        if g is None:
            exact = False
            g = [0, 0, 0]
        terms.append({"w": list(w), "c": g})
    return terms, exact


def sentence_diff(got, exp, tol=1e-9):
    """None when the two {word: complex} maps denote the same operator, else a short description."""
    for w in set(got) | set(exp):
        a, b = got.get(w, 0), exp.get(w, 0)
        if abs(a - b) > tol:
            return f"coefficient of {''.join(LET[c] for c in w) or 'I'}: got {a}, expected {b}"
    return None


def show_terms(terms):
    if not terms:
        return "0"
    def letter(c):
        return LET[c] if isinstance(c, int) and 0 <= c < len(LET) else f"?{c}"
    return " + ".join(f"({complex(t['c'][0], t['c'][1]) / (1 << t['c'][2])})*{''.join(letter(c) for c in t['w'])}" for t in terms)


class Agg:
    """Aggregates violations by key (many cases can fail for one reason)."""

    def __init__(self):
        self.d = {}

    def add(self, key, detail, replay):
        if key not in self.d:
            self.d[key] = [0, detail, replay]
        self.d[key][0] += 1

    def violations(self):
        return [Violation(key=k, detail=f"{d} [{c} failing case(s); first shown]", replay=r) for k, (c, d, r) in sorted(self.d.items())]
