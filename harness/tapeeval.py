"""Exact reference semantics of tapes via TLC (spec/trace/TapeEval.tla): REPLAY oracle for devices and transforms.
`evaluate` returns, per case, the exact expected measurement values converted to floats, and branch weights."""
from __future__ import annotations

import json

import numpy as np

from . import lib
from .lib import ring_to_complex


def _sc(x, M):
    return ring_to_complex(x["c"], x["k"], M)


def evaluate(pid, cases, M, name="tapeeval", workers=None, timeout=3000, chunk=20000, raw=False):
    """cases: [{"n", "ops": [instr], "meas": [{"t": "expval", "pw": [...]} | {"t": "probs", "w": [...]} | {"t": "state"}]}]
    -> (results [{"meas": [np arrays], "bw": [(outcomes, weight)]}], stats)"""
    out = [None] * len(cases)
    stats = {"generated": 0, "distinct": 0, "wall_s": 0.0, "runs": 0}
    for off in range(0, len(cases), chunk):
        part = cases[off:off + chunk]
        for c in part:
            for m in c["meas"]:
                m.setdefault("pw", [])
                m.setdefault("w", [])
        wd = lib.workdir(pid, f"{name}_{off}")
        (wd / "cases.json").write_text(json.dumps(part))
        r = lib.run_tlc("TapeEval", lib.cfg(constants={"M": M, "NCASES": len(part)}), wd,
                        env={"TRACE_FILE": str(wd / "cases.json")}, workers=workers, timeout=timeout)
        lib.require_ok(r, f"TapeEval batch {name}@{off}")
        for j in r.json_lines:
            if j["overflow"]:
                raise lib.MachineryError("ring coefficient overflow in TapeEval")
            ms = []
            for m in j["meas"]:
                vals = np.array([_sc(x, M) for x in m["v"]])
                if m["t"] == "expval":
                    ms.append(float(vals[0].real))
                elif m["t"] == "probs":
                    ms.append(vals.real.astype(float))
                else:
                    ms.append(vals)
            if raw:          # exact ring values as emitted ([c, k] records), for feeding back into another spec
                ms = [m["v"] for m in j["meas"]]
            out[off + j["tid"] - 1] = {"meas": ms, "bw": [(tuple(b["o"]), float(_sc(b["w"], M).real)) for b in j["bw"]]}
        stats["generated"] += r.generated
        stats["distinct"] += r.distinct
        stats["wall_s"] += r.wall_s
        stats["runs"] += 1
    if any(o is None for o in out):
        raise lib.MachineryError("TapeEval did not emit every case")
    return out, stats
