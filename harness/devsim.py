"""Circuit/measurement generator and exact-oracle comparison shared by C26 (default.qubit), C27 (other simulators),
C21 (dynamic circuits).  The oracle is TapeEval.tla: TLC computes the exact final state / expectation values /
probabilities; quantities that are nonlinear functions of the state (density matrices, purity, entropies) are computed
from TLC's exact state with a few lines of numpy (not with PennyLane)."""
from __future__ import annotations

import math
import random

import numpy as np

import pennylane as qp

from . import lib, tapeeval
from .codec import ARITY, decode_gate, rec

PWI = "IXYZ"
G1 = ["PauliX", "PauliY", "PauliZ", "Hadamard", "S", "T", "SX", "Identity"]
R1 = ["RX", "RY", "RZ", "PhaseShift", "U1"]
G2 = ["CNOT", "CY", "CZ", "CH", "SWAP", "ISWAP", "SISWAP", "ECR"]
R2 = ["CRX", "CRY", "CRZ", "ControlledPhaseShift", "CPhaseShift00", "CPhaseShift01", "CPhaseShift10", "IsingXX", "IsingYY", "IsingZZ",
      "IsingXY", "PSWAP", "SingleExcitation", "SingleExcitationPlus", "SingleExcitationMinus", "FermionicSWAP"]
G3 = ["Toffoli", "CCZ", "CSWAP"]
R4 = ["DoubleExcitation", "DoubleExcitationPlus", "DoubleExcitationMinus"]
P3 = ["Rot", "U3", "CRot"]


def random_gate(rng, n, M, kinds=None):
    N = 1 << M
    while True:
        k = rng.choice(kinds or ["g1", "r1", "g2", "r2", "g3", "r4", "p3", "u2", "mrz", "prot", "mcx", "gph", "adj", "pow", "ctrl", "qft"])
        ang = lambda: rng.randrange(N)
        if k == "g1":
            return rec(rng.choice(G1), [rng.randint(1, n)])
        if k == "r1":
            return rec(rng.choice(R1), [rng.randint(1, n)], [ang()])
        if k == "gph":
            return rec("GlobalPhase", [1], [ang()])
        if k == "u2":
            return rec("U2", [rng.randint(1, n)], [ang(), ang()])
        if k == "p3":
            g = rng.choice(P3)
            if ARITY[g] <= n:
                return rec(g, rng.sample(range(1, n + 1), ARITY[g]), [ang(), ang(), ang()])
        if k == "g2" and n >= 2:
            return rec(rng.choice(G2), rng.sample(range(1, n + 1), 2))
        if k == "r2" and n >= 2:
            return rec(rng.choice(R2), rng.sample(range(1, n + 1), 2), [ang()])
        if k == "g3" and n >= 3:
            return rec(rng.choice(G3), rng.sample(range(1, n + 1), 3))
        if k == "r4" and n >= 4:
            return rec(rng.choice(R4), rng.sample(range(1, n + 1), 4), [ang()])
        if k == "mrz":
            q = rng.randint(1, min(n, 3))
            return rec("MultiRZ", rng.sample(range(1, n + 1), q), [ang()])
        if k == "prot":
            q = rng.randint(1, min(n, 3))
            return rec("PauliRot", rng.sample(range(1, n + 1), q), [ang()], [rng.randint(0, 3) for _ in range(q)])
        if k == "mcx" and n >= 2:
            q = rng.randint(1, min(n - 1, 3))
            return rec("MultiControlledX", rng.sample(range(1, n + 1), q + 1), [], [rng.randint(0, 1) for _ in range(q)])
        if k == "qft" and n >= 2 and N >= 8:
            q = rng.randint(2, min(n, 3))
            return rec("QFT", rng.sample(range(1, n + 1), q))
        if k == "adj":
            g = random_gate(rng, n, M, ["g1", "r1", "g2", "r2"])
            g["mods"] = [{"t": "adj"}]
            return g
        if k == "pow":
            g = random_gate(rng, n, M, ["g1", "r1", "g2"])
            g["mods"] = [{"t": "pow", "z": rng.choice([2, 3, -1, -2])}]
            return g
        if k == "ctrl" and n >= 2:
            g = random_gate(rng, n, M, ["g1", "r1"] + (["g2", "r2"] if n >= 3 else []))
            free = [w for w in range(1, n + 1) if w not in g["w"]]
            q = rng.randint(1, min(len(free), 2))
            cw = rng.sample(free, q)
            g["w"] = cw + g["w"]
            g["mods"] = g["mods"] + [{"t": "ctrl", "cv": [rng.randint(0, 1) for _ in range(q)]}]
            return g


def random_circuit(rng, n, M, length, kinds=None):
    return [random_gate(rng, n, M, kinds) for _ in range(length)]


LABEL_TABLES = [None, ["a", "b", "c", "d", "e", "f", "g", "h", "i", "j"], [5, 3, "x", 0, "aux", 9, 2, "q", 7, 1]]


def labels_for(rng, n):
    t = rng.choice(LABEL_TABLES)
    return list(range(n)) if t is None else t[:n]


def random_meas(rng, n):
    """-> list of measurement descriptors: ("expval"|"var", pauli word ints) | ("probs", wires) | ("state",) |
    ("dm", wires) | ("purity", wires) | ("vn", wires) | ("mi", w0, w1) | ("ham", [(coeff dyadic, word)])"""
    out = []
    for _ in range(rng.randint(1, 3)):
        k = rng.choice(["expval", "expval", "var", "probs", "probs", "dm", "purity", "vn", "mi", "ham", "probs_all", "hexp", "hvar"])
        if k in ("expval", "var"):
            pw = [rng.randint(0, 3) for _ in range(n)]
            if not any(pw):
                pw[rng.randrange(n)] = 3
            out.append((k, pw))
        elif k == "probs":
            out.append(("probs", rng.sample(range(1, n + 1), rng.randint(1, n))))
        elif k == "probs_all":
            out.append(("probs", list(range(1, n + 1))))
        elif k in ("dm", "purity", "vn"):
            out.append((k, rng.sample(range(1, n + 1), rng.randint(1, n))))
        elif k == "mi" and n >= 2:
            ws = rng.sample(range(1, n + 1), 2)
            out.append(("mi", [ws[0]], [ws[1]]))
        elif k in ("hexp", "hvar"):
            q = rng.randint(1, min(2, n))
            ws = rng.sample(range(1, n + 1), q)
            a = np.array([[complex(rng.randint(-3, 3), rng.randint(-3, 3)) for _ in range(1 << q)] for _ in range(1 << q)]) / 4
            out.append((k, ws, (a + a.conj().T).tolist()))
        elif k == "ham":
            terms = []
            for _ in range(rng.randint(2, 3)):
                pw = [rng.randint(0, 3) if rng.random() < 0.6 else 0 for _ in range(n)]
                terms.append((rng.choice([0.5, -1.0, 2.0, 0.25, -0.75]), pw))
            out.append(("ham", terms))
    return out or [("probs", list(range(1, n + 1)))]


def word_op(pw, labels):
    ops = [getattr(qp, {1: "PauliX", 2: "PauliY", 3: "PauliZ"}[c])(labels[i]) for i, c in enumerate(pw) if c]
    if not ops:
        return qp.Identity(labels[0])
    return ops[0] if len(ops) == 1 else qp.prod(*ops)


def pl_measurements(meas, labels):
    out = []
    for m in meas:
        k = m[0]
        if k == "expval":
            out.append(qp.expval(word_op(m[1], labels)))
        elif k == "var":
            out.append(qp.var(word_op(m[1], labels)))
        elif k == "probs":
            out.append(qp.probs(wires=[labels[w - 1] for w in m[1]]))
        elif k == "state":
            out.append(qp.state())
        elif k == "dm":
            out.append(qp.density_matrix(wires=[labels[w - 1] for w in m[1]]))
        elif k == "purity":
            out.append(qp.purity(wires=[labels[w - 1] for w in m[1]]))
        elif k == "vn":
            out.append(qp.vn_entropy(wires=[labels[w - 1] for w in m[1]]))
        elif k == "mi":
            out.append(qp.mutual_info(wires0=[labels[w - 1] for w in m[1]], wires1=[labels[w - 1] for w in m[2]]))
        elif k == "ham":
            out.append(qp.expval(qp.dot([c for c, _ in m[1]], [word_op(pw, labels) for _, pw in m[1]])))
        elif k in ("hexp", "hvar"):
            obs = qp.Hermitian(np.array(m[2]), wires=[labels[w - 1] for w in m[1]])
            out.append(qp.expval(obs) if k == "hexp" else qp.var(obs))
    return out


def tlc_meas(meas):
    """TapeEval requests: the state plus every Pauli-word expectation / probability vector the list needs."""
    req = [{"t": "state"}]
    idx = []
    for m in meas:
        k = m[0]
        if k in ("expval", "var"):
            idx.append(("pw", len(req)))
            req.append({"t": "expval", "pw": m[1]})
        elif k == "probs":
            idx.append(("probs", len(req)))
            req.append({"t": "probs", "w": m[1]})
        elif k == "ham":
            first = len(req)
            for _, pw in m[1]:
                req.append({"t": "expval", "pw": pw})
            idx.append(("ham", first))
        else:
            idx.append(("state", 0))
    return req, idx


def reduced_dm(psi, wires, n):
    """density matrix of the listed 1-based wires (in that order) from a state vector; wire 1 most significant."""
    t = psi.reshape([2] * n)
    keep = [w - 1 for w in wires]
    rest = [i for i in range(n) if i not in keep]
    t = np.transpose(t, keep + rest).reshape(1 << len(keep), -1)
    return t @ t.conj().T


def entropy(rho):
    ev = np.linalg.eigvalsh(rho)
    ev = ev[ev > 1e-12]
    return float(-np.sum(ev * np.log(ev)))


def expected_values(meas, res, n):
    """expected value of each measurement from TapeEval's result record."""
    psi = np.asarray(res["meas"][0]).reshape(-1)
    _, idx = tlc_meas(meas)
    out = []
    for m, (kind, j) in zip(meas, idx):
        k = m[0]
        if k == "expval":
            out.append(res["meas"][j])
        elif k == "var":
            out.append(1.0 - res["meas"][j] ** 2)
        elif k == "probs":
            out.append(res["meas"][j])
        elif k == "ham":
            out.append(sum(c * res["meas"][j + t] for t, (c, _) in enumerate(m[1])))
        elif k == "state":
            out.append(psi)
        elif k == "dm":
            out.append(reduced_dm(psi, m[1], n))
        elif k == "purity":
            r = reduced_dm(psi, m[1], n)
            out.append(float(np.real(np.trace(r @ r))))
        elif k == "vn":
            out.append(entropy(reduced_dm(psi, m[1], n)))
        elif k == "mi":
            a, b = m[1], m[2]
            out.append(entropy(reduced_dm(psi, a, n)) + entropy(reduced_dm(psi, b, n)) - entropy(reduced_dm(psi, a + b, n)))
        elif k in ("hexp", "hvar"):
            rho = reduced_dm(psi, m[1], n)
            Hm = np.array(m[2])
            e1 = float(np.real(np.trace(rho @ Hm)))
            out.append(e1 if k == "hexp" else float(np.real(np.trace(rho @ Hm @ Hm))) - e1 * e1)
    return out


def to_interface(tape_ops_params, interface):
    raise NotImplementedError


def convert_tape(tape, interface):
    """same tape with every parameter converted to the interface's tensor type"""
    if interface == "numpy":
        return tape
    params = tape.get_parameters(trainable_only=False)
    if interface == "autograd":
        from pennylane import numpy as pnp
        new = [pnp.array(p, requires_grad=False) for p in params]
    elif interface == "jax":
        import jax.numpy as jnp
        new = [jnp.asarray(p) for p in params]
    elif interface == "torch":
        import torch
        new = [torch.tensor(np.asarray(p)) for p in params]
    return tape.bind_new_parameters(new, list(range(len(params))))


def close(a, b, tol=1e-8):
    a = np.asarray(qp.math.unwrap([a])[0] if not isinstance(a, (np.ndarray, float, int, complex)) else a)
    try:
        a = np.asarray(a, dtype=complex)
    except Exception:
        a = np.asarray(qp.math.toarray(a), dtype=complex)
    b = np.asarray(b, dtype=complex)
    return a.shape == b.shape and np.allclose(a, b, atol=tol, rtol=0)
