"""Operator TERMS for C03 / C01: an abstract term tree (independent of PennyLane's classes), its PennyLane build through
the public op-arithmetic API, its linearisation into the post-order programs of spec/ir/Ops.tla, the encoder of PennyLane
expressions (outputs of construction / simplify / map_wires / decomposition / generator ...) into the same programs, a small
numeric evaluator of programs (float bridge for off-lattice outputs) and the TLC runner for spec/trace/TermEval.tla.

term ::= {"t": "gate", "g": name, "w": [labels], "p": [lattice ints], "x": [ints]}
       | {"t": "adj", "a": term} | {"t": "pow", "a": term, "z": int} | {"t": "root", "a": gate term}
       | {"t": "ctrl", "a": term, "cw": [labels], "cv": [0/1], "ww": [labels]}
       | {"t": "prod"|"sum", "as": [terms]} | {"t": "sprod", "c": scalar name, "a": term}
       | {"t": "exp", "a": term, "e": lattice int}            exp(i * e*2pi/N * a)
       | {"t": "cob", "as": [compute, target, uncompute | None]}
instruction ::= {"op": "PUSH"|"ROOT", "g": gate record} | {"op": "ADJ"} | {"op": "POW", "z": int}
       | {"op": "CTRL", "cw": [positions], "cv": [0/1]} | {"op": "PROD"|"CIRC"|"SUM", "k": int}
       | {"op": "SPROD", "c": {"c": [coefficients], "k": int}} | {"op": "EXP", "a": int} | {"op": "COB"}
"""
from __future__ import annotations

import json
import math

import numpy as np

import pennylane as qp

from . import bridge, lib
from .codec import KNOWN, OffLattice, PW, encode_op, matrix_to_ring, rec, ring_round_M3
from .lib import angle_of, to_lattice

SCALARS = {"1": 1, "-1": -1, "1/2": 0.5, "-1/2": -0.5, "i": 1j, "-i": -1j, "2": 2}
ONE_Q = [("PauliX", 0), ("PauliY", 0), ("PauliZ", 0), ("Hadamard", 0), ("S", 0), ("T", 0), ("SX", 0), ("RX", 1), ("RY", 1),
         ("RZ", 1), ("PhaseShift", 1)]
TWO_Q = [("CNOT", 0), ("CZ", 0), ("SWAP", 0), ("CRZ", 1), ("IsingXX", 1), ("CY", 0)]
INVOL = ["PauliX", "PauliY", "PauliZ", "Hadamard", "CNOT", "CZ", "SWAP"]
HALF_KIND = ["RX", "RY", "RZ", "IsingXX", "IsingYY", "IsingZZ", "MultiRZ", "PauliRot", "CRX", "CRY", "CRZ"]
PROJ_KIND = ["PhaseShift", "U1", "ControlledPhaseShift", "CPhaseShift00", "CPhaseShift01", "CPhaseShift10"]
NARGS = {"PauliX": 1, "PauliY": 1, "PauliZ": 1, "Hadamard": 1, "S": 1, "T": 1, "SX": 1, "RX": 1, "RY": 1, "RZ": 1,
         "PhaseShift": 1, "CNOT": 2, "CZ": 2, "SWAP": 2, "CRZ": 2, "IsingXX": 2, "CY": 2, "Identity": 1}


# ----------------------------------------------------------------------------------------- ring scalars
def ring_scalar(z, M):
    """complex -> {"c": coefficient tuple at level M, "k": k} (exact for numbers of D[omega]); OffLattice otherwise."""
    rr = ring_round_M3(complex(z))
    if rr is None:
        raise OffLattice(f"scalar {z} not in D[omega]")
    c4, k = rr
    H, step = (1 << M) // 2, (1 << M) // 8
    v = [0] * H
    for i, c in enumerate(c4):
        v[i * step] = int(c)
    return {"c": v, "k": int(k)}


def ring_scalar_any(z, M):
    """like ring_scalar, but also recognises unit-modulus lattice phases zeta_N^j (a one-dimensional lattice: sound)."""
    z = complex(z)
    N = 1 << M
    if abs(abs(z) - 1) < 1e-10:
        j = np.angle(z) * N / (2 * math.pi)
        if abs(j - round(j)) < 1e-8:
            j = int(round(j)) % N
            v = [0] * (N // 2)
            if j < N // 2:
                v[j] = 1
            else:
                v[j - N // 2] = -1
            return {"c": v, "k": 0}
    return ring_scalar(z, M)


def lift(t):
    """the same term with its lattice integers re-expressed one ring level higher (angle unit halves)."""
    out = dict(t)
    if "p" in t:
        out["p"] = [2 * a for a in t["p"]]
    if "e" in t:
        out["e"] = 2 * t["e"]
    if "a" in t:
        out["a"] = lift(t["a"])
    if "as" in t:
        out["as"] = [None if s is None else lift(s) for s in t["as"]]
    return out


def ring_scalar_value(sc, M):
    return lib.ring_to_complex(sc["c"], sc["k"], M)


# ----------------------------------------------------------------------------------------- abstract terms
def G(g, w, p=(), x=()):
    return {"t": "gate", "g": g, "w": list(w), "p": list(p), "x": list(x)}


def wires_of(t):
    """wire labels a term acts on or names (work wires included), in first-occurrence order."""
    out = []

    def add(ws):
        for w in ws:
            if w not in out:
                out.append(w)
    k = t["t"]
    if k == "gate":
        add(t["w"])
    elif k in ("adj", "pow", "root", "sprod", "exp"):
        add(wires_of(t["a"]))
    elif k == "ctrl":
        add(t["cw"])
        add(wires_of(t["a"]))
        add(t.get("ww", []))
    else:
        for s in t["as"]:
            if s is not None:
                add(wires_of(s))
    return out


def active_wires(t):
    k = t["t"]
    if k == "ctrl":
        return [w for w in wires_of(t) if w not in t.get("ww", []) or w in active_wires(t["a"])]
    return wires_of(t)


def is_unitary(t):
    k = t["t"]
    if k in ("gate", "root", "exp"):
        return True
    if k in ("adj", "pow", "ctrl"):
        return is_unitary(t["a"])
    if k == "sprod":
        return abs(abs(SCALARS[t["c"]]) - 1) < 1e-12 and is_unitary(t["a"])
    if k == "sum":
        return False
    return all(is_unitary(s) for s in t["as"] if s is not None)


def norm_bound(t):
    """upper bound of the operator norm of the denotation (keeps ring coefficients far from TLC's 32-bit integers)."""
    k = t["t"]
    if k in ("gate", "root", "exp"):
        return 1.0
    if k in ("adj", "ctrl"):
        return max(1.0, norm_bound(t["a"]))
    if k == "pow":
        return max(1.0, norm_bound(t["a"])) ** abs(t["z"])
    if k == "sprod":
        return abs(SCALARS[t["c"]]) * norm_bound(t["a"])
    bs = [norm_bound(s) for s in t["as"] if s is not None]
    if k == "sum":
        return sum(bs)
    out = 1.0
    for b in bs:
        out *= max(1.0, b)
    return out * (max(1.0, bs[0]) if k == "cob" and t["as"][2] is None else 1.0)


def depth(t):
    k = t["t"]
    if k == "gate":
        return 0
    if k in ("adj", "pow", "root", "sprod", "exp", "ctrl"):
        return 1 + depth(t["a"])
    return 1 + max(depth(s) for s in t["as"] if s is not None)


def kinds(t, acc=None):
    acc = acc if acc is not None else []
    acc.append(t["t"])
    if "a" in t:
        kinds(t["a"], acc)
    for s in t.get("as", []):
        if s is not None:
            kinds(s, acc)
    return acc


def show(t):
    k = t["t"]
    if k == "gate":
        return f"{t['g']}({','.join(map(str, t['p'] + t['w']))})"
    if k == "adj":
        return f"adj({show(t['a'])})"
    if k == "pow":
        return f"pow({show(t['a'])},{t['z']})"
    if k == "root":
        return f"pow({show(t['a'])},1/2)"
    if k == "ctrl":
        return f"ctrl({show(t['a'])},{t['cw']},{t['cv']}{',work=' + str(t['ww']) if t.get('ww') else ''})"
    if k == "sprod":
        return f"{t['c']}*({show(t['a'])})"
    if k == "exp":
        return f"exp(i*{t['e']}u*{show(t['a'])})"
    if k == "cob":
        return "cob(" + ",".join("None" if s is None else show(s) for s in t["as"]) + ")"
    return k + "(" + ",".join(show(s) for s in t["as"]) + ")"


def build(t, M, style=0):
    """the PennyLane expression of a term, through the public API (style 1: dunder forms where they exist)."""
    k = t["t"]
    if k == "gate":
        cls = getattr(qp, t["g"])
        th = [angle_of(a, M) for a in t["p"]]
        if t["g"] == "PauliRot":
            return qp.PauliRot(th[0], "".join("IXYZ"[c] for c in t["x"]), wires=t["w"])
        if t["g"] == "MultiControlledX":
            return qp.MultiControlledX(wires=t["w"], control_values=[bool(v) for v in t["x"]])
        if t["g"] == "GlobalPhase" and not t["w"]:
            return qp.GlobalPhase(th[0])
        return cls(*th, wires=t["w"])
    if k == "adj":
        return qp.adjoint(build(t["a"], M, style))
    if k == "pow":
        b = build(t["a"], M, style)
        return b ** t["z"] if style else qp.pow(b, t["z"])
    if k == "root":
        b = build(t["a"], M, style)
        return b ** 0.5 if style else qp.pow(b, 0.5)
    if k == "ctrl":
        b = build(t["a"], M, style)
        kw = {"control_values": [bool(v) for v in t["cv"]]}
        if t.get("ww"):
            kw["work_wires"] = t["ww"]
        return qp.ctrl(b, t["cw"], **kw)
    if k == "prod":
        subs = [build(s, M, style) for s in t["as"]]
        if style:
            e = subs[0]
            for s in subs[1:]:
                e = e @ s
            return e
        return qp.prod(*subs)
    if k == "sum":
        subs = [build(s, M, style) for s in t["as"]]
        if style:
            e = subs[0]
            for s in subs[1:]:
                e = e + s
            return e
        return qp.sum(*subs)
    if k == "sprod":
        b = build(t["a"], M, style)
        return SCALARS[t["c"]] * b if style else qp.s_prod(SCALARS[t["c"]], b)
    if k == "exp":
        return qp.exp(build(t["a"], M, style), 1j * angle_of(t["e"], M) / 2)
    if k == "cob":
        c, tg, u = t["as"]
        return qp.change_op_basis(build(c, M, style), build(tg, M, style), None if u is None else build(u, M, style))
    raise ValueError(k)


def grec(t, wpos):
    return rec(t["g"], [wpos[w] for w in t["w"]], t["p"], t["x"])


def prog(t, wpos, M):
    """post-order program of a term (Ops.tla instructions)."""
    k = t["t"]
    if k == "gate":
        return [{"op": "PUSH", "g": grec(t, wpos)}]
    if k == "root":
        return [{"op": "ROOT", "g": grec(t["a"], wpos)}]
    if k == "adj":
        return prog(t["a"], wpos, M) + [{"op": "ADJ"}]
    if k == "pow":
        return prog(t["a"], wpos, M) + [{"op": "POW", "z": t["z"]}]
    if k == "ctrl":
        return prog(t["a"], wpos, M) + [{"op": "CTRL", "cw": [wpos[w] for w in t["cw"]], "cv": [int(v) for v in t["cv"]]}]
    if k in ("prod", "sum"):
        out = []
        for s in t["as"]:
            out += prog(s, wpos, M)
        return out + [{"op": k.upper(), "k": len(t["as"])}]
    if k == "sprod":
        return prog(t["a"], wpos, M) + [{"op": "SPROD", "c": ring_scalar(SCALARS[t["c"]], M)}]
    if k == "exp":
        return prog(t["a"], wpos, M) + [{"op": "EXP", "a": t["e"]}]
    if k == "cob":
        c, tg, u = t["as"]
        pu = prog(u, wpos, M) if u is not None else prog(c, wpos, M) + [{"op": "ADJ"}]
        return prog(c, wpos, M) + prog(tg, wpos, M) + pu + [{"op": "COB"}]
    raise ValueError(k)


def map_term(t, pi):
    """the same term on relabelled wires."""
    out = dict(t)
    for key in ("w", "cw", "ww"):
        if key in t:
            out[key] = [pi[w] for w in t[key]]
    if "a" in t:
        out["a"] = map_term(t["a"], pi)
    if "as" in t:
        out["as"] = [None if s is None else map_term(s, pi) for s in t["as"]]
    return out


# ----------------------------------------------------------------------------------------- generator
def leaf(rng, labels, angles, names=None):
    name, npar = rng.choice(names if names is not None else ONE_Q + ONE_Q + TWO_Q)
    ar = NARGS[name]
    if ar > len(labels):
        name, npar = rng.choice(ONE_Q)
        ar = 1
    return G(name, rng.sample(labels, ar), [rng.choice(angles) for _ in range(npar)])


def pauli_word_term(rng, labels):
    ws = rng.sample(labels, rng.randint(1, min(3, len(labels))))
    fs = [G(rng.choice(["PauliX", "PauliY", "PauliZ"]), [w]) for w in ws]
    return fs[0] if len(fs) == 1 else {"t": "prod", "as": fs}


def invol_term(rng, labels):
    r = rng.random()
    if r < 0.6:
        t = pauli_word_term(rng, labels)
    else:
        names = [(g, 0) for g in INVOL if NARGS[g] <= len(labels)]
        t = leaf(rng, labels, [0], names)
    if rng.random() < 0.2:
        t = {"t": "sprod", "c": "-1", "a": t}
    elif rng.random() < 0.15:
        t = {"t": "adj", "a": t}
    return t


def root_leaf(rng, labels, M):
    N = 1 << M
    c = rng.random()
    if c < 0.35:
        g = rng.choice([g for g in HALF_KIND if g not in ("MultiRZ", "PauliRot") and NARGS.get(g, 2) <= len(labels)])
        a = rng.choice([a for a in range(-(N // 2) + 1, N // 2) if a % 2 == 0])
        ar = 1 if g in ("RX", "RY", "RZ") else 2
        return G(g, rng.sample(labels, ar), [a])
    if c < 0.7:
        g = rng.choice([g for g in PROJ_KIND if (1 if g in ("PhaseShift", "U1") else 2) <= len(labels)])
        a = rng.choice(range(-(N // 4) + 1, N // 4))
        return G(g, rng.sample(labels, 1 if g in ("PhaseShift", "U1") else 2), [a])
    return G(rng.choice(["S", "T", "SX"]), rng.sample(labels, 1))


def rand_term(rng, d, labels, angles, M, unitary=False, cob=True, maxnorm=128.0):
    """random term of depth <= d over the wire labels with operator norm <= maxnorm."""
    for _ in range(50):
        t = _rand_term(rng, d, labels, angles, M, unitary, cob)
        if norm_bound(t) <= maxnorm:
            return t
    return leaf(rng, labels, angles)


def _rand_term(rng, d, labels, angles, M, unitary=False, cob=True):
    """random term of depth <= d over the wire labels (cob=False: no change_op_basis below, used under sum / s_prod, where
    PennyLane documents no matrix for ChangeOpBasis operands)."""
    if d == 0 or rng.random() < 0.12:
        return leaf(rng, labels, angles)
    kinds_ = ["adj", "pow", "ctrl", "prod", "sprod", "exp", "root"] + ([] if unitary else ["sum", "sum"]) + (["cob"] if cob else [])
    k = rng.choice(kinds_)
    below = cob and k not in ("sum", "sprod")
    sub = lambda u=False, lab=labels: _rand_term(rng, d - 1, lab, angles, M, unitary=u or unitary, cob=below)
    if k == "adj":
        return {"t": "adj", "a": sub()}
    if k == "pow":
        z = rng.choice([-2, -1, 0, 1, 2, 3])
        return {"t": "pow", "a": sub(z < 0), "z": z}
    if k == "root":
        return {"t": "root", "a": root_leaf(rng, labels, M)}
    if k == "ctrl":
        nc = rng.choice([1, 1, 2, 3])
        if len(labels) - nc < 1:
            nc = 1
        if len(labels) < 2:
            return {"t": "adj", "a": sub()}
        cw = rng.sample(labels, nc)
        rest = [l for l in labels if l not in cw]
        nwork = rng.choice([0, 0, 1]) if len(rest) > 1 else 0
        ww = rng.sample(rest, nwork)
        rest = [l for l in rest if l not in ww]
        return {"t": "ctrl", "a": sub(False, rest), "cw": cw, "cv": [rng.choice([0, 1]) for _ in cw], "ww": ww}
    if k in ("prod", "sum"):
        return {"t": k, "as": [sub() for _ in range(rng.choice([2, 2, 3]))]}
    if k == "sprod":
        cs = [c for c in SCALARS if not unitary or abs(abs(SCALARS[c]) - 1) < 1e-12]
        return {"t": "sprod", "c": rng.choice(cs), "a": sub()}
    if k == "exp":
        return {"t": "exp", "a": invol_term(rng, labels), "e": rng.choice(angles + [1, 3, -1, 5])}
    if k == "cob":
        u = None if rng.random() < 0.5 else sub(True)
        return {"t": "cob", "as": [sub(True), sub(), u]}
    raise ValueError(k)


# ----------------------------------------------------------------------------------------- PennyLane expression -> program
def _name(op):
    return type(op).__name__


def _mro(op):
    return {c.__name__ for c in type(op).__mro__}


def is_adjoint(op):
    return bool(_mro(op) & {"Adjoint", "Adjoint2"}) and hasattr(op, "base")


def is_pow(op):
    return bool(_mro(op) & {"Pow", "Pow2"}) and hasattr(op, "base") and hasattr(op, "z")


def is_ctrl(op):
    return bool(_mro(op) & {"Controlled", "Controlled2"}) and hasattr(op, "base") and hasattr(op, "control_values")


def encode_term(op, wpos, M, flt=False):
    """program of a PennyLane expression.  flt=True: off-lattice angles / scalars are kept as floats ("fp" / "fc" fields) for the
    numeric evaluator; otherwise OffLattice is raised when the expression has no exact image at level M."""
    cn = _name(op)
    if cn in ("Prod", "Sum"):
        out = []
        for s in op.operands:
            out += encode_term(s, wpos, M, flt)
        return out + [{"op": cn.upper(), "k": len(op.operands)}]
    if cn == "ChangeOpBasis":
        u, tg, c = op.operands
        return encode_term(c, wpos, M, flt) + encode_term(tg, wpos, M, flt) + encode_term(u, wpos, M, flt) + [{"op": "COB"}]
    if cn == "SProd":
        return encode_term(op.base, wpos, M, flt) + [_sprod(op.scalar, M, flt)]
    if cn in ("LinearCombination", "Hamiltonian"):
        cs, os_ = op.terms()
        out = []
        for c, o in zip(cs, os_):
            out += encode_term(o, wpos, M, flt) + [_sprod(c, M, flt)]
        return out + [{"op": "SUM", "k": len(os_)}]
    if cn in ("Exp", "Evolution"):
        c = complex(qp.math.unwrap([op.coeff])[0]) if not isinstance(op.coeff, (int, float, complex)) else complex(op.coeff)
        if getattr(op, "num_steps", None) is not None and cn == "Exp":
            pass
        if abs(c.real) > 1e-12:
            raise OffLattice("exp with a real part in the coefficient")
        a = to_lattice(2 * c.imag, M)
        if a is None:
            if not flt:
                raise OffLattice(f"exp coefficient {c} off lattice")
            return encode_term(op.base, wpos, M, flt) + [{"op": "EXP", "a": 0, "fphi": c.imag}]
        return encode_term(op.base, wpos, M, flt) + [{"op": "EXP", "a": int(a)}]
    if is_adjoint(op):
        return encode_term(op.base, wpos, M, flt) + [{"op": "ADJ"}]
    if is_pow(op):
        z = op.z
        if isinstance(z, (int, np.integer)) or (isinstance(z, float) and float(z).is_integer()):
            return encode_term(op.base, wpos, M, flt) + [{"op": "POW", "z": int(z)}]
        if isinstance(z, float) and z == 0.5 and op.base.name in KNOWN and not flt:
            return [{"op": "ROOT", "g": encode_op(op.base, wpos, M)}]
        raise OffLattice(f"power {z}")
    if is_ctrl(op) and op.name not in KNOWN:
        return encode_term(op.base, wpos, M, flt) + [{"op": "CTRL", "cw": [wpos[w] for w in op.control_wires],
                                                      "cv": [int(bool(v)) for v in op.control_values]}]
    if cn in ("Projector", "Hermitian", "BasisStateProjector", "StateVectorProjector", "SparseHamiltonian"):
        mat = op.sparse_matrix().toarray() if cn == "SparseHamiltonian" else op.matrix()
        return [{"op": "PUSH", "g": rec("MAT", [wpos[w] for w in op.wires], m=matrix_to_ring(mat, M))}]
    try:
        r = encode_op(op, wpos, M)
    except OffLattice:
        if not flt or op.name not in KNOWN:
            raise
        x = [PW[c] for c in op.hyperparameters.get("pauli_word", "")] if op.name == "PauliRot" else []
        if op.name == "MultiControlledX":
            x = [int(bool(v)) for v in op.control_values]
        r = dict(rec(op.name, [wpos[w] for w in op.wires], [], x), fp=[float(np.real(qp.math.unwrap([d])[0])) for d in op.data])
    if r is None:
        raise OffLattice(f"{op.name} has no image")
    return [{"op": "PUSH", "g": r}]


def _sprod(c, M, flt):
    z = complex(qp.math.unwrap([c])[0]) if not isinstance(c, (int, float, complex)) else complex(c)
    try:
        return {"op": "SPROD", "c": ring_scalar(z, M)}
    except OffLattice:
        if not flt:
            raise
        return {"op": "SPROD", "c": {"c": [], "k": 0}, "fc": [z.real, z.imag]}


def encode_any(op, wpos, M):
    """-> (program, exact?) ; exact False: float program for the numeric evaluator; raises OffLattice when not even that."""
    try:
        return encode_term(op, wpos, M), True
    except OffLattice:
        return encode_term(op, wpos, M, flt=True), False


class Unencodable(Exception):
    pass


def _flatten(ops, wpos, M, depth_=0):
    out, exact, k = [], True, 0
    for o in ops:
        nm = o.name
        if nm in ("Barrier", "Snapshot", "WireCut"):
            continue
        if nm in ("Allocate", "Deallocate", "MidMeasure", "MidMeasureMP", "PauliMeasure") or type(o).__name__ in ("Conditional", "MidMeasure"):
            raise Unencodable(f"contains {nm}")
        try:
            p, ex = encode_any(o, wpos, M)
            out += p
            exact = exact and ex
            k += 1
            continue
        except (OffLattice, AttributeError) as e:
            msg = str(e)
        except KeyError as e:
            raise Unencodable(f"wire {e} outside the register")
        if depth_ > 6:
            raise Unencodable("expansion too deep")
        try:
            sub = o.decomposition()
        except Exception:
            raise Unencodable(f"cannot expand {nm}: {msg}")
        p, ex, kk = _flatten(sub, wpos, M, depth_ + 1)
        out += p
        exact = exact and ex
        k += kk
    return out, exact, k


def encode_circuit(ops, wpos, M):
    """operators in circuit order (first applied first) -> program ending in CIRC; (program, exact?).  Operators without a
    table entry are expanded through their own decomposition; raises Unencodable when that is impossible."""
    if hasattr(ops, "wires") and not isinstance(ops, (list, tuple)):
        ops = [ops]                  # a bare operator instead of the documented list
    out, exact, k = _flatten(list(ops), wpos, M)
    if k == 0:
        return [{"op": "PUSH", "g": rec("Identity", [])}], True
    return out + [{"op": "CIRC", "k": k}], exact


# ----------------------------------------------------------------------------------------- numeric evaluator (float bridge)
def num_eval(program, n, M):
    """numpy denotation of a program (mirrors Ops.tla; gate formulas of harness/bridge.py, never PennyLane's matrices)."""
    D = 1 << n
    st = []
    for ins in program:
        op = ins["op"]
        if op == "PUSH":
            g = ins["g"]
            st.append(bridge.apply(np.eye(D, dtype=complex), bridge.gate_matrix(g, M, g.get("fp")), g["w"], n))
        elif op == "ROOT":
            import scipy.linalg
            g = ins["g"]
            st.append(bridge.apply(np.eye(D, dtype=complex), scipy.linalg.fractional_matrix_power(bridge.gate_matrix(g, M), 0.5), g["w"], n))
        elif op == "ADJ":
            st.append(st.pop().conj().T)
        elif op == "POW":
            a = st.pop()
            st.append(np.linalg.matrix_power(a, ins["z"]) if ins["z"] >= 0 else np.linalg.matrix_power(np.linalg.inv(a), -ins["z"]))
        elif op == "CTRL":
            a = st.pop()
            out = np.eye(D, dtype=complex)
            for i in range(D):
                if all((i >> (n - w)) & 1 == v for w, v in zip(ins["cw"], ins["cv"])):
                    out[i, :] = a[i, :]
            st.append(out)
        elif op in ("PROD", "CIRC", "SUM"):
            k = ins["k"]
            xs = st[-k:]
            del st[-k:]
            r = xs[0]
            for x in xs[1:]:
                r = r @ x if op == "PROD" else (x @ r if op == "CIRC" else r + x)
            st.append(r)
        elif op == "SPROD":
            c = complex(*ins["fc"]) if "fc" in ins else ring_scalar_value(ins["c"], M)
            st.append(c * st.pop())
        elif op == "EXP":
            import scipy.linalg
            phi = ins["fphi"] if "fphi" in ins else angle_of(ins["a"], M) / 2
            st.append(scipy.linalg.expm(1j * phi * st.pop()))
        elif op == "COB":
            u, t, c = st.pop(), st.pop(), st.pop()
            st.append(u @ t @ c)
        else:
            raise KeyError(op)
    if len(st) != 1:
        raise ValueError("program does not leave one value")
    return st[0]


# ----------------------------------------------------------------------------------------- TLC runner (TermEval.tla)
def evaluate(pid, cases, M, name="terms", module="TermEval", outs="bs", workers=None, timeout=3000, chunk=4000):
    """cases: [{"n", "emit": 0/1, "a": program, outs: [output records]}]  (TermEval.tla: outs = "bs", Trace_Reps.tla: "reps")
    -> (verdicts {(case index, output index): (clause, errA, errB)}, emitted {case index: ring matrix of Sem(a),
        (case index, output index): ring matrix of an "emitx" output}, stats)."""
    verdicts, emitted = {}, {}
    stats = {"generated": 0, "distinct": 0, "wall_s": 0.0, "runs": 0}
    for c in cases:
        c.setdefault("emit", 0)
        for o in c[outs]:
            if outs == "bs":
                o.setdefault("perm", [])
            else:
                for k, dflt in (("exc", ""), ("rel", "none"), ("b", []), ("ev", []), ("ps", [])):
                    o.setdefault(k, dflt)
    for off in range(0, len(cases), chunk):
        part = cases[off:off + chunk]
        wd = lib.workdir(pid, f"{name}_{M}_{off}")
        (wd / "cases.json").write_text(json.dumps(part))
        r = lib.run_tlc(module, lib.cfg(constants={"M": M, "NCASES": len(part)}), wd,
                        env={"TRACE_FILE": str(wd / "cases.json")}, workers=workers, timeout=timeout)
        lib.require_ok(r, f"{module} batch {name}@{off}")
        for t in r.tuples:
            if t[0] == "V":
                verdicts[(off + t[1] - 1, t[2] - 1)] = tuple(t[3:])
        for j in r.json_lines:
            if "u" in j:
                emitted[off + j["tid"] - 1] = j["u"]
            elif "x" in j:
                emitted[(off + j["tid"] - 1, j["s"] - 1)] = j["x"]
        stats["generated"] += r.generated
        stats["distinct"] += r.distinct
        stats["wall_s"] += r.wall_s
        stats["runs"] += 1
    expected = sum(len(c[outs]) for c in cases)
    if len(verdicts) != expected:
        raise lib.MachineryError(f"{module}: verdicts are not total: {len(verdicts)} of {expected}")
    return verdicts, emitted, stats
