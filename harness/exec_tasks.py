"""Task bodies for the executor checks (C65, C31).  Everything here is picklable by reference and light to import
(no pennylane, no numpy): pool workers started with the `spawn` method import this module to unpickle their tasks.

* The pure integer functions mirror spec/sys/ExecConv.tla one to one (`Fn`, `Arity`, `TakesK`).
* `sched` is the schedule task of spec/sys/Executor.tla: task i returns Res(i, 0) = 1000 * i, logs Start/End records
  (pid + per-process sequence number + monotonic time) and finishes only after its predecessor in the TLC-generated
  completion order has finished (a turnstile on marker files: it sleeps in 0.5 ms steps until the predecessor's
  marker exists; it gives way when the real execution made the intended order infeasible).  The turnstile realises exactly the completion order chosen by TLC, independent of machine load.
"""
import itertools
import json
import os
import threading
import time

# ----------------------------------------------------------------------------- ExecConv.Fn


def sq(x):
    return x * x


def ident(x):
    return x


def sub(a, b):
    return a - b


def lin3(a, b, c):
    return a + 10 * b + 100 * c


def subk(a, b, k=0):
    return a - b + 1000 * k


def sqk(a, k=0):
    return a * a + 1000 * k


def vsum(*a):
    return sum(p * v for p, v in zip((10 ** j for j in range(len(a))), a))


def seven():
    return 7


FUNCS = {f.__name__: f for f in (sq, ident, sub, lin3, subk, sqk, vsum, seven)}
ARITY = {"sq": 1, "ident": 1, "sub": 2, "lin3": 3, "subk": 2, "sqk": 1, "vsum": -1, "seven": 0}
TAKES_K = {"subk", "sqk"}

# ----------------------------------------------------------------------------- turnstile + event log
_seq = itertools.count(1)
_lock = threading.Lock()
WAIT_S = float(os.environ.get("VERIF_TURNSTILE_WAIT", "60"))
GAP_S = float(os.environ.get("VERIF_TURNSTILE_GAP", "0.004"))    # head start for the predecessor's result on its way to the caller


def log_event(d, rec):
    """Append one record to the per-process log in directory d; returns nothing.  seq is per process."""
    with _lock:
        rec = dict(rec, pid=os.getpid(), seq=next(_seq), tid=threading.get_ident() % 100000)
        fd = os.open(os.path.join(d, f"log_{os.getpid()}.jsonl"), os.O_WRONLY | os.O_APPEND | os.O_CREAT, 0o644)
        try:
            os.write(fd, (json.dumps(rec) + "\n").encode())
        finally:
            os.close(fd)


def rundir(d, run):
    p = os.path.join(d, f"r{run}")
    os.makedirs(p, exist_ok=True)
    return p


def turnstile(d, run, i, pred, w):
    """Mark task i of run `run` as started, then sleep until task `pred` has finished (pred = 0: nobody to wait for).
    -> True iff the predecessor finished first.  Gives up (False) when the intended order has become infeasible in the
    real execution: all w workers hold unfinished tasks and the predecessor has not even started (it can only start when
    one of the waiting tasks gives way), or after WAIT_S seconds."""
    rd = rundir(d, run)
    open(os.path.join(rd, f"s{i}"), "w").close()
    if not pred:
        return True
    m, ps = os.path.join(rd, f"e{pred}"), os.path.join(rd, f"s{pred}")
    t_end = time.monotonic() + WAIT_S
    k = 0
    while not os.path.exists(m):
        k += 1
        if k % 20 == 0:
            if time.monotonic() > t_end:
                return False
            names = os.listdir(rd)
            if sum(x[0] == "s" for x in names) - sum(x[0] == "e" for x in names) >= w and not os.path.exists(ps):
                return os.path.exists(m)
        time.sleep(0.0005)
    time.sleep(GAP_S)
    return True


def finish(d, run, i, v, ok=True, **extra):
    """Record End(i) and release the successor."""
    t = time.monotonic_ns()
    open(os.path.join(rundir(d, run), f"e{i}"), "w").close()
    log_event(d, dict(extra, run=run, e="e", i=i, v=v, t=t, waited=ok))


def sched(i, tok):
    """Schedule task: tok = '<dir>|<run>|<pred>|<workers>'."""
    d, run, pred, w = tok.split("|")
    log_event(d, {"run": run, "e": "s", "i": i, "t": time.monotonic_ns()})
    v = 1000 * i
    ok = turnstile(d, run, i, int(pred), int(w))
    finish(d, run, i, v, ok)
    return v


def read_logs(d):
    """All records of directory d grouped by run, each run sorted by time (ties: pid, seq)."""
    runs = {}
    for name in os.listdir(d):
        if name.startswith("log_"):
            with open(os.path.join(d, name)) as f:
                for line in f:
                    r = json.loads(line)
                    runs.setdefault(str(r["run"]), []).append(r)
    for evs in runs.values():
        evs.sort(key=lambda r: (r["t"], r["pid"], r["seq"]))
    return runs
