"""Encoding of dynamic (measurement-based) tapes for spec/trace/Trace_Mbqc.tla  (C74).

A PennyLane tape containing table gates, GraphStatePrep, mid-circuit measurements in the computational or a rotated
basis (ParametricMidMeasure / XMidMeasure / YMidMeasure, also as conditional pairs from cond_measure) and operations
conditioned on measurement values is turned into the spec's instruction list.

Semantics transcribed from the documentation (NOT from the decompositions in the code):
* GraphStatePrep(graph, wires): wires mapped 1:1 to the graph nodes sorted ascending; H on every wire, CZ on every edge.
* a measurement in the basis {m0, m1} with outcome b <-> m_b is the basis change B^dagger (m_b -> |b>) followed by a
  computational-basis measurement; planes (docs of measure_arbitrary_basis):
      XY(phi):   m0 = (|0> + e^{i phi}|1>)/sqrt2         B^dagger = H . PhaseShift(-phi)
      ZX(theta): m0 = cos(theta/2)|0> + sin(theta/2)|1>    B^dagger = RY(-theta)
      YZ(theta): m0 = cos(theta/2)|0> + i sin(theta/2)|1>  B^dagger = RX(+theta)
  Only reset=True measurements in a rotated basis are encoded (the post-measurement state is |0> in any basis).
* Conditional(expr, op): op is applied iff expr evaluates truthy on the outcomes.

Scheduling: operations on disjoint wires without classical dependency commute, so the instruction list may be emitted
in any topological order of the dependency graph; `lazy=True` emits every operation as late as possible (just before the
measurement that needs it), which keeps few wires alive at a time.  Wire positions are recycled only after a
measurement with reset (the wire is |0> again and never used by the tape afterwards), so the register stays small.
"""
from __future__ import annotations

import itertools

import numpy as np

import pennylane as qp
from pennylane.ftqc import GraphStatePrep, ParametricMidMeasure
from pennylane.ops.mid_measure import MidMeasure
from pennylane.ops.op_math import Conditional

from .codec import encode_op, rec
from .lib import MachineryError, to_lattice


class NotEncodable(Exception):
    pass


def _mkey(mp):
    return getattr(mp, "meas_uid", None) or id(mp)


def _basis_change(mp, M):
    """B^dagger of a parametric measurement as a list of PennyLane gates (from the documented basis states)."""
    w = mp.wires
    ang = float(mp.angle)
    if to_lattice(ang, M) is None:
        raise NotEncodable(f"measurement angle {ang} off lattice")
    if mp.plane == "XY":
        return [qp.PhaseShift(-ang, w), qp.Hadamard(w)]
    if mp.plane == "ZX":
        return [qp.RY(-ang, w)]
    if mp.plane == "YZ":
        return [qp.RX(ang, w)]
    raise NotEncodable(f"plane {mp.plane}")


class _Items:
    def __init__(self):
        self.items = []          # dicts: kind gate|meas ; wires ; cond (None | (ms tuple, tt list)) ; uses (measurement numbers)
        self.mnum = {}           # measurement key -> measurement number (1-based, order of occurrence)
        self.nmeas = 0

    def cond_of(self, mv):
        """truth table of a MeasurementValue over the distinct measurement numbers it mentions"""
        nums = [self.mnum[_mkey(m)] for m in mv.measurements]
        ms = sorted(set(nums))
        tt = []
        for bits in itertools.product([0, 1], repeat=len(ms)):
            val = dict(zip(ms, bits))
            args = [val[k] for k in nums]
            r = mv.processing_fn(*args) if mv.has_processing else args[0]
            if bool(r):
                tt.append(int("".join(str(b) for b in bits), 2))
        return tuple(ms), tt

    def gate(self, op, cond=None):
        self.items.append({"k": "gate", "op": op, "wires": list(op.wires), "cond": cond})

    def meas(self, mps, reset, post):
        self.nmeas += 1
        for mp in mps:
            self.mnum[_mkey(mp)] = self.nmeas
        self.items.append({"k": "meas", "wires": list(mps[0].wires), "reset": bool(reset), "post": post, "cond": None,
                           "num": self.nmeas})


def _negate(cond):
    ms, tt = cond
    return ms, [v for v in range(1 << len(ms)) if v not in set(tt)]


def expand(tape, M):
    """tape -> _Items (wire labels, original order)"""
    it = _Items()
    ops = list(tape.operations)
    i = 0
    while i < len(ops):
        op = ops[i]
        if isinstance(op, GraphStatePrep):
            g = op.hyperparameters["graph"]
            if op.hyperparameters["one_qubit_ops"] is not qp.H or op.hyperparameters["two_qubit_ops"] is not qp.CZ:
                raise NotEncodable("GraphStatePrep with custom operations")
            wm = dict(zip(sorted(g.nodes), op.wires))
            for w in op.wires:
                it.gate(qp.Hadamard(w))
            for a, b in g.edges:
                it.gate(qp.CZ([wm[a], wm[b]]))
        elif isinstance(op, Conditional) and isinstance(op.base, MidMeasure):
            # a cond_measure pair: Conditional(c, true_meas), Conditional(~c, false_meas) on the same wire
            nxt = ops[i + 1] if i + 1 < len(ops) else None
            if not (isinstance(nxt, Conditional) and isinstance(nxt.base, MidMeasure) and nxt.base.wires == op.base.wires):
                raise NotEncodable("conditional measurement without its partner")
            ct = it.cond_of(op.meas_val)
            cf = it.cond_of(nxt.meas_val)
            if cf != _negate(ct):
                raise NotEncodable("conditional measurement pair without complementary conditions")
            for mp, c in ((op.base, ct), (nxt.base, cf)):
                if isinstance(mp, ParametricMidMeasure):
                    if not mp.reset:
                        raise NotEncodable("rotated-basis measurement without reset")
                    for g_ in _basis_change(mp, M):
                        it.gate(g_, cond=c)
            if op.base.reset != nxt.base.reset or op.base.postselect != nxt.base.postselect:
                raise NotEncodable("conditional measurement pair with different settings")
            it.meas([op.base, nxt.base], op.base.reset, op.base.postselect)
            i += 1
        elif isinstance(op, Conditional):
            it.gate(op.base, cond=it.cond_of(op.meas_val))
        elif isinstance(op, ParametricMidMeasure):
            if not op.reset:
                raise NotEncodable("rotated-basis measurement without reset")
            for g_ in _basis_change(op, M):
                it.gate(g_)
            it.meas([op], op.reset, op.postselect)
        elif isinstance(op, MidMeasure):
            it.meas([op], op.reset, op.postselect)
        elif op.name == "GlobalPhase" or op.name == "Identity":
            pass                                # scalars / identities do not change the state up to a global phase
        else:
            it.gate(op)
        i += 1
    return it


def schedule(it, lazy=True):
    items = it.items
    N = len(items)
    deps = [set() for _ in range(N)]
    last = {}
    producer = {}
    for i, x in enumerate(items):
        for w in x["wires"]:
            if w in last:
                deps[i].add(last[w])
            last[w] = i
        if x["cond"] is not None:
            for m in x["cond"][0]:
                deps[i].add(producer[m])
        if x["k"] == "meas":
            producer[x["num"]] = i
    if not lazy:
        return list(range(N))
    order, done = [], [False] * N

    def emit(i):
        if done[i]:
            return
        for d in sorted(deps[i]):
            emit(d)
        done[i] = True
        order.append(i)
    for i, x in enumerate(items):           # measurements keep their original relative order
        if x["k"] == "meas":
            emit(i)
    for i in range(N):
        emit(i)
    return order


def encode(tape, M, out_wires, lazy=True):
    """-> {"n", "ops", "outs", "nmeas", "max_live"}; out_wires: labels of the logical output wires (kept alive)."""
    it = expand(tape, M)
    if any(x["k"] == "meas" and x["post"] is not None for x in it.items):
        raise NotEncodable("postselection")
    # lifetimes: after a measurement with reset the wire is |0> and unentangled, exactly like a fresh wire; the qubit
    # manager of the conversion re-uses such labels, so every lifetime of a label is its own wire (label, version)
    ver = {}
    for x in it.items:
        x["wires"] = [(w, ver.get(w, 0)) for w in x["wires"]]
        if x["k"] == "meas" and x["reset"]:
            w = x["wires"][0][0]
            ver[w] = ver.get(w, 0) + 1
    out_wires = [(w, ver.get(w, 0)) for w in out_wires]
    order = schedule(it, lazy)
    items = [it.items[i] for i in order]
    last_use = {}
    for t, x in enumerate(items):
        for w in x["wires"]:
            last_use[w] = t
    pos, free, nxt = {}, [], 0
    ops = []
    max_n = 0
    for t, x in enumerate(items):
        for w in x["wires"]:
            if w not in pos:
                if free:
                    pos[w] = free.pop(0)
                else:
                    nxt += 1
                    pos[w] = nxt
                max_n = max(max_n, pos[w])
        if x["k"] == "gate":
            r = encode_op(x["op"], {w[0]: pos[w] for w in x["wires"]}, M)
            if r is None:
                continue
            if x["cond"] is None:
                ops.append(r)
            else:
                ops.append({"g": "COND", "ms": list(x["cond"][0]), "tt": list(x["cond"][1]), "op": r})
        else:
            w = x["wires"][0]
            ops.append({"g": "MEASURE", "w": [pos[w]], "x": [1 if x["reset"] else 0]})
            if x["reset"] and last_use[w] == t and w not in out_wires:
                free.append(pos.pop(w))
                free.sort()
    for w in out_wires:
        if w not in pos:                   # a logical wire the tape never touches: it is |0>
            nxt += 1
            pos[w] = nxt
            max_n = max(max_n, nxt)
    return {"n": max_n, "ops": ops, "outs": [pos[w] for w in out_wires], "nmeas": it.nmeas}


def ref_records(ops, wires, M):
    """gate records of the ORIGINAL circuit on logical wires 1..k; RotXZX(phi, theta, omega) is, by its documentation,
    RX(omega) RZ(theta) RX(phi), i.e. RX(phi) applied first."""
    wpos = {w: i + 1 for i, w in enumerate(wires)}
    out = []
    for op in ops:
        if op.name == "RotXZX":
            phi, theta, omega = [float(x) for x in op.data]
            w = [wpos[op.wires[0]]]
            for nm, a in (("RX", phi), ("RZ", theta), ("RX", omega)):
                la = to_lattice(a, M)
                if la is None:
                    raise MachineryError("RotXZX angle off lattice")
                out.append(rec(nm, w, [int(la)]))
        elif op.name in ("GlobalPhase",):
            continue
        elif op.name == "Identity":
            continue
        else:
            out.append(encode_op(op, wpos, M))
    return out
