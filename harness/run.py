"""Entry point: ./check <ID> --tier quick|thorough [--replay PATH]."""
import argparse
import importlib
import os
import sys
import time
import traceback

from . import lib


def main():
    ap = argparse.ArgumentParser()
    ap.add_argument("pid")
    ap.add_argument("--tier", default=os.environ.get("VERIF_TIER", "quick"), choices=["quick", "thorough"])
    ap.add_argument("--replay", default=None)
    ap.add_argument("--keep", action="store_true", help="keep the scratch directory")
    a = ap.parse_args()
    seed = int(os.environ.get("VERIF_SEED", "0") or 0)
    pid = a.pid.upper()
    t0 = time.time()
    try:
        mod = importlib.import_module(f"harness.checks.{pid.lower()}")
        if a.replay:
            res = mod.replay(a.replay, tier=a.tier, seed=seed)
        else:
            res = mod.run(tier=a.tier, seed=seed)
        rc = lib.finish(pid, a.tier, seed, res, time.time() - t0)
    except lib.MachineryError as e:
        print(f"MACHINERY-FAILURE property={pid}: {e}", file=sys.stderr)
        rc = 2
    except Exception:
        traceback.print_exc()
        print(f"MACHINERY-FAILURE property={pid}: unexpected exception", file=sys.stderr)
        rc = 2
    finally:
        if not a.keep:
            lib.clean_work(pid)
    if rc == 0:
        print(f"OK property={pid} tier={a.tier} seed={seed} wall={time.time()-t0:.1f}s")
    sys.exit(rc)


if __name__ == "__main__":
    main()
