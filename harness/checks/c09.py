"""C09 Declared parameter frequencies cover the true spectrum.

For every parametrised gate and parameter, surrounded by random Clifford+T contexts and Pauli-word observables, TapeEval.tla
computes the expectation value EXACTLY at all N lattice points of a 4pi period; FreqSupport.tla computes the discrete Fourier
transform exactly in the ring (the kernel zeta^{jk} is a ring element) and decides Support subseteq +-Declared u {0}, where the
declared frequencies are read from the live operator (op.parameter_frequencies).  The driver also checks that default.qubit
reproduces the lattice samples (ties the spectrum to the real gate)."""
import json
import random
import subprocess
import sys

import numpy as np

import pennylane as qp

from .. import devsim, lib, tapeeval
from ..codec import ARITY, MULTI_PARAM, ONE_PARAM, decode_gate, rec
from ..lib import CheckResult, Violation

M = 4
N = 1 << M
NOBS = 6          # observables per context (one state evaluation serves all of them)


def gate_params(name):
    return 1 if name in ONE_PARAM else MULTI_PARAM.get(name, 0)


class _GenOp(qp.operation.Operation):
    """A user-defined operation whose frequencies can only come from its generator: exp(-i t H) for commuting single-wire terms."""
    num_params = 1
    grad_method = "A"

    def __init__(self, t, wires, terms=None, id=None):
        self._terms = terms
        super().__init__(t, wires=wires, id=id)
        self.hyperparameters["terms"] = terms

    def generator(self):
        return qp.sum(*[qp.s_prod(c, getattr(qp, p)(self.wires[i])) for (c, p, i) in self.hyperparameters["terms"]])

    def decomposition(self):
        t = self.data[0]
        return [getattr(qp, "R" + p)(2 * c * t, wires=self.wires[i]) for (c, p, i) in self.hyperparameters["terms"]]

    @property
    def has_decomposition(self):
        return True


# generators c0*P0(w0) + c1*P1(w1) with 2*c integer and a spectrum that is NOT equally spaced ({-2,-1,1,2}: differences 1,2,3,4)
EVOLVE_TERMS = [[(0.5, "Z", 0), (1.5, "Z", 1)], [(0.5, "X", 0), (1.5, "Z", 1)], [(1.5, "Y", 0), (0.5, "X", 1)]]


def wrapper_jobs(rng, ctx_per):
    """Adjoint / Controlled wrappers of the one-parameter table gates: their frequencies are derived (generator of the base plus
    the control projector), not declared.  Sorted so that a poorer spectrum (controlled PhaseShift) is queried before a richer one
    of the same size (controlled RZ)."""
    jobs = []
    for name in sorted(ONE_PARAM):
        if name in ("GlobalPhase",) or ARITY.get(name, 9) > 2:
            continue
        ar = ARITY[name]
        variants = [[{"t": "ctrl", "cv": [1]}], [{"t": "ctrl", "cv": [0]}], [{"t": "adj"}], [{"t": "adj"}, {"t": "ctrl", "cv": [1]}]]
        if ar == 1:
            variants.append([{"t": "ctrl", "cv": [1, 1]}])
        for mods in variants:
            nctrl = sum(len(md.get("cv", [])) for md in mods)
            n = max(2, ar + nctrl)
            for _ in range(max(1, ctx_per // 2)):
                wires = rng.sample(range(1, n + 1), ar + nctrl)
                g = rec(name, wires, [0], mods=mods)
                jobs.append(_ctx(rng, n, wires, {"name": name + "".join("^" + md["t"] + ("".join(map(str, md.get("cv", [])))) for md in mods), "pi": 0, "n": n, "g": g}))
    return jobs


def _ctx(rng, n, wires, job, M_=M):
    job["pre"] = devsim.random_circuit(rng, n, M_, rng.randint(1, 3), ["g1", "g2", "r1"])
    job["post"] = devsim.random_circuit(rng, n, M_, rng.randint(0, 2), ["g1", "g2", "r1"])
    pws = []
    while len(pws) < NOBS:
        pw = [rng.randint(0, 3) if (w + 1 in wires or rng.random() < 0.4) else 0 for w in range(n)]
        if any(pw[w - 1] for w in wires) and pw not in pws:
            pws.append(pw)
    job["pws"] = pws
    return job


def evolve_jobs(rng, ctx_per):
    """qp.evolve(H, t) and a user-defined operation with the same generator (M=5: frequencies up to 4)."""
    jobs = []
    for ti, terms in enumerate(EVOLVE_TERMS):
        for kind in ("evolve", "custom"):
            for _ in range(max(1, ctx_per // 2)):
                n = 2
                wires = rng.sample([1, 2], 2)
                jobs.append(_ctx(rng, n, wires, {"name": f"{kind}[{'+'.join(f'{c}{p}' for c, p, _ in terms)}]", "pi": 0, "n": n, "terms": terms, "kind": kind,
                                                "wires": wires}, M_=5))
    return jobs


def job_ops(job, a, Mj):
    """gate records of the parametrised operation at lattice point a"""
    if "g" in job:
        p = list(job["g"]["p"]); p[job["pi"]] = a
        return [dict(job["g"], p=p)]
    Nj = 1 << Mj
    return [rec("R" + p, [job["wires"][i]], [int(round(2 * c)) * a % Nj]) for (c, p, i) in job["terms"]]


def job_plop(job, a, Mj):
    if "g" in job:
        return decode_gate(job_ops(job, a, Mj)[0], Mj)
    t = lib.angle_of(a, Mj)
    ws = [w - 1 for w in job["wires"]]
    if job["kind"] == "custom":
        return _GenOp(t, wires=ws, terms=job["terms"])
    return qp.evolve(qp.sum(*[qp.s_prod(c, getattr(qp, p)(ws[i])) for (c, p, i) in job["terms"]]), t)


def run_family(pid_tag, jobs, Mj, viol, undefined):
    """exact lattice samples (TapeEval) + declared frequencies from the live operator (queried in job order and again in reverse
    order) -> FreqSupport verdicts.  Returns (stats, tlc result, n traces, nontrivial set, samples, n device comparisons, negs)."""
    Nj = 1 << Mj
    cases = []
    for job in jobs:
        for a in range(Nj):
            cases.append({"n": job["n"], "ops": job["pre"] + job_ops(job, a, Mj) + job["post"], "meas": [{"t": "expval", "pw": w_} for w_ in job["pws"]]})
    res, stats = tapeeval.evaluate("C09", cases, Mj, raw=True, name="eval_" + pid_tag)
    # the declared frequencies are queried twice, in opposite orders and each time in a FRESH interpreter, so that state kept
    # between queries (a memo keyed too coarsely) cannot make the two passes agree
    decls = []
    wdq = lib.workdir("C09", "query_" + pid_tag)
    (wdq / "jobs.json").write_text(json.dumps(jobs))
    for oi, order in enumerate(("forward", "reverse")):
        out = wdq / f"decl_{order}.json"
        pr = subprocess.run([sys.executable, "-W", "ignore", "-m", "harness.checks.c09", str(wdq / "jobs.json"), str(Mj), order, str(out)],
                            cwd="/verif", capture_output=True, text=True, timeout=900)
        if pr.returncode != 0 or not out.exists():
            raise lib.MachineryError(f"frequency query subprocess failed: {pr.stderr[-400:]}")
        got = json.loads(out.read_text())
        decls.append({int(k): (None if v is None else tuple(v)) for k, v in got["decl"].items()})
        undefined.update(got["undefined"])
    traces, n_dev = [], 0
    for ji, job in enumerate(jobs):
        if decls[0][ji] is None or decls[1][ji] is None:
            continue
        if decls[0][ji] != decls[1][ji]:
            viol.append(Violation(key=f"{job['name']}[0]:declared-frequencies-depend-on-query-history",
                                  detail=f"{job['name']}: {decls[0][ji]} when queried in order, {decls[1][ji]} when queried in reverse order", replay={"job": job["name"]}))
        for fr in {decls[0][ji], decls[1][ji]}:
            decl, ok = [], True
            for w in fr:
                k2 = 2 * w
                ok = ok and abs(k2 - round(k2)) < 1e-9
                decl.append(int(round(k2)))
            if not ok:
                viol.append(Violation(key=f"{job['name']}[{job['pi']}]:declared-frequency-not-half-integer", detail=f"{fr}", replay={"job": job["name"]}))
                continue
            for oi in range(NOBS):
                traces.append({"f": [res[ji * Nj + a]["meas"][oi][0] for a in range(Nj)], "decl": decl, "job": ji, "obs": oi})
        f = [res[ji * Nj + a]["meas"][0][0] for a in range(Nj)]
        dev = qp.device("default.qubit", wires=job["n"])
        for a in (1, 6, 11):
            tape = qp.tape.QuantumScript([decode_gate(x, Mj) for x in job["pre"]] + [job_plop(job, a, Mj)] + [decode_gate(x, Mj) for x in job["post"]],
                                         [qp.expval(devsim.word_op(job["pws"][0], list(range(job["n"]))))])
            val = float(qp.execute([tape], dev)[0])
            exp = lib.ring_to_complex(f[a]["c"], f[a]["k"], Mj).real
            n_dev += 1
            if abs(val - exp) > 1e-8:
                viol.append(Violation(key=f"{job['name']}[{job['pi']}]:lattice-sample-differs", detail=f"default.qubit {val} vs exact {exp} at a={a} for {job['name']}", replay={"job": job["name"]}))
    base = len(traces)
    neg = []
    for k in range(0, base, max(1, base // 48)):
        if traces[k]["decl"]:
            neg.append(len(traces))
            traces.append({"f": traces[k]["f"], "decl": [], "job": -1, "obs": 0})
    wd = lib.workdir("C09", "freq_" + pid_tag)
    (wd / "traces.json").write_text(json.dumps([{"f": t["f"], "decl": t["decl"]} for t in traces]))
    r = lib.run_tlc("FreqSupport", lib.cfg(constants={"M": Mj, "NTRACES": len(traces)}), wd, env={"TRACE_FILE": str(wd / "traces.json")})
    lib.require_ok(r, "FreqSupport")
    verd = {t[1] - 1: (t[2], t[3]) for t in r.tuples if t[0] == "V"}
    if len(verd) != len(traces):
        raise lib.MachineryError("verdicts not total")
    nneg = sum(1 for i in neg if verd[i][0] != "ok")
    if not neg or nneg == 0:
        raise lib.MachineryError(f"negative controls ({pid_tag}): no trace with an empty declaration was rejected")
    nontriv, samples = set(), []
    for i, t in enumerate(traces[:base]):
        job = jobs[t["job"]]
        v, nz = verd[i]
        if v != "ok":
            viol.append(Violation(key=f"{job['name']}[{job['pi']}]:{v}", detail=f"{v}: declared 2*omega={t['decl']} for {job['name']} in context pre={job['pre']} post={job['post']} obs={job['pws'][t['obs']]}",
                                  replay={"job": job["name"], "pre": job["pre"], "post": job["post"], "obs": job["pws"][t["obs"]]}))
        elif nz > 0:
            nontriv.add((job["name"], t["job"], t["obs"]))
            if len(samples) < 2:
                samples.append({"operation": job["name"], "declared_2omega": t["decl"], "nonzero_frequencies_found": nz})
    return stats, r, base, nontriv, samples, n_dev, nneg


def run(tier, seed):
    rng = random.Random(900 + seed)
    names = [g for g in sorted(set(ONE_PARAM) | set(MULTI_PARAM)) if g not in ("GlobalPhase", "U1")] + ["U1"]
    ctx_per = 2 if tier == "quick" else 12
    jobs = []          # (name, param index, n, pre, gate template, post, observable word)
    for name in names:
        if name == "PauliRot":
            variants = [("PauliRot", [1]), ("PauliRot", [2, 3]), ("PauliRot", [3, 1])]
        elif name == "MultiRZ":
            variants = [("MultiRZ", None, 1), ("MultiRZ", None, 2)]
        else:
            variants = [(name,)]
        for var in variants:
            ar = len(var[1]) if name == "PauliRot" else (var[2] if name == "MultiRZ" else ARITY[name])
            n = max(2, ar) if ar < 4 else 4
            for pi in range(gate_params(name)):
                for _ in range(ctx_per):
                    wires = rng.sample(range(1, n + 1), ar)
                    others = [rng.randrange(N) for _ in range(gate_params(name))]
                    g = rec(name, wires, others, var[1] if name == "PauliRot" else [])
                    pre = devsim.random_circuit(rng, n, M, rng.randint(1, 3), ["g1", "g2", "r1"])
                    post = devsim.random_circuit(rng, n, M, rng.randint(0, 2), ["g1", "g2", "r1"])
                    pws = []
                    while len(pws) < NOBS:
                        pw = [rng.randint(0, 3) if (w + 1 in wires or rng.random() < 0.4) else 0 for w in range(n)]
                        if any(pw[w - 1] for w in wires) and pw not in pws:
                            pws.append(pw)
                    jobs.append((name, pi, n, pre, g, post, pws))
    cases = []
    for (name, pi, n, pre, g, post, pw) in jobs:
        for a in range(N):
            p = list(g["p"]); p[pi] = a
            cases.append({"n": n, "ops": pre + [dict(g, p=p)] + post, "meas": [{"t": "expval", "pw": w_} for w_ in pw]})
    res, stats = tapeeval.evaluate("C09", cases, M, raw=True)
    traces, viol, n_dev, undefined = [], [], 0, {}
    for ji, (name, pi, n, pre, g, post, pw) in enumerate(jobs):
        op = decode_gate(g, M)
        try:
            fr = qp.gradients.parameter_frequencies(op)[pi]      # the documented query (falls back to op.parameter_frequencies)
        except Exception as e:
            undefined[name] = type(e).__name__
            fr = None
        if fr is None:
            continue
        decl = []
        ok = True
        for w in fr:
            k2 = 2 * float(w)
            if abs(k2 - round(k2)) > 1e-9:
                ok = False
            decl.append(int(round(k2)))
        if not ok:
            viol.append(Violation(key=f"{name}[{pi}]:declared-frequency-not-half-integer", detail=f"{fr}", replay={"gate": g}))
            continue
        for oi in range(NOBS):
            traces.append({"f": [res[ji * N + a]["meas"][oi][0] for a in range(N)], "decl": decl, "job": ji, "obs": oi})
        f = traces[-NOBS]["f"]
        pws, pw = pw, pw[0]
        # tie the exact samples to the real gate on three lattice points
        if ji % 4 == 0:
            dev = qp.device("default.qubit", wires=n)
            for a in (1, 6, 11):
                p = list(g["p"]); p[pi] = a
                tape = qp.tape.QuantumScript([decode_gate(x, M) for x in pre + [dict(g, p=p)] + post], [qp.expval(devsim.word_op(pw, list(range(n))))])
                val = float(qp.execute([tape], dev)[0])
                exp = lib.ring_to_complex(f[a]["c"], f[a]["k"], M).real
                n_dev += 1
                if abs(val - exp) > 1e-8:
                    viol.append(Violation(key=f"{name}[{pi}]:lattice-sample-differs", detail=f"default.qubit {val} vs exact {exp} at a={a} for {g}", replay={"gate": g}))
    # negative controls: remove the largest declared frequency of traces whose spectrum is non-trivial
    neg = []
    base = len(traces)
    for k in range(0, base, max(1, base // 12)):
        t = traces[k]
        if t["decl"]:
            neg.append(len(traces))
            traces.append({"f": t["f"], "decl": [], "job": -1, "obs": 0})
    wd = lib.workdir("C09", "freq")
    (wd / "traces.json").write_text(json.dumps([{"f": t["f"], "decl": t["decl"]} for t in traces]))
    r = lib.run_tlc("FreqSupport", lib.cfg(constants={"M": M, "NTRACES": len(traces)}), wd, env={"TRACE_FILE": str(wd / "traces.json")})
    lib.require_ok(r, "FreqSupport")
    verd = {t[1] - 1: (t[2], t[3]) for t in r.tuples if t[0] == "V"}
    if len(verd) != len(traces):
        raise lib.MachineryError("verdicts not total")
    nneg = sum(1 for i in neg if verd[i][0] != "ok" or verd[i][1] == 0)
    nneg_strict = sum(1 for i in neg if verd[i][0] != "ok")
    if not neg or nneg_strict == 0:
        raise lib.MachineryError("negative controls: no trace with an empty declaration was rejected")
    nontriv, samples = set(), []
    for i, t in enumerate(traces[:base]):
        name, pi, n, pre, g, post, pws = jobs[t["job"]]
        pw = pws[t["obs"]]
        v, nz = verd[i]
        if v != "ok":
            viol.append(Violation(key=f"{name}[{pi}]:{v}", detail=f"{v}: declared 2*omega={t['decl']} for {g} in context pre={pre} post={post} obs={pw}",
                                  replay={"gate": g, "param": pi, "pre": pre, "post": post, "obs": pw}))
        elif nz > 0:
            nontriv.add((name, pi, t["job"], t["obs"]))
            if len(samples) < 3:
                samples.append({"gate": g, "param": pi, "declared_2omega": t["decl"], "nonzero_frequencies_found": nz, "observable": pw})
    fam = {}
    for tag, fj, Mj in (("wrap", wrapper_jobs(rng, ctx_per), M), ("evolve", evolve_jobs(rng, ctx_per), 5)):
        st2, r2, base2, nt2, smp2, nd2, nneg2 = run_family(tag, fj, Mj, viol, undefined)
        fam[tag] = {"jobs": len(fj), "traces": base2, "nontrivial": len(nt2), "negative_controls_rejected": nneg2, "samples": smp2,
                    "states": st2["distinct"] + r2.distinct, "device_samples": nd2, "ring_level": Mj}
        stats = {"distinct": stats["distinct"] + st2["distinct"] + r2.distinct, "generated": stats["generated"] + st2["generated"] + r2.generated}
        base += base2
        n_dev += nd2
        nontriv |= {("fam:" + tag,) + x for x in nt2}
        nneg_strict += nneg2
        if not nt2:
            raise lib.MachineryError(f"vacuity: no non-trivial spectrum in family {tag}")
    cov = {"states": stats["distinct"] + r.distinct, "transitions": stats["generated"] + r.generated, "traces_validated_against_impl": base,
           "evaluations": len(cases), "distinct_nontrivial": len(nontriv),
           "rule": "every parametrised table gate x parameter, Adjoint / Controlled wrappers of the one-parameter gates (derived frequencies, queried in two orders), qp.evolve and a user-defined operation with a non-equally-spaced generator spectrum, each x random Clifford+T context and Pauli observable; non-trivial = (gate, parameter, "
                   "context) whose exact spectrum has a non-zero frequency", "samples": samples, "default_qubit_samples_checked": n_dev, "derived_frequency_families": fam,
           "negative_controls_rejected": nneg_strict, "frequencies_undefined_for": undefined, "lattice_points": N, "resolves_2omega_up_to": N // 2 - 1}
    return CheckResult(coverage=cov, violations=viol, assumptions=[
        "frequencies resolved up to 3.5 before aliasing at M=4 (every declared frequency in the tree is <= 2)",
        "a missing frequency could hide behind a zero coefficient in every sampled context (3-12 random contexts per parameter)"])


def _query_main(argv):
    """subprocess entry: declared frequencies of every job, queried in the given order in this fresh interpreter"""
    jobs = json.loads(open(argv[0]).read())
    Mj, order, out = int(argv[1]), argv[2], argv[3]
    idx = list(range(len(jobs)))
    if order == "reverse":
        idx.reverse()
    decl, undefined = {}, {}
    for ji in idx:
        job = jobs[ji]
        try:
            fr = qp.gradients.parameter_frequencies(job_plop(job, 1, Mj))[job["pi"]]
            decl[ji] = [float(w) for w in fr]
        except Exception as e:
            undefined[job["name"]] = type(e).__name__
            decl[ji] = None
    open(out, "w").write(json.dumps({"decl": decl, "undefined": undefined}))


if __name__ == "__main__":
    _query_main(sys.argv[1:])
