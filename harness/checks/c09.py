"""C09 Declared parameter frequencies cover the true spectrum.

For every parametrised gate and parameter, surrounded by random Clifford+T contexts and Pauli-word observables, TapeEval.tla
computes the expectation value EXACTLY at all N lattice points of a 4pi period; FreqSupport.tla computes the discrete Fourier
transform exactly in the ring (the kernel zeta^{jk} is a ring element) and decides Support subseteq +-Declared u {0}, where the
declared frequencies are read from the live operator (op.parameter_frequencies).  The driver also checks that default.qubit
reproduces the lattice samples (ties the spectrum to the real gate)."""
import json
import random

import numpy as np

import pennylane as qp

from .. import devsim, lib, tapeeval
from ..codec import ARITY, MULTI_PARAM, ONE_PARAM, decode_gate, rec
from ..lib import CheckResult, Violation

M = 4
N = 1 << M
NOBS = 6          # observables per context (one state evaluation serves all of them)


def gate_params(name):
    return 1 if name in ONE_PARAM else MULTI_PARAM.get(name, 0)


def run(tier, seed):
    rng = random.Random(900 + seed)
    names = [g for g in sorted(set(ONE_PARAM) | set(MULTI_PARAM)) if g not in ("GlobalPhase", "U1")] + ["U1"]
    ctx_per = 2 if tier == "quick" else 12
    jobs = []          # (name, param index, n, pre, gate template, post, observable word)
    for name in names:
        if name == "PauliRot":
            variants = [("PauliRot", [1]), ("PauliRot", [2, 3]), ("PauliRot", [3, 1])]
        elif name == "MultiRZ":
            variants = [("MultiRZ", None, 1), ("MultiRZ", None, 2)]
        else:
            variants = [(name,)]
        for var in variants:
            ar = len(var[1]) if name == "PauliRot" else (var[2] if name == "MultiRZ" else ARITY[name])
            n = max(2, ar) if ar < 4 else 4
            for pi in range(gate_params(name)):
                for _ in range(ctx_per):
                    wires = rng.sample(range(1, n + 1), ar)
                    others = [rng.randrange(N) for _ in range(gate_params(name))]
                    g = rec(name, wires, others, var[1] if name == "PauliRot" else [])
                    pre = devsim.random_circuit(rng, n, M, rng.randint(1, 3), ["g1", "g2", "r1"])
                    post = devsim.random_circuit(rng, n, M, rng.randint(0, 2), ["g1", "g2", "r1"])
                    pws = []
                    while len(pws) < NOBS:
                        pw = [rng.randint(0, 3) if (w + 1 in wires or rng.random() < 0.4) else 0 for w in range(n)]
                        if any(pw[w - 1] for w in wires) and pw not in pws:
                            pws.append(pw)
                    jobs.append((name, pi, n, pre, g, post, pws))
    cases = []
    for (name, pi, n, pre, g, post, pw) in jobs:
        for a in range(N):
            p = list(g["p"]); p[pi] = a
            cases.append({"n": n, "ops": pre + [dict(g, p=p)] + post, "meas": [{"t": "expval", "pw": w_} for w_ in pw]})
    res, stats = tapeeval.evaluate("C09", cases, M, raw=True)
    traces, viol, n_dev, undefined = [], [], 0, {}
    for ji, (name, pi, n, pre, g, post, pw) in enumerate(jobs):
        op = decode_gate(g, M)
        try:
            fr = qp.gradients.parameter_frequencies(op)[pi]      # the documented query (falls back to op.parameter_frequencies)
        except Exception as e:
            undefined[name] = type(e).__name__
            fr = None
        if fr is None:
            continue
        decl = []
        ok = True
        for w in fr:
            k2 = 2 * float(w)
            if abs(k2 - round(k2)) > 1e-9:
                ok = False
            decl.append(int(round(k2)))
        if not ok:
            viol.append(Violation(key=f"{name}[{pi}]:declared-frequency-not-half-integer", detail=f"{fr}", replay={"gate": g}))
            continue
        for oi in range(NOBS):
            traces.append({"f": [res[ji * N + a]["meas"][oi][0] for a in range(N)], "decl": decl, "job": ji, "obs": oi})
        f = traces[-NOBS]["f"]
        pws, pw = pw, pw[0]
        # tie the exact samples to the real gate on three lattice points
        if ji % 4 == 0:
            dev = qp.device("default.qubit", wires=n)
            for a in (1, 6, 11):
                p = list(g["p"]); p[pi] = a
                tape = qp.tape.QuantumScript([decode_gate(x, M) for x in pre + [dict(g, p=p)] + post], [qp.expval(devsim.word_op(pw, list(range(n))))])
                val = float(qp.execute([tape], dev)[0])
                exp = lib.ring_to_complex(f[a]["c"], f[a]["k"], M).real
                n_dev += 1
                if abs(val - exp) > 1e-8:
                    viol.append(Violation(key=f"{name}[{pi}]:lattice-sample-differs", detail=f"default.qubit {val} vs exact {exp} at a={a} for {g}", replay={"gate": g}))
    # negative controls: remove the largest declared frequency of traces whose spectrum is non-trivial
    neg = []
    base = len(traces)
    for k in range(0, base, max(1, base // 12)):
        t = traces[k]
        if t["decl"]:
            neg.append(len(traces))
            traces.append({"f": t["f"], "decl": [], "job": -1, "obs": 0})
    wd = lib.workdir("C09", "freq")
    (wd / "traces.json").write_text(json.dumps([{"f": t["f"], "decl": t["decl"]} for t in traces]))
    r = lib.run_tlc("FreqSupport", lib.cfg(constants={"M": M, "NTRACES": len(traces)}), wd, env={"TRACE_FILE": str(wd / "traces.json")})
    lib.require_ok(r, "FreqSupport")
    verd = {t[1] - 1: (t[2], t[3]) for t in r.tuples if t[0] == "V"}
    if len(verd) != len(traces):
        raise lib.MachineryError("verdicts not total")
    nneg = sum(1 for i in neg if verd[i][0] != "ok" or verd[i][1] == 0)
    nneg_strict = sum(1 for i in neg if verd[i][0] != "ok")
    if not neg or nneg_strict == 0:
        raise lib.MachineryError("negative controls: no trace with an empty declaration was rejected")
    nontriv, samples = set(), []
    for i, t in enumerate(traces[:base]):
        name, pi, n, pre, g, post, pws = jobs[t["job"]]
        pw = pws[t["obs"]]
        v, nz = verd[i]
        if v != "ok":
            viol.append(Violation(key=f"{name}[{pi}]:{v}", detail=f"{v}: declared 2*omega={t['decl']} for {g} in context pre={pre} post={post} obs={pw}",
                                  replay={"gate": g, "param": pi, "pre": pre, "post": post, "obs": pw}))
        elif nz > 0:
            nontriv.add((name, pi, t["job"], t["obs"]))
            if len(samples) < 3:
                samples.append({"gate": g, "param": pi, "declared_2omega": t["decl"], "nonzero_frequencies_found": nz, "observable": pw})
    cov = {"states": stats["distinct"] + r.distinct, "transitions": stats["generated"] + r.generated, "traces_validated_against_impl": base,
           "evaluations": len(cases), "distinct_nontrivial": len(nontriv),
           "rule": "every parametrised table gate x parameter x random Clifford+T context and Pauli observable; non-trivial = (gate, parameter, "
                   "context) whose exact spectrum has a non-zero frequency", "samples": samples, "default_qubit_samples_checked": n_dev,
           "negative_controls_rejected": nneg_strict, "frequencies_undefined_for": undefined, "lattice_points": N, "resolves_2omega_up_to": N // 2 - 1}
    return CheckResult(coverage=cov, violations=viol, assumptions=[
        "frequencies resolved up to 3.5 before aliasing at M=4 (every declared frequency in the tree is <= 2)",
        "a missing frequency could hide behind a zero coefficient in every sampled context (3-12 random contexts per parameter)"])
