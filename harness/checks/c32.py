"""C32 Result structure depends only on the request.

(M) ResultShape.tla states, from the return type specification and the measurement / gradient-transform documentation,
    the abstract shape tree (tuple / array-with-shape / dict) of a result and of its Jacobians as a pure function of the
    REQUEST (tapes in the batch, expanded shot list, measurement list, broadcast size, shapes of the differentiated
    arguments) - no device, interface or diff method occurs in it.  ResultShapeGen.tla enumerates every small request and
    TLC checks the clauses of the statement on the specification itself (invariant Laws: single measurement unwrapped,
    several -> tuple of the single results, shot vector -> outer tuple of the single-execution results, broadcasting = one
    leading axis, Jacobian = result nesting with the parameter axes appended).
(R) spec -> code: TLC emits each request with the expected trees; the driver runs the request through QNodes, qp.execute,
    gradient transforms, device derivatives and the framework Jacobians on default.qubit / default.mixed /
    reference.qubit x numpy / autograd / jax / torch x backprop / parameter-shift / adjoint and compares the trees.
(T) code -> spec: seeded larger requests (3 wires, longer measurement lists and shot vectors, batches of up to 3 tapes)
    are executed on seeded configurations, one JSON record per observation (request + observed tree, nothing about the
    configuration); Trace_ResultShape.tla recomputes the tree from the request and prints a verdict per record."""
import json
import random
import warnings

import numpy as np

import pennylane as qp
from pennylane import numpy as pnp

from .. import lib
from ..lib import CheckResult, Violation

warnings.filterwarnings("ignore")
import jax  # noqa: E402
import jax.numpy as jnp  # noqa: E402
import torch  # noqa: E402

jax.config.update("jax_enable_x64", True)

DEVICES = ["default.qubit", "default.mixed", "reference.qubit"]
ITFS = ["numpy", "autograd", "jax", "torch"]
DMS = ["none", "backprop", "parameter-shift", "adjoint"]
OBS = [qp.Z, qp.X, qp.Y]
NOTREE = {"k": "A", "s": [], "c": []}


# ------------------------------------------------------------------------------------------ request -> TLA+ text
def tla_meas(m):
    return f'[kind |-> "{m["kind"]}", w |-> {m["w"]}]'


def tla_seq(xs):
    return "<<" + ", ".join(str(x) for x in xs) + ">>"


def tla_set(xs):
    return "{" + ", ".join(xs) + "}"


def tla_tape(t):
    return f'[shots |-> {tla_seq(t["shots"])}, meas |-> {tla_seq(tla_meas(m) for m in t["meas"])}, b |-> {t["b"]}]'


def M(kind, w=0):
    return {"kind": kind, "w": w}


# ------------------------------------------------------------------------------------------ observation helpers
def tree_of(x):
    """abstract shape tree of a returned object (list == tuple, as the return type specification says)"""
    if isinstance(x, (tuple, list)):
        return {"k": "T", "s": [], "c": [tree_of(y) for y in x]}
    if isinstance(x, dict):
        return {"k": "D", "s": [], "c": []}
    if isinstance(x, np.ndarray) and x.dtype == object:       # documented: counts after broadcast_expand
        return {"k": "T", "s": [], "c": [tree_of(y) for y in x]}
    shape = tuple(x.shape) if hasattr(x, "shape") else np.shape(x)
    return {"k": "A", "s": [int(d) for d in shape], "c": []}


def show(tr):
    if tr["k"] == "T":
        return "(" + ", ".join(show(c) for c in tr["c"]) + ("," if len(tr["c"]) == 1 else "") + ")"
    return "dict" if tr["k"] == "D" else "A" + str(tr["s"]).replace(" ", "")


def locate(exp, obs, path=()):
    """first difference: (clause, path) with clause 'nesting' | 'shape', or None"""
    if exp["k"] != obs["k"]:
        return "nesting", path
    if exp["k"] == "T":
        if len(exp["c"]) != len(obs["c"]):
            return "nesting", path
        hit = None
        for i, (e, o) in enumerate(zip(exp["c"], obs["c"])):
            r = locate(e, o, path + (i,))
            if r and r[0] == "nesting":
                return r
            hit = hit or r
        return hit
    if exp["k"] == "A" and exp["s"] != obs["s"]:
        return "shape", path
    return None


def conv(v, itf, train=False):
    a = np.asarray(v, dtype=float)
    if itf == "numpy":
        return float(a) if a.shape == () else a
    if itf == "autograd":
        return pnp.array(a, requires_grad=train)
    if itf == "jax":
        return jnp.asarray(a)
    return torch.tensor(a, dtype=torch.float64, requires_grad=train)


def build_meas(m, i, n):
    w = i % n
    ws = [(w + j) % n for j in range(m["w"])]
    k = m["kind"]
    if k == "expval":
        return qp.expval(OBS[i % 3](w))
    if k == "var":
        return qp.var(OBS[i % 3](w))
    if k == "probs":
        return qp.probs(wires=ws) if ws else qp.probs()
    if k == "sample":
        return qp.sample(wires=ws) if ws else qp.sample()
    if k == "sampleobs":
        return qp.sample(OBS[i % 3](w))
    if k == "counts":
        return qp.counts(wires=ws) if ws else qp.counts()
    if k == "state":
        return qp.state()
    if k == "dm":
        return qp.density_matrix(ws)
    if k == "purity":
        return qp.purity(wires=ws)
    if k == "vnentropy":
        return qp.vn_entropy(wires=ws)
    raise lib.MachineryError(f"unknown measurement kind {k}")


def shots_arg(t, variant):
    """the Python shots argument for the expanded list (several equivalent spellings)"""
    sh = t["shots"]
    if not sh:
        return None
    if len(sh) == 1:
        return sh[0] if variant % 2 == 0 else [sh[0]]
    if variant % 2 and len(set(sh)) == 1:
        return [(sh[0], len(sh))]
    return list(sh) if variant % 3 else tuple(sh)


def entangle(n):
    ops = [qp.RY(0.4, 1), qp.CNOT([0, 1])]
    if n >= 3:
        ops += [qp.RY(0.5, 2), qp.CNOT([1, 2])]
    return ops


def bvec(b):
    return 0.3 if b == 0 else np.linspace(0.1, 0.5, b)


def build_script(t, n, itf, variant, params=None):
    """QuantumScript for a request.  params: list of trainable scalars (tape-level Jacobians), else one (broadcast) RX"""
    if params is None:
        ops = [qp.RX(conv(bvec(t["b"]), itf, train=True), 0)] + entangle(n)
        tp = None
    else:
        ops = [(qp.RX, qp.RY)[j % 2](p, j % n) for j, p in enumerate(params)] + [qp.CNOT([0, 1])]
        if n >= 3:
            ops.append(qp.CNOT([1, 2]))
        if t["b"]:
            ops.append(qp.RZ(bvec(t["b"]), 0))
            ops.append(qp.Hadamard(0))
        tp = list(range(len(params)))
    ms = [build_meas(m, i, n) for i, m in enumerate(t["meas"])]
    return qp.tape.QuantumScript(ops, ms, shots=shots_arg(t, variant), trainable_params=tp)


def make_qnode(t, n, dev, itf, dm, variant, argshapes=None):
    b = t["b"]

    def measure():
        ms = [build_meas(m, i, n) for i, m in enumerate(t["meas"])]
        return ms[0] if len(ms) == 1 else tuple(ms)

    if argshapes is None:
        def f(x):
            qp.RX(x, 0)
            for op in entangle(n):
                qp.apply(op)
            return measure()
    else:
        def f(*args):
            j = 0
            for a, shp in zip(args, argshapes):
                for idx in np.ndindex(*shp):
                    (qp.RX, qp.RY)[j % 2](a[idx] if shp else a, j % n)
                    j += 1
            qp.CNOT([0, 1])
            if n >= 3:
                qp.CNOT([1, 2])
            if b:
                qp.RZ(bvec(b), 0)
                qp.Hadamard(0)
            return measure()
    qn = qp.QNode(f, dev, interface=None if itf == "numpy" else itf, diff_method=None if dm == "none" else dm)
    return qp.set_shots(qn, shots_arg(t, variant))


def arg_values(argshapes, itf):
    vals, k = [], 0
    for shp in argshapes:
        size = int(np.prod(shp)) if shp else 1
        a = (0.1 + 0.17 * (k + np.arange(size))).reshape(shp)
        k += size
        vals.append(conv(a, itf, train=True))
    return vals


def flat_leaves(x):
    if isinstance(x, (tuple, list)):
        out = []
        for y in x:
            out += flat_leaves(y)
        return out
    return [x]


def regroup(x, it):
    if isinstance(x, (tuple, list)):
        return tuple(regroup(y, it) for y in x)
    return next(it)


def qnode_jacobian(qn, vals, itf, res):
    """framework Jacobian of the QNode with respect to all arguments (None: the framework cannot express it)"""
    if itf == "autograd":
        if isinstance(res, (tuple, list)):
            return None                      # autograd differentiates array-valued functions only
        return qp.jacobian(qn)(*vals)
    if itf == "jax":
        return jax.jacobian(qn, argnums=0 if len(vals) == 1 else tuple(range(len(vals))))(*vals)
    # torch: functional.jacobian wants a flat tuple of tensors; flatten, differentiate, put back into the result's nesting
    single = not isinstance(res, (tuple, list))

    def fl(*a):
        r = qn(*a)
        return r if single else tuple(flat_leaves(r))
    jac = torch.autograd.functional.jacobian(fl, vals[0] if len(vals) == 1 else tuple(vals))
    return jac if single else regroup(res, iter(jac))


class Runner:
    """Executes requests on the real code; every method returns the observed tree or raises the code's exception."""

    def __init__(self):
        self.devs = {}

    def dev(self, name, n):
        if (name, n) not in self.devs:
            self.devs[(name, n)] = qp.device(name, wires=n)
        return self.devs[(name, n)]

    def res_qnode(self, t, n, cfg, variant):
        d, itf, dm = cfg
        qn = make_qnode(t, n, self.dev(d, n), itf, dm, variant)
        return tree_of(qn(conv(bvec(t["b"]), itf, train=True)))

    def res_batch(self, ts, n, cfg, variant):
        d, itf, dm = cfg
        batch = [build_script(t, n, itf, variant + i) for i, t in enumerate(ts)]
        out = qp.execute(batch, self.dev(d, n), diff_method=None if dm == "none" else dm,
                         interface=None if itf == "numpy" else itf)
        return tree_of(out)

    def jac_qnode(self, t, n, cfg, variant, argshapes):
        """-> (result tree, jacobian tree or None)"""
        d, itf, dm = cfg
        qn = make_qnode(t, n, self.dev(d, n), itf, dm, variant, argshapes)
        vals = arg_values(argshapes, itf)
        res = qn(*vals)
        jac = qnode_jacobian(qn, vals, itf, res)
        return tree_of(res), (None if jac is None else tree_of(jac))

    def jac_tape(self, t, n, d, how, variant, P):
        params = [0.1 + 0.17 * k for k in range(P)]
        tape = build_script(t, n, "numpy", variant, params=params)
        dev = self.dev(d, n)
        if how == "parameter-shift":
            gt, fn = qp.gradients.param_shift(tape)
            return tree_of(fn(qp.execute(gt, dev, diff_method=None)))
        cfg = qp.devices.ExecutionConfig(gradient_method="adjoint")
        cfg = dev.setup_execution_config(cfg, tape)
        batch, post = dev.preprocess_transforms(cfg)([tape])
        if len(batch) != 1:
            raise NotImplementedError("preprocessing split the tape")
        return tree_of(dev.compute_derivatives(batch[0], cfg))

    def jac_batch(self, ts, n, d, how, variant, Ps):
        from pennylane.workflow.jacobian_products import DeviceDerivatives, TransformJacobianProducts
        dev = self.dev(d, n)
        batch = tuple(build_script(t, n, "numpy", variant + i, params=[0.1 + 0.17 * k for k in range(P)])
                      for i, (t, P) in enumerate(zip(ts, Ps)))
        if how == "parameter-shift":
            jpc = TransformJacobianProducts(lambda b: qp.execute(b, dev, diff_method=None), qp.gradients.param_shift)
        else:
            cfg = dev.setup_execution_config(qp.devices.ExecutionConfig(gradient_method="adjoint"), batch[0])
            batch, _ = dev.preprocess_transforms(cfg)(batch)
            jpc = DeviceDerivatives(dev, cfg)
        return tree_of(jpc.compute_jacobian(tuple(batch)))


def supported(cfg, t):
    """configurations that the library documents as unsupported are not attempted (everything else is, and an exception is counted)"""
    d, itf, dm = cfg
    if dm == "backprop" and (t["shots"] or d == "reference.qubit"):
        return False
    if dm == "adjoint" and (t["shots"] or d != "default.qubit"):
        return False
    if d == "default.mixed" and any(m["kind"] == "state" for m in t["meas"]):
        return False          # documented: qp.state() on a mixed-state device is the density matrix
    return True


def meas_at(t, what, path):
    """measurement kind at the position `path` of a tree of one tape"""
    p = list(path)
    if len(t["shots"]) > 1:
        if not p:
            return "*"
        p = p[1:]
    if len(t["meas"]) == 1:
        return t["meas"][0]["kind"]
    return t["meas"][p[0]]["kind"] if p else "*"


def sig_tape(t):
    sh = "analytic" if not t["shots"] else ("shots" if len(t["shots"]) == 1 else "shotvector")
    return f"b={t['b'] if t['b'] < 2 else 'n'}:{sh}:{'single' if len(t['meas']) == 1 else 'multi'}"


# ------------------------------------------------------------------------------------------ the check
def run(tier, seed):
    quick = tier == "quick"
    rng = random.Random(seed)
    n = 2
    amea = [M("expval"), M("var"), M("probs", 1), M("probs", 0), M("state"), M("dm", 1), M("purity", 1)]
    fmea = [M("expval"), M("var"), M("probs", 1), M("probs", 0), M("sample", 1), M("sample", 0), M("sampleobs"), M("counts")]
    jmea = [M("expval"), M("var"), M("probs", 1), M("probs", 0)]
    shotlists = [[1], [3], [1, 3], [3, 3]] + ([] if quick else [[2, 1, 2]])
    bsizes = [0, 1, 3]
    jshots = [[], [3], [2, 3]]
    jargs = [[[]], [[2]], [[], []], [[1]], [[2], []]] + ([] if quick else [[[2, 2]], [[1], [2]]])
    btapes = [{"shots": [], "meas": [M("expval")], "b": 0}, {"shots": [], "meas": [M("probs", 1), M("state")], "b": 0},
              {"shots": [3], "meas": [M("sample", 0)], "b": 0}, {"shots": [1, 3], "meas": [M("expval"), M("counts")], "b": 0},
              {"shots": [], "meas": [M("var")], "b": 2}, {"shots": [2, 2], "meas": [M("probs", 0)], "b": 1},
              {"shots": [], "meas": [M("expval"), M("probs", 0)], "b": 0}, {"shots": [2, 3], "meas": [M("var"), M("expval")], "b": 0}]
    consts = {"N": n, "MaxMeas": 2 if quick else 3, "JMaxMeas": 2, "MaxBatch": 2 if quick else 3}
    defs = {"AMeas": tla_set(map(tla_meas, amea)), "FMeas": tla_set(map(tla_meas, fmea)), "JMeas": tla_set(map(tla_meas, jmea)),
            "ShotLists": tla_set(map(tla_seq, shotlists)), "BSizes": tla_set(map(str, bsizes)),
            "JShotLists": tla_set(map(tla_seq, jshots)), "JBSizes": "{0}" if quick else "{0, 2}",
            "JArgs": tla_set(tla_seq(tla_seq(a) for a in args) for args in jargs),
            "BTapes": tla_set(map(tla_tape, btapes))}
    g = lib.run_tlc_mc("ResultShapeGen", defs, lib.workdir("C32", "gen"), constants=consts, invariants=["Laws"], timeout=3000)
    if g.invariant_violated:
        raise lib.MachineryError("ResultShape violates the clauses of the statement (oracle error): " + g.out[-1500:])
    lib.require_ok(g, "ResultShapeGen")
    cases = sorted(g.json_lines, key=lambda x: json.dumps(x["c"], sort_keys=True))
    fam = {f: [x for x in cases if x["c"]["fam"] == f] for f in ("tape", "jac", "batch")}
    if len(fam["tape"]) < 1000 or len(fam["jac"]) < 200 or len(fam["batch"]) < 40:
        raise lib.MachineryError("generator produced too few cases: " + str({k: len(v) for k, v in fam.items()}))

    R = Runner()
    viol, seen_keys = [], {}
    stats = {"evaluations": 0, "agree": 0, "exceptions": 0, "not_expressible": 0}
    per_cfg, exc_types, nontriv, samples = {}, {}, set(), []
    drift = {"counts_broadcast": 0}

    def flag(what, clause, where, cfg, req, exp, obs, origin):
        key = f"{what}:{clause}:{where}:{cfg[0]}:{cfg[1]}:{cfg[2]}"
        seen_keys[key] = seen_keys.get(key, 0) + 1
        if seen_keys[key] > 1:
            return
        viol.append(Violation(key=key, detail=f"{what} of request {json.dumps(req)} on device={cfg[0]} interface={cfg[1]} "
                                             f"diff_method={cfg[2]}: expected {show(exp)} got {show(obs)} [{origin}]",
                              replay={"request": req, "config": list(cfg), "what": what, "expected": exp, "observed": obs}))

    def judge(what, req, t, cfg, exp, obs, origin="replay of TLC case"):
        """compare one observed tree with the tree emitted by TLC"""
        stats["evaluations"] += 1
        pc = per_cfg.setdefault("/".join(cfg), {"ok": 0, "bad": 0, "exc": 0})
        r = locate(exp, obs)
        if r is None:
            stats["agree"] += 1
            pc["ok"] += 1
            return True
        clause, path = r
        kind = meas_at(t, what, path[1:] if what in ("bres", "bjt") else path) if t else "*"
        if kind == "counts" and t and t["b"] > 0:
            drift["counts_broadcast"] += 1        # documented: non-tensorlike results may handle broadcasting differently
            return True
        pc["bad"] += 1
        flag(what, clause, f"{sig_tape(t) if t else 'batch'}:{kind}", cfg, req, exp, obs, origin)
        return False

    def attempt(cfg, f):
        try:
            return f()
        except Exception as e:  # noqa: BLE001 - an unsupported configuration; the exception class is counted
            stats["exceptions"] += 1
            per_cfg.setdefault("/".join(cfg), {"ok": 0, "bad": 0, "exc": 0})["exc"] += 1
            exc_types[type(e).__name__] = exc_types.get(type(e).__name__, 0) + 1
            if cfg == BASE:
                base_exc.append(f"{type(e).__name__}: {str(e)[:200]}")
            return None

    BASE = ("default.qubit", "numpy", "none")
    base_exc = []
    allcfg = [(d, i, m) for d in DEVICES for i in ITFS for m in DMS]
    fast_cfg = [c for c in allcfg if c[1] != "jax"]
    jax_cfg = [c for c in allcfg if c[1] == "jax"]

    def pick_cfgs(t, k_fast, p_jax, pool_fast=fast_cfg, pool_jax=jax_cfg):
        pf = [c for c in pool_fast if supported(c, t)]
        pj = [c for c in pool_jax if supported(c, t)]
        out = rng.sample(pf, min(k_fast, len(pf)))
        if pj and rng.random() < p_jax:
            out.append(rng.choice(pj))
        return out

    # ------------------------------------------------------------ (R1) results of single circuits: QNode and batch of one
    k_fast, p_jax = (2, 0.08) if quick else (12, 0.5)
    for ci, item in enumerate(fam["tape"]):
        c, exp = item["c"], item["exp"]
        t = c["tapes"][0]
        cfgs = [(d, "numpy", "none") for d in DEVICES if supported((d, "numpy", "none"), t)] + pick_cfgs(t, k_fast, p_jax)
        allok = True
        for k, cfg in enumerate(dict.fromkeys(cfgs)):
            if (ci + k) % 4 == 3:          # every fourth evaluation goes through qp.execute as a batch of one
                obs = attempt(cfg, lambda: R.res_batch([t], n, cfg, ci))
                if obs is not None:
                    allok &= judge("bres", c, t, cfg, exp["bres"], obs)
            else:
                obs = attempt(cfg, lambda: R.res_qnode(t, n, cfg, ci))
                if obs is not None:
                    allok &= judge("res", c, t, cfg, exp["res"], obs)
        if allok and (exp["res"]["k"] == "T" or t["b"]):
            nontriv.add(json.dumps(c, sort_keys=True))
        if len(samples) < 2 and len(t["shots"]) > 1 and len(t["meas"]) > 1 and t["b"] == 3 and allok and ci % 7 == len(samples):
            samples.append({"request": t, "expected_result": show(exp["res"])})
    # ------------------------------------------------------------ (R2) batches
    for ci, item in enumerate(fam["batch"]):
        c, exp = item["c"], item["exp"]
        ts = c["tapes"]
        worst = {"shots": max((t["shots"] for t in ts), key=len), "meas": sum((t["meas"] for t in ts), []), "b": 0}
        cfgs = [(d, "numpy", "none") for d in DEVICES if supported((d, "numpy", "none"), worst)] + pick_cfgs(worst, 2, 0.1 if quick else 1)
        allok = True
        for cfg in dict.fromkeys(cfgs):
            obs = attempt(cfg, lambda: R.res_batch(ts, n, cfg, ci))
            if obs is not None:
                allok &= judge("bres", c, None if len(ts) > 1 else ts[0], cfg, exp["res"], obs)
        if exp["P"]:
            for d, how in (("default.qubit", "parameter-shift"), ("default.mixed", "parameter-shift"), ("default.qubit", "adjoint")):
                cfg = (d, "numpy", how)
                if supported(cfg, worst):
                    obs = attempt(cfg, lambda: R.jac_batch(ts, n, d, how, ci, [2] * len(ts)))
                    if obs is not None:
                        allok &= judge("bjt", c, None if len(ts) > 1 else ts[0], cfg, exp["jt"], obs)
        if allok:
            nontriv.add(json.dumps(c, sort_keys=True))
        if len(samples) < 3 and len(ts) == 2 and allok and ts[0] != ts[1] and len(ts[1]["shots"]) > 1:
            samples.append({"batch": ts, "expected_result": show(exp["res"])})
    # ------------------------------------------------------------ (R3) Jacobians
    jcount = {"jq": 0, "jt": 0, "jq_wrapped": 0, "jq_shotvector": 0, "jq_multi_meas": 0}
    diff_cfg_fast = [c for c in fast_cfg if c[1] != "numpy" and c[2] != "none"]
    diff_cfg_jax = [c for c in jax_cfg if c[2] != "none"]
    k_fast, p_jax = (3, 0.12) if quick else (100, 1.0)
    for ci, item in enumerate(fam["jac"]):
        c, exp = item["c"], item["exp"]
        t, args = c["tapes"][0], c["args"]
        allok = True
        for cfg in pick_cfgs(t, k_fast, p_jax, diff_cfg_fast, diff_cfg_jax):
            out = attempt(cfg, lambda: R.jac_qnode(t, n, cfg, ci, args))
            if out is None:
                continue
            rt, jt = out
            allok &= judge("res", c, t, cfg, exp["res"], rt)
            if jt is None:
                stats["not_expressible"] += 1
                continue
            ok = judge("jq", c, t, cfg, exp["jq"], jt)
            allok &= ok
            jcount["jq"] += ok
            jcount["jq_wrapped"] += ok and c["wrap"]
            jcount["jq_shotvector"] += ok and len(t["shots"]) > 1
            jcount["jq_multi_meas"] += ok and len(t["meas"]) > 1
        tl = [(d, "parameter-shift") for d in DEVICES] + [("default.qubit", "adjoint")]
        for d, how in (tl if not quick else rng.sample(tl, 2)):
            cfg = (d, "numpy", how)
            if not supported(cfg, t):
                continue
            obs = attempt(cfg, lambda: R.jac_tape(t, n, d, how, ci, exp["P"]))
            if obs is not None:
                ok = judge("jt", c, t, cfg, exp["jt"], obs)
                allok &= ok
                jcount["jt"] += ok
        if allok:
            nontriv.add(json.dumps(c, sort_keys=True))
        if len(samples) < 4 and allok and c["wrap"] and len(t["shots"]) > 1 and len(t["meas"]) > 1:
            samples.append({"request": t, "arg_shapes": args, "expected_result": show(exp["res"]),
                            "expected_qnode_jacobian": show(exp["jq"]), "expected_tape_jacobian": show(exp["jt"])})
    if base_exc:
        raise lib.MachineryError(f"vacuity: the baseline configuration raised on {len(base_exc)} valid requests, e.g. {base_exc[0]}")
    # negative control of the comparator: remove the outer tuple / change one axis of an expected tree
    neg_rej = 0
    for item in fam["tape"]:
        e = item["exp"]["res"]
        if e["k"] == "T" and len(e["c"]) == 2 and e["c"][0]["k"] == "T":
            if locate(e, e) is not None or locate(e["c"][0], e) is None or locate(e, {"k": "T", "s": [], "c": e["c"][:1]}) is None:
                raise lib.MachineryError("negative control accepted by the comparator (nesting)")
            neg_rej += 1
            break
    for item in fam["tape"]:
        e = item["exp"]["res"]
        if e["k"] == "A" and len(e["s"]) == 2:
            if locate(e, dict(e, s=e["s"][1:])) != ("shape", ()) or locate(e, dict(e, s=e["s"][::-1] + [1]))[0] != "shape":
                raise lib.MachineryError("negative control accepted by the comparator (shape)")
            neg_rej += 1
            break
    if neg_rej != 2:
        raise lib.MachineryError("no case available for the comparator negative controls")

    # ------------------------------------------------------------ (T) recorded observations of seeded larger requests
    kinds_a = amea + [M("probs", 2), M("dm", 2), M("vnentropy", 1)]
    kinds_f = fmea + [M("probs", 2), M("sample", 2), M("counts", 1)]

    def rand_tape(nn, diffable=False, finite=None):
        finite = rng.random() < 0.6 if finite is None else finite
        pool = [m for m in (kinds_f if finite else kinds_a) if m["w"] <= nn]
        if diffable:
            pool = [m for m in pool if m["kind"] in ("expval", "var", "probs")]
        ms = [dict(rng.choice(pool)) for _ in range(rng.choice([1, 1, 2, 3, 4]))]
        sh = [rng.randint(1, 7) for _ in range(rng.choice([1, 1, 2, 3]))] if finite else []
        if len(sh) > 1 and rng.random() < 0.3:
            sh[1] = sh[0]
        return {"shots": sh, "meas": ms, "b": 0 if diffable else rng.choice([0, 0, 1, 2, 4])}

    n_rand = 250 if quick else 3000
    recs, meta = [], []

    def record(what, nn, ts, args, wrap, ps, obs, cfg):
        recs.append({"n": nn, "tapes": ts, "args": args, "wrap": wrap, "ps": ps, "what": what, "obs": obs})
        meta.append(cfg)

    for i in range(n_rand):
        nn = rng.choice([2, 3])
        r = rng.random()
        if r < 0.45:
            t = rand_tape(nn)
            cfg = rng.choice([c for c in (allcfg if rng.random() < 0.1 else fast_cfg) if supported(c, t)])
            obs = attempt(cfg, lambda: R.res_qnode(t, nn, cfg, i))
            if obs is not None:
                record("res", nn, [t], [], False, [], obs, cfg)
        elif r < 0.65:
            ts = [rand_tape(nn) for _ in range(rng.randint(1, 3))]
            worst = {"shots": max((t["shots"] for t in ts), key=len), "meas": sum((t["meas"] for t in ts), []), "b": 0}
            cfg = rng.choice([c for c in fast_cfg if supported(c, worst)])
            obs = attempt(cfg, lambda: R.res_batch(ts, nn, cfg, i))
            if obs is not None:
                record("bres", nn, ts, [], False, [], obs, cfg)
        elif r < 0.85:
            t = rand_tape(nn, diffable=True)
            args = rng.choice(jargs + [[[3]], [[], [2]]])
            pool = [c for c in (diff_cfg_jax if rng.random() < 0.06 else diff_cfg_fast) if supported(c, t)]
            cfg = rng.choice(pool)
            out = attempt(cfg, lambda: R.jac_qnode(t, nn, cfg, i, args))
            if out is not None:
                record("res", nn, [t], [], False, [], out[0], cfg)
                if out[1] is not None:
                    record("jq", nn, [t], args, len(args) > 1, [], out[1], cfg)
        else:
            ts = [rand_tape(nn, diffable=True, finite=rng.random() < 0.5) for _ in range(rng.randint(1, 2))]
            ps = [rng.randint(1, 3) for _ in ts]
            d, how = rng.choice([(d, "parameter-shift") for d in DEVICES] + [("default.qubit", "adjoint")])
            cfg = (d, "numpy", how)
            if not all(supported(cfg, t) for t in ts):
                continue
            if len(ts) == 1:
                obs = attempt(cfg, lambda: R.jac_tape(ts[0], nn, d, how, i, ps[0]))
                what = "jt"
            else:
                obs = attempt(cfg, lambda: R.jac_batch(ts, nn, d, how, i, ps))
                what = "bjt"
            if obs is not None:
                record(what, nn, ts, [], False, ps, obs, cfg)
    if len(recs) < n_rand // 2:
        raise lib.MachineryError(f"vacuity: only {len(recs)} of {n_rand} seeded requests produced an observation")
    # negative controls for the trace spec: records built from the REQUEST (not from what the code returned)
    t2 = {"shots": [5, 2], "meas": [M("expval"), M("probs", 2)], "b": 0}
    good = {"k": "T", "s": [], "c": [{"k": "T", "s": [], "c": [{"k": "A", "s": [], "c": []}, {"k": "A", "s": [4], "c": []}]}] * 2}
    swapped = {"k": "T", "s": [], "c": [{"k": "T", "s": [], "c": [{"k": "A", "s": [], "c": []}] * 2},
                                        {"k": "T", "s": [], "c": [{"k": "A", "s": [4], "c": []}] * 2}]}
    t1 = {"shots": [], "meas": [M("probs", 1)], "b": 1}
    negs = [("ok", {"n": 3, "tapes": [t2], "args": [], "wrap": False, "ps": [], "what": "res", "obs": good}),
            ("nesting", {"n": 3, "tapes": [t2], "args": [], "wrap": False, "ps": [], "what": "res", "obs": swapped}),
            ("nesting", {"n": 3, "tapes": [t2], "args": [], "wrap": False, "ps": [], "what": "res", "obs": good["c"][0]}),
            ("nesting", {"n": 3, "tapes": [t2], "args": [], "wrap": False, "ps": [], "what": "bres", "obs": good}),
            ("shape", {"n": 2, "tapes": [t1], "args": [], "wrap": False, "ps": [], "what": "res", "obs": {"k": "A", "s": [2], "c": []}}),
            ("ok", {"n": 2, "tapes": [t1], "args": [], "wrap": False, "ps": [], "what": "res", "obs": {"k": "A", "s": [1, 2], "c": []}}),
            ("shape", {"n": 2, "tapes": [t1], "args": [[2]], "wrap": False, "ps": [], "what": "jq", "obs": {"k": "A", "s": [2, 1, 2], "c": []}}),
            ("nesting", {"n": 2, "tapes": [t1], "args": [], "wrap": False, "ps": [2], "what": "jt", "obs": {"k": "A", "s": [2, 1, 2], "c": []}})]
    allrecs = recs + [r for _, r in negs]
    wd2 = lib.workdir("C32", "trace")
    (wd2 / "traces.json").write_text(json.dumps(allrecs))
    tr = lib.run_tlc("Trace_ResultShape", lib.cfg(init="TInit", next_="TNext", constants={"NTRACES": len(allrecs)}), wd2,
                     env={"TRACE_FILE": str(wd2 / "traces.json")}, timeout=3000)
    lib.require_ok(tr, "Trace_ResultShape")
    verd = {v[1] - 1: v[2] for v in tr.tuples if v[0] == "V"}
    if len(verd) != len(allrecs):
        raise lib.MachineryError(f"verdicts not total: {len(verd)} of {len(allrecs)}")
    for k, (want, _) in enumerate(negs):
        if verd[len(recs) + k] != want:
            raise lib.MachineryError(f"trace negative control {k} got verdict {verd[len(recs) + k]!r}, wanted {want!r}")
    neg_rej += sum(1 for w, _ in negs if w != "ok")
    t_by_what = {}
    for j, (r, cfg) in enumerate(zip(recs, meta)):
        v = verd[j]
        t_by_what[r["what"]] = t_by_what.get(r["what"], 0) + 1
        stats["evaluations"] += 1
        pc = per_cfg.setdefault("/".join(cfg), {"ok": 0, "bad": 0, "exc": 0})
        if v == "ok":
            stats["agree"] += 1
            pc["ok"] += 1
            if r["obs"]["k"] == "T":
                nontriv.add(json.dumps({k: r[k] for k in ("n", "tapes", "args", "what", "ps")}, sort_keys=True))
            if len(samples) < 5 and r["what"] in ("jq", "bjt") and r["obs"]["k"] == "T" and r["n"] == 3:
                samples.append({"recorded": {k: r[k] for k in ("n", "tapes", "args", "ps", "what")}, "observed": show(r["obs"]),
                                "config": "/".join(cfg), "verdict": v})
            continue
        if v in ("invalid-request", "malformed"):
            raise lib.MachineryError(f"trace record {j} judged {v}: {json.dumps(r)[:300]}")
        ts = r["tapes"]
        if any(m["kind"] == "counts" for t in ts for m in t["meas"]) and any(t["b"] for t in ts):
            drift["counts_broadcast"] += 1
            continue
        pc["bad"] += 1
        t0 = ts[0] if len(ts) == 1 else None
        kinds = sorted({m["kind"] for t in ts for m in t["meas"]})
        flag(r["what"], v, f"{sig_tape(t0) if t0 else 'batch'}:{'+'.join(kinds)}", cfg,
             {k: r[k] for k in ("n", "tapes", "args", "wrap", "ps")}, {"k": "A", "s": [], "c": []}, r["obs"],
             "recorded observation judged by Trace_ResultShape.tla (expected tree recomputed by TLC)")

    # ------------------------------------------------------------ vacuity
    cfg_ok = {k: v["ok"] + v["bad"] for k, v in per_cfg.items()}
    for d in DEVICES:
        for i in ITFS:
            if sum(v for k, v in cfg_ok.items() if k.startswith(f"{d}/{i}/")) < 5:
                raise lib.MachineryError(f"vacuous: fewer than 5 observations for {d} x {i}")
    for m in DMS:
        if sum(v for k, v in cfg_ok.items() if k.endswith("/" + m)) < 20:
            raise lib.MachineryError(f"vacuous: fewer than 20 observations for diff method {m}")
    for k in ("jq", "jt", "jq_wrapped", "jq_shotvector", "jq_multi_meas"):
        if jcount[k] < 5 and not viol:
            raise lib.MachineryError(f"vacuous: branch '{k}' exercised {jcount[k]} times")
    cov = {"states": g.distinct + tr.distinct, "transitions": g.generated + tr.generated,
           "traces_validated_against_impl": len(recs), "evaluations": stats["evaluations"],
           "distinct_nontrivial": len(nontriv),
           "rule": "non-trivial = distinct request whose expected tree has at least one tuple level or a broadcast axis (not a bare "
                   "unbatched leaf) and on which every attempted configuration agreed with the tree computed by TLC; recorded "
                   "observations count when TLC judged them ok and the observed tree has a tuple level",
           "samples": samples, "exhaustive": True,
           "model": {"module": "ResultShape", "invariant": "Laws (single unwrapped, tuple of the single-measurement results, shot vector = "
                     "outer tuple of single-execution results, broadcast = one leading axis, Jacobian = result nesting with parameter "
                     "axes appended, batch = tuple of tape results)",
                     "cases": {k: len(v) for k, v in fam.items()}, "bounds": dict(consts, shot_lists=shotlists, broadcast=bsizes,
                                                                                 jac_shot_lists=jshots, jac_arg_shapes=jargs)},
           "agree": stats["agree"], "unsupported_configuration_exceptions": stats["exceptions"], "exception_types": exc_types,
           "jacobian_not_expressible_in_framework": stats["not_expressible"], "per_configuration": per_cfg,
           "jacobian_observations": jcount, "recorded_by_kind": t_by_what, "model_drift": drift,
           "negative_controls_rejected": neg_rej, "tlc_wall_s": [round(g.wall_s, 1), round(tr.wall_s, 1)]}
    return CheckResult(coverage=cov, violations=viol, assumptions=[
        "every enumerated request is replayed on all three devices with the numpy interface; the other (device, interface, diff method) "
        "combinations are a seeded sample per request (all of them in the thorough tier except jax, which is sampled)",
        "configurations the library documents as unsupported are not attempted (backprop / adjoint with finite shots, adjoint off "
        "default.qubit, qp.state on default.mixed); any other exception is counted, not judged",
        "counts under parameter broadcasting: the return type specification leaves the container open, disagreements are drift",
        "list and tuple are interchangeable (return type specification); dtypes and values are not compared",
        "autograd Jacobians only for single-array results (the framework cannot differentiate tuple-valued functions); torch "
        "Jacobians of nested results are taken on the flattened outputs and put back into the result's nesting"])
