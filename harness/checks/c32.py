"""C32 Result structure depends only on the request.

(M) ResultShape.tla states, from the return type specification and the measurement / gradient-transform documentation,
    the abstract shape tree (tuple / array-with-shape / dict) of a result and of its Jacobians as a pure function of the
    REQUEST (tapes in the batch, expanded shot list, measurement list, broadcast size, shapes of the differentiated
    arguments) - no device, interface or diff method occurs in it.  ResultShapeGen.tla enumerates every small request and
    TLC checks the clauses of the statement on the specification itself (invariant Laws: single measurement unwrapped,
    several -> tuple of the single results, shot vector -> outer tuple of the single-execution results, broadcasting = one
    leading axis, Jacobian = result nesting with the parameter axes appended).
(R) spec -> code: TLC emits each request with the expected trees; the driver (harness/c32_driver.py) runs the request
    through QNodes, qp.execute, gradient transforms, device derivatives, JacobianProductCalculators and the framework
    Jacobians on default.qubit / default.mixed / reference.qubit x numpy / autograd / jax / torch x backprop /
    parameter-shift / adjoint and the observed trees are compared with the emitted ones.
(T) code -> spec: seeded larger requests (3 wires, longer measurement lists and shot vectors, batches of up to 3 tapes)
    are executed on seeded configurations, one JSON record per observation (request + observed tree, nothing about the
    configuration); Trace_ResultShape.tla recomputes the tree from the request and prints a verdict per record.
The evaluations are planned first (seeded), the jax ones run in a worker process beside the others, then all are judged."""
import json
import os
import random
import subprocess
import sys
import time

from .. import lib
from ..c32_driver import execute, locate, show
from ..lib import CheckResult, Violation

DEVICES = ["default.qubit", "default.mixed", "reference.qubit"]
ITFS = ["numpy", "autograd", "jax", "torch"]
DMS = ["none", "backprop", "parameter-shift", "adjoint"]
BASE = ("default.qubit", "numpy", "none")
ALLCFG = [(d, i, m) for d in DEVICES for i in ITFS for m in DMS]
FAST = [c for c in ALLCFG if c[1] != "jax"]
JAXC = [c for c in ALLCFG if c[1] == "jax"]
DIFF_FAST = [c for c in FAST if c[1] != "numpy" and c[2] != "none"]
DIFF_JAX = [c for c in JAXC if c[2] != "none"]
TAPE_LEVEL = [(d, "numpy", "parameter-shift") for d in DEVICES] + [("default.qubit", "numpy", "adjoint")]
W = {"numpy": 2, "autograd": 3, "torch": 1}          # torch calls cost about ten times an autograd call


# ------------------------------------------------------------------------------------------ request -> TLA+ text
def tla_meas(m):
    return f'[kind |-> "{m["kind"]}", w |-> {m["w"]}]'


def tla_seq(xs):
    return "<<" + ", ".join(str(x) for x in xs) + ">>"


def tla_set(xs):
    return "{" + ", ".join(xs) + "}"


def tla_tape(t):
    return f'[shots |-> {tla_seq(t["shots"])}, meas |-> {tla_seq(tla_meas(m) for m in t["meas"])}, b |-> {t["b"]}]'


def M(kind, w=0):
    return {"kind": kind, "w": w}


def supported(cfg, t):
    """configurations that the library documents as unsupported are not attempted (everything else is, and an exception is counted)"""
    d, itf, dm = cfg
    if dm == "backprop" and (t["shots"] or d == "reference.qubit"):
        return False
    if dm == "adjoint" and (t["shots"] or d != "default.qubit" or any(m["kind"] != "expval" for m in t["meas"])):
        return False          # adjoint differentiation: analytic expectation values on default.qubit
    if d == "default.mixed" and any(m["kind"] == "state" for m in t["meas"]):
        return False          # documented: qp.state() on a mixed-state device is the density matrix
    return True


def union_tape(ts):
    return {"shots": max((t["shots"] for t in ts), key=len), "meas": sum((t["meas"] for t in ts), []), "b": 0}


def meas_at(t, path):
    """measurement kind at the position `path` of a tree of one tape"""
    p = list(path)
    if len(t["shots"]) > 1:
        if not p:
            return "*"
        p = p[1:]
    if len(t["meas"]) == 1:
        return t["meas"][0]["kind"]
    return t["meas"][p[0]]["kind"] if p else "*"


def sig_tape(t):
    sh = "analytic" if not t["shots"] else ("shots" if len(t["shots"]) == 1 else "shotvector")
    return f"b={t['b'] if t['b'] < 2 else 'n'}:{sh}:{'single' if len(t['meas']) == 1 else 'multi'}"


def run_jobs(jobs, wd):
    """execute the planned jobs: the jax ones in a worker process, the others here; -> {id: result}"""
    jj = [j for j in jobs if j["cfg"][1] == "jax"]
    proc = None
    if jj:
        (wd / "jax_jobs.json").write_text(json.dumps(jj))
        env = dict(os.environ)
        env["PYTHONPATH"] = os.pathsep.join(p for p in (env.get("PYTHONPATH"), str(lib.VERIF)) if p)
        proc = subprocess.Popen([sys.executable, "-W", "ignore", "-m", "harness.c32_driver", str(wd / "jax_jobs.json"), str(wd / "jax_out.json")],
                                cwd=str(lib.VERIF), env=env, stdout=subprocess.DEVNULL, stderr=subprocess.PIPE, text=True)
    res, cpu = {}, {}
    for j in jobs:
        if j["cfg"][1] != "jax":
            t0 = time.process_time()
            res[j["id"]] = execute(j)
            a = cpu.setdefault(j["cfg"][1], [0, 0.0])
            a[0] += 1
            a[1] += time.process_time() - t0
    t0 = time.time()
    if proc:
        try:
            _, err = proc.communicate(timeout=3000)
        except subprocess.TimeoutExpired:
            proc.kill()
            raise lib.MachineryError("the jax worker timed out")
        if proc.returncode != 0:
            raise lib.MachineryError("the jax worker failed: " + err[-800:])
        for r in json.loads((wd / "jax_out.json").read_text()):
            res[r["id"]] = r
        cpu["jax"] = [len(jj), 0.0]
    return res, {k: [v[0], round(v[1], 1)] for k, v in cpu.items()}, round(time.time() - t0, 1)


# ------------------------------------------------------------------------------------------ the check
def run(tier, seed):
    quick = tier == "quick"
    rng = random.Random(seed)
    n = 2
    amea = [M("expval"), M("var"), M("probs", 1), M("probs", 0), M("state"), M("dm", 1), M("purity", 1)]
    fmea = [M("expval"), M("var"), M("probs", 1), M("probs", 0), M("sample", 1), M("sample", 0), M("sampleobs"), M("counts")]
    jmea = [M("expval"), M("var"), M("probs", 1), M("probs", 0)]
    shotlists = [[1], [3], [1, 3], [3, 3]] + ([] if quick else [[2, 1, 2]])
    bsizes = [0, 1, 3]
    jshots = [[], [3], [2, 3]]
    jargs = [[[]], [[2]], [[], []], [[1]], [[2], []]] + ([] if quick else [[[2, 2]], [[1], [2]]])
    btapes = [{"shots": [], "meas": [M("expval")], "b": 0}, {"shots": [], "meas": [M("probs", 1), M("state")], "b": 0},
              {"shots": [3], "meas": [M("sample", 0)], "b": 0}, {"shots": [1, 3], "meas": [M("expval"), M("counts")], "b": 0},
              {"shots": [], "meas": [M("var")], "b": 2}, {"shots": [2, 2], "meas": [M("probs", 0)], "b": 1},
              {"shots": [], "meas": [M("expval"), M("probs", 0)], "b": 0}, {"shots": [2, 3], "meas": [M("var"), M("expval")], "b": 0}]
    consts = {"N": n, "MaxMeas": 2 if quick else 3, "JMaxMeas": 2, "MaxBatch": 2 if quick else 3}
    defs = {"AMeas": tla_set(map(tla_meas, amea)), "FMeas": tla_set(map(tla_meas, fmea)), "JMeas": tla_set(map(tla_meas, jmea)),
            "ShotLists": tla_set(map(tla_seq, shotlists)), "BSizes": tla_set(map(str, bsizes)),
            "JShotLists": tla_set(map(tla_seq, jshots)), "JBSizes": "{0}" if quick else "{0, 2}",
            "JArgs": tla_set(tla_seq(tla_seq(a) for a in args) for args in jargs),
            "BTapes": tla_set(map(tla_tape, btapes))}
    g = lib.run_tlc_mc("ResultShapeGen", defs, lib.workdir("C32", "gen"), constants=consts, invariants=["Laws"], timeout=3000)
    if g.invariant_violated:
        raise lib.MachineryError("ResultShape violates the clauses of the statement (oracle error): " + g.out[-1500:])
    lib.require_ok(g, "ResultShapeGen")
    cases = sorted(g.json_lines, key=lambda x: json.dumps(x["c"], sort_keys=True))
    fam = {f: [x for x in cases if x["c"]["fam"] == f] for f in ("tape", "jac", "batch")}
    if len(fam["tape"]) < 1000 or len(fam["jac"]) < 200 or len(fam["batch"]) < 40:
        raise lib.MachineryError("generator produced too few cases: " + str({k: len(v) for k, v in fam.items()}))

    # ================================================================ plan (seeded, nothing is executed here)
    jobs = []
    jrot = [0]

    def job(op, nn, ts, cfg, variant, args=(), ps=()):
        jobs.append(dict(id=len(jobs), op=op, n=nn, tapes=ts, cfg=list(cfg), variant=variant, args=list(args), ps=list(ps)))
        return jobs[-1]["id"]

    def pick_cfgs(t, k_fast, use_jax, pool_fast=FAST, pool_jax=JAXC):
        """seeded choice of configurations for one request: k_fast non-jax ones (+ one jax configuration when asked)"""
        pf = [c for c in pool_fast if supported(c, t) and c != BASE]
        pj = [c for c in pool_jax if supported(c, t)]
        out = []
        while pf and len(out) < k_fast:                    # weighted sample without replacement
            c = rng.choices(pf, weights=[W[x[1]] for x in pf], k=1)[0]
            out.append(c)
            pf.remove(c)
        if pj and use_jax:
            want = DEVICES[jrot[0] % len(DEVICES)]         # rotate over the devices so that each one is seen through jax
            jrot[0] += 1
            out.append(rng.choice([c for c in pj if c[0] == want] or pj))
        return out

    def jac_pool(t):
        """autograd differentiates array-valued functions only: it is offered the requests whose result is a single array"""
        single = len(t["meas"]) == 1 and len(t["shots"]) <= 1
        return [c for c in DIFF_FAST if supported(c, t) and (single or c[1] != "autograd")]

    def slots(total, k):
        """k seeded positions out of `total` at which a jax configuration is added (a jax call costs about a second)"""
        return set(rng.sample(range(total), min(k, total)))

    # (R1) results of single circuits: QNode call, or qp.execute of a batch of one (every fourth evaluation)
    k_fast, jx = (1, slots(len(fam["tape"]), 9)) if quick else (3, slots(len(fam["tape"]), 150))
    for ci, item in enumerate(fam["tape"]):
        t = item["c"]["tapes"][0]
        cfgs = [BASE] + ([] if quick else [(d, "numpy", "none") for d in DEVICES[1:] if supported((d, "numpy", "none"), t)])
        cfgs += pick_cfgs(t, k_fast, ci in jx)
        cfgs += [c for c in FAST if c[2] == "adjoint" and supported(c, t)]          # few requests admit adjoint: take them all
        item["jobs"] = [job("res_batch" if (ci + k) % 4 == 3 else "res_qnode", n, [t], cfg, ci) for k, cfg in enumerate(dict.fromkeys(cfgs))]
    # (R2) batches: results on every device + sampled configurations; Jacobians of the batch through the JacobianProductCalculators
    for ci, item in enumerate(fam["batch"]):
        ts = item["c"]["tapes"]
        worst = union_tape(ts)
        cfgs = [(d, "numpy", "none") for d in DEVICES if supported((d, "numpy", "none"), worst)]
        cfgs += pick_cfgs(worst, 2, ci % (20 if quick else 2) == 1)
        item["jobs"] = [job("res_batch", n, ts, cfg, ci) for cfg in dict.fromkeys(cfgs)]
        if item["exp"]["P"] and locate(item["exp"]["res"], item["drift"]["bsq"]) is None:      # (not on the batch-size-1 drift requests)
            item["jobs"] += [job("jac_batch", n, ts, cfg, ci, ps=[2] * len(ts)) for cfg in TAPE_LEVEL if cfg[0] != "reference.qubit"
                             and supported(cfg, worst)]
    # (R3) Jacobians: framework Jacobian of the QNode, and tape-level Jacobians (gradient transform / device derivatives)
    k_fast, jx = (1, slots(len(fam["jac"]), 6)) if quick else (6, slots(len(fam["jac"]), 100))
    for ci, item in enumerate(fam["jac"]):
        t, args = item["c"]["tapes"][0], item["c"]["args"]
        cfgs = pick_cfgs(t, k_fast, ci in jx, jac_pool(t), DIFF_JAX) + [c for c in jac_pool(t) if c[2] == "adjoint"]
        item["jobs"] = [job("jac_qnode", n, [t], cfg, ci, args=args) for cfg in dict.fromkeys(cfgs)]
        item["jobs"] += [job("jac_tape", n, [t], cfg, ci, ps=[item["exp"]["P"]])
                         for cfg in ([TAPE_LEVEL[ci % len(TAPE_LEVEL)]] if quick else TAPE_LEVEL) if supported(cfg, t)]
    # (T) seeded larger requests, recorded and judged by Trace_ResultShape.tla
    kinds_a = amea + [M("probs", 2), M("dm", 2), M("vnentropy", 1)]
    kinds_f = fmea + [M("probs", 2), M("sample", 2), M("counts", 1)]

    def rand_tape(nn, diffable=False, finite=None):
        finite = rng.random() < 0.6 if finite is None else finite
        pool = [m for m in (kinds_f if finite else kinds_a) if m["w"] <= nn]
        if diffable:
            pool = [m for m in pool if m["kind"] in ("expval", "var", "probs")]
        ms = [dict(rng.choice(pool)) for _ in range(rng.choice([1, 1, 2, 3, 4]))]
        sh = [rng.randint(1, 7) for _ in range(rng.choice([1, 1, 2, 3]))] if finite else []
        if len(sh) > 1 and rng.random() < 0.3:
            sh[1] = sh[0]
        return {"shots": sh, "meas": ms, "b": 0 if diffable else rng.choice([0, 0, 1, 2, 4])}

    n_rand = 200 if quick else 3000
    jax_every = 70 if quick else 30
    tjobs = []
    for i in range(n_rand):
        nn = rng.choice([2, 3])
        r = rng.random()
        if r < 0.45:
            t = rand_tape(nn)
            cfg = rng.choice([c for c in (JAXC if i % jax_every == 7 else FAST) if supported(c, t)])
            tjobs.append(job("res_qnode", nn, [t], cfg, i))
        elif r < 0.65:
            ts = [rand_tape(nn) for _ in range(rng.randint(1, 3))]
            tjobs.append(job("res_batch", nn, ts, rng.choice([c for c in FAST if supported(c, union_tape(ts))]), i))
        elif r < 0.85:
            t = rand_tape(nn, diffable=True)
            args = rng.choice(jargs + [[[3]], [[], [2]]])
            cfg = rng.choice([c for c in (DIFF_JAX if i % jax_every == 3 else jac_pool(t)) if supported(c, t)])
            tjobs.append(job("jac_qnode", nn, [t], cfg, i, args=args))
        else:
            ts = [rand_tape(nn, diffable=True, finite=rng.random() < 0.5) for _ in range(rng.randint(1, 2))]
            cfg = rng.choice(TAPE_LEVEL)
            if all(supported(cfg, t) for t in ts):
                tjobs.append(job("jac_tape" if len(ts) == 1 else "jac_batch", nn, ts, cfg, i, ps=[rng.randint(1, 3) for _ in ts]))

    # ================================================================ execute
    t0 = time.time()
    results, cpu_by_itf, jax_wait = run_jobs(jobs, lib.workdir("C32", "jobs"))
    exec_wall = round(time.time() - t0, 1)

    # ================================================================ judge
    viol, seen_keys = [], {}
    stats = {"evaluations": 0, "agree": 0, "exceptions": 0, "not_expressible": 0}
    per_cfg, exc_types, exc_examples, nontriv, samples = {}, {}, {}, set(), []
    drift = {"counts_broadcast": 0, "batch1_sampled_statistic_axis_dropped": 0}
    b1_behaviour = {"documented": {}, "variant": {}}       # configuration -> example request, on requests where the two trees differ
    base_exc = []

    def flag(what, clause, where, cfg, req, exp, obs, origin):
        key = f"{what}:{clause}:{where}:{cfg[0]}:{cfg[1]}:{cfg[2]}"
        seen_keys[key] = seen_keys.get(key, 0) + 1
        if seen_keys[key] > 1:
            return
        viol.append(Violation(key=key, detail=f"{what} of request {json.dumps(req)} on device={cfg[0]} interface={cfg[1]} "
                                             f"diff_method={cfg[2]}: expected {show(exp) if exp else '(recomputed by TLC)'} got {show(obs)} [{origin}]",
                              replay={"request": req, "config": list(cfg), "what": what, "expected": exp, "observed": obs}))

    def pcfg(cfg):
        return per_cfg.setdefault("/".join(cfg), {"ok": 0, "bad": 0, "exc": 0})

    def outcome(jid):
        """result of a job, or None when the code raised (an unsupported configuration: counted by exception class)"""
        r, cfg = results[jid], tuple(jobs[jid]["cfg"])
        if r["exc"] is None:
            return r
        stats["exceptions"] += 1
        pcfg(cfg)["exc"] += 1
        name = r["exc"][0]
        exc_types[name] = exc_types.get(name, 0) + 1
        if len(exc_examples) < 12:
            exc_examples.setdefault(f"{'/'.join(cfg)}: {name}", r["exc"][1][:160])
        if cfg == BASE:
            base_exc.append(f"{name}: {r['exc'][1]}")
        return None

    def judge(what, req, t, cfg, exp, obs, variant=None):
        """compare one observed tree with the tree emitted by TLC (variant: the tolerated batch-size-1 tree emitted by TLC)"""
        stats["evaluations"] += 1
        r = locate(exp, obs)
        if variant is not None and locate(exp, variant) is not None:        # a request on which documented and variant tree differ
            if r is None:
                b1_behaviour["documented"].setdefault(cfg, req)
            elif locate(variant, obs) is None:
                b1_behaviour["variant"].setdefault(cfg, req)
                drift["batch1_sampled_statistic_axis_dropped"] += 1
                pcfg(cfg)["ok"] += 1
                return True
        if r is None:
            stats["agree"] += 1
            pcfg(cfg)["ok"] += 1
            return True
        clause, path = r
        kind = meas_at(t, path[1:] if what in ("bres", "bjt") else path) if t else "*"
        if kind == "counts" and t and t["b"] > 0:
            drift["counts_broadcast"] += 1        # documented: non-tensorlike results may handle broadcasting differently
            return True
        pcfg(cfg)["bad"] += 1
        flag(what, clause, f"{sig_tape(t) if t else 'batch'}:{kind}", cfg, req, exp, obs, "replay of TLC case")
        return False

    # ---- (R1)
    for ci, item in enumerate(fam["tape"]):
        c, exp, dr = item["c"], item["exp"], item["drift"]
        t = c["tapes"][0]
        allok = True
        for jid in item["jobs"]:
            r, cfg = outcome(jid), tuple(jobs[jid]["cfg"])
            if r is None:
                continue
            if jobs[jid]["op"] == "res_batch":
                allok &= judge("bres", c, t, cfg, exp["bres"], r["obs"], dr["bsq"])
            else:
                allok &= judge("res", c, t, cfg, exp["res"], r["obs"], dr["sq"])
        if allok and (exp["res"]["k"] == "T" or t["b"]):
            nontriv.add(json.dumps(c, sort_keys=True))
        if len(samples) < 2 and len(t["shots"]) > 1 and len(t["meas"]) > 1 and t["b"] == 3 and allok and ci % 7 == len(samples):
            samples.append({"request": t, "expected_result": show(exp["res"])})
    # ---- (R2)
    for item in fam["batch"]:
        c, exp, dr = item["c"], item["exp"], item["drift"]
        ts = c["tapes"]
        one = None if len(ts) > 1 else ts[0]
        allok = True
        for jid in item["jobs"]:
            r, cfg = outcome(jid), tuple(jobs[jid]["cfg"])
            if r is None:
                continue
            if jobs[jid]["op"] == "res_batch":
                allok &= judge("bres", c, one, cfg, exp["res"], r["obs"], dr["bsq"])
            else:
                allok &= judge("bjt", c, one, cfg, exp["jt"], r["jac"])
        if allok:
            nontriv.add(json.dumps(c, sort_keys=True))
        if len(samples) < 3 and len(ts) == 2 and allok and ts[0] != ts[1] and len(ts[1]["shots"]) > 1:
            samples.append({"batch": ts, "expected_result": show(exp["res"])})
    # ---- (R3)
    jcount = {"jq": 0, "jt": 0, "jq_wrapped": 0, "jq_shotvector": 0, "jq_multi_meas": 0}
    for item in fam["jac"]:
        c, exp = item["c"], item["exp"]
        t = c["tapes"][0]
        allok = True
        for jid in item["jobs"]:
            r, cfg = outcome(jid), tuple(jobs[jid]["cfg"])
            if r is None:
                continue
            if jobs[jid]["op"] == "jac_tape":
                ok = judge("jt", c, t, cfg, exp["jt"], r["jac"])
                allok &= ok
                jcount["jt"] += ok
                continue
            allok &= judge("res", c, t, cfg, exp["res"], r["obs"])
            if r["jac"] is None:
                stats["not_expressible"] += 1
                continue
            ok = judge("jq", c, t, cfg, exp["jq"], r["jac"])
            allok &= ok
            jcount["jq"] += ok
            jcount["jq_wrapped"] += ok and c["wrap"]
            jcount["jq_shotvector"] += ok and len(t["shots"]) > 1
            jcount["jq_multi_meas"] += ok and len(t["meas"]) > 1
        if allok:
            nontriv.add(json.dumps(c, sort_keys=True))
        if len(samples) < 4 and allok and c["wrap"] and len(t["shots"]) > 1 and len(t["meas"]) > 1:
            samples.append({"request": t, "arg_shapes": c["args"], "expected_result": show(exp["res"]),
                            "expected_qnode_jacobian": show(exp["jq"]), "expected_tape_jacobian": show(exp["jt"])})
    if base_exc:
        raise lib.MachineryError(f"vacuity: the baseline configuration raised on {len(base_exc)} valid requests, e.g. {base_exc[0]}")
    # negative control of the comparator: remove the outer tuple / change one axis of an expected tree
    neg_rej = 0
    for item in fam["tape"]:
        e = item["exp"]["res"]
        if e["k"] == "T" and len(e["c"]) == 2 and e["c"][0]["k"] == "T":
            if locate(e, e) is not None or locate(e["c"][0], e) is None or locate(e, {"k": "T", "s": [], "c": e["c"][:1]}) is None:
                raise lib.MachineryError("negative control accepted by the comparator (nesting)")
            neg_rej += 1
            break
    for item in fam["tape"]:
        e = item["exp"]["res"]
        if e["k"] == "A" and len(e["s"]) == 2:
            if locate(e, dict(e, s=e["s"][1:])) != ("shape", ()) or locate(e, dict(e, s=e["s"][::-1] + [1]))[0] != "shape":
                raise lib.MachineryError("negative control accepted by the comparator (shape)")
            neg_rej += 1
            break
    if neg_rej != 2:
        raise lib.MachineryError("no case available for the comparator negative controls")

    # ---- (T) one record per observation; the record does not say where it was observed
    recs, meta = [], []

    def record(what, j, obs, args=(), ps=()):
        recs.append({"n": j["n"], "tapes": j["tapes"], "args": list(args), "wrap": len(args) > 1, "ps": list(ps), "what": what, "obs": obs})
        meta.append(tuple(j["cfg"]))

    for jid in tjobs:
        j, r = jobs[jid], outcome(jid)
        if r is None:
            continue
        if j["op"] == "res_qnode":
            record("res", j, r["obs"])
        elif j["op"] == "res_batch":
            record("bres", j, r["obs"])
        elif j["op"] == "jac_qnode":
            record("res", j, r["obs"])
            if r["jac"] is None:
                stats["not_expressible"] += 1
            else:
                record("jq", j, r["jac"], args=j["args"])
        else:
            record("jt" if j["op"] == "jac_tape" else "bjt", j, r["jac"], ps=j["ps"])
    if len(recs) < n_rand // 2:
        raise lib.MachineryError(f"vacuity: only {len(recs)} observations from {n_rand} seeded requests")
    # negative controls for the trace spec: records built from the REQUEST (not from what the code returned)
    t2 = {"shots": [5, 2], "meas": [M("expval"), M("probs", 2)], "b": 0}
    sc, p4 = {"k": "A", "s": [], "c": []}, {"k": "A", "s": [4], "c": []}

    def tup(*ch):
        return {"k": "T", "s": [], "c": list(ch)}
    good = tup(tup(sc, p4), tup(sc, p4))
    t1 = {"shots": [], "meas": [M("probs", 1)], "b": 1}
    t3 = {"shots": [4], "meas": [M("var")], "b": 1}

    def nrec(nn, t, what, obs, args=(), ps=()):
        return {"n": nn, "tapes": [t], "args": list(args), "wrap": False, "ps": list(ps), "what": what, "obs": obs}
    negs = [("ok", nrec(3, t2, "res", good)),
            ("shape", nrec(3, t2, "res", tup(tup(sc, sc), tup(p4, p4)))),              # shot and measurement levels exchanged
            ("nesting", nrec(3, t2, "res", good["c"][0])),                             # the shot tuple is missing
            ("nesting", nrec(3, t2, "bres", good)),                                    # the batch tuple is missing
            ("nesting", nrec(3, t2, "res", tup(sc, p4, sc, p4))),                      # flattened
            ("shape", nrec(2, t1, "res", {"k": "A", "s": [2], "c": []})),              # analytic batch of one without its axis
            ("ok", nrec(2, t1, "res", {"k": "A", "s": [1, 2], "c": []})),
            ("drift-batch1", nrec(2, t3, "res", sc)),
            ("ok", nrec(2, t3, "res", {"k": "A", "s": [1], "c": []})),
            ("shape", nrec(2, t1, "jq", {"k": "A", "s": [2, 1, 2], "c": []}, args=[[2]])),   # parameter axis not last
            ("nesting", nrec(2, t1, "jt", {"k": "A", "s": [2, 1, 2], "c": []}, ps=[2]))]      # parameters stacked instead of a tuple
    allrecs = recs + [r for _, r in negs]
    wd2 = lib.workdir("C32", "trace")
    (wd2 / "traces.json").write_text(json.dumps(allrecs))
    tr = lib.run_tlc("Trace_ResultShape", lib.cfg(init="TInit", next_="TNext", constants={"NTRACES": len(allrecs)}), wd2,
                     env={"TRACE_FILE": str(wd2 / "traces.json")}, timeout=3000)
    lib.require_ok(tr, "Trace_ResultShape")
    verd = {v[1] - 1: v[2] for v in tr.tuples if v[0] == "V"}
    if len(verd) != len(allrecs):
        raise lib.MachineryError(f"verdicts not total: {len(verd)} of {len(allrecs)}")
    for k, (want, _) in enumerate(negs):
        if verd[len(recs) + k] != want:
            raise lib.MachineryError(f"trace negative control {k} got verdict {verd[len(recs) + k]!r}, wanted {want!r}")
    neg_rej += sum(1 for w, _ in negs if w not in ("ok", "drift-batch1"))
    t_by_what = {}
    for j, (r, cfg) in enumerate(zip(recs, meta)):
        v = verd[j]
        t_by_what[r["what"]] = t_by_what.get(r["what"], 0) + 1
        stats["evaluations"] += 1
        ts = r["tapes"]
        req = {k: r[k] for k in ("n", "tapes", "args", "wrap", "ps", "what")}
        b1_req = r["what"] in ("res", "bres") and any(
            t["b"] == 1 and t["shots"] and any(m["kind"] in ("expval", "var", "probs") for m in t["meas"]) for t in ts)
        if v == "ok":
            stats["agree"] += 1
            pcfg(cfg)["ok"] += 1
            if b1_req:
                b1_behaviour["documented"].setdefault(cfg, req)
            if r["obs"]["k"] == "T":
                nontriv.add(json.dumps(req, sort_keys=True))
            if len(samples) < 5 and r["what"] in ("jq", "bjt") and r["obs"]["k"] == "T" and r["n"] == 3:
                samples.append({"recorded": req, "observed": show(r["obs"]), "config": "/".join(cfg), "verdict": v})
            continue
        if v == "drift-batch1":
            drift["batch1_sampled_statistic_axis_dropped"] += 1
            b1_behaviour["variant"].setdefault(cfg, req)
            pcfg(cfg)["ok"] += 1
            continue
        if v in ("invalid-request", "malformed"):
            raise lib.MachineryError(f"trace record {j} judged {v}: {json.dumps(r)[:300]}")
        if any(m["kind"] == "counts" for t in ts for m in t["meas"]) and any(t["b"] for t in ts):
            drift["counts_broadcast"] += 1
            continue
        pcfg(cfg)["bad"] += 1
        t0_ = ts[0] if len(ts) == 1 else None
        kinds = sorted({m["kind"] for t in ts for m in t["meas"]})
        flag(r["what"], v, f"{sig_tape(t0_) if t0_ else 'batch'}:{'+'.join(kinds)}", cfg, req, None, r["obs"],
             "recorded observation judged by Trace_ResultShape.tla")
    # the tolerated batch-size-1 variant must not depend on the configuration (that WOULD be the property)
    if b1_behaviour["documented"] and b1_behaviour["variant"]:
        ca, ra = next(iter(b1_behaviour["documented"].items()))
        cb, rb = next(iter(b1_behaviour["variant"].items()))
        viol.append(Violation(
            key=f"res:config-dependent:b=1:finite-shots:{'/'.join(ca)}-vs-{'/'.join(cb)}",
            detail=f"with a batch size of 1 and finite shots, expval/var/probs keep the broadcast axis on {sorted('/'.join(c) for c in b1_behaviour['documented'])} "
                   f"and drop it on {sorted('/'.join(c) for c in b1_behaviour['variant'])}: the shape depends on the configuration",
            replay={"keeps_axis": {"config": list(ca), "request": ra}, "drops_axis": {"config": list(cb), "request": rb}}))

    # ---- vacuity
    cfg_n = {k: v["ok"] + v["bad"] for k, v in per_cfg.items()}
    for d in DEVICES:
        for i in ITFS:
            if sum(v for k, v in cfg_n.items() if k.startswith(f"{d}/{i}/")) < (3 if i == "jax" else 20):
                raise lib.MachineryError(f"vacuous: too few observations for {d} x {i}: {cfg_n}")
    for m in DMS:
        if sum(v for k, v in cfg_n.items() if k.endswith("/" + m)) < 15:
            raise lib.MachineryError(f"vacuous: fewer than 15 observations for diff method {m}")
    for k in ("jq", "jt", "jq_wrapped", "jq_shotvector", "jq_multi_meas"):
        if jcount[k] < 5 and not viol:
            raise lib.MachineryError(f"vacuous: branch '{k}' exercised {jcount[k]} times")
    cov = {"states": g.distinct + tr.distinct, "transitions": g.generated + tr.generated,
           "traces_validated_against_impl": len(recs), "evaluations": stats["evaluations"],
           "distinct_nontrivial": len(nontriv),
           "rule": "non-trivial = distinct request whose expected tree has at least one tuple level or a broadcast axis (not a bare "
                   "unbatched leaf) and on which every attempted configuration agreed with the tree computed by TLC; recorded "
                   "observations count when TLC judged them ok and the observed tree has a tuple level",
           "samples": samples, "exhaustive": True,
           "model": {"module": "ResultShape", "invariant": "Laws (single unwrapped, tuple of the single-measurement results, shot vector = "
                     "outer tuple of single-execution results, broadcast = one leading axis, Jacobian = result nesting with parameter "
                     "axes appended, batch = tuple of tape results)",
                     "cases": {k: len(v) for k, v in fam.items()}, "bounds": dict(consts, shot_lists=shotlists, broadcast=bsizes,
                                                                                 jac_shot_lists=jshots, jac_arg_shapes=jargs)},
           "agree": stats["agree"], "jobs": len(jobs), "unsupported_configuration_exceptions": stats["exceptions"],
           "exception_types": exc_types, "exception_examples": exc_examples,
           "jacobian_not_expressible_in_framework": stats["not_expressible"], "per_configuration": per_cfg,
           "jacobian_observations": jcount, "recorded_by_kind": t_by_what, "model_drift": drift,
           "batch1_configurations": {k: len(v) for k, v in b1_behaviour.items()},
           "negative_controls_rejected": neg_rej, "tlc_wall_s": [round(g.wall_s, 1), round(tr.wall_s, 1)],
           "execute_wall_s": exec_wall, "waited_for_jax_worker_s": jax_wait, "calls_and_cpu_s_by_interface": cpu_by_itf}
    return CheckResult(coverage=cov, violations=viol, assumptions=[
        "every enumerated request runs on default.qubit/numpy; the other (device, interface, diff method) combinations are a seeded "
        "sample per request in the quick tier (one per request; thorough: all devices with numpy plus 3 sampled combinations, 6 for Jacobians); jax "
        "evaluations are few (XLA warm-up) and run in a worker process",
        "configurations the library documents as unsupported are not attempted (backprop / adjoint with finite shots, adjoint off "
        "default.qubit or with non-expectation measurements, qp.state on default.mixed); any other exception is counted, not judged",
        "batch size 1 with finite shots: expval/var/probs come back without the broadcast axis although the return type "
        "specification asks for it; the statement only requires the shape to be a function of the request, so this is counted as "
        "drift (model_drift.batch1_sampled_statistic_axis_dropped) and a violation is raised only if configurations disagree about it",
        "counts under parameter broadcasting: the return type specification leaves the container open, disagreements are drift",
        "list and tuple are interchangeable (return type specification); dtypes and values are not compared",
        "autograd Jacobians only for single-array results (the framework cannot differentiate tuple-valued functions); torch "
        "Jacobians of nested results are taken on the flattened outputs and put back into the result's nesting"])
