"""C16 Exact ring arithmetic behind gridsynth is lawful.

(M) ZRings.tla is a reference implementation of Z[sqrt2], Z[omega], 2x2 matrices over D[omega] and 3x3 matrices over
    D[sqrt2], written from the definitions (negacyclic convolution, w -> w^-1, w -> -w, adjoint representation).
    ZRingsGen.tla: TLC proves the ring laws ON THE REFERENCE for every element / pair of a coefficient box (-2..2 for
    Z[omega], -3..3 for Z[sqrt2]), every triple of the box -1..1 (-3..3), cross-checks the product against Cyclo.tla, and
    for every word over {H, T} up to a length bound unitarity, SO(3) orthogonality and homomorphism, (anti)automorphisms.
(R) spec -> code: every enumerated operation (x op y for all pairs, unary / integer operations, conversions, square roots,
    matrix products / sums / SO(3) images of all word pairs) is emitted with the expected value and executed on
    pennylane's ZSqrtTwo / ZOmega / DyadicMatrix / SO3Matrix.
(T) code -> spec: seeded random elements with larger coefficients, law instances computed by the real classes, the
    operations without a unique reference value (%, /, sqrt, normalize, gcd), the norm-equation solver, modular square
    roots and the primality test are recorded; Trace_ZRings.tla re-computes every result, checks the law instances on
    the recorded outputs, validates solutions BY SUBSTITUTION (t^+ t = xi, r^2 = a mod p) and decides primality by trial
    division.
(P) PrimeCutGen.tla (spec -> code): the cut-off numbers of a trial-division screen - for every prime p up to a bound, the
    products p*q with the next primes q >= p and their neighbours p*q + d, each with its primality decided by TLC (invariant
    CutSound: the oracle agrees with the definition of primality) - are replayed into _primality_test; the products also
    go through _prime_factorize and the norm equation of rational integers b^2 + d^2 (evidence / mechanism only).
"""
import json
import math
import random
import signal
import time
from collections import Counter

from pennylane.ops.op_math.decompositions import norm_solver as ns
from pennylane.ops.op_math.decompositions.rings import DyadicMatrix, SO3Matrix, ZOmega, ZSqrtTwo

from .. import lib
from ..lib import CheckResult, Violation

PID = "C16"
INVARIANTS = ["LawS2", "LawS2T", "LawOm", "LawOmT", "LawMat"]
BATCH = 160


# ----------------------------------------------------------------------------------------------- encoding
def s2(x):
    return [int(x.a), int(x.b)]


def om(z):
    return [int(z.a), int(z.b), int(z.c), int(z.d)]


def dy(m):
    out = [int(m.k)]
    for e in m.flatten:
        out += om(e)
    return out


def so3(r):
    out = [int(r.k)]
    for e in r.flatten:
        out += s2(e)
    return out


def S2(v):
    return ZSqrtTwo(v[0], v[1])


def OM(v):
    return ZOmega(v[0], v[1], v[2], v[3])


def DY(v):
    """<<k, 16 ints>> -> DyadicMatrix (the constructor normalises)."""
    return DyadicMatrix(OM(v[1:5]), OM(v[5:9]), OM(v[9:13]), OM(v[13:17]), k=v[0])


def dy_tla(d):
    return [d["k"]] + [c for e in d["e"] for c in e]


def m3_tla(d):
    return [d["k"]] + [c for e in d["e"] for c in e]


class _Timeout(Exception):
    pass


def _alarm(signum, frame):
    raise _Timeout()


_TIMEOUTS = Counter()
MAX_TIMEOUTS = 5


def call(f, *a, limit=0.0):
    """-> (value, exc): exc = "" (returned a value), "None" (returned None) or the exception class name.
    limit: CPU seconds (a faulty remainder makes the Euclidean loops of the implementation run forever); after MAX_TIMEOUTS
    timeouts of the same function the remaining calls are skipped ("Skipped": no event is recorded)."""
    tag = getattr(f, "__qualname__", "?")
    if limit:
        if _TIMEOUTS[tag] >= MAX_TIMEOUTS:
            return None, "Skipped"
        old = signal.signal(signal.SIGVTALRM, _alarm)
        signal.setitimer(signal.ITIMER_VIRTUAL, limit)
    try:
        v = f(*a)
        return (v, "None") if v is None else (v, "")
    except _Timeout:
        _TIMEOUTS[tag] += 1
        return None, "Timeout"
    except Exception as e:  # recorded; the spec decides whether raising is acceptable
        return None, type(e).__name__
    finally:
        if limit:
            signal.setitimer(signal.ITIMER_VIRTUAL, 0)
            signal.signal(signal.SIGVTALRM, old)


LIMIT = 1 << 30


def ev(op, x=(), y=(), z=(), n=0, out=(), out2=(), exc="", law=""):
    """One recorded call.  TLC integers are 32 bit: a result beyond 2^30 (only a faulty implementation produces one, the inputs
    are chosen so that every correct result is smaller) is not sent as a number but flagged with ovf = 1."""
    out, out2 = [int(v) for v in out], [int(v) for v in out2]
    ovf = any(abs(v) >= LIMIT for v in out + out2)
    if ovf:
        out, out2 = [], []
    return {"op": op, "law": law, "x": list(x), "y": list(y), "z": list(z), "n": int(n), "out": out, "out2": out2,
            "exc": exc, "ovf": 1 if ovf else 0}


class Agg:
    """Aggregates violations by key (thousands of cases can fail for one reason)."""

    def __init__(self):
        self.d = {}

    def add(self, key, detail, replay):
        if key not in self.d:
            self.d[key] = [0, detail, replay]
        self.d[key][0] += 1

    def violations(self):
        return [Violation(key=k, detail=f"{d} [{c} failing case(s); first shown]", replay=r) for k, (c, d, r) in sorted(self.d.items())]


# ----------------------------------------------------------------------------------------------- REPLAY (spec -> code)
def _cmp(agg, stats, key, got, exc, exp, what, inputs):
    """One replayed operation: the value computed by the real class must equal the value TLC computed."""
    stats["replayed"] += 1
    if exc or got != exp:
        agg.add("replay:" + key, f"{what} = {exc or got}, the reference gives {exp}",
                {"op": key, "inputs": inputs, "expected": exp, "got": exc or got})
        return False
    return True


def replay_s2(row, hdr, agg, stats, nontriv):
    x = row["x"]
    X = S2(x)
    ys = hdr["s2"]
    for n, y in enumerate(ys):
        Y = S2(y)
        for name, f in (("add", lambda: X + Y), ("sub", lambda: X - Y), ("mul", lambda: X * Y)):
            v, e = call(f)
            ok = _cmp(agg, stats, "s2." + name, s2(v) if e == "" else None, e, row[name][n], f"ZSqrtTwo{tuple(x)} {name} ZSqrtTwo{tuple(y)}", [x, y])
            if ok and name == "mul" and all(x) and all(y):
                nontriv.add(("s2.mul", tuple(x), tuple(y)))
        q = row["quot"][n]
        v, e = call(lambda: X / Y)
        if q:
            if e == "":
                _cmp(agg, stats, "s2.truediv", s2(v), "", q, f"ZSqrtTwo{tuple(x)} / ZSqrtTwo{tuple(y)}", [x, y])
                stats["s2_exact_quotients"] += 1
            else:
                stats["replayed"] += 1
                stats["drift:s2.truediv:raised-on-exact-division"] += 1
        elif e != "":
            stats["replayed"] += 1
        else:
            agg.add("replay:s2.truediv:returned-inexact-quotient", f"ZSqrtTwo{tuple(x)} / ZSqrtTwo{tuple(y)} = {s2(v)} but {y} does not divide {x}",
                    {"op": "s2.truediv", "inputs": [x, y], "got": s2(v)})
    for name, f in (("neg", lambda: -X), ("conj", X.conj), ("adj2", X.adj2)):
        v, e = call(f)
        _cmp(agg, stats, "s2." + name, s2(v) if e == "" else None, e, row[name], f"ZSqrtTwo{tuple(x)}.{name}", [x])
    v, e = call(lambda: abs(X))
    _cmp(agg, stats, "s2.abs", int(v) if e == "" else None, e, row["abs"], f"abs(ZSqrtTwo{tuple(x)})", [x])
    v, e = call(X.to_omega)
    _cmp(agg, stats, "s2.to_omega", om(v) if e == "" else None, e, row["toom"], f"ZSqrtTwo{tuple(x)}.to_omega()", [x])
    for p, exp in enumerate(row["pow"]):
        v, e = call(lambda: X ** p)
        _cmp(agg, stats, "s2.pow", s2(v) if e == "" else None, e, exp, f"ZSqrtTwo{tuple(x)} ** {p}", [x, p])
    for m, i in enumerate(hdr["ints"]):
        for name, f, g in (("addi", lambda: X + i, lambda: i + X), ("muli", lambda: X * i, lambda: i * X), ("rsubi", lambda: i - X, None)):
            for h in (f, g):
                if h is not None:
                    v, e = call(h)
                    _cmp(agg, stats, "s2." + name, s2(v) if e == "" else None, e, row[name][m], f"ZSqrtTwo{tuple(x)} {name} {i}", [x, i])
    for m, i in enumerate(hdr["pos"]):
        v, e = call(lambda: X // i)
        _cmp(agg, stats, "s2.floordiv", s2(v) if e == "" else None, e, row["fdiv"][m], f"ZSqrtTwo{tuple(x)} // {i}", [x, i])
        v, e = call(lambda: X % i)
        _cmp(agg, stats, "s2.mod_int", s2(v) if e == "" else None, e, row["modi"][m], f"ZSqrtTwo{tuple(x)} % {i}", [x, i])
    # square roots: of x (TLC lists all roots in the box) and of x*x (roots are x and -x)
    for arg, roots in ((x, row["roots"]), (row["sq"], [x, [-x[0], -x[1]]])):
        v, e = call(S2(arg).sqrt)
        stats["replayed"] += 1
        if e == "":
            if s2(v) not in roots:
                agg.add("replay:s2.sqrt:not-a-root", f"ZSqrtTwo{tuple(arg)}.sqrt() = {s2(v)}, the square roots are {roots}",
                        {"op": "s2.sqrt", "inputs": [arg], "expected_one_of": roots, "got": s2(v)})
            else:
                stats["s2_roots_found"] += 1
        elif roots:
            stats["drift:s2.sqrt:missed-root"] += 1
        else:
            stats["s2_sqrt_none"] += 1


def replay_om(row, hdr, agg, stats, nontriv):
    x = row["x"]
    X = OM(x)
    nzx = sum(1 for c in x if c)
    for n, y in enumerate(hdr["om"]):
        Y = OM(y)
        for name, f in (("add", lambda: X + Y), ("sub", lambda: X - Y), ("mul", lambda: X * Y)):
            v, e = call(f)
            ok = _cmp(agg, stats, "om." + name, om(v) if e == "" else None, e, row[name][n], f"ZOmega{tuple(x)} {name} ZOmega{tuple(y)}", [x, y])
            if ok and name == "mul" and nzx >= 2 and sum(1 for c in y if c) >= 2:
                nontriv.add(("om.mul", tuple(x), tuple(y)))
    for name, f in (("neg", lambda: -X), ("conj", X.conj), ("adj2", X.adj2), ("norm", X.norm)):
        v, e = call(f)
        _cmp(agg, stats, "om." + name, om(v) if e == "" else None, e, row[name], f"ZOmega{tuple(x)}.{name}", [x])
    v, e = call(lambda: abs(X))
    _cmp(agg, stats, "om.abs", int(v) if e == "" else None, e, row["abs"], f"abs(ZOmega{tuple(x)})", [x])
    for p, exp in enumerate(row["pow"]):
        v, e = call(lambda: X ** p)
        _cmp(agg, stats, "om.pow", om(v) if e == "" else None, e, exp, f"ZOmega{tuple(x)} ** {p}", [x, p])
    v, e = call(X.to_sqrt_two)
    stats["replayed"] += 1
    if row["real"]:
        _cmp(agg, stats, "om.to_sqrt_two", s2(v) if e == "" else None, e, row["tos2"], f"ZOmega{tuple(x)}.to_sqrt_two()", [x])
        stats["om_real_elements"] += 1
    elif e == "":
        agg.add("replay:om.to_sqrt_two:accepted-non-real-element", f"ZOmega{tuple(x)}.to_sqrt_two() = {s2(v)} although the element is not in Z[sqrt2]",
                {"op": "om.to_sqrt_two", "inputs": [x], "got": s2(v)})
    for m, i in enumerate(hdr["ints"]):
        for name, f, g in (("addi", lambda: X + i, lambda: i + X), ("muli", lambda: X * i, lambda: i * X), ("rsubi", lambda: i - X, None)):
            for h in (f, g):
                if h is not None:
                    v, e = call(h)
                    _cmp(agg, stats, "om." + name, om(v) if e == "" else None, e, row[name][m], f"ZOmega{tuple(x)} {name} {i}", [x, i])
    for m, i in enumerate(hdr["pos"]):
        v, e = call(lambda: X // i)
        _cmp(agg, stats, "om.floordiv", om(v) if e == "" else None, e, row["fdiv"][m], f"ZOmega{tuple(x)} // {i}", [x, i])
    sm = hdr["small"]
    for a, al in enumerate(sm):
        for b, be in enumerate(sm):
            v, e = call(ZOmega.from_sqrt_pair, S2(al), S2(be), X)
            _cmp(agg, stats, "om.from_sqrt_pair", om(v) if e == "" else None, e, row["fsp"][a][b],
                 f"ZOmega.from_sqrt_pair(ZSqrtTwo{tuple(al)}, ZSqrtTwo{tuple(be)}, ZOmega{tuple(x)})", [al, be, x])


def word_matrix(w, H, T):
    A = DyadicMatrix(ZOmega(d=1), ZOmega(), ZOmega(), ZOmega(d=1))
    for g in w:
        A = A @ (H if g == 1 else T)
    return A


def _cmp_mat(agg, stats, deferred, key, got, exc, exp, what, inputs, event):
    """Matrix results are compared with the canonical form TLC computed.  When the least denominator exponent is negative
    (value divisible by sqrt2; never the case for a unitary) the class keeps another representation: TLC decides by value."""
    if exc == "" and got != exp and exp[0] < 0:
        stats["replayed"] += 1
        deferred.append(event(got))
        return False
    return _cmp(agg, stats, key, got, exc, exp, what, inputs)


def replay_mat(rows, hdr, agg, stats, nontriv, deferred):
    H = DyadicMatrix(ZOmega(d=1), ZOmega(d=1), ZOmega(d=1), ZOmega(d=-1), k=1)
    T = DyadicMatrix(ZOmega(d=1), ZOmega(), ZOmega(), ZOmega(c=1))
    words = hdr["words"]
    by_word = {tuple(r["w"]): r for r in rows}
    mats = [word_matrix(w, H, T) for w in words]
    so3s = []
    for w, A in zip(words, mats):
        v, e = call(SO3Matrix, A)
        so3s.append(v if e == "" else None)
    for n, w in enumerate(words):
        row, A = by_word[tuple(w)], mats[n]
        ws = "".join("HT"[g - 1] for g in w) or "I"
        _cmp(agg, stats, "dy.word", dy(A), "", dy_tla(row["canon"]), f"DyadicMatrix product of the word {ws}", [w])
        for name, f in (("neg", lambda: -A), ("conj", A.conj), ("adj2", A.adj2), ("x2", lambda: A * 2), ("xw", lambda: A * ZOmega(c=1)),
                        ("m2k", lambda: A.mult2k(1)), ("add1", lambda: A + 1)):
            v, e = call(f)
            opn = {"x2": "muli", "xw": "mulom", "m2k": "mult2k", "add1": "addi"}.get(name, name)
            kw = {"muli": {"n": 2}, "mulom": {"z": [0, 0, 1, 0]}, "mult2k": {"n": 1}, "addi": {"n": 1}}.get(opn, {})
            _cmp_mat(agg, stats, deferred, "dy." + opn, dy(v) if e == "" else None, e, dy_tla(row[name]), f"DyadicMatrix[{ws}] {opn}", [w],
                     lambda got, opn=opn, kw=kw: ev("dy." + opn, x=dy(A), out=got, **kw))
        R = so3s[n]
        _cmp(agg, stats, "so3.new", so3(R) if R is not None else None, "" if R is not None else "exception", m3_tla(row["so3"]),
             f"SO3Matrix(DyadicMatrix[{ws}])", [w])
        for m, w2 in enumerate(words):
            ws2 = "".join("HT"[g - 1] for g in w2) or "I"
            v, e = call(lambda: A @ mats[m])
            ok = _cmp(agg, stats, "dy.matmul", dy(v) if e == "" else None, e, dy_tla(row["prod"][m]), f"DyadicMatrix[{ws}] @ DyadicMatrix[{ws2}]", [w, w2])
            if ok and len(w) >= 2 and len(w2) >= 2:
                nontriv.add(("dy.matmul", tuple(w), tuple(w2)))
            v, e = call(lambda: A + mats[m])
            _cmp_mat(agg, stats, deferred, "dy.add", dy(v) if e == "" else None, e, dy_tla(row["sum"][m]), f"DyadicMatrix[{ws}] + DyadicMatrix[{ws2}]",
                     [w, w2], lambda got, m=m: ev("dy.add", x=dy(A), y=dy(mats[m]), out=got))
            if R is not None and so3s[m] is not None:
                v, e = call(lambda: R @ so3s[m])
                _cmp(agg, stats, "so3.matmul", so3(v) if e == "" else None, e, m3_tla(row["so3prod"][m]), f"SO3Matrix[{ws}] @ SO3Matrix[{ws2}]", [w, w2])


# ----------------------------------------------------------------------------------------------- TRACE (code -> spec)
def rnd_s2(rng, B):
    return ZSqrtTwo(rng.randint(-B, B), rng.randint(-B, B))


def rnd_om(rng, B):
    return ZOmega(rng.randint(-B, B), rng.randint(-B, B), rng.randint(-B, B), rng.randint(-B, B))


def law_event(kind, law, enc, ops, lhs, rhs):
    """kind: 's2' / 'om'; lhs, rhs thunks evaluated on the real classes."""
    a, e1 = call(lhs)
    b, e2 = call(rhs)
    xs = [enc(o) for o in ops] + [[]] * (3 - len(ops))
    if e1 or e2:
        return ev(kind + ".law", law=law, x=xs[0], y=xs[1], z=xs[2], exc=e1 or e2)

    def en(v):
        return om(v) if isinstance(v, ZOmega) else s2(v) if isinstance(v, ZSqrtTwo) else [int(v)]
    return ev(kind + ".law", law=law, x=xs[0], y=xs[1], z=xs[2], out=en(a), out2=en(b))


def ring_events(rng, n_big, n_law, stats):
    """Seeded random elements: functional operations with coefficients up to 2^10, law instances with bounds that keep
    every intermediate below 2^30."""
    evs = []
    B = 1 << 10
    for _ in range(n_big):
        x, y = rnd_s2(rng, B), rnd_s2(rng, B)
        i = rng.randint(-B, B)
        p = rng.randint(1, 97)
        for op, f, kw in (("s2.add", lambda: x + y, {}), ("s2.sub", lambda: x - y, {}), ("s2.mul", lambda: x * y, {}), ("s2.neg", lambda: -x, {}),
                          ("s2.adj2", x.adj2, {}), ("s2.conj", x.conj, {}), ("s2.addi", lambda: x + i, {"n": i}), ("s2.muli", lambda: i * x, {"n": i}),
                          ("s2.rsubi", lambda: i - x, {"n": i}), ("s2.fdiv", lambda: x // p, {"n": p}), ("s2.modi", lambda: x % p, {"n": p}),
                          ("s2.toomega", x.to_omega, {})):
            v, e = call(f)
            evs.append(ev(op, x=s2(x), y=s2(y), exc=e, out=(om(v) if op == "s2.toomega" else s2(v)) if e == "" else [], **kw))
        v, e = call(lambda: abs(x))
        evs.append(ev("s2.abs", x=s2(x), exc=e, out=[int(v)] if e == "" else []))
        x, y = rnd_om(rng, B), rnd_om(rng, B)
        for op, f, kw in (("om.add", lambda: x + y, {}), ("om.sub", lambda: x - y, {}), ("om.mul", lambda: x * y, {}), ("om.neg", lambda: -x, {}),
                          ("om.conj", x.conj, {}), ("om.adj2", x.adj2, {}), ("om.norm", x.norm, {}), ("om.addi", lambda: i + x, {"n": i}),
                          ("om.muli", lambda: x * i, {"n": i}), ("om.rsubi", lambda: i - x, {"n": i}), ("om.fdiv", lambda: x // p, {"n": p})):
            v, e = call(f)
            evs.append(ev(op, x=om(x), y=om(y), exc=e, out=om(v) if e == "" else [], **kw))
        a, b = rnd_s2(rng, B), rnd_s2(rng, B)
        v, e = call(ZOmega.from_sqrt_pair, a, b, x)
        evs.append(ev("om.fsp", x=s2(a), y=s2(b), z=om(x), exc=e, out=om(v) if e == "" else []))
        z = rnd_om(rng, 1 << 6)                   # N(z) <= (4 * 2^12)^2 = 2^28
        v, e = call(lambda: abs(z))
        evs.append(ev("om.abs", x=om(z), exc=e, out=[int(v)] if e == "" else []))
        q = rnd_om(rng, 40)
        k = rng.randint(0, 3)
        v, e = call(lambda: q ** k)
        evs.append(ev("om.pow", x=om(q), n=k, exc=e, out=om(v) if e == "" else []))
        r = rnd_s2(rng, 40)
        k = rng.randint(0, 4)
        v, e = call(lambda: r ** k)
        evs.append(ev("s2.pow", x=s2(r), n=k, exc=e, out=s2(v) if e == "" else []))
        # exact division by an integer / by an element (constructed as multiples) and inexact ones
        d = rng.choice([-7, -3, -2, 2, 3, 5, 12])
        w = rnd_om(rng, 200) * d if rng.random() < 0.7 else rnd_om(rng, 200)
        v, e = call(lambda: w / d)
        evs.append(ev("om.truediv", x=om(w), n=d, exc=e, out=om(v) if e == "" else []))
        u = rnd_s2(rng, 60)
        t = rnd_s2(rng, 60) * u if rng.random() < 0.7 else rnd_s2(rng, 200)
        v, e = call(lambda: t / u)
        evs.append(ev("s2.truediv", x=s2(t), y=s2(u), exc=e, out=s2(v) if e == "" else []))
        stats["truediv_exact" if e == "" else "truediv_raised"] += 1
    for _ in range(n_law):
        x, y, z = (rnd_s2(rng, 1 << 8) for _ in range(3))
        for law, ops, lhs, rhs in (("assoc_add", (x, y, z), lambda: (x + y) + z, lambda: x + (y + z)),
                                   ("assoc_mul", (x, y, z), lambda: (x * y) * z, lambda: x * (y * z)),
                                   ("comm_add", (x, y), lambda: x + y, lambda: y + x), ("comm_mul", (x, y), lambda: x * y, lambda: y * x),
                                   ("distrib_l", (x, y, z), lambda: x * (y + z), lambda: x * y + x * z),
                                   ("distrib_r", (x, y, z), lambda: (x + y) * z, lambda: x * z + y * z),
                                   ("adj2_mul", (x, y), lambda: (x * y).adj2(), lambda: x.adj2() * y.adj2()),
                                   ("adj2_add", (x, y), lambda: (x + y).adj2(), lambda: x.adj2() + y.adj2()),
                                   ("ident", (x,), lambda: x * ZSqrtTwo(1, 0) + ZSqrtTwo(0, 0), lambda: ZSqrtTwo(1, 0) * x + 0)):
            evs.append(law_event("s2", law, s2, ops, lhs, rhs))
        a, b = rnd_s2(rng, 1 << 6), rnd_s2(rng, 1 << 6)
        evs.append(law_event("s2", "norm_mul", s2, (a, b), lambda: abs(a * b), lambda: abs(a) * abs(b)))
        evs.append(law_event("s2", "embed_mul", s2, (x, y), lambda: (x * y).to_omega(), lambda: x.to_omega() * y.to_omega()))
        x, y, z = (rnd_om(rng, 1 << 8) for _ in range(3))
        for law, ops, lhs, rhs in (("assoc_add", (x, y, z), lambda: (x + y) + z, lambda: x + (y + z)),
                                   ("assoc_mul", (x, y, z), lambda: (x * y) * z, lambda: x * (y * z)),
                                   ("comm_add", (x, y), lambda: x + y, lambda: y + x), ("comm_mul", (x, y), lambda: x * y, lambda: y * x),
                                   ("distrib_l", (x, y, z), lambda: x * (y + z), lambda: x * y + x * z),
                                   ("distrib_r", (x, y, z), lambda: (x + y) * z, lambda: x * z + y * z),
                                   ("conj_mul", (x, y), lambda: (x * y).conj(), lambda: x.conj() * y.conj()),
                                   ("conj_add", (x, y), lambda: (x + y).conj(), lambda: x.conj() + y.conj()),
                                   ("adj2_mul", (x, y), lambda: (x * y).adj2(), lambda: x.adj2() * y.adj2()),
                                   ("adj2_add", (x, y), lambda: (x + y).adj2(), lambda: x.adj2() + y.adj2()),
                                   ("ident", (x,), lambda: x * ZOmega(d=1) + ZOmega(), lambda: 1 * x + 0)):
            evs.append(law_event("om", law, om, ops, lhs, rhs))
        a, b = rnd_om(rng, 40), rnd_om(rng, 40)
        evs.append(law_event("om", "norm_mul", om, (a, b), lambda: (a * b).norm(), lambda: a.norm() * b.norm()))
        a, b = rnd_om(rng, 4), rnd_om(rng, 4)     # (sum of squared coefficients of ab)^2 <= (4 * 64^2)^2 = 2^28
        evs.append(law_event("om", "abs_mul", om, (a, b), lambda: abs(a * b), lambda: abs(a) * abs(b)))
    return evs


def nonfunctional_events(rng, tier, stats):
    """Exhaustive small enumerations of the operations that have no unique reference value: remainders, square roots,
    normalisation, gcd (validated by their defining identities)."""
    evs = []
    b2 = range(-3, 4) if tier == "quick" else range(-5, 6)
    S = [ZSqrtTwo(a, b) for a in b2 for b in b2]
    for ix, x in enumerate(S):
        for iy, y in enumerate(S):
            if (y.a or y.b) and (tier != "quick" or (ix + iy) % 2 == 0):
                v, e = call(lambda: x % y, limit=1)
                evs.append(ev("s2.mod", x=s2(x), y=s2(y), exc=e, out=s2(v) if e == "" else []))
        v, e = call(x.sqrt)
        evs.append(ev("s2.sqrt", x=s2(x), n=4, exc=e, out=s2(v) if e == "" else []))
    for _ in range(150 if tier == "quick" else 1500):
        r = rnd_s2(rng, 300)
        sq = r * r if rng.random() < 0.6 else rnd_s2(rng, 400)
        v, e = call(sq.sqrt)
        evs.append(ev("s2.sqrt", x=s2(sq), n=math.isqrt(abs(sq.a)) + 1, exc=e, out=s2(v) if e == "" else []))     # a root has a^2 + 2b^2 = sq.a
        stats["sqrt_found" if e == "" else "sqrt_none"] += 1
        x, y = rnd_s2(rng, 200), rnd_s2(rng, 40)
        if y.a or y.b:
            v, e = call(lambda: x % y, limit=1)
            evs.append(ev("s2.mod", x=s2(x), y=s2(y), exc=e, out=s2(v) if e == "" else []))
    bo = range(-1, 2)
    O = [ZOmega(a, b, c, d) for a in bo for b in bo for c in bo for d in bo]
    O2 = [ZOmega(a, b, c, d) for a in range(-2, 3) for b in range(-2, 3) for c in range(-2, 3) for d in range(-2, 3)]
    for ix, x in enumerate(O):
        for iy, y in enumerate(O):
            if any(om(y)) and (tier != "quick" or (ix + iy) % 5 == 0):
                v, e = call(lambda: x % y, limit=1)
                evs.append(ev("om.mod", x=om(x), y=om(y), exc=e, out=om(v) if e == "" else []))
    for x in O2:
        if any(om(x)):
            v, e = call(x.normalize, limit=1)
            evs.append(ev("om.normalize", x=om(x), exc=e, out=om(v[0]) if e == "" else [], out2=[int(v[1])] if e == "" else []))
        v, e = call(x.to_sqrt_two)
        evs.append(ev("om.tosqrt2", x=om(x), exc=e, out=s2(v) if e == "" else []))
    for _ in range(300 if tier == "quick" else 3000):
        x, y = rnd_om(rng, 16), rnd_om(rng, 6)
        if any(om(y)):
            v, e = call(lambda: x % y, limit=1)
            evs.append(ev("om.mod", x=om(x), y=om(y), exc=e, out=om(v) if e == "" else []))
        k = rng.randint(0, 9)
        x = rnd_om(rng, 30)
        for _ in range(k):
            x = ZOmega(x.b - x.d, x.a + x.c, x.b + x.d, x.c - x.a)      # times sqrt2 (input construction only)
        if any(om(x)):
            v, e = call(x.normalize, limit=1)
            evs.append(ev("om.normalize", x=om(x), exc=e, out=om(v[0]) if e == "" else [], out2=[int(v[1])] if e == "" else []))
        a = rnd_s2(rng, 500)
        v, e = call(a.to_omega().to_sqrt_two)
        evs.append(ev("om.tosqrt2", x=om(a.to_omega()), exc=e, out=s2(v) if e == "" else []))
        x, y = rnd_s2(rng, 12), rnd_s2(rng, 12)
        if (x.a or x.b) and (y.a or y.b):
            v, e = call(ns._gcd, x, y, limit=1)
            evs.append(ev("nt.gcd.s2", x=s2(x), y=s2(y), exc=e, out=s2(v) if e == "" else []))
        x, y = rnd_om(rng, 5), rnd_om(rng, 5)
        if any(om(x)) and any(om(y)):
            v, e = call(ns._gcd, x, y, limit=1)
            evs.append(ev("nt.gcd.om", x=om(x), y=om(y), exc=e, out=om(v) if e == "" else []))
    return evs


def rnd_dyadic(rng, B, kmax):
    return DyadicMatrix(rnd_om(rng, B), rnd_om(rng, B), rnd_om(rng, B), rnd_om(rng, B), k=rng.randint(0, kmax))


def dy_law(law, ops, lhs, rhs):
    a, e1 = call(lhs)
    b, e2 = call(rhs)
    xs = [dy(o) for o in ops] + [[]] * (3 - len(ops))
    if e1 or e2:
        return ev("dy.law", law=law, x=xs[0], y=xs[1], z=xs[2], exc=e1 or e2)
    eq, e3 = call(lambda: bool(a == b))
    return ev("dy.law", law=law, x=xs[0], y=xs[1], z=xs[2], out=dy(a), out2=dy(b), n=1 if (e3 == "" and eq) else 0)


def matrix_events(rng, tier, stats):
    evs = []
    H = DyadicMatrix(ZOmega(d=1), ZOmega(d=1), ZOmega(d=1), ZOmega(d=-1), k=1)
    T = DyadicMatrix(ZOmega(d=1), ZOmega(), ZOmega(), ZOmega(c=1))
    n_gen = 40 if tier == "quick" else 600
    for it in range(n_gen):
        # general (non-unitary) matrices with small entries: ring laws of @ and +
        A, B, C = (rnd_dyadic(rng, 2, 3) for _ in range(3))
        raw = [rng.randint(0, 4)] + [rng.randint(-4, 4) * rng.choice([1, 2, 2]) for _ in range(16)]
        v, e = call(DY, raw)
        evs.append(ev("dy.new", x=raw, exc=e, out=dy(v) if e == "" else []))
        i = rng.randint(-5, 5)
        zz = rnd_om(rng, 2)
        for op, f, kw in (("dy.matmul", lambda: A @ B, {"y": dy(B)}), ("dy.add", lambda: A + B, {"y": dy(B)}), ("dy.neg", lambda: -A, {}),
                          ("dy.muli", lambda: A * i, {"n": i}), ("dy.mulom", lambda: A * zz, {"z": om(zz)}), ("dy.conj", A.conj, {}),
                          ("dy.adj2", A.adj2, {}), ("dy.mult2k", lambda: A.mult2k(2), {"n": 2}), ("dy.addi", lambda: A + i, {"n": i})):
            v, e = call(f)
            evs.append(ev(op, x=dy(A), exc=e, out=dy(v) if e == "" else [], **kw))
        for law, ops, lhs, rhs in (("assoc_mul", (A, B, C), lambda: (A @ B) @ C, lambda: A @ (B @ C)),
                                   ("assoc_add", (A, B, C), lambda: (A + B) + C, lambda: A + (B + C)),
                                   ("comm_add", (A, B), lambda: A + B, lambda: B + A),
                                   ("distrib_l", (A, B, C), lambda: A @ (B + C), lambda: A @ B + A @ C),
                                   ("distrib_r", (A, B, C), lambda: (A + B) @ C, lambda: A @ C + B @ C),
                                   ("conj_mul", (A, B), lambda: (A @ B).conj(), lambda: A.conj() @ B.conj()),
                                   ("conj_add", (A, B), lambda: (A + B).conj(), lambda: A.conj() + B.conj()),
                                   ("adj2_mul", (A, B), lambda: (A @ B).adj2(), lambda: A.adj2() @ B.adj2()),
                                   ("adj2_add", (A, B), lambda: (A + B).adj2(), lambda: A.adj2() + B.adj2()),
                                   ("ident", (A,), lambda: A @ DyadicMatrix(ZOmega(d=1), ZOmega(), ZOmega(), ZOmega(d=1)), lambda: A + 0)):
            evs.append(dy_law(law, ops, lhs, rhs))
        # unitary words (Clifford+T): SO(3) images, products, homomorphism
        wa = [rng.randint(1, 2) for _ in range(rng.randint(3, 10))]
        wb = [rng.randint(1, 2) for _ in range(rng.randint(3, 10))]
        U, V = word_matrix(wa, H, T), word_matrix(wb, H, T)
        v, e = call(lambda: U @ V)
        evs.append(ev("dy.matmul", x=dy(U), y=dy(V), exc=e, out=dy(v) if e == "" else []))
        evs.append(dy_law("assoc_mul", (U, V, T), lambda: (U @ V) @ T, lambda: U @ (V @ T)))
        RU, e1 = call(SO3Matrix, U)
        evs.append(ev("so3.new", x=dy(U), exc=e1, out=so3(RU) if e1 == "" else []))
        RV, e2 = call(SO3Matrix, V)
        if e1 == "" and e2 == "":
            v, e = call(lambda: RU @ RV)
            evs.append(ev("so3.matmul", x=so3(RU), y=so3(RV), exc=e, out=so3(v) if e == "" else []))
            w, e3 = call(lambda: SO3Matrix(U @ V))
            if e == "" and e3 == "":
                eq, e4 = call(lambda: bool(v == w))
                evs.append(ev("so3.hom", x=dy(U), y=dy(V), out=so3(v), out2=so3(w), n=1 if (e4 == "" and eq) else 0))
                stats["so3_hom"] += 1
            else:
                evs.append(ev("so3.hom", x=dy(U), y=dy(V), exc=e or e3))
    return evs


# ----------------------------------------------------------------------------------------------- REPLAY of PrimeCutGen
CUT_K, CUT_W, CUT_GAP, CUT_BW = 3, 2, 160, 64


def generate_cutoffs(tier):
    """TLC enumerates the numbers p*q + d (p prime <= PHI, q one of the CUT_K smallest primes >= p, |d| <= CUT_W) with their
    primality and checks the oracle against the definition (CutSound): one JVM."""
    consts = {"PLO": 2, "PHI": 4096 if tier == "quick" else 32768, "BW": CUT_BW, "K": CUT_K, "GAP": CUT_GAP, "W": CUT_W}
    wd = lib.workdir(PID, "cut")
    g = lib.run_tlc("PrimeCutGen", lib.cfg(constants=consts, invariants=["CutSound"]), wd, timeout=3000)
    if g.invariant_violated:
        raise lib.MachineryError(f"the trial-division oracle of PrimeCutGen.tla disagrees with the definition of primality "
                                 f"({g.invariant_violated}): oracle error\n" + g.out[-1500:])
    lib.require_ok(g, "PrimeCutGen")
    g.out = ""
    blocks = [r for r in g.json_lines if isinstance(r, dict) and r.get("kind") == "pc"]
    nb = (consts["PHI"] - consts["PLO"]) // consts["BW"] + 1
    if sorted(b["blk"] for b in blocks) != list(range(1, nb + 1)):
        raise lib.MachineryError(f"PrimeCutGen emitted {len(blocks)} blocks, expected {nb}")
    rows = [tuple(r) for b in sorted(blocks, key=lambda b: b["blk"]) for r in b["rows"]]
    # completeness of the enumeration (machinery): every p has CUT_K values of q, every (p, q) all offsets, every prime is there
    per_p = Counter()
    for p, q in {(r[2], r[3]) for r in rows}:
        per_p[p] += 1
    want = [2] + [p for p in _small_primes(consts["PHI"] + 1)]
    if sorted(per_p) != want or set(per_p.values()) != {CUT_K} or len(rows) != len(want) * CUT_K * (2 * CUT_W + 1):
        raise lib.MachineryError(f"PrimeCutGen: incomplete enumeration ({len(per_p)} primes p of {len(want)}, q per p {sorted(set(per_p.values()))}, "
                                 f"{len(rows)} rows); GAP too small?")
    return g, consts, rows


def _cmp_prime(agg, stats, n, flag, got, exc, p, q):
    """One replayed cut-off number: _primality_test(n) must be the verdict TLC computed by trial division."""
    stats["replayed"] += 1
    if exc == "" and got == flag:
        return True
    key = "replay:primality:exception" if exc else "replay:primality:composite-declared-prime" if got else "replay:primality:prime-declared-composite"
    agg.add(key, f"_primality_test({n}) {'raised ' + exc if exc else '= ' + str(bool(got))}, trial division (TLC) says "
                 f"{'prime' if flag else 'composite'} [n = {p} * {q} {n - p * q:+d}]",
            {"op": "nt.primality", "inputs": [n], "expected": flag, "got": exc or got, "p": p, "q": q})
    return False


def replay_cutoffs(rows, agg, stats, nontriv):
    for n, flag, p, q in rows:
        v, e = call(ns._primality_test, n)
        ok = _cmp_prime(agg, stats, n, flag, 1 if (e == "" and v) else 0, e, p, q)
        stats["cut_rows"] += 1
        stats["cut_products" if n == p * q else "cut_neighbours_prime" if flag else "cut_neighbours_composite"] += 1
        if ok and p > 100:                       # beyond any screen by the primes below 100
            stats["cut_beyond_small_prime_table"] += 1
            if n == p * q:
                nontriv.add(("nt.cut", n))


def _isqrt_bound(n):
    return math.isqrt(max(n, 0)) + 1


def _small_primes(limit):
    """Harness-side input selection only (which moduli to try); never used as the oracle."""
    return [p for p in range(3, limit, 2) if all(p % d for d in range(3, math.isqrt(p) + 1, 2))]


# pseudoprime-shaped inputs whose prime factors are all > 100 (the implementation screens the primes below 100 first):
# strong pseudoprimes to base 2, Carmichael numbers, squares of Wieferich primes, semiprimes, large primes
HARD_NUMBERS = [10403, 42799, 49141, 88357, 90751, 104653, 130561, 196093, 220729, 253241, 256999, 271951, 280601, 357761,
                390937, 458989, 476971, 486737, 1194649, 12327121, 3828001, 17098369, 82929001, 127 * 131, 9973 * 9967,
                32749 * 32719, 999999937, 1000000007, 1073741789]


def number_theory_events(rng, tier, stats, cut_rows=()):
    evs = []
    # exhaustive sweep: beyond 127^2, so that every number whose least prime factor is below 2^7 (2^8) is covered
    top = 1 << 14 if tier == "quick" else 1 << 16
    for start in range(0, top, 256):
        flags = []
        for n in range(start, start + 256):
            v, e = call(ns._primality_test, n)
            flags.append(1 if (e == "" and v) else 0 if e == "" else 2)
        evs.append(ev("nt.primes", x=[start, _isqrt_bound(start + 255)], out=flags))
    stats["primality_exhaustive_below"] = top
    cands = [n for n in HARD_NUMBERS if 1 < n < (1 << 30)]
    p = 101
    while len(cands) < (80 if tier == "quick" else 600) and p < (5000 if tier == "quick" else 23000):     # n = p (2p - 1) < 2^30: Fermat-pseudoprime shaped composites
        if pow(2, p - 1, p) == 1 and pow(2, 2 * p - 2, 2 * p - 1) == 1:
            cands.append(p * (2 * p - 1))
        p += 2
    for _ in range(60 if tier == "quick" else 1200):
        n = rng.randrange(1 << 16, 1 << 30) | 1
        cands.append(n)
        if pow(2, n - 1, n) == 1:
            stats["primality_big_probable_primes"] += 1
    for n in cands:
        v, e = call(ns._primality_test, n)
        evs.append(ev("nt.primes", x=[n, _isqrt_bound(n)], out=[1 if (e == "" and v) else 0 if e == "" else 2], exc=""))
    stats["primality_big_numbers"] = len(cands)
    # modular square roots: every residue for small primes, selected residues for larger ones
    small = _small_primes(90 if tier == "quick" else 400)
    for p in small:
        for a in list(range(p)) + [-1, -2]:
            v, e = call(ns._sqrt_modulo_p, a, p, limit=1)
            evs.append(ev("nt.sqrtmod", x=[a, p], exc=e, out=[int(v)] if e == "" else []))
            stats["sqrtmod_root" if e == "" else "sqrtmod_none"] += 1
    larger = _small_primes(1 << 15)
    for _ in range(200 if tier == "quick" else 2000):
        p = rng.choice(larger)
        for a in (-1, -2, 2, rng.randrange(p), pow(rng.randrange(1, p), 2, p)):
            v, e = call(ns._sqrt_modulo_p, a, p, limit=1)
            evs.append(ev("nt.sqrtmod", x=[a, p], exc=e, out=[int(v)] if e == "" else []))
            stats["sqrtmod_root" if e == "" else "sqrtmod_none"] += 1
    # norm equations t^+ t = xi
    def dioph(xi, wit, guard=True):
        v, e = call(ns._solve_diophantine, ZSqrtTwo(xi[0], xi[1]), limit=3)
        if e == "" and not isinstance(v, ZOmega):
            e = "NotZOmega"
        evs.append(ev("nt.dioph", x=xi, z=wit, exc=e, out=om(v) if e == "" else []))
        stats["dioph_solved" if e == "" else "dioph_" + e] += 1
        if wit and not guard:                     # not part of the vacuity guard (calibrated on the seeded family)
            stats["dioph_rational_integers"] += 1
            stats["dioph_rational_integers_solved"] += 1 if e == "" else 0
        elif wit and e != "Skipped":
            stats["dioph_solvable"] += 1
            stats["dioph_solvable_solved"] += 1 if e == "" else 0
    amax = 32 if tier == "quick" else 120
    for a in range(0, amax + 1):
        for b in range(-int(a / math.sqrt(2)) - 1, int(a / math.sqrt(2)) + 2):
            dioph([a, b], [])
    for _ in range(250 if tier == "quick" else 2500):
        B = rng.choice([3, 8, 32])
        t = [rng.randint(-B, B) for _ in range(4)]
        a, b, c, d = t
        dioph([a * a + b * b + c * c + d * d, a * b + b * c + c * d - d * a], t)      # xi = t^+ t, witness t
    for _ in range(100 if tier == "quick" else 1000):
        a = rng.randrange(1, 1 << 14)
        b = rng.randint(-int(a / math.sqrt(2)), int(a / math.sqrt(2)))
        dioph([a, b], [])
    # rational integers xi = b^2 + d^2 = (d + b i)^+ (d + b i): the solver factorises xi over Z first (primes, prime squares)
    gb = 11 if tier == "quick" else 40
    for b in range(1, gb + 1):
        for d in range(b, gb + 1):
            dioph([b * b + d * d, 0], [0, b, 0, d], guard=False)
    # integer factorisation and the splitting of rational primes in Z[sqrt2] (mechanism: evidence only)
    cut_products = [n for n, _, p, q in cut_rows if n == p * q and p <= (256 if tier == "quick" else 1024)]      # semiprimes p*q, squares p*p
    stats["factorize_cut_products"] = len(cut_products)
    for n in list(range(2, 300)) + [rng.randrange(2, 1 << (16 if tier == "quick" else 20)) for _ in range(60 if tier == "quick" else 1000)] + cut_products:
        v, e = call(lambda: ns._prime_factorize(n, 1000, False), limit=3)
        evs.append(ev("nt.factor", x=[n, _isqrt_bound(n)], exc=e, out=[int(f) for f in v] if e == "" else []))
    for p in [2] + _small_primes(300 if tier == "quick" else 2000):
        v, e = call(ns._factorize_prime_zsqrt_two, p, limit=1)
        evs.append(ev("nt.facs2", x=[p], exc=e, out=[c for f in v for c in s2(f)] if e == "" else []))
    return evs


def controls(rng):
    """Positive controls (correct outputs computed HERE with plain integers, not by the classes) must be accepted,
    each corrupted event must be rejected with a V clause."""
    pos, neg = [], []
    H = [1, 0, 0, 0, 1, 0, 0, 0, 1, 0, 0, 0, 1, 0, 0, 0, -1]
    T = [0, 0, 0, 0, 1, 0, 0, 0, 0, 0, 0, 0, 0, 0, 0, 1, 0]
    pos.append(("om.mul", ev("om.mul", x=[1, 2, 3, 4], y=[0, 0, 1, 0], out=[2, 3, 4, -1])))                 # times omega
    neg.append(("om.mul-sign", ev("om.mul", x=[1, 2, 3, 4], y=[0, 0, 1, 0], out=[2, 3, 4, 1])))
    pos.append(("s2.mul", ev("s2.mul", x=[3, -2], y=[5, 7], out=[-13, 11])))
    neg.append(("s2.mul-factor-2-dropped", ev("s2.mul", x=[3, -2], y=[5, 7], out=[1, 11])))
    neg.append(("om.conj-wrong", ev("om.conj", x=[1, 2, 3, 4], out=[-3, 2, -1, 4])))
    pos.append(("om.conj", ev("om.conj", x=[1, 2, 3, 4], out=[-3, -2, -1, 4])))
    neg.append(("om.adj2-wrong", ev("om.adj2", x=[1, 2, 3, 4], out=[1, 2, -3, 4])))
    neg.append(("om.abs-wrong", ev("om.abs", x=[0, 0, 1, 1], out=[4])))
    pos.append(("om.abs", ev("om.abs", x=[0, 0, 1, 1], out=[2])))
    neg.append(("law-sides-differ", ev("om.law", law="assoc_mul", x=[1, 0, 2, 1], y=[0, 1, 1, 0], z=[3, 0, 0, 1], out=[1, 1, 1, 1], out2=[1, 1, 1, 2])))
    pos.append(("dioph", ev("nt.dioph", x=[2, 1], out=[0, 0, 1, 1])))                                         # (1 + w)^+ (1 + w) = 2 + sqrt2
    neg.append(("dioph-wrong-solution", ev("nt.dioph", x=[2, 1], out=[0, 1, 0, 1])))
    neg.append(("dioph-conjugate-root", ev("nt.dioph", x=[2, -1], out=[0, 0, 1, 1])))
    pos.append(("sqrtmod", ev("nt.sqrtmod", x=[2, 7], out=[3])))
    neg.append(("sqrtmod-not-a-root", ev("nt.sqrtmod", x=[2, 7], out=[2])))
    pos.append(("primes", ev("nt.primes", x=[2044, 46], out=[0] * 8)))
    neg.append(("primes-pseudoprime-2047-declared-prime", ev("nt.primes", x=[2044, 46], out=[0, 0, 0, 1, 0, 0, 0, 0])))
    neg.append(("primes-prime-declared-composite", ev("nt.primes", x=[96, 11], out=[0, 0, 0, 0, 0, 1, 0, 1])))     # 97 is missing
    pos.append(("primes2", ev("nt.primes", x=[96, 11], out=[0, 1, 0, 0, 0, 1, 0, 1])))
    neg.append(("primes-carmichael", ev("nt.primes", x=[3828001, 1957], out=[1])))
    pos.append(("dy.matmul", ev("dy.matmul", x=H, y=H, out=[0, 0, 0, 0, 1, 0, 0, 0, 0, 0, 0, 0, 0, 0, 0, 0, 1])))
    neg.append(("dy.matmul-not-normalised", ev("dy.matmul", x=H, y=H, out=[2, 0, 0, 0, 2, 0, 0, 0, 0, 0, 0, 0, 0, 0, 0, 0, 2])))
    neg.append(("dy.matmul-wrong-entry", ev("dy.matmul", x=H, y=T, out=[1, 0, 0, 0, 1, 0, 0, 1, 0, 0, 0, 0, 1, 0, 0, -1, 1])))
    pos.append(("dy.matmul2", ev("dy.matmul", x=H, y=T, out=[1, 0, 0, 0, 1, 0, 0, 1, 0, 0, 0, 0, 1, 0, 0, -1, 0])))
    so3_t = [1, 1, 0, -1, 0, 0, 0, 1, 0, 1, 0, 0, 0, 0, 0, 0, 0, 0, 1]
    pos.append(("so3.new", ev("so3.new", x=T, out=so3_t)))
    neg.append(("so3.new-transposed", ev("so3.new", x=T, out=[1, 1, 0, 1, 0, 0, 0, -1, 0, 1, 0, 0, 0, 0, 0, 0, 0, 0, 1])))
    neg.append(("s2.mod-not-congruent", ev("s2.mod", x=[7, 3], y=[3, 1], out=[1, 0])))
    neg.append(("om.normalize-value", ev("om.normalize", x=[0, 0, 0, 2], out=[0, 0, 0, 1], out2=[1])))
    pos.append(("om.normalize", ev("om.normalize", x=[0, 0, 0, 2], out=[0, 0, 0, 1], out2=[2])))
    neg.append(("s2.sqrt-not-a-root", ev("s2.sqrt", x=[3, 2], n=4, out=[1, -1])))
    pos.append(("s2.sqrt", ev("s2.sqrt", x=[3, 2], n=4, out=[1, 1])))
    return pos, neg


# ----------------------------------------------------------------------------------------------- driver
def generate(tier):
    """Model check ZRings.tla (ring laws on the reference) and emit the rows for the replay: one JVM."""
    quick = tier == "quick"
    consts = {"MODES": '{"s2", "s2t", "om", "omt", "mat"}', "B2": 3 if quick else 4, "BO": 2, "BP": 1 if quick else 2, "BE": 1 if quick else 2,
              "BT": 1, "SPARSE": 2 if quick else 4, "WLEN": 3 if quick else 6}
    wd = lib.workdir(PID, "gen")
    g = lib.run_tlc("ZRingsGen", lib.cfg(constants=consts, invariants=INVARIANTS), wd, timeout=3000)
    if g.invariant_violated:
        raise lib.MachineryError(f"the reference ZRings.tla violates a ring law ({g.invariant_violated}): oracle error\n" + g.out[-1500:])
    lib.require_ok(g, "ZRingsGen")
    g.out = ""
    return g, consts


def validate(traces):
    """Trace validation of all recorded events: one JVM."""
    wd2 = lib.workdir(PID, "trace")
    (wd2 / "traces.json").write_text(json.dumps(traces))
    r = lib.run_tlc("Trace_ZRings", lib.cfg(init="TInit", next_="TNext", constants={"NTRACES": len(traces)}), wd2,
                    env={"TRACE_FILE": str(wd2 / "traces.json")}, timeout=3000)
    lib.require_ok(r, "Trace_ZRings")
    return r


def run(tier, seed):
    rng = random.Random(seed)
    random.seed(seed)                                  # norm_solver._integer_factorize draws from the global generator
    _TIMEOUTS.clear()
    quick = tier == "quick"
    agg, stats = Agg(), Counter()
    nontriv = set()
    g, consts = generate(tier)
    hdr = [r for r in g.json_lines if r["kind"] == "hdr"]
    rows = {k: [r for r in g.json_lines if r["kind"] == k] for k in ("s2", "om", "mat")}
    n2, no, nw = (2 * consts["B2"] + 1) ** 2, (2 * consts["BO"] + 1) ** 4, 2 ** (consts["WLEN"] + 1) - 1
    if len(hdr) != 1 or (len(rows["s2"]), len(rows["om"]), len(rows["mat"])) != (n2, no, nw):
        raise lib.MachineryError(f"generator emitted {len(hdr)} headers and {[len(v) for v in rows.values()]} rows, expected 1 and {[n2, no, nw]}")
    hdr = hdr[0]
    t1 = time.time()
    for r in rows["s2"]:
        replay_s2(r, hdr, agg, stats, nontriv)
    for r in rows["om"]:
        replay_om(r, hdr, agg, stats, nontriv)
    deferred = []
    replay_mat(rows["mat"], hdr, agg, stats, nontriv, deferred)
    gc, cut_consts, cut_rows = generate_cutoffs(tier)
    replay_cutoffs(cut_rows, agg, stats, nontriv)
    # negative control of the primality comparator: the verdict of TLC for a product p*q (composite) is accepted against itself
    # and rejected against the opposite answer, likewise for a prime neighbour
    tmp = Agg()
    prod = next(r for r in cut_rows if r[0] == r[2] * r[3] and r[2] > 100)
    prim = next(r for r in cut_rows if r[1] == 1 and r[2] > 100)
    if not (_cmp_prime(tmp, Counter(), prod[0], prod[1], 0, "", prod[2], prod[3]) and _cmp_prime(tmp, Counter(), prim[0], prim[1], 1, "", prim[2], prim[3])) \
            or _cmp_prime(tmp, Counter(), prod[0], prod[1], 1, "", prod[2], prod[3]) or _cmp_prime(tmp, Counter(), prim[0], prim[1], 0, "", prim[2], prim[3]) \
            or sorted(tmp.d) != ["replay:primality:composite-declared-prime", "replay:primality:prime-declared-composite"]:
        raise lib.MachineryError(f"negative control of the primality comparator failed: {list(tmp.d)}")
    # negative control of the comparator (independent of the implementation): the reference value of a product is accepted
    # against itself and rejected against a copy with one coefficient changed
    tmp, row = Agg(), next(r for r in rows["om"] if r["x"] == [1, 2, -1, 2])
    good = list(row["mul"][50])
    bad = list(good)
    bad[2] += 1
    if not _cmp(tmp, Counter(), "om.mul", good, "", list(good), "control", []) or _cmp(tmp, Counter(), "om.mul", good, "", bad, "control", []) \
            or list(tmp.d) != ["replay:om.mul"]:
        raise lib.MachineryError(f"negative control of the replay comparator failed: {list(tmp.d)}")
    n_neg = 3
    t2 = time.time()

    events = (ring_events(rng, 120 if quick else 1500, 120 if quick else 1500, stats) + nonfunctional_events(rng, tier, stats)
              + matrix_events(rng, tier, stats) + number_theory_events(rng, tier, stats, cut_rows) + deferred)
    stats["replay_deferred_to_trace"] = len(deferred)
    stats["calls_skipped_after_timeouts"] = sum(1 for e in events if e["exc"] == "Skipped")
    events = [e for e in events if e["exc"] != "Skipped"]
    traces = [{"events": events[i:i + BATCH]} for i in range(0, len(events), BATCH)]
    n_real = len(traces)
    pos, neg = controls(rng)
    traces += [{"events": [e]} for _, e in pos] + [{"events": [e]} for _, e in neg]
    t3 = time.time()
    r = validate(traces)
    verd = {t[1] - 1: t[2:] for t in r.tuples if t[0] == "V"}
    fails = {}
    for t in r.json_lines:
        if isinstance(t, list) and t and t[0] == "F":
            fails.setdefault(t[1] - 1, []).append((t[2] - 1, t[3], t[4], t[5]))
    if len(verd) != len(traces):
        raise lib.MachineryError(f"verdicts not total: {len(verd)} of {len(traces)}")
    for k, (name, _) in enumerate(pos):
        if verd[n_real + k] != [0, 0]:
            raise lib.MachineryError(f"positive control '{name}' was rejected by Trace_ZRings: {fails.get(n_real + k)}")
    for k, (name, _) in enumerate(neg):
        i = n_real + len(pos) + k
        if verd[i][0] == 1 and fails.get(i) and fails[i][0][1] == "V":
            n_neg += 1
        else:
            raise lib.MachineryError(f"negative control '{name}' was accepted by Trace_ZRings: {fails.get(i)}")
    drift = Counter({k[6:]: v for k, v in stats.items() if k.startswith("drift:")})
    for i in range(n_real):
        fl = fails.get(i, [])
        rejected = {l for l, kind, _, _ in fl if kind != "D"}
        for l, e in enumerate(traces[i]["events"]):     # accepted non-degenerate cases
            if l not in rejected and e["exc"] == "" and e["op"] in ("om.mul", "s2.mul", "dy.matmul", "om.law", "s2.law", "dy.law", "so3.hom", "nt.dioph"):
                nontriv.add((e["op"], e["law"], tuple(e["x"]), tuple(e["y"]), tuple(e["z"])))
        if verd[i][0] + verd[i][1] != len(fl):
            raise lib.MachineryError("failure lines and verdict disagree")
        for l, kind, clause, info in fl:
            e = traces[i]["events"][l]
            if kind == "D":
                drift[clause] += 1
            elif kind == "M":
                raise lib.MachineryError(f"malformed event {e}: {clause}")
            else:
                agg.add(clause, f"{e['op']}{('.' + e['law']) if e['law'] else ''}: x={e['x']} y={e['y']} z={e['z']} n={e['n']} -> "
                                f"{e['exc'] or e['out']}{(' | ' + str(e['out2'])) if e['out2'] else ''}" + (f" [n = {info}]" if info else ""),
                        {"event": e, "clause": clause, "info": info})
    # vacuity (only when no ring / number-theory violation explains it: a faulty component starves the calls that depend on it)
    explained = any(not k.startswith(("dy.", "replay:dy.", "so3.", "replay:so3.")) for k in agg.d)
    if not explained and stats["calls_skipped_after_timeouts"]:
        raise lib.MachineryError(f"vacuous run: calls of the implementation exceeded their CPU limit ({dict(_TIMEOUTS)}) and "
                                 f"{stats['calls_skipped_after_timeouts']} further calls were skipped - a Euclidean loop of the implementation does not "
                                 f"terminate (mechanism counters: {dict(sorted(drift.items()))})")
    if not explained and stats["dioph_solvable"] and stats["dioph_solvable_solved"] * 2 < stats["dioph_solvable"]:
        raise lib.MachineryError(f"vacuous run: the solver solved only {stats['dioph_solvable_solved']} of {stats['dioph_solvable']} instances "
                                 "that have a solution by construction (soundness of returned solutions cannot be judged)")
    if not explained and (stats["dioph_solved"] < 50 or stats["sqrtmod_root"] < 100 or stats["so3_hom"] < 20 or stats["s2_roots_found"] < 20):
        raise lib.MachineryError(f"vacuous run: {dict(stats)}")
    ops = Counter(e["op"] for e in events)
    sol = next((e for e in events if e["op"] == "nt.dioph" and e["exc"] == "" and e["x"][0] > 500), None)
    samples = [{"op": "ZOmega * ZOmega (replayed)", "x": rows["om"][400]["x"], "y": hdr["om"][50], "expected": rows["om"][400]["mul"][50]},
               {"op": "SO3Matrix(DyadicMatrix[HTH]) (replayed)", "expected_k_and_entries": m3_tla(next(r for r in rows["mat"] if r["w"] == [1, 2, 1])["so3"])}]
    if sol:
        samples.append({"op": "_solve_diophantine", "xi": sol["x"], "t": sol["out"], "checked_by_TLC": "t^+ t = xi"})
    law = next((e for e in events if e["op"] == "om.law" and e["law"] == "assoc_mul"), None)
    if law:
        samples.append({"op": "(x*y)*z == x*(y*z) on ZOmega", "x": law["x"], "y": law["y"], "z": law["z"], "both_sides": law["out"]})
    cutp = next((r for r in cut_rows if r[0] == r[2] * r[3] and r[2] > 1000), None)
    if cutp:
        samples.append({"op": "_primality_test (replayed cut-off number)", "n": cutp[0], "least_prime_factor": cutp[2], "cofactor": cutp[3],
                        "expected_prime": bool(cutp[1]), "decided_by": "PrimeCutGen.tla (trial division, invariant CutSound)"})
    cov = {"states": g.distinct + gc.distinct + r.distinct, "transitions": g.generated + gc.generated + r.generated,
           "traces_validated_against_impl": n_real, "evaluations": stats["replayed"] + len(events),
           "distinct_nontrivial": len(nontriv),
           "rule": "distinct (operation, operands) whose result agreed with the reference, counted only for products / law instances / "
                   "solver calls with non-degenerate operands (ring elements with >= 2 non-zero coefficients, words of length >= 2), and "
                   "replayed products p*q of two primes > 100 (beyond the small-prime screen) classified as TLC decided",
           "samples": samples, "exhaustive": True,
           "model": {"module": "ZRings / ZRingsGen", "invariants": INVARIANTS, "states": g.distinct, "constants": consts,
                     "zsqrt2_elements": n2, "zomega_elements": no, "zomega_pairs": no * (no + 1) // 2 if consts["BP"] == consts["BO"] else no * (2 * consts["BP"] + 1) ** 4,
                     "zomega_triples": (2 * consts["BT"] + 1) ** 8 * sum(math.comb(4, j) * (2 * consts["BT"]) ** j for j in range(consts["SPARSE"] + 1)), "zsqrt2_triples": n2 ** 3, "clifford_t_words": nw, "word_pairs": nw * nw},
           "replayed_operations": stats["replayed"], "replay_deferred_to_trace": stats["replay_deferred_to_trace"],
           "timeouts": dict(_TIMEOUTS), "calls_skipped_after_timeouts": stats["calls_skipped_after_timeouts"], "trace_events": len(events), "trace_events_by_op": dict(sorted(ops.items())),
           "trace_states": r.distinct,
           "primality_cutoff": {"module": "PrimeCutGen", "invariants": ["CutSound"], "constants": cut_consts, "states": gc.distinct,
                                "rows_replayed": stats["cut_rows"], "products_p_q": stats["cut_products"], "prime_neighbours": stats["cut_neighbours_prime"],
                                "composite_neighbours": stats["cut_neighbours_composite"], "agreeing_rows_with_least_factor_above_100": stats["cut_beyond_small_prime_table"],
                                "largest_n": max(r[0] for r in cut_rows), "products_sent_to_prime_factorize": stats["factorize_cut_products"],
                                "rational_integer_norm_equations": stats["dioph_rational_integers"]},
           "primality_exhaustive_below": stats["primality_exhaustive_below"], "primality_big_numbers": stats["primality_big_numbers"],
           "primality_big_probable_primes": stats["primality_big_probable_primes"],
           "diophantine": {k[6:]: v for k, v in stats.items() if k.startswith("dioph_")},
           "sqrtmod": {"root_returned": stats["sqrtmod_root"], "none": stats["sqrtmod_none"]},
           "s2_sqrt": {"replay_found": stats["s2_roots_found"], "replay_none": stats["s2_sqrt_none"], "trace_found": stats["sqrt_found"], "trace_none": stats["sqrt_none"]},
           "so3_homomorphism_instances": stats["so3_hom"], "truediv": {"exact": stats["truediv_exact"], "raised": stats["truediv_raised"]},
           "model_drift": dict(sorted(drift.items())), "negative_controls_rejected": n_neg, "positive_controls_accepted": len(pos),
           "phase_wall_s": {"model_check_and_generate": round(g.wall_s, 1), "cutoff_generate": round(gc.wall_s, 1), "replay": round(t2 - t1 - gc.wall_s, 1), "implementation_traces": round(t3 - t2, 1),
                            "trace_validation": round(r.wall_s, 1)}}
    return CheckResult(coverage=cov, violations=agg.violations(), assumptions=[
        "coefficients are bounded so that every intermediate stays below 2^30 (TLC integers are 32 bit; TLC reports overflow as an error): "
        "exhaustive boxes -2..2 (Z[omega]) / -3..3 (Z[sqrt2]), seeded elements up to 2^10 for single operations and 2^8 for law instances",
        "x % y (ring elements) is judged by its defining identity up to sign (y | x - r or y | x + r); the size of the remainder, which square "
        "root / which gcd / whether the solver finds a solution that exists are mechanism and counted as drift",
        "a matrix result must have the reference VALUE; the representation must be the canonical one (least denominator exponent) whenever that "
        "exponent is >= 0 (always the case for unitary matrices)",
        "SO(3) homomorphism is checked on Clifford+T words (unitary matrices), the ring laws of DyadicMatrix on general small matrices",
        "primes for _sqrt_modulo_p are selected by the harness (trial division); primality of every tested number is decided by TLC",
        "cut-off numbers of the primality test: least prime factor p <= PHI (quick 4096, thorough 32768), cofactor one of the 3 primes "
        "following p (or p itself), offsets -2..2; composites whose two least prime factors are far apart are only met by the exhaustive "
        "sweep (below 2^14 / 2^16) and the seeded numbers"])


def replay(path, tier="quick", seed=0):
    """Re-run the check and keep the violations with the recorded key (every case is regenerated from tier and seed)."""
    rec = json.loads(open(path).read())
    res = run(tier, seed)
    res.violations = [v for v in res.violations if v.key == rec.get("key")]
    return res
