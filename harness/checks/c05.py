"""C05 Result caching never changes results.

(M) Cache.tla (the two-phase _cache_transform protocol over a dict / LRU cache with Pending markers, reuse across
    executions) is model-checked: I1 every HitPost finds a result, I2 the value returned for tape t is Res(t).  On the pure
    model I2 reduces to key soundness, decided by CacheKeyGen.tla: KeyModel.Key (the hash canonicalisation as a model)
    against the exact ring semantics of Gates.tla, for every measurement type including the raw state.
(C) spec -> code: every group of tapes TLC generated (pairs differing by a period shift / wire / wrapper / trainable set /
    shots, duplicates, four unrelated tapes) and every history CacheGen.tla generated for the group's world are replayed
    through qp.execute(..., cache=True | dict | LRUCache) on default.qubit, with cache=False as the reference.
    code -> spec: the cache is a logging MutableMapping; the hit/miss/evict events, the returned result classes and the
    exception class form a trace that Trace_Cache.tla validates (I1, I2 on the trace; lock step with Cache.tla = drift).
    Input classes of the generator (CacheKeyGen.tla): named gates x wrappers, every one-parameter two-qubit gate of the table
    (both operator interfaces), operators with complex array data (QubitUnitary, DiagonalQubitUnitary, BlockEncode, StatePrep,
    Hermitian / Projector observables; pairs differing in the imaginary parts only, the real parts only, transposed) and tape
    objects DERIVED from an already hashed / executed tape (copy(shots= | trainable_params= | operations= | measurements=),
    copy(), bind_new_parameters): the model key of an object is the key of its content."""
import json
import os
import random
import threading
import time
import warnings
from collections import Counter
from collections.abc import MutableMapping

import numpy as np
from cachetools import LRUCache

import pennylane as qp

from .. import lib
from ..codec import decode_gate
from ..lib import CheckResult, Violation, angle_of, ring_matrix_to_numpy

TOL = 1e-8
MEAS = ("state", "expval", "var", "probs", "dm")
NW = 3                                     # wires of the model register (labels 0..2); padding wires come after them
SHOT_MEAS = ("expval", "var", "probs")     # measurement types that exist for a finite-shot tape


# ----------------------------------------------------------------------------------------------- the logging cache
class LogCache(MutableMapping):
    """The user-supplied cache: a dict or a cachetools.LRUCache behind a recording MutableMapping."""

    def __init__(self, inner):
        self.d = inner
        self.ev = []

    def __contains__(self, k):
        r = k in self.d
        self.ev.append(("has", k, None, r, ()))
        return r

    def __getitem__(self, k):
        try:
            v = self.d[k]
        except KeyError:
            self.ev.append(("get", k, None, False, ()))
            raise
        self.ev.append(("get", k, v, True, ()))
        return v

    def __setitem__(self, k, v):
        before = list(self.d.keys())
        self.d[k] = v
        after = set(self.d.keys())
        self.ev.append(("set", k, v, True, tuple(b for b in before if b not in after)))

    def __delitem__(self, k):
        del self.d[k]

    def __iter__(self):
        return iter(self.d)

    def __len__(self):
        return len(self.d)


# ----------------------------------------------------------------------------------------------- tapes
DATA_OPS = ("QubitUnitary", "DiagonalQubitUnitary", "BlockEncode", "StatePrep")


def decode_op(r, M):
    """gate record -> operator; the data operators of CacheKeyGen carry their array as an exact ring matrix in r["m"]."""
    if r["g"] not in DATA_OPS:
        return decode_gate(r, M)
    mat = ring_matrix_to_numpy(r["m"], M)
    wires = [w - 1 for w in r["w"]]
    if r["x"]:                               # the array is kron(d, 1) over r["x"][0] further wires that nothing else touches
        mat, wires = pad_array(mat, wires, r["x"][0])
    if r["g"] == "QubitUnitary":
        return qp.QubitUnitary(mat, wires=wires)
    if r["g"] == "DiagonalQubitUnitary":
        return qp.DiagonalQubitUnitary(np.diag(mat), wires=wires)
    if r["g"] == "BlockEncode":
        return qp.BlockEncode(mat, wires=wires)
    return qp.StatePrep(mat[:, 0], wires=wires)


def pad_array(mat, wires, n):
    """kron(mat, 1) over n further wires, written without arithmetic on the zero entries (no signed zeros that would tell arrays
    apart in their printed form)."""
    d, P = mat.shape[0], 2 ** n
    big = np.zeros((d * P, d * P), dtype=complex)
    idx = np.arange(P)
    for i in range(d):
        for j in range(d):
            big[i * P + idx, j * P + idx] = mat[i, j] + 0.0
    return big, list(wires) + list(range(NW, NW + n))


def build_meas(trec, meas, M):
    meas = trec.get("mt") or meas
    if trec.get("ot"):                       # the observable of expval / var is a data operator on wire 1
        od = ring_matrix_to_numpy(trec["od"], M)
        if trec.get("opad"):
            obs = qp.Hermitian(*pad_array(od, [0], trec["opad"]))
        else:
            obs = qp.Hermitian(od, wires=[0]) if trec["ot"] == "Hermitian" else qp.Projector(od[:, 0], wires=[0])
        if meas not in ("expval", "var"):
            raise lib.MachineryError("a data observable is measured with expval / var only")
        return qp.expval(obs) if meas == "expval" else qp.var(obs)
    if meas == "state":
        return qp.state()
    if meas == "expval":
        return qp.expval(qp.Z(0) @ qp.X(1))
    if meas == "expval2":
        return qp.expval(qp.Z(0))
    if meas == "var":
        return qp.var(qp.Z(0) @ qp.X(1))
    if meas == "probs":
        return qp.probs(wires=[0, 1, 2])
    return qp.density_matrix(wires=[0, 1, 2])


def build_tape(trec, meas, M):
    ops = [decode_op(r, M) for r in trec["ops"]]
    shots = trec["shots"][0] if trec["shots"] else None
    t = qp.tape.QuantumScript(ops, [build_meas(trec, meas, M)], shots=shots)
    t.trainable_params = list(trec["tr"])
    return t


_MEMO_DEV = []


def derive_tape(src, trec, meas, M):
    """The tape object the TLC group asks for: obtained from `src` (tape 1 of the group) through the tape API `dv`, after the
    hash of `src` was memoised in the way `dmemo` says.  The content must be the one the model computed (Derive)."""
    via, memo = trec["dv"], trec["dmemo"]
    if memo == "hash":
        _ = src.hash
    elif memo == "exec":
        if not _MEMO_DEV:
            _MEMO_DEV.append(qp.device("default.qubit", seed=11))
        with warnings.catch_warnings():
            warnings.simplefilter("ignore")
            qp.execute([src], _MEMO_DEV[0], cache=True)
            _ = src.hash
    if via == "shots0":
        t = src.copy(shots=None)
    elif via == "shots1":
        t = src.copy(shots=1)
    elif via == "tr":
        t = src.copy(trainable_params=list(trec["tr"]))
    elif via == "ops":
        t = src.copy(operations=[decode_op(r, M) for r in trec["ops"]])
    elif via == "bind":
        t = src.bind_new_parameters([angle_of(trec["ops"][-1]["p"][0], M)], [len(src.get_parameters(trainable_only=False)) - 1])
    elif via == "meas":
        t = src.copy(measurements=[build_meas(trec, meas, M)])
    elif via == "plain":
        t = src.copy()
    elif via == "copyops":
        t = src.copy(copy_operations=True)
    else:
        raise lib.MachineryError(f"unknown derivation {via}")
    want = build_tape(trec, meas, M)          # a freshly constructed tape with the content of the model
    if (list(t.trainable_params) != list(want.trainable_params) or t.shots != want.shots or len(t.operations) != len(want.operations)
            or any(not qp.equal(a, b) for a, b in zip(t.operations, want.operations))
            or any(not qp.equal(a, b) for a, b in zip(t.measurements, want.measurements))):
        raise lib.MachineryError(f"derivation {via}: the derived tape does not have the content of the model")
    return t


def build_tapes(grp, meas, M):
    out = []
    for trec in grp["tapes"]:
        out.append(derive_tape(out[0], trec, meas, M) if trec.get("dv") else build_tape(trec, meas, M))
    return out


def term_name(op):
    parts = []
    for md in reversed(op["mods"]):
        if md["t"] == "adj":
            parts.append("adj")
        elif md["t"] == "pow":
            parts.append("pow" if md["z"] == 1 else f"pow{md['z']}")
        else:
            cv = md["cv"]
            parts.append("ctrl" if cv == [1] else ("ctrl2" if cv == [1, 1] else "ctrlv" + "".join(map(str, cv))))
    parts.append(op["g"])
    return "-".join(parts)


def family(grp):
    """Stable name of what distinguishes the tapes of the group."""
    kind, i = grp["mut"]["kind"], grp["mut"]["i"]
    op = grp["tapes"][0]["ops"][-1]
    name = term_name(op) + (f"[{i}]" if len(op["p"]) > 1 and i else "")
    if kind in ("p2pi", "p4pi"):
        return f"{name}-period-{kind[1:]}"
    if kind == "collide3":
        return "RX-period-2pi"
    if kind == "tail":
        a, b = grp["tapes"]
        f = lambda t: "tr=" + ",".join(map(str, t["tr"])) + (";shots=" + ",".join(map(str, t["shots"])) if t["shots"] else "")
        return f"trainable-vs-shots[{f(a)}|{f(b)}]"
    if kind == "meas":
        return "meas:" + "-vs-".join(t["mt"] for t in grp["tapes"])
    if kind.startswith("data-"):
        return f"{kind}:{grp['mut']['what']}"
    if kind == "derived":
        return f"derived[{grp['mut']['what']}]"
    return f"{kind}:{name}"


def same(a, b):
    a, b = np.asarray(a), np.asarray(b)
    return a.shape == b.shape and bool(np.allclose(a, b, atol=TOL, rtol=0))


def expected_value(exp, meas, M):
    if meas == "expval2":
        return ring_matrix_to_numpy(exp["e2"], M)[0, 0].real
    if meas == "state":
        return ring_matrix_to_numpy(exp["st"], M)[:, 0]
    if meas == "expval":
        return ring_matrix_to_numpy(exp["ex"], M)[0, 0].real
    if meas == "var":
        return ring_matrix_to_numpy(exp["va"], M)[0, 0].real
    if meas == "probs":
        return ring_matrix_to_numpy(exp["pr"], M)[:, 0].real
    s = ring_matrix_to_numpy(exp["st"], M)[:, 0]
    return np.outer(s, s.conj())


class Instance:
    """A group of TLC-generated tapes with one measurement type, built in PennyLane."""

    def __init__(self, gi, grp, meas, M, dev):
        self.gi, self.grp, self.meas = gi, grp, meas
        self.tapes = build_tapes(grp, meas, M)
        self.nt = len(self.tapes)
        self.analytic = [not t["shots"] for t in grp["tapes"]]
        self.hash = [t.hash for t in self.tapes]
        self.dev = dev
        self.ref = [None] * self.nt
        self._batch_ref = {}
        for i, t in enumerate(self.tapes):
            if self.analytic[i]:
                self.ref[i] = qp.execute([t], dev, cache=False)[0]
        # observed classes (1-based ids; finite-shot tape i -> -i)
        self.res = []
        for i in range(self.nt):
            if not self.analytic[i]:
                self.res.append(-(i + 1))
            else:
                self.res.append(next(j + 1 for j in range(i + 1) if self.analytic[j] and same(self.ref[j], self.ref[i])))
        self.key = [next(j + 1 for j in range(i + 1) if self.hash[j] == self.hash[i]) for i in range(self.nt)]

    def classify(self, v):
        if v is None:
            return 0
        for j in range(self.nt):
            if self.analytic[j] and same(v, self.ref[j]):
                return self.res[j]
        return -9

    def uncached(self, batch):
        """The property's reference: the same batch with cache=False (memoised per batch)."""
        b = tuple(batch)
        if b not in self._batch_ref:
            with warnings.catch_warnings():
                warnings.simplefilter("ignore")
                self._batch_ref[b] = qp.execute([self.tapes[t - 1] for t in batch], self.dev, cache=False)
        return self._batch_ref[b]


def run_history(inst, h, literal=False):
    """Replay one TLC history on the real code -> trace record for Trace_Cache (+ details for reports)."""
    kind, ms = h["kind"], h["ms"]
    size = ms if ms > 0 else 10000
    shared = None
    if kind == "dict":
        shared = LogCache({})
    elif kind == "lru":
        shared = LogCache(LRUCache(maxsize=size))
    execs, detail = [], []
    keyobs = {}
    protocol_ok = True
    ref_mismatch = 0
    for x in h["execs"]:
        batch = x["batch"]
        tapes = [inst.tapes[t - 1] for t in batch]
        cache = shared if shared is not None else (None if literal else LogCache(LRUCache(maxsize=size)))
        if cache is not None:
            cache.ev = []
        exc, res = "", []
        try:
            with warnings.catch_warnings():
                warnings.simplefilter("ignore")
                if cache is None:
                    res = qp.execute(tapes, inst.dev, cache=True, cachesize=size)
                else:
                    res = qp.execute(tapes, inst.dev, cache=cache)
        except Exception as e:  # the cached execution raised: recorded, decided by the trace spec
            exc = type(e).__name__
            res = []
        ret = [inst.classify(r) for r in res]
        # the reference of the statement: cache=False on the very same batch
        unc = inst.uncached(batch)
        for i, t in enumerate(batch):
            if inst.analytic[t - 1] and not same(unc[i], inst.ref[t - 1]):
                ref_mismatch += 1
        evs = list(cache.ev) if cache is not None else []
        has = [e for e in evs if e[0] == "has"]
        if cache is not None:
            if len(has) == len(batch):
                for e, t in zip(has, batch):
                    if keyobs.setdefault(t, e[1]) != e[1]:
                        protocol_ok = False
            else:
                protocol_ok = False
        execs.append({"batch": batch, "evraw": evs, "ret": ret, "exc": exc})
        detail.append({"batch": batch, "ret": ret, "exc": exc,
                       "cached": [np.asarray(r).tolist().__repr__()[:200] for r in res],
                       "uncached": [np.asarray(r).tolist().__repr__()[:200] for r in unc]})
        if exc:
            break
    # observed key classes: from the keys the cache was actually asked for (hash of the preprocessed tape), else tape.hash
    if cache_logged(kind, literal) and protocol_ok:
        hk = [keyobs.get(t + 1, ("own", t)) for t in range(inst.nt)]
    else:
        hk = list(inst.hash)
    key = [next(j + 1 for j in range(i + 1) if hk[j] == hk[i]) for i in range(inst.nt)]
    kid = {}
    for i, k in enumerate(hk):
        kid.setdefault(k, key[i])
    for x in execs:
        x["ev"] = [{"op": op, "k": kid.get(k, 99), "v": (-1 if op == "has" or (op == "get" and not r) else inst.classify(v)),
                    "r": int(bool(r)), "ev": [kid.get(z, 99) for z in ev]} for (op, k, v, r, ev) in x.pop("evraw")]
    trace = {"nt": inst.nt, "key": key, "res": inst.res, "kind": kind, "ms": ms, "logged": cache_logged(kind, literal) and protocol_ok,
             "execs": execs}
    return trace, detail, ref_mismatch, protocol_ok


def cache_logged(kind, literal):
    return not (kind == "true" and literal)


# ----------------------------------------------------------------------------------------------- worlds for Cache.tla
def tla_seq(xs):
    return "<<" + ", ".join(str(x) for x in xs) + ">>"


def world_expr(wid, key, res, tier):
    nt = len(key)
    inj = len(set(key)) == nt and len(set(res)) == nt and all(r > 0 for r in res)
    if nt >= 4:
        cfgs = [("true", 0), ("true", 2), ("dict", 0), ("lru", 1), ("lru", 2)] + ([("lru", 3)] if tier != "quick" else [])
        mb, me, mt = (5, 2, 5) if tier == "quick" else (5, 3, 5)
    elif nt == 3:
        cfgs = [("true", 0), ("dict", 0), ("lru", 2)]
        mb, me, mt = (3, 2, 3) if tier == "quick" else (4, 2, 4)
    else:
        cfgs = [("true", 0), ("dict", 0)]
        mb, me, mt = (2, 2, 2) if tier == "quick" else (3, 2, 3)
    c = "{" + ", ".join(f'[kind |-> "{k}", ms |-> {m}]' for k, m in cfgs) + "}"
    return (f'[id |-> "{wid}", nt |-> {nt}, key |-> {tla_seq(key)}, res |-> {tla_seq(res)}, sym |-> {"TRUE" if inj and nt >= 4 else "FALSE"}, '
            f'both |-> {"TRUE" if nt == 2 else "FALSE"}, cfgs |-> {c}, maxBatch |-> {mb}, maxExecs |-> {me}, maxTotal |-> {mt}]')


# design-level model checking of the protocol itself, independent of the rest (run in the background):
# (A) a key-sound world (with duplicates) and an unbounded cache: I1, I2 and the structural invariants hold;
# (B) the same world with small LRU caches: does the model admit a hit without a result?
SOUND4 = ('[id |-> "mc", nt |-> 4, key |-> <<1, 2, 3, 1>>, res |-> <<1, 2, 3, 1>>, sym |-> FALSE, both |-> FALSE, cfgs |-> CFGS, '
          'maxBatch |-> 4, maxExecs |-> 2, maxTotal |-> 4]')
MC_RUNS = {"mca": ('{[kind |-> "true", ms |-> 0], [kind |-> "dict", ms |-> 0]}', ["NoMissing", "Sound", "NoPendingAtRest", "UniqueKeys", "EmittedAreMisses"]),
           "mcb": ('{[kind |-> "true", ms |-> 2], [kind |-> "lru", ms |-> 1], [kind |-> "lru", ms |-> 2]}', ["NoMissing", "Sound"])}


def _mc_start():
    out, ths = {}, []
    for name, (cfgs, invs) in MC_RUNS.items():
        def job(name=name, cfgs=cfgs, invs=invs):
            try:
                out[name] = lib.run_tlc_mc("Cache", {"Worlds": "{" + SOUND4.replace("CFGS", cfgs) + "}"}, lib.workdir("C05", name),
                                           invariants=invs, timeout=3000, workers=2)
            except Exception as e:  # re-raised by the caller
                out[name] = e
        th = threading.Thread(target=job)
        th.start()
        ths.append(th)
    return out, ths


def _mc_join(started):
    out, ths = started
    for th in ths:
        th.join()
    for v in out.values():
        if isinstance(v, Exception):
            raise lib.MachineryError(f"background TLC run failed: {v}")
    return out


def meas_types(g):
    """The measurement types a group is instantiated with: those the group names, minus the analytic-only ones for a group with
    a finite-shot tape; a group whose tapes fix their own measurement is instantiated once."""
    if g["mut"]["kind"] == "meas" or any(t.get("mt") for t in g["tapes"]):
        return ("expval",)
    finite = any(t["shots"] for t in g["tapes"])
    return tuple(m for m in MEAS if m in g["ms"] and (m in SHOT_MEAS or not finite))


def risky(keyc, resc):
    """Two tapes share a key but not a result class (key soundness fails for the group on the model)."""
    n = len(keyc)
    return any(keyc[i] == keyc[j] and resc[i] != resc[j] and (resc[i] > 0 or resc[j] > 0) for i in range(n) for j in range(i + 1, n))


PRIORITY = ["key-collision:RX-period-2pi:state", "key-collision:ctrl-pow-RX-period-2pi:expval", "lru-evicted-hit:KeyError:cachesize",
            "lru-evicted-hit:KeyError:user-LRUCache", "lru-pending-hit:RuntimeError:user-LRUCache", "key-collision:trainable-vs-shots[tr=0,1|tr=0;shots=1]:expval"]


def violation_key(inst, trace, verdict):
    fam, meas = family(inst.grp), inst.meas
    if verdict == "wrong-result":
        # tapes with one cache key and different cache=False results, or some other way of returning a wrong value.
        # key-collision: the collision is the one KeyModel (the canonicalisation rules as a model) has for the group;
        # key-collision-unmodelled: the code identifies tapes that the rules of KeyModel keep apart (another rule, a stale
        # memoised hash of a derived tape, data left out of the hash, ...)
        if risky(trace["key"], trace["res"]):
            mk = inst.grp.get("keyc")
            modelled = mk is None or risky(mk, trace["res"])
            return f"key-collision:{fam}:{meas}" if modelled else f"key-collision-unmodelled:{fam}:{meas}"
        return f"wrong-result:{fam}:{meas}"
    x = trace["execs"][-1]
    how = "cachesize" if trace["kind"] == "true" else "user-LRUCache" if trace["kind"] == "lru" else "user-dict"
    if verdict == "hit-without-result":
        return f"lru-evicted-hit:{x['exc'] or 'read-failed'}:{how}"
    if verdict == "hit-pending-result":
        return f"lru-pending-hit:{x['exc']}:{how}"
    return f"{verdict}:{x['exc']}:{how}:{fam}:{meas}"


# ----------------------------------------------------------------------------------------------- the check
def _dbg(msg, t0=[time.time()]):
    if os.environ.get("VERIF_C05_DEBUG"):
        print(f"[c05 {time.time() - t0[0]:7.1f}s] {msg}", flush=True)


def run(tier, seed):
    rng = random.Random(seed)
    quick = tier == "quick"
    M = 4                                            # angle unit pi/4: 2*pi = 8 units, 4*pi = 16 units
    angles = "{3}" if quick else "{1, 2, 3, 6}"
    nw = min(8, int(os.environ.get("VERIF_TLC_WORKERS", "16")))     # two more JVMs (2 workers each) run in the background
    assumptions = [
        "angles on the lattice a*4*pi/2^M (results compared at 1e-8); the round(.,10) tolerance of the hash is not probed",
        "default.qubit, numpy interface, analytic tapes are judged; a finite-shot tape only serves as a near-duplicate",
        "post-processing runs in batch order (as CompilePipeline does); qp.execute is the entry point (QNode(cache=...) forwards to it)"]
    mc_threads = _mc_start()
    # ---- (1) key soundness on the model + the groups to replay
    kg = lib.run_tlc("CacheKeyGen", lib.cfg(constants={"M": M, "Angles": angles, "Full": "FALSE" if quick else "TRUE"},
                                            invariants=["Normalised"]), lib.workdir("C05", "keygen"), timeout=3000, workers=nw)
    if kg.invariant_violated:
        raise lib.MachineryError("reference semantics produced a non-normalised state (oracle error)")
    lib.require_ok(kg, "CacheKeyGen")
    groups = kg.json_lines
    _dbg(f"keygen {kg.wall_s:.1f}s groups={len(kg.json_lines)} states={kg.distinct}")
    if len(groups) < 100:
        raise lib.MachineryError("key generator produced too few groups")
    if not all(g["inbound"] for g in groups):
        raise lib.MachineryError("ring coefficient overflow in the reference semantics")
    groups.sort(key=lambda g: json.dumps([g["mut"], g["tapes"]], sort_keys=True))
    model_unsound = Counter()
    for g in groups:
        for m in MEAS:
            if not g["sound"][m]:
                model_unsound[m] += 1
    # ---- (2) which (group, measurement) instances are replayed
    dev = qp.device("default.qubit", seed=seed)
    chosen, rest = [], []
    for gi, g in enumerate(groups):
        kind = g["mut"]["kind"]
        finite = any(t["shots"] for t in g["tapes"])
        for m in meas_types(g):
            if kind.startswith("data-") or kind == "derived":
                # the data / derived-object classes are always exercised with two measurement types
                (chosen if m in (("expval", "var") if g["ms"] == ["expval", "var"] else ("expval", "state")) else rest).append((gi, m))
            elif kind == "meas":
                if m == "expval":
                    chosen.append((gi, m))
            elif kind == "inj4":
                if m == "expval" or (m == "state" and not quick):
                    chosen.append((gi, m))
            elif kind in ("collide3", "dup3"):
                (chosen if (m in ("state", "expval") or (m == "dm" and not quick)) else rest).append((gi, m))
            elif risky(g["keyc"], g["resc"][m]):
                chosen.append((gi, m))
            else:
                rest.append((gi, m))
    n_sample = 240 if quick else 700
    rng.shuffle(rest)
    chosen += rest[:n_sample]
    # hash binding on ALL groups (one measurement type): model key classes == classes of tape.hash ?
    key_drift, key_checked, extra = 0, 0, []
    chosen_set = set(chosen)
    for gi, g in enumerate(groups):
        finite = any(t["shots"] for t in g["tapes"])
        tp = build_tapes(g, "expval", M)
        hs = [t.hash for t in tp]
        kc = [next(j + 1 for j in range(i + 1) if hs[j] == hs[i]) for i in range(len(hs))]
        key_checked += 1
        if kc != g["keyc"]:
            key_drift += 1
            # the code identifies tapes the model separates (or the reverse): replay the group whatever the model says
            for m in meas_types(g):
                if (gi, m) not in chosen_set:
                    extra.append((gi, m))
    chosen += extra
    # ---- (3) the worlds of the chosen instances -> histories from Cache.tla
    worlds = {}
    for gi, m in chosen:
        g = groups[gi]
        worlds.setdefault((tuple(g["keyc"]), tuple(g["resc"][m])), f"w{len(worlds)}")
    wexpr = "{" + ", ".join(world_expr(wid, k, r, tier) for (k, r), wid in worlds.items()) + "}"
    cg = lib.run_tlc_mc("CacheGen", {"Worlds": wexpr}, lib.workdir("C05", "gen"), constraints=["Emit"],
                        invariants=["Bounded", "UniqueKeys", "EmittedAreMisses"], timeout=3000, workers=nw)
    if cg.invariant_violated:
        raise lib.MachineryError(f"Cache.tla violates its structural invariant {cg.invariant_violated}")
    lib.require_ok(cg, "CacheGen")
    _dbg(f"hash binding done; cachegen {cg.wall_s:.1f}s histories={len(cg.json_lines)} states={cg.distinct} worlds={len(worlds)} chosen={len(chosen)}")
    hists = {}
    for h in cg.json_lines:
        hists.setdefault(h["w"], []).append(h)
    for v in hists.values():
        v.sort(key=lambda h: json.dumps(h, sort_keys=True))
    mc = _mc_join(mc_threads)
    mca, mcb = mc["mca"], mc["mcb"]
    if mca.invariant_violated or not mca.ok():
        raise lib.MachineryError(f"Cache.tla: key-sound world with an unbounded cache violates {mca.invariant_violated or mca.error}")
    if not mcb.ok() and not mcb.invariant_violated:
        lib.require_ok(mcb, "Cache bounded")
    _dbg(f"mc runs {mca.wall_s:.1f}s {mcb.wall_s:.1f}s")
    # ---- (4) replay
    traces, meta = [], []
    n_exec = ref_mismatch = proto_bad = res_drift = oracle_bad = oracle_ok = 0
    for gi, m in chosen:
        g = groups[gi]
        inst = Instance(gi, g, m, M, dev)
        if inst.res != g["resc"][m]:
            res_drift += 1
        for i in range(inst.nt):
            if inst.analytic[i]:
                if same(inst.ref[i], expected_value(g["exp"][i], g["tapes"][i].get("mt") or m, M)):
                    oracle_ok += 1
                else:
                    oracle_bad += 1
        hs = hists.get(worlds[(tuple(g["keyc"]), tuple(g["resc"][m]))], [])
        for h in hs:
            for literal in ((False, True) if h["kind"] == "true" else (False,)):
                tr, det, rm, pok = run_history(inst, h, literal)
                n_exec += len(tr["execs"])
                ref_mismatch += rm
                proto_bad += not pok
                traces.append(tr)
                meta.append((inst, h, literal, det))
    if not traces:
        raise lib.MachineryError("nothing replayed")
    cls_of = lambda g: ("data:" + g["mut"]["what"] if g["mut"]["kind"].startswith("data-") else
                        "derived:" + g["mut"]["what"].split("/")[1] if g["mut"]["kind"] == "derived" else "gates")
    by_class = Counter(cls_of(groups[gi]) for gi, _ in chosen)
    gates_replayed = sorted({groups[gi]["tapes"][0]["ops"][-1]["g"] for gi, _ in chosen if cls_of(groups[gi]) == "gates"})
    if not any(k.startswith("data:") for k in by_class) or not by_class.get("derived:hash") or not by_class.get("derived:exec"):
        raise lib.MachineryError("vacuous: no data-operator group / no tape derived from a hashed or executed tape was replayed")
    _dbg(f"replay done traces={len(traces)} execs={n_exec}")
    # ---- (5) negative controls: corrupt one recorded field of an accepted-looking trace
    neg = {}
    def looks_ok(t):
        return all(not x["exc"] and x["ret"] == [t["res"][b - 1] for b in x["batch"]] and
                   all(e["r"] == 1 and e["v"] > 0 for e in x["ev"] if e["op"] == "get") for x in t["execs"])
    cand = [i for i, t in enumerate(traces) if t["logged"] and all(r > 0 for r in t["res"]) and looks_ok(t)
            and any(e["op"] == "get" for e in t["execs"][-1]["ev"])]
    # a hand-written accepted trace (dict cache, the batch [1, 1]) so that the controls do not depend on the code under test
    ev = lambda op, k, v, r: {"op": op, "k": k, "v": v, "r": r, "ev": []}
    traces.append({"nt": 1, "key": [1], "res": [1], "kind": "dict", "ms": 0, "logged": True, "execs": [
        {"batch": [1, 1], "ret": [1, 1], "exc": "", "ev": [ev("has", 1, -1, 0), ev("set", 1, 0, 1), ev("has", 1, -1, 1), ev("set", 1, 1, 1), ev("get", 1, 1, 1)]}]})
    meta.append(None)
    neg[len(traces) - 1] = "ok"
    cand = [len(traces) - 1] + cand[:: max(1, len(cand) // 10)][:10]
    for i in cand:
        t = json.loads(json.dumps(traces[i]))
        x = t["execs"][-1]
        x["ret"][0] = x["ret"][0] + 1 if x["ret"][0] > 0 else 7        # a returned value of another class
        neg[len(traces)] = "wrong-result"
        traces.append(t)
        meta.append(None)
        t2 = json.loads(json.dumps(traces[i]))
        for x in t2["execs"]:
            for e in x["ev"]:
                if e["op"] == "get":
                    e["r"], e["v"] = 0, -1                              # the read of a hit fails
        neg[len(traces)] = "hit-without-result"
        traces.append(t2)
        meta.append(None)
    wd = lib.workdir("C05", "trace")
    (wd / "traces.json").write_text(json.dumps(traces))
    tr = lib.run_tlc("Trace_Cache", lib.cfg(init="TInit", next_="TNext", constants={"NTRACES": len(traces), "Worlds": "{}"}), wd,
                     env={"TRACE_FILE": str(wd / "traces.json")}, timeout=3000, workers=nw)
    lib.require_ok(tr, "Trace_Cache")
    _dbg(f"trace validation {tr.wall_s:.1f}s states={tr.distinct}")
    verd = {t[1] - 1: (t[2], t[3]) for t in tr.tuples if t[0] == "V"}
    if len(verd) != len(traces):
        raise lib.MachineryError(f"verdicts not total: {len(verd)} of {len(traces)}")
    nneg = sum(1 for i, want in neg.items() if verd[i][0] == want and want != "ok")
    if any(verd[i][0] != want for i, want in neg.items()) or nneg < 2:
        raise lib.MachineryError(f"negative controls: {[(i, want, verd[i]) for i, want in neg.items() if verd[i][0] != want][:3]}")
    # ---- (6) verdicts
    viol, seen_keys = [], {}
    mech_drift, predicted_bad, predicted_confirmed, unpredicted = 0, 0, 0, 0
    hits = evictions = 0
    nontriv, samples = set(), []
    by_verdict = Counter()
    for i, mt in enumerate(meta):
        if mt is None:
            continue
        inst, h, literal, det = mt
        v, dr = verd[i]
        by_verdict[v] += 1
        mech_drift += dr != "same"
        pred = bool(h["err"]) or not h["sound"]
        predicted_bad += pred
        predicted_confirmed += pred and v != "ok"
        unpredicted += (not pred) and v != "ok"
        nh = sum(1 for x in traces[i]["execs"] for e in x["ev"] if e["op"] == "get")
        ne = sum(len(e["ev"]) for x in traces[i]["execs"] for e in x["ev"])
        hits += nh
        evictions += ne
        if nh or ne or v != "ok":
            nontriv.add((inst.gi, inst.meas, h["kind"], h["ms"], json.dumps([x["batch"] for x in h["execs"]]), literal))
        if v != "ok":
            key = violation_key(inst, traces[i], v)
            if key not in seen_keys:
                seen_keys[key] = 0
                rep = {"group": inst.grp["mut"], "tapes": inst.grp["tapes"], "model_keyc": inst.grp.get("keyc"), "meas": inst.meas, "ring_level_M": M,
                       "cache": {"kind": h["kind"], "maxsize": h["ms"], "literal_cache_True": literal},
                       "executions": det, "verdict": v, "model_predicted": {"err": h["err"], "sound": h["sound"]}}
                ops = [" ".join((str(t.operations[0 if g0["tapes"][0].get("zero") else -1])
                                 + (" | " + str(t.measurements[0]) if g0["tapes"][0].get("ot") else "")).split())[:200]
                       for g0 in (inst.grp,) for t in inst.tapes]
                viol.append(Violation(key=key, detail=(
                    f"{v}: tapes {ops} measuring {inst.meas}; cache={'True' if h['kind'] == 'true' else h['kind']}"
                    f"{'' if not h['ms'] else ' maxsize/cachesize=' + str(h['ms'])}; batches {[x['batch'] for x in det]}; "
                    f"with cache -> {[x['cached'] if not x['exc'] else x['exc'] for x in det]}; cache=False -> {[x['uncached'] for x in det]}"),
                    replay=rep))
            seen_keys[key] += 1
        elif len(samples) < 4 and nh and (len(samples) < 2 or ne):
            samples.append({"tapes": [str(t.operations[-1]) for t in inst.tapes], "meas": inst.meas, "cache": [h["kind"], h["ms"]],
                            "batches": [x["batch"] for x in h["execs"]], "events": [[(e["op"], e["k"], e["v"]) for e in x["ev"]] for x in traces[i]["execs"]][:2],
                            "verdict": v})
    for vv in viol:
        vv.detail = f"[{seen_keys[vv.key]} history(ies)] " + vv.detail
    viol.sort(key=lambda vv: (PRIORITY.index(vv.key) if vv.key in PRIORITY else len(PRIORITY), vv.key))
    if hits == 0 or evictions == 0:
        raise lib.MachineryError("vacuous: no cache hit / no eviction was exercised")
    if ref_mismatch:
        raise lib.MachineryError(f"cache=False on a batch differs from cache=False on its tapes one by one ({ref_mismatch} results): reference not deterministic")
    cov = {"states": kg.distinct + cg.distinct + mca.distinct + mcb.distinct + tr.distinct,
           "transitions": kg.generated + cg.generated + mca.generated + mcb.generated + tr.generated,
           "traces_validated_against_impl": sum(1 for mt in meta if mt is not None), "evaluations": n_exec,
           "distinct_nontrivial": len(nontriv),
           "rule": "non-trivial = distinct (tape group, measurement type, cache configuration, history) in which the real cache served at least "
                   "one hit or evicted an entry, or whose trace was rejected",
           "samples": samples, "exhaustive": False,
           "exhaustive_note": "TLC enumerates every group and every history inside the bounds; replayed: every group whose model keys collide with "
                              "different results, the state-machine groups, and a seeded sample of the remaining (group, measurement) instances",
           "key_model": {"groups": len(groups), "by_mutation": dict(Counter(g["mut"]["kind"] for g in groups)),
                         "model_key_unsound_groups_by_measurement": dict(model_unsound),
                         "states": kg.distinct, "ring_level_M": M, "angles": angles},
           "cache_model": {"worlds": len(worlds), "histories": len(cg.json_lines), "states": cg.distinct,
                           "model_histories_with_missing_result": sum(1 for h in cg.json_lines if h["err"]),
                           "model_histories_unsound": sum(1 for h in cg.json_lines if not h["sound"]),
                           "mc_keysound_unbounded": {"states": mca.distinct, "invariants": ["NoMissing", "Sound", "NoPendingAtRest", "UniqueKeys"], "held": True},
                           "mc_keysound_small_lru": {"states": mcb.distinct, "violated": mcb.invariant_violated}},
           "instances_replayed": len(chosen), "instances_by_input_class": dict(by_class), "gates_under_test_replayed": gates_replayed, "executions_with_cache": n_exec, "cache_hits_observed": hits, "evictions_observed": evictions,
           "trace_verdicts": dict(by_verdict), "violation_keys": dict(seen_keys),
           "model_predicted_bad_histories": predicted_bad, "model_predicted_bad_confirmed_on_code": predicted_confirmed,
           "rejected_but_not_predicted_by_model": unpredicted,
           "model_drift": {"key_classes_vs_tape_hash": key_drift, "of_groups": key_checked, "result_classes_vs_default_qubit": res_drift,
                           "cache_mechanism_traces": mech_drift, "protocol_not_recognised": proto_bad},
           "reference_values_checked_against_ring_semantics": oracle_ok, "reference_values_differing": oracle_bad,
           "negative_controls_rejected": nneg}
    return CheckResult(coverage=cov, violations=viol, assumptions=assumptions)


def replay(path, tier="quick", seed=0):
    """Re-run one recorded violation: rebuild the tapes, replay the history, let Trace_Cache decide again."""
    rp = json.loads(open(path).read())["replay"]
    M = rp["ring_level_M"]
    dev = qp.device("default.qubit", seed=seed)
    grp = {"mut": rp["group"], "tapes": rp["tapes"], "keyc": rp.get("model_keyc")}
    grp["mut"].setdefault("what", "")
    inst = Instance(0, grp, rp["meas"], M, dev)
    h = {"kind": rp["cache"]["kind"], "ms": rp["cache"]["maxsize"], "execs": [{"batch": x["batch"]} for x in rp["executions"]]}
    t, det, _, _ = run_history(inst, h, rp["cache"]["literal_cache_True"])
    wd = lib.workdir("C05", "replay")
    (wd / "traces.json").write_text(json.dumps([t]))
    r = lib.run_tlc("Trace_Cache", lib.cfg(init="TInit", next_="TNext", constants={"NTRACES": 1, "Worlds": "{}"}), wd,
                    env={"TRACE_FILE": str(wd / "traces.json")})
    lib.require_ok(r, "Trace_Cache")
    v = [x for x in r.tuples if x[0] == "V"][0]
    viol = []
    if v[2] != "ok":
        viol.append(Violation(key=violation_key(inst, t, v[2]), detail=f"{v[2]}: {det}", replay=rp))
    return CheckResult(coverage={"states": r.distinct, "transitions": r.generated, "traces_validated_against_impl": 1, "evaluations": len(det),
                                 "distinct_nontrivial": 1, "rule": "replay of one recorded history", "samples": [det], "exhaustive": False},
                       violations=viol)
