"""C57 State-preparation templates prepare the requested state (partial: angle-synthesis templates are bridged).

REPLAY + TRACE.  Phase 1 (spec -> code): TLC (TapeEval.tla / CircuitEq.tla) evaluates short Clifford+T circuits exactly and
emits the target states U|0> (uniform, sparse, signed, complex-phase, basis states, random) and ring unitaries (MPS
tensors) as elements of Z[zeta_32][1/2]; the driver converts them to floats and feeds them to every state-preparation
template (mixed wire labels, padding / normalisation / work-wire options).  Phase 2 (code -> spec): for every template
instance the driver records the gate sequence emitted by op.decomposition() and by every applicable registered rule
(non-table operators expanded through their own decompositions) and Trace_StatePrep.tla builds the DOCUMENTED state
from the docstring's definition (sum_i c_i|b_i>, dense vector with padding, the cosine window formula, the MPS contraction),
applies the emitted gates to |0..0> exactly and decides equality (exact, or up to a global phase where the docstring says
so) including 'every auxiliary wire is |0>'.  Decompositions with off-lattice angles are evaluated by the float bridge and
the state prepared by default.qubit (device primitive path) is compared with the exact state TLC printed, at 1e-7."""
import json
import math
import random

import numpy as np

import pennylane as qp

from .. import lib, tmpl
from ..codec import wire_positions
from ..lib import CheckResult, Violation
from ..tmpl import g

M_GEN = 3                # level at which TLC generates the targets (Clifford+T ring Z[zeta_8][1/2])
LEVELS = (4, 5)           # trace levels: angles multiples of pi/4 (M=4, a quarter of the cost) or pi/8 (M=5)

TOL = 1e-7
LABELS = ["a", 3, "c", 0, "e", 7, "g", 11, "q", 5, "x", 9, "z", 13, "y2", 21]
PW = {"I": 0, "X": 1, "Y": 2, "Z": 3}


# ------------------------------------------------------------------------------------------------ phase 1: targets
def target_circuits(tier, seed):
    rng = random.Random(5700 + seed)
    out = []

    def add(k, c, fam):
        out.append((k, c, fam))
    # basis states
    for k, bits in ((1, [1]), (2, [1, 0]), (2, [1, 1]), (3, [0, 1, 1]), (3, [1, 0, 1])):
        add(k, [g("PauliX", i + 1) for i, b in enumerate(bits) if b], "basis")
    # uniform (all wires / a subset: zero tail or zero blocks)
    for k in (1, 2, 3):
        add(k, [g("Hadamard", w) for w in range(1, k + 1)], "uniform")
    add(2, [g("Hadamard", 2)], "uniform")
    add(3, [g("Hadamard", 2), g("Hadamard", 3)], "uniform")
    add(3, [g("Hadamard", 1), g("Hadamard", 3)], "uniform")
    # sparse (Bell / GHZ / shifted)
    add(2, [g("Hadamard", 1), g("CNOT", 1, 2)], "sparse")
    add(2, [g("Hadamard", 1), g("CNOT", 1, 2), g("PauliX", 1)], "sparse")
    add(3, [g("Hadamard", 1), g("CNOT", 1, 2), g("CNOT", 2, 3)], "sparse")
    add(3, [g("Hadamard", 1), g("CNOT", 1, 3), g("PauliX", 2)], "sparse")
    add(3, [g("Hadamard", 1), g("Hadamard", 2), g("CNOT", 2, 3), g("CNOT", 1, 3)], "sparse")
    # signed
    add(1, [g("Hadamard", 1), g("PauliZ", 1)], "signed")
    add(2, [g("Hadamard", 1), g("Hadamard", 2), g("CZ", 1, 2)], "signed")
    add(2, [g("Hadamard", 1), g("Hadamard", 2), g("PauliZ", 2)], "signed")
    add(3, [g("Hadamard", 1), g("Hadamard", 2), g("Hadamard", 3), g("CZ", 1, 3), g("PauliZ", 2)], "signed")
    add(3, [g("Hadamard", 1), g("CNOT", 1, 2), g("PauliZ", 1), g("Hadamard", 3), g("PauliZ", 3)], "signed")
    # complex phases
    add(1, [g("Hadamard", 1), g("S", 1)], "complex")
    add(1, [g("Hadamard", 1), g("T", 1)], "complex")
    add(2, [g("Hadamard", 1), g("Hadamard", 2), g("S", 1), g("T", 2)], "complex")
    add(2, [g("Hadamard", 1), g("CNOT", 1, 2), g("S", 2)], "complex")
    add(3, [g("Hadamard", 1), g("Hadamard", 2), g("Hadamard", 3), g("T", 1), g("S", 2), g("CZ", 2, 3)], "complex")
    add(3, [g("Hadamard", 2), g("CNOT", 2, 3), g("T", 3), g("PauliX", 1), g("S", 1)], "complex")
    # seeded random Clifford+T
    nr = 8 if tier == "quick" else 60
    for i in range(nr):
        k = rng.choice([1, 2, 2, 3, 3])
        add(k, tmpl.random_clifford_t(rng, k, rng.randint(3, 8)), "random")
    # ArbitraryStatePreparation: the docstring's Pauli-word rotation sequence at lattice weights (known parameters)
    for i in range(2 if tier == "quick" else 8):
        ws = [rng.choice([1, 2, 3, 5, 7, 1, 3]) for _ in range(6)]      # multiples of pi/2 (level-3 lattice)
        add(2, [tmpl.rec("PauliRot", [1, 2], [a], [PW[c] for c in w]) for a, w in zip(ws, ["XI", "YI", "IX", "IY", "XX", "XY"])],
            "asp:" + ",".join(map(str, ws)))
    return out


def mps_unitary_circuits(tier, seed):
    rng = random.Random(5701 + seed)
    n2 = 4 if tier == "quick" else 16
    c2 = [(2, tmpl.random_clifford_t(rng, 2, rng.randint(2, 6))) for _ in range(n2)]
    c2.insert(0, (2, [g("CNOT", 1, 2)]))
    c1 = [(1, tmpl.random_clifford_t(rng, 1, rng.randint(1, 4))) for _ in range(n2)]
    c1.insert(0, (1, []))
    return c2, c1


# ------------------------------------------------------------------------------------------------ instances
def _bits(i, k):
    return [(i >> (k - 1 - t)) & 1 for t in range(k)]


def _support(v):
    return [i for i, z in enumerate(v) if abs(z) > 1e-12]


def qrom_sp_representable(v, p):
    """Precondition computed from the docstring's statement (angles are truncated to p binary digits): every branching
    angle theta/pi and every phase/(2 pi) of the target must be a p-digit binary fraction in [0, 1)."""
    k = int(math.log2(len(v)))
    probs = np.abs(v) ** 2
    for lev in range(k):
        blocks = probs.reshape(2 ** lev, -1)
        for blk in blocks:
            den = blk.sum()
            if den < 1e-14:
                continue
            num = blk[: len(blk) // 2].sum()
            th = 2 * math.acos(min(1.0, math.sqrt(num / den))) / math.pi
            x = th * 2 ** p
            if th >= 1 - 1e-12 or abs(x - round(x)) > 1e-9:
                return False
    for z in v:
        if abs(z) < 1e-14:
            continue
        x = (np.angle(z) % (2 * math.pi)) / (2 * math.pi) * 2 ** p
        if abs(x - round(x)) > 1e-9 or round(x) >= 2 ** p:
            return False
    return True


def build_instances(tier, seed, targets, mps_data):
    """targets: [(k, family, ring column, numpy vector)] -> list of instance dicts."""
    rng = random.Random(5702 + seed)
    inst = []

    def labels(cnt):
        return rng.sample(LABELS, cnt)

    def add(tname, variant, make, reg, ntw, kind, desc, rel, ti, fam):
        inst.append({"tmpl": tname, "variant": variant, "make": make, "reg": list(reg), "ntw": ntw, "kind": kind,
                     "desc": desc, "rel": rel, "target": ti, "family": fam})

    for ti, (k, fam, phi_r, phi_f) in enumerate(targets):
        sup = _support(phi_f)
        dense_desc = {"phi": phi_r, "pick": [], "bases": [], "tens": []}
        if fam.startswith("asp:"):
            ws = [lib.angle_of(int(a), M_GEN) for a in fam[4:].split(",")]
            w = labels(2)
            add("ArbitraryStatePreparation", "doc-words", lambda w=w, ws=ws: qp.ArbitraryStatePreparation(np.array(ws), wires=w), w, 2,
                "dense", dense_desc, "exact", ti, fam)
            continue
        # ---------------- dense templates
        w = labels(k)
        v = phi_f
        add("StatePrep", "plain", lambda w=w, v=v: qp.StatePrep(v, wires=w), w, k, "dense", dense_desc, "phase", ti, fam)
        add("AmplitudeEmbedding", "plain", lambda w=w, v=v: qp.AmplitudeEmbedding(v, wires=w), w, k, "dense", dense_desc, "phase", ti, fam)
        add("MottonenStatePreparation", "plain", lambda w=w, v=v: qp.MottonenStatePreparation(v, wires=w), w, k, "dense", dense_desc,
            "exact", ti, fam)
        add("MultiplexerStatePreparation", "plain", lambda w=w, v=v: qp.MultiplexerStatePreparation(v, wires=w), w, k, "dense",
            dense_desc, "exact", ti, fam)
        if ti % 2 == 0 or tier != "quick":
            sc = rng.choice([2.5, 0.3, 3.0])
            add("StatePrep", "normalize", lambda w=w, v=v, sc=sc: qp.StatePrep(sc * v, wires=w, normalize=True), w, k, "dense",
                dense_desc, "phase", ti, fam)
            add("AmplitudeEmbedding", "normalize", lambda w=w, v=v, sc=sc: qp.AmplitudeEmbedding(sc * v, wires=w, normalize=True), w, k,
                "dense", dense_desc, "phase", ti, fam)
            w2 = labels(k + 1)       # one idle device wire in the middle of the register
            pos = rng.randrange(k + 1)
            tw = [x for i, x in enumerate(w2) if i != pos]
            add("StatePrep", "idle-wire", lambda tw=tw, v=v: qp.StatePrep(v, wires=tw), tw + [w2[pos]], k, "dense", dense_desc, "phase",
                ti, fam)
            add("MultiplexerStatePreparation", "check", lambda w=w, v=v: qp.MultiplexerStatePreparation(v, wires=w, check=True), w, k,
                "dense", dense_desc, "exact", ti, fam)
        last = max(sup)
        if last + 1 < len(v):        # zero tail: padding with 0
            mlen = last + 1
            pad_desc = {"phi": {"k": phi_r["k"], "e": phi_r["e"][:mlen]}, "pick": [], "bases": [], "tens": []}
            add("StatePrep", "pad0", lambda w=w, v=v, mlen=mlen: qp.StatePrep(v[:mlen], wires=w, pad_with=0.0), w, k, "dense", pad_desc,
                "phase", ti, fam)
            add("AmplitudeEmbedding", "pad0", lambda w=w, v=v, mlen=mlen: qp.AmplitudeEmbedding(v[:mlen], wires=w, pad_with=0.0), w, k,
                "dense", pad_desc, "phase", ti, fam)
        if k >= 2 and np.allclose(v[-1], v[len(v) - 2:]) and abs(v[-1]) > 1e-9 and abs(np.imag(v[-1])) < 1e-12:
            # constant tail: pad with that constant and normalise (features deliberately unnormalised)
            mlen = len(v) - 2
            sc = 2.0
            add("AmplitudeEmbedding", "pad-const+normalize",
                lambda w=w, v=v, mlen=mlen, sc=sc: qp.AmplitudeEmbedding(sc * v[:mlen], wires=w, pad_with=float(np.real(sc * v[-1])), normalize=True),
                w, k, "dense", dense_desc, "phase", ti, fam)
        for p in (3,):
            if qrom_sp_representable(v, p) and (k <= 2 or tier != "quick" or ti % 3 == 0):
                for nwork in ((1,) if tier == "quick" else (0, 1, 2)):
                    ww = labels(k + p + nwork)
                    add("QROMStatePreparation", f"p{p}w{nwork}",
                        lambda ww=ww, v=v, k=k, p=p: qp.QROMStatePreparation(v, wires=ww[:k], precision_wires=ww[k:k + p],
                                                                             work_wires=ww[k + p:] or None),
                        ww, k, "dense", dense_desc, "exact", ti, fam)
        # ---------------- sparse templates: sum_i c_i |b_i>
        m = len(sup)
        coeffs = np.array([v[i] for i in sup])
        layouts = [("native", k, [_bits(i, k) for i in sup])]
        if m <= 4:
            nt = k + 1 if k < 3 else k
            pool = list(range(2 ** nt))
            rng.shuffle(pool)
            layouts.append(("scattered", nt, [_bits(i, nt) for i in pool[:m]]))
        for lname, nt, bases in layouts:
            if tier == "quick" and lname == "scattered" and ti % 2 == 1:
                continue
            sdesc = {"phi": phi_r, "pick": sup, "bases": bases, "tens": []}
            idx = tuple(int("".join(map(str, b)), 2) for b in bases)
            one = m == 1
            if one and abs(coeffs[0] - 1) < 1e-12:
                ww = labels(nt)
                add("BasisState", lname, lambda ww=ww, b=bases[0]: qp.BasisState(np.array(b), wires=ww), ww, nt, "sparse", sdesc, "exact", ti, fam)
                add("BasisEmbedding", lname, lambda ww=ww, b=bases[0]: qp.BasisEmbedding(b, wires=ww), ww, nt, "sparse", sdesc, "exact", ti, fam)
            if m >= 2:
                ww = labels(nt + 1)
                add("Superposition", lname, lambda ww=ww, c=coeffs, b=bases, nt=nt: qp.Superposition(c, b, wires=ww[:nt], work_wire=ww[nt]),
                    ww, nt, "sparse", sdesc, "exact", ti, fam)
            if m <= 4 and nt <= 3:
                ww = labels(nt)
                add("SumOfSlatersPrep", lname + "-dyn", lambda ww=ww, c=coeffs, idx=idx: qp.SumOfSlatersPrep(c, wires=ww, indices=idx), ww, nt,
                    "sparse", sdesc, "phase" if one else "exact", ti, fam)
                if m >= 2 and (tier != "quick" or ti % 6 == 0):
                    sizes = qp.SumOfSlatersPrep.required_register_sizes(idx, nt)
                    tot = sum(val for key, val in sizes.items() if key != "wires")
                    if nt + tot <= 9:
                        ww = labels(nt + tot)
                        regs, off = {}, nt
                        for key in ("enumeration_wires", "identification_wires", "qrom_work_wires", "mcx_cache_wires"):
                            regs[key] = ww[off:off + sizes[key]]
                            off += sizes[key]
                        add("SumOfSlatersPrep", lname + "-static",
                            lambda ww=ww, c=coeffs, idx=idx, regs=regs, nt=nt: qp.SumOfSlatersPrep(c, wires=ww[:nt], indices=idx, **regs),
                            ww, nt, "sparse", sdesc, "exact", ti, fam)
            need = max(math.ceil(math.log2(m)) - 1, 1) if m > 1 else 0
            for extra, vname in ((0, "work"), (1, "extra-work"), (-need, "no-work")):
                nw = need + extra
                if nw < 0 or (extra == -need and need == 0) or (tier == "quick" and vname != "work" and ti % 2 == 0):
                    continue
                ww = labels(nt + nw)
                add("PartialUnaryStatePreparation", f"{lname}-{vname}",
                    lambda ww=ww, c=coeffs, idx=idx, nt=nt: qp.PartialUnaryStatePreparation(c, wires=ww[:nt], indices=idx, work_wires=ww[nt:]),
                    ww, nt, "sparse", sdesc, "phase" if one else "exact", ti, fam)
    # ---------------- CosineWindow
    for mw in (1, 2, 3):
        ww = labels(mw + 1)
        add("CosineWindow", f"m{mw}", lambda ww=ww, mw=mw: qp.CosineWindow(wires=ww[:mw]), ww, mw, "cosine",
            {"phi": {"k": 0, "e": []}, "pick": [], "bases": [], "tens": []}, "phase", -1, "cosine")
    # ---------------- MPSPrep (bond dimension 2, 2-4 sites)
    st2, u2, u1 = mps_data
    nm = 6 if tier == "quick" else 30
    for j in range(nm):
        ns = rng.choice([2, 3, 3, 4])
        a0r, a0f = st2[rng.randrange(len(st2))]
        tens_r, tens_f = [], []
        # first tensor (phys, bond): the amplitudes of a normalised 2-qubit ring state
        tens_r.append({"sh": [1, 2, 2], "k": a0r["k"], "e": [row[0] for row in a0r["e"]]})
        tens_f.append(a0f.reshape(2, 2))
        for s in range(1, ns - 1):        # middle tensors (bond, phys, bond): the first two rows of a 4x4 ring unitary
            ur, uf = u2[rng.randrange(len(u2))]
            tens_r.append({"sh": [2, 2, 2], "k": ur["k"], "e": [e for row in ur["e"][:2] for e in row]})
            tens_f.append(uf[:2, :].reshape(2, 2, 2))
        ur, uf = u1[rng.randrange(len(u1))]   # last tensor (bond, phys): a 2x2 ring unitary
        tens_r.append({"sh": [2, 2, 1], "k": ur["k"], "e": [e for row in ur["e"] for e in row]})
        tens_f.append(uf.reshape(2, 2))
        ww = labels(ns + 1 + (j % 2))
        desc = {"phi": {"k": 0, "e": []}, "pick": [], "bases": [], "tens": tens_r}
        add("MPSPrep", f"sites{ns}-work{1 + (j % 2)}", lambda ww=ww, tf=tens_f, ns=ns: qp.MPSPrep([np.array(t) for t in tf], wires=ww[:ns], work_wires=ww[ns:]),
            ww, ns, "mps", desc, "exact", -1, "mps")
        if j % 2 == 0 and ns >= 3:
            # gauge-transformed (no longer right-canonical) tensors: same contraction, right_canonicalize=True
            G, Gi = np.array([[1.0, 1.0], [0.0, 1.0]]), np.array([[1.0, -1.0], [0.0, 1.0]])
            tf2 = [np.array(t, dtype=complex) for t in tens_f]
            tf2[0] = tf2[0] @ G
            tf2[1] = np.tensordot(Gi, tf2[1], axes=([1], [0]))
            tr2 = json.loads(json.dumps(tens_r))
            tr2[0] = _gauge_right(tens_r[0], [[1, 1], [0, 1]])
            tr2[1] = _gauge_left(tens_r[1], [[1, -1], [0, 1]])
            desc2 = {"phi": {"k": 0, "e": []}, "pick": [], "bases": [], "tens": tr2}
            add("MPSPrep", f"sites{ns}-gauged-right_canonicalize",
                lambda ww=ww, tf2=tf2, ns=ns: qp.MPSPrep(tf2, wires=ww[:ns], work_wires=ww[ns:], right_canonicalize=True),
                ww, ns, "mps", desc2, "phase", -1, "mps")
    return inst


def _vadd(a, b):
    return [x + y for x, y in zip(a, b)]


def _vscale(c, a):
    return [c * x for x in a]


def _gauge_right(t, G):
    """A[a, s, b] -> sum_b' A[a, s, b'] G[b'][b]  (integer G) on the flat ring encoding."""
    dl, _, dr = t["sh"]
    e = []
    for a in range(dl):
        for s in range(2):
            for b in range(dr):
                acc = [0] * len(t["e"][0])
                for b2 in range(dr):
                    acc = _vadd(acc, _vscale(G[b2][b], t["e"][(a * 2 + s) * dr + b2]))
                e.append(acc)
    return {"sh": t["sh"], "k": t["k"], "e": e}


def _gauge_left(t, G):
    """A[a, s, b] -> sum_a' G[a][a'] A[a', s, b]."""
    dl, _, dr = t["sh"]
    e = []
    for a in range(dl):
        for s in range(2):
            for b in range(dr):
                acc = [0] * len(t["e"][0])
                for a2 in range(dl):
                    acc = _vadd(acc, _vscale(G[a][a2], t["e"][(a2 * 2 + s) * dr + b]))
                e.append(acc)
    return {"sh": t["sh"], "k": t["k"], "e": e}


# ------------------------------------------------------------------------------------------------ run
def _lift_tens(t, lv):
    return {"sh": t["sh"], "k": t["k"], "e": tmpl.lift({"k": t["k"], "e": [t["e"]]}, M_GEN, lv)["e"][0]}


def _case(it, n, tw, b, rel, lv):
    d = it["desc"]
    return {"n": n, "kind": it["kind"], "tw": tw, "phi": tmpl.lift(d["phi"], M_GEN, lv), "pick": d["pick"], "bases": d["bases"],
            "tens": [_lift_tens(t, lv) for t in d["tens"]], "b": b, "rel": rel, "M": lv}


def run_tlc(cases, name):
    """one TLC run per ring level (every case is validated at the coarsest level that holds its emitted angles exactly)"""
    verdicts, targets = {}, {}
    tot = {"distinct": 0, "generated": 0, "levels": {}}
    for lv in LEVELS:
        sel = [i for i, c in enumerate(cases) if c["M"] == lv]
        if not sel:
            continue
        wd = lib.workdir("C57", f"{name}{lv}")
        (wd / "cases.json").write_text(json.dumps([cases[i] for i in sel]))
        r = lib.run_tlc("Trace_StatePrep", lib.cfg(constants={"M": lv, "NCASES": len(sel)}, invariants=["TargetsNormalised"]), wd,
                        env={"TRACE_FILE": str(wd / "cases.json")}, timeout=3000)
        lib.require_ok(r, f"Trace_StatePrep {name} level {lv}")
        for t in r.tuples:
            if t[0] == "V":
                verdicts[sel[t[1] - 1]] = t[2]
        for j in r.json_lines:
            targets[sel[j["tid"] - 1]] = lib.ring_matrix_to_numpy(j["t"], lv)[:, 0]
        tot["distinct"] += r.distinct
        tot["generated"] += r.generated
        tot["levels"][f"M={lv}"] = len(sel)
    if len(verdicts) != len(cases) or len(targets) != len(cases):
        raise lib.MachineryError(f"verdicts are not total: {len(verdicts)}/{len(targets)} of {len(cases)}")
    return verdicts, targets, tot


def run(tier, seed):
    import time
    stats = {"skipped": {}, "sources": {}, "raised": 0}
    timing, t_last = {}, [time.time()]

    def lap(name):
        timing[name] = round(time.time() - t_last[0], 1)
        t_last[0] = time.time()

    def skip(why):
        stats["skipped"][why] = stats["skipped"].get(why, 0) + 1

    # ---- phase 1: TLC generates the exact targets
    tc = target_circuits(tier, seed)
    c2, c1 = mps_unitary_circuits(tier, seed)
    items = [(k, c, "state") for k, c, _ in tc] + [(k, c, "unitary") for k, c in c2 + c1]
    ring, flt, st1 = tmpl.exact_targets("C57", items, M_GEN, M_GEN)
    targets = [(k, fam, ring[i], flt[i]) for i, (k, c, fam) in enumerate(tc)]
    o2, o1 = len(tc), len(tc) + len(c2)
    u2 = list(zip(ring[o2:o1], flt[o2:o1]))
    u1 = list(zip(ring[o1:], flt[o1:]))
    two_qubit_states = [(ring[i], flt[i]) for i, (k, c, fam) in enumerate(tc) if k == 2 and not fam.startswith("asp")]
    states, trans = st1["distinct"], st1["generated"]
    lap("tlc_targets")
    inst = build_instances(tier, seed, targets, (two_qubit_states, u2, u1))

    # ---- phase 2: run the templates, record what they emit
    attempted = set()                      # templates with a raising decomposition source: reported as violations, not as vacuity
    viol, cases, owners = [], [], []          # owners[i] = (instance index, source name) of TLC case i
    dev_states, float_srcs = {}, []
    for ii, it in enumerate(inst):
        key0 = f"{it['tmpl']}[{it['variant']}]"
        try:
            op = it["make"]()
        except Exception as e:
            viol.append(Violation(key=f"{it['tmpl']}[{it['variant'].split('-')[-1]}]:constructor-raises:{type(e).__name__}",
                                  detail=f"{key0} on target family {it['family']} raised {type(e).__name__}: {e}",
                                  replay={"template": it["tmpl"], "variant": it["variant"], "family": it["family"]}))
            stats["raised"] += 1
            continue
        it["op"] = repr(op)[:300]
        reg = it["reg"]
        if set(op.wires) - set(reg):
            raise lib.MachineryError(f"{key0}: operator wires {op.wires} outside the register {reg}")
        srcs = tmpl.decomposition_sources(op)
        ndyn_max, have_tlc_case = 0, False
        seen = []
        for sname, ops in srcs:
            if isinstance(ops, Exception):
                attempted.add(it["tmpl"])
                viol.append(Violation(key=f"{it['tmpl']}:{sname}:raises:{type(ops).__name__}",
                                      detail=f"{sname} of {it['op']} raised {type(ops).__name__}: {ops}",
                                      replay={"op": it["op"], "source": sname}))
                stats["raised"] += 1
                continue
            try:
                for lv in LEVELS:
                    wpos = wire_positions(reg)
                    recs, fl, info = tmpl.flatten2(ops, wpos, lv)
                    if recs is not None:
                        break
            except tmpl.Skip as e:
                skip(f"{it['tmpl']}:{sname}: {e}")
                continue
            n = len(wpos)
            ndyn_max = max(ndyn_max, n - len(reg))
            if any(not restored for _, restored in info["dyn"].values()):
                skip("garbage work wires")
                continue
            stats["sources"][sname.split(":")[0]] = stats["sources"].get(sname.split(":")[0], 0) + 1
            tw = list(range(1, it["ntw"] + 1))
            if recs is not None:
                sig = json.dumps(recs, sort_keys=True)
                if sig in seen:          # the rule emitted exactly what decomposition() emitted: same event
                    stats["duplicate_sources"] = stats.get("duplicate_sources", 0) + 1
                    continue
                seen.append(sig)
                if n > (7 if tier == "quick" else 10):
                    # too wide for this tier's TLC budget: the (exact) records are evaluated by the numeric bridge instead
                    stats["wide_cases_bridged"] = stats.get("wide_cases_bridged", 0) + 1
                    float_srcs.append((ii, sname, recs, n, lv))
                    continue
                cases.append(_case(it, n, tw, recs, it["rel"], lv))
                owners.append((ii, sname, n))
                have_tlc_case = True
            else:
                float_srcs.append((ii, sname, fl, n, lv))
        it["n_emit"] = len(reg) + ndyn_max
        if not have_tlc_case:
            cases.append(_case(it, len(reg), list(range(1, it["ntw"] + 1)), [], "emit", LEVELS[0]))
            owners.append((ii, "emit", len(reg)))
        try:
            dev_states[ii] = tmpl.device_state(op, reg, ndyn_max)
        except Exception as e:
            viol.append(Violation(key=f"{it['tmpl']}:device:raises:{type(e).__name__}",
                                  detail=f"default.qubit raised {type(e).__name__}: {str(e)[:300]} on {it['op']}",
                                  replay={"op": it["op"]}))
            stats["raised"] += 1

    lap("python_templates")
    # ---- negative controls for TLC: a wrong documented coefficient / basis state, a dirty auxiliary wire
    negs = []
    for ci in range(0, len(cases), max(1, len(cases) // 25)):
        c = cases[ci]
        if c["rel"] == "emit" or not c["b"]:
            continue
        bad = json.loads(json.dumps(c))
        if c["kind"] == "sparse":
            cand = None
            for t in range(len(c["bases"][0])):
                nb = list(c["bases"][0])
                nb[t] = 1 - nb[t]
                if nb not in c["bases"]:
                    cand = nb
                    break
            if cand is None:
                continue
            bad["bases"][0] = cand
            kind = "wrong-basis-state"
        elif len(c["tw"]) < c["n"]:
            aux = [w for w in range(1, c["n"] + 1) if w not in c["tw"]][0]
            bad["b"] = c["b"] + [g("PauliX", aux)]
            kind = "dirty-aux"
        else:
            bad["b"] = c["b"] + [g("T", 1), g("Hadamard", 1)]
            kind = "extra-gates"
        negs.append((len(cases) + len(negs), kind, bad))
    all_cases = cases + [b for _, _, b in negs]
    verdicts, exp, r = run_tlc(all_cases, "trace")
    states += r["distinct"]
    trans += r["generated"]
    lap("tlc_trace")
    neg_rej = {}
    for ti_, kind, bad in negs:
        if verdicts[ti_] == "ok":
            if kind == "extra-gates":
                # the appended gates (T, H on wire 1) leave a state that is an eigenvector of H.T on wire 1 unchanged up to a phase:
                # then the control corrupts nothing (decided numerically on the emitted circuits)
                good_b = bad["b"][:-2]
                sa, sb = tmpl.bridge_state(good_b, bad["n"], bad["M"]), tmpl.bridge_state(bad["b"], bad["n"], bad["M"])
                if tmpl.equal_up_to_phase_vec(sb, sa, 1e-12) and (bad["rel"] == "phase" or np.allclose(sa, sb, atol=1e-12)):
                    neg_rej["neutral(not a corruption)"] = neg_rej.get("neutral(not a corruption)", 0) + 1
                    continue
            raise lib.MachineryError(f"negative control ({kind}) accepted by TLC")
        neg_rej[kind] = neg_rej.get(kind, 0) + 1
    if sum(v for k, v in neg_rej.items() if not k.startswith("neutral")) < 3:
        raise lib.MachineryError(f"too few negative controls: {neg_rej}")

    # ---- verdicts
    exp_of, n_of = {}, {}
    per_tmpl, samples = {}, []
    nontrivial = set()
    n_exact = n_bridge = n_dev = 0
    phase_only = 0
    for ci, (ii, sname, n) in enumerate(owners):
        it = inst[ii]
        exp_of.setdefault(ii, (exp[ci], n))
        key0 = f"{it['tmpl']}[{it['variant']}]"
        v = verdicts[ci]
        if v == "overflow":
            raise lib.MachineryError("ring overflow")
        if v == "documented-state-not-normalised":
            raise lib.MachineryError(f"spec built a non-normalised documented state for {key0}")
        if sname == "emit":
            continue
        n_exact += 1
        per_tmpl[it["tmpl"]] = per_tmpl.get(it["tmpl"], 0) + 1
        nontrivial.add((it["tmpl"], it["variant"], it["family"], sname.split(":")[0]))
        if v != "ok":
            viol.append(Violation(key=f"{it['tmpl']}:{sname}:{v}",
                                  detail=f"{sname} of {it['op']} (target family {it['family']}, register {it['reg']}): TLC verdict {v} "
                                         f"against the documented state ({it['kind']}, relation {it['rel']})",
                                  replay={"op": it["op"], "source": sname, "case": cases[ci], "register": [str(x) for x in it["reg"]]}))
        elif len(samples) < 4 and len(cases[ci]["b"]) >= 4 and it["tmpl"] not in [s["template"] for s in samples]:
            samples.append({"template": it["tmpl"], "variant": it["variant"], "op": it["op"][:160], "source": sname, "gates": len(cases[ci]["b"]),
                            "n": n, "relation": it["rel"], "verdict": v,
                            "documented_state": [[round(float(z.real), 6), round(float(z.imag), 6)] for z in exp[ci][:8]]})

    def embed(vec, n_from, n_to):
        if n_to == n_from:
            return vec
        out = np.zeros(1 << n_to, dtype=complex)
        out[:: 1 << (n_to - n_from)] = vec
        return out

    def cmp(a, e, relname):
        return tmpl.equal_up_to_phase_vec(a, e, TOL) if relname == "phase" else bool(np.allclose(a, e, atol=TOL, rtol=0))

    for (ii, sname, fl, n, lv) in float_srcs:
        it = inst[ii]
        e, n0 = exp_of[ii]
        got = tmpl.bridge_state(fl, n, lv)
        n_bridge += 1
        per_tmpl[it["tmpl"]] = per_tmpl.get(it["tmpl"], 0) + 1
        nontrivial.add((it["tmpl"], it["variant"], it["family"], sname.split(":")[0]))
        if not cmp(got, embed(e, n0, n), it["rel"]):
            ph = tmpl.equal_up_to_phase_vec(got, embed(e, n0, n), TOL)
            viol.append(Violation(key=f"{it['tmpl']}:{sname}:{'equal-only-up-to-phase' if ph else 'not-equal'}(bridged)",
                                  detail=f"{sname} of {it['op']} (family {it['family']}): bridged state differs from the documented state; "
                                         f"max |diff| = {np.max(np.abs(got - embed(e, n0, n))):.3e}",
                                  replay={"op": it["op"], "source": sname, "expected": [str(z) for z in e], "got": [str(z) for z in got]}))
    for ii, got in dev_states.items():
        it = inst[ii]
        if ii not in exp_of:
            continue
        e, n0 = exp_of[ii]
        nd = int(math.log2(len(got)))
        n_dev += 1
        # the device path is 'the template as a device primitive': global phase is only free where documented
        if not cmp(got, embed(e, n0, nd), it["rel"]):
            ph = tmpl.equal_up_to_phase_vec(got, embed(e, n0, nd), TOL)
            viol.append(Violation(key=f"{it['tmpl']}:device:{'equal-only-up-to-phase' if ph else 'not-equal'}",
                                  detail=f"default.qubit state after {it['op']} (family {it['family']}, register {it['reg']}) differs from the "
                                         f"documented state; max |diff| = {np.max(np.abs(got - embed(e, n0, nd))):.3e}",
                                  replay={"op": it["op"], "expected": [str(z) for z in e], "got": [str(z) for z in got]}))
    # negative control for the numeric comparator
    some = next(iter(dev_states))
    e, n0 = exp_of[some]
    badv = np.array(e, dtype=complex)
    badv[int(np.argmax(np.abs(badv)))] *= (1 + 1e-5)
    if cmp(badv, e, "phase"):
        raise lib.MachineryError("numeric comparator accepted a perturbed state")
    neg_rej["comparator"] = 1

    templates = sorted({it["tmpl"] for it in inst})
    missing = [t for t in templates if per_tmpl.get(t, 0) == 0 and t not in attempted]
    if missing:
        raise lib.MachineryError(f"vacuous: no decomposition validated for {missing}")
    cov = {"states": states, "transitions": trans, "traces_validated_against_impl": n_exact + n_bridge + n_dev,
           "evaluations": n_exact + n_bridge + n_dev, "distinct_nontrivial": len(nontrivial),
           "rule": "distinct (template, option variant, target family, decomposition source) combinations whose emitted circuit was "
                   "validated against the documented state (identical emissions of decomposition() and a rule count once)",
           "samples": samples, "exhaustive": False, "targets_generated_by_tlc": len(tc), "ring_unitaries_generated_by_tlc": len(c2) + len(c1),
           "template_instances": len(inst), "exact_by_tlc": n_exact, "bridged_float": n_bridge, "device_primitive_states": n_dev,
           "per_template_decompositions": per_tmpl, "negative_controls_rejected": sum(v for k, v in neg_rej.items() if not k.startswith("neutral")), "negative_controls": neg_rej,
           "wall_split_s": timing, "ring_levels": r["levels"], **stats}
    return CheckResult(coverage=cov, violations=viol, assumptions=[
        "documented states are the docstring definitions transcribed in Trace_StatePrep.tla; gate semantics = Gates.tla",
        "targets are Clifford+T-reachable ring states (<= 3 target wires, MPS bond dimension 2); coefficients enter the templates as "
        "float64 conversions of the exact values",
        "partial: decompositions with off-lattice angles and the default.qubit primitive path are compared numerically (1e-7) with the "
        "exact state printed by TLC; QROMStatePreparation only on targets whose angles are representable with the given precision wires",
        "global phase is free only for StatePrep / AmplitudeEmbedding (documented), one-term sparse states, CosineWindow and "
        "right_canonicalize=True (SVD gauge); everything else is compared including the phase"])
