"""C20 Measurement splitting and diagonalisation preserve results.

(M) spec/sys/MeasSplit.tla defines the exact result of a measurement list on a tape (Pauli-sentence expectation values and
    variances with PauliAlg's sentence algebra, probabilities) from the exact word expectations / probabilities of
    spec/trace/TapeEval.tla, and the three clauses of the property: Recombine (the post-processing, an affine map A x + b,
    applied to the exact results of the OUTPUT tapes equals the exact result of the INPUT tape, entry by entry and in order),
    GroupRel (observables measured together are pairwise qwc / commuting / on disjoint wires / alone as the strategy promises,
    PQWC / PCommutes of PauliAlg) and ZBasis (only Z / I letters remain after diagonalize_measurements).
(R) REPLAY: seeded circuits over the reference gate table (devsim.random_circuit) with measurement lists (Pauli words, sums with
    dyadic coefficients incl. identity terms / constant offsets / repeated words, Hamiltonian / LinearCombination / dot /
    nested s_prod, repeated observables, var, probs, Hermitian / Projector / Hadamard observables, broadcast parameters);
    the real transform is applied; TapeEval computes the exact values of every output tape (diagonalising gates included) and
    of the input tape; the REAL post-processing function is applied to the exact output results and compared with the exact
    input result, measurement by measurement.
(T) TRACE: the post-processing function is probed on basis result vectors (-> A, b) and spec/trace/Trace_MeasSplit.tla decides
    A * Res(outs) + b = Res(in) exactly in Z[zeta_16][1/2], plus GroupRel and ZBasis, for every recorded call.
Rejected inputs must raise (class recorded); when a transform does not raise, the results must agree.
(P) product terms also carry operator wires outside their Pauli support (explicit Identity factors, pairs of equal Pauli factors
    that cancel; add_pads / word_op): the specification's sentence is unchanged, the PennyLane operator is not.
(B) REPLAY: spec/gen/BatchDimsGen.tla enumerates all parameter sets (leading dimensions per tape parameter, transformed positions)
    for batch_params (trainable / all_operations) and batch_input, decides accept / reject and the exact parameters of every output
    tape (invariant Laws on the model); every case is replayed into the real transform (verdict, tape parameters, stacking order).
"""
import json
import random

import numpy as np

import pennylane as qp

from .. import devsim, lib, measalg as ma, tapeeval
from ..codec import OffLattice, decode_gate
from ..lib import CheckResult
from ..paulis import Agg

PID = "C20"
M = 4
COEFS = [0.5, -1.0, 2.0, 0.25, -0.75, 1.0, 1.5, -0.5, 3.0, 1.0]
HERMS = [np.array([[1.0, 0.5], [0.5, -1.0]]), np.array([[0.0, -0.5j], [0.5j, 2.0]]),
         np.array([[1, 0, 0, 0.5], [0, -1, 0.25, 0], [0, 0.25, 2, 0], [0.5, 0, 0, 0]], dtype=complex)]
STRATEGIES = ["default", "qwc", "wires", None]


# ------------------------------------------------------------------------------------------------ generator
def rand_word(rng, n, dens=0.6):
    w = [rng.randint(1, 3) if rng.random() < dens else 0 for _ in range(n)]
    if not any(w):
        w[rng.randrange(n)] = rng.randint(1, 3)
    return tuple(w)


def rand_terms(rng, n, basis=None):
    """2-4 terms (coefficient, word): identity terms, repeated words and shared wires are likely."""
    terms = []
    for _ in range(rng.randint(2, 4)):
        r = rng.random()
        if r < 0.2:
            w = tuple([0] * n)
        elif r < 0.35 and terms:
            w = rng.choice(terms)[1]
        else:
            w = rand_word(rng, n) if basis is None else basis_word(rng, basis)
        terms.append((rng.choice(COEFS), w))
    return terms


def basis_word(rng, basis, dens=0.6):
    cand = [i for i, b in enumerate(basis) if b in (1, 2, 3)]
    w = [0] * len(basis)
    for i in cand:
        if rng.random() < dens:
            w[i] = basis[i]
    if not any(w) and cand:
        i = rng.choice(cand)
        w[i] = basis[i]
    return tuple(w)


def gen_meas_split(rng, n, single_sum=False):
    if single_sum:
        st = rng.choice(["sum", "ham", "lc", "dot", "ham_qwc", "ham_comm", "sprodsum"])
        return [{"k": "expval", "terms": rand_terms(rng, n), "style": st}]
    out = []
    for _ in range(rng.randint(1, 5)):
        r = rng.random()
        if r < 0.25:
            out.append({"k": "expval", "terms": [(1.0, rand_word(rng, n))], "style": "word"})
        elif r < 0.5:
            out.append({"k": "expval", "terms": rand_terms(rng, n), "style": rng.choice(["sum", "ham", "lc", "dot", "sprodsum"])})
        elif r < 0.58:
            out.append({"k": "expval", "terms": [(rng.choice(COEFS), rand_word(rng, n))], "style": "sprod"})
        elif r < 0.7:
            out.append({"k": "var", "terms": [(1.0, rand_word(rng, n))], "style": "word"})
        elif r < 0.75:
            out.append({"k": "var", "terms": [(rng.choice([2.0, -0.5, 0.5]), rand_word(rng, n))], "style": "sprod"})
        elif r < 0.9:
            out.append({"k": "probs", "w": rng.sample(range(1, n + 1), rng.randint(1, n))})
        elif r < 0.94 and out:
            out.append(dict(rng.choice(out)))                       # repeated measurement
        elif r < 0.97:
            q = rng.choice([1, 1, 2]) if n >= 2 else 1
            out.append({"k": "herm", "w": rng.sample(range(1, n + 1), q), "mat": None})
            out[-1]["mat"] = 2 if q == 2 else rng.randrange(2)
        elif r < 0.985:
            q = rng.randint(1, min(2, n))
            out.append({"k": "proj", "w": rng.sample(range(1, n + 1), q), "bits": [rng.randint(0, 1) for _ in range(q)]})
        else:
            out.append({"k": "expval", "terms": [(1.0, tuple([0] * n))], "style": "word"})     # expval(Identity)
    return out


def gen_meas_diag(rng, n, qwc=True):
    """measurement list for diagonalize_measurements.  qwc: one basis letter per wire (1..3 Pauli, 4 Hadamard) shared by all
    measurements; otherwise every measurement draws its own basis (conflicts likely: must raise or still be right)."""
    shared = [rng.choice([1, 2, 3, 3, 4]) for _ in range(n)]
    if all(x == 4 for x in shared):
        shared[0] = 3
    out = []
    for _ in range(rng.randint(1, 4)):
        b = shared if qwc else [rng.choice([1, 2, 3, 3, 4]) for _ in range(n)]
        if all(x == 4 for x in b):
            b = [3] + list(b[1:])
        pw = [x if x != 4 else 0 for x in b]
        r = rng.random()
        if r < 0.3:
            out.append({"k": rng.choice(["expval", "var"]), "terms": [(1.0, basis_word(rng, pw))], "style": "word"})
        elif r < 0.6:
            out.append({"k": rng.choice(["expval", "expval", "var"]), "terms": rand_terms(rng, n, basis=pw),
                        "style": rng.choice(["sum", "ham", "lc", "dot", "sprodsum"])})
        elif r < 0.7:
            out.append({"k": rng.choice(["expval", "var"]), "terms": [(rng.choice(COEFS), basis_word(rng, pw))], "style": "sprod"})
        elif r < 0.85:
            zs = [i + 1 for i, x in enumerate(b) if x == 3]
            if zs:
                out.append({"k": "probs", "w": rng.sample(zs, rng.randint(1, len(zs)))})
        elif r < 0.95:
            hs = [i + 1 for i, x in enumerate(b) if x == 4]
            if hs:
                out.append({"k": "had", "kind": rng.choice(["expval", "var"]), "w": [rng.choice(hs)]})
        else:
            out.append({"k": "herm", "w": [rng.randint(1, n)], "mat": rng.randrange(2)})
    if not out:
        out.append({"k": "expval", "terms": [(1.0, basis_word(rng, [x if x != 4 else 0 for x in shared]))], "style": "word"})
    return out


def gen_cases(tier, seed):
    rng = random.Random(2000 + seed)
    prng = random.Random(52000 + seed)          # independent stream: identity / cancelling factors inside product terms
    ncase = 420 if tier == "quick" else 5000
    cases = []
    for i in range(ncase):
        n = rng.choice([1, 2, 2, 3, 3, 3, 4])
        L = rng.randint(1, 6)
        circ = devsim.random_circuit(rng, n, M, L, ["g1", "r1", "g2", "r2", "g3", "p3", "u2", "mrz", "prot", "mcx", "adj", "pow", "ctrl", "qft"])
        r = rng.random()
        batch = None
        if r < 0.30:
            tr = ("snc", rng.choice(STRATEGIES))
            meas = gen_meas_split(rng, n, single_sum=rng.random() < 0.3)
        elif r < 0.42:
            tr = ("sst",)
            meas = gen_meas_split(rng, n, single_sum=rng.random() < 0.2)
        elif r < 0.62:
            tr = ("diag", rng.choice(["z", "z", "z", "xyz", "xz", "had"]))
            meas = gen_meas_diag(rng, n, qwc=rng.random() < 0.8)
        elif r < 0.82:
            tr = ("snc+diag", rng.choice(STRATEGIES))
            meas = [m for m in gen_meas_split(rng, n, single_sum=rng.random() < 0.2)]
        elif r < 0.90:
            tr = (rng.choice(["bexp", "bexp", "bpar", "binp"]),)
            meas = gen_meas_split(rng, n)
            batch = True
        elif r < 0.955:
            tr = ("sign",)                      # sign_expand, analytic mode: one expval of a jointly measurable Hamiltonian
            pw = [rng.choice([1, 2, 3]) for _ in range(n)]
            meas = [{"k": "expval", "terms": rand_terms(rng, n, basis=pw if rng.random() < 0.8 else None), "style": rng.choice(["ham", "lc", "sum"])}]
        else:
            tr = ("sst+snc", rng.choice(STRATEGIES))
            meas = gen_meas_split(rng, n)
        if rng.random() < 0.08 and tr[0] in ("snc", "sst"):
            meas.append({"k": "var", "terms": rand_terms(rng, n), "style": "sum"})       # documented as unsupported: must raise
        if batch or (rng.random() < 0.15 and tr[0] not in ("diag", "sign")):
            cand = [k for k, g in enumerate(circ) if len(g["p"]) == 1 and not g["mods"] and g["g"] not in ("GlobalPhase",)]
            batch = (rng.choice(cand), [rng.randrange(16) for _ in range(rng.choice([2, 3]))]) if cand else None
            if batch is None and tr[0] in ("bexp", "bpar", "binp"):
                circ.append(devsim.random_gate(rng, n, M, ["r1"]))
                batch = (len(circ) - 1, [rng.randrange(16) for _ in range(3)])
        if tr[0] != "sign" and n >= 2 and prng.random() < (0.75 if tr[0] in ("diag", "snc+diag") else 0.35):
            meas = [dict(m) for m in meas]
            for m in meas:
                if m["k"] in ("expval", "var"):
                    add_pads(prng, m, n)
        cases.append({"id": i, "n": n, "circ": circ, "labels": devsim.labels_for(rng, n), "meas": meas, "tr": list(tr), "batch": batch,
                      "idstyle": rng.choice(["wire", "wireless"])})
    return cases


# ------------------------------------------------------------------------------------------------ PennyLane objects
def word_op(w, labels, idstyle="wire", pad=()):
    """the word as a PennyLane operator.  pad: factors that do not change the word but put operator wires outside its Pauli
    support: (pos, 0, front) an explicit Identity factor on wire pos, (pos, letter, front) two equal Pauli factors that cancel."""
    L = {1: qp.X, 2: qp.Y, 3: qp.Z}
    f = [L[c](labels[i]) for i, c in enumerate(w) if c]
    if not f:
        return qp.Identity(labels[0]) if idstyle == "wire" else qp.Identity()
    for pos, kind, front in pad:
        extra = [qp.Identity(labels[pos])] if kind == 0 else [L[kind](labels[pos]), L[kind](labels[pos])]
        f = extra + f if front else f + extra
    return f[0] if len(f) == 1 else qp.prod(*f)


def add_pads(prng, m, n):
    """decorate the terms of an expval / var measurement with identity / cancelling factors (the sentence is unchanged)"""
    pads, any_ = [], False
    for _, w in m["terms"]:
        free = [i for i, x in enumerate(w) if not x]
        if any(w) and free and prng.random() < 0.4:
            pads.append([(prng.choice(free), 0 if prng.random() < 0.7 else prng.randint(1, 3), prng.random() < 0.5)])
            any_ = True
        else:
            pads.append([])
    if any_:
        m["pad"] = pads


def build_obs(m, labels, idstyle):
    terms, st = m["terms"], m.get("style", "sum")
    pads = m.get("pad") or [[] for _ in terms]
    ops = [word_op(w, labels, idstyle if st not in ("word", "sprod") else "wire", pd) for (_, w), pd in zip(terms, pads)]
    cs = [c for c, _ in terms]
    if st == "word":
        return ops[0]
    if st == "sprod":
        return qp.s_prod(cs[0], ops[0])
    if st == "sum":
        return qp.sum(*[o if c == 1.0 else qp.s_prod(c, o) for c, o in zip(cs, ops)])
    if st == "sprodsum":
        return qp.s_prod(2.0, qp.sum(*[qp.s_prod(c / 2, o) for c, o in zip(cs, ops)]))
    if st == "ham":
        return qp.Hamiltonian(cs, ops)
    if st == "ham_qwc":
        return qp.Hamiltonian(cs, ops, grouping_type="qwc")
    if st == "ham_comm":
        return qp.Hamiltonian(cs, ops, grouping_type="commuting")
    if st == "lc":
        return qp.ops.LinearCombination(cs, ops)
    if st == "dot":
        return qp.dot(cs, ops)
    raise KeyError(st)


def build_meas(m, labels, idstyle):
    k = m["k"]
    if k in ("expval", "var"):
        o = build_obs(m, labels, idstyle)
        return qp.expval(o) if k == "expval" else qp.var(o)
    if k == "probs":
        return qp.probs(wires=[labels[w - 1] for w in m["w"]])
    if k == "herm":
        return qp.expval(qp.Hermitian(HERMS[m["mat"]], wires=[labels[w - 1] for w in m["w"]]))
    if k == "proj":
        return qp.expval(qp.Projector(m["bits"], wires=[labels[w - 1] for w in m["w"]]))
    if k == "had":
        o = qp.Hadamard(labels[m["w"][0] - 1])
        return qp.expval(o) if m["kind"] == "expval" else qp.var(o)
    raise KeyError(k)


def spec_desc(m, mp, n):
    """descriptor of an INPUT measurement from the generator's own data (not decoded from the PennyLane object)"""
    k = m["k"]
    if k in ("expval", "var"):
        sent = {}
        for c, w in m["terms"]:
            sent[tuple(w)] = sent.get(tuple(w), 0) + c
        sup = sorted({i + 1 for _, w in m["terms"] for i, x in enumerate(w) if x})
        return {"t": k, "sent": ma.clean(sent), "w": [], "op": mp.obs, "sup": sup, "cls": type(mp).__name__}
    if k == "probs":
        return {"t": "probs", "sent": None, "w": list(m["w"]), "op": None, "sup": sorted(m["w"]), "cls": "ProbabilityMP"}
    t = m["kind"] if k == "had" else "expval"
    return {"t": t, "sent": None, "w": [], "op": mp.obs, "sup": sorted(m["w"]), "cls": type(mp).__name__}


def build_tape(c):
    labels, n = c["labels"], c["n"]
    ops = [decode_gate(g, M, labels) for g in c["circ"]]
    if c["batch"] is not None:
        k, angs = c["batch"]
        g = c["circ"][k]
        arr = np.array([lib.angle_of(a, M) for a in angs])
        ops[k] = (qp.PauliRot(arr, ops[k].hyperparameters["pauli_word"], wires=ops[k].wires) if g["g"] == "PauliRot"
                  else type(ops[k])(arr, wires=ops[k].wires))
    mps = [build_meas(m, labels, c["idstyle"]) for m in c["meas"]]
    return qp.tape.QuantumScript(ops, mps)


def input_variants(c):
    if c["batch"] is None:
        return [c["circ"]]
    k, angs = c["batch"]
    out = []
    for a in angs:
        circ = [dict(g) for g in c["circ"]]
        circ[k] = dict(circ[k], p=[a])
        out.append(circ)
    return out


# ------------------------------------------------------------------------------------------------ transforms
def _snc(gs):
    return lambda t: qp.transforms.split_non_commuting(t, grouping_strategy=gs)


DIAG_SUPPORTED = {"z": None, "xyz": [qp.X, qp.Y, qp.Z], "xz": [qp.X, qp.Z], "had": [qp.Hadamard]}


class DiagStage(Exception):
    """diagonalize_measurements did not accept its input (any exception class): the statement only covers accepted sets"""


def _diag(mode):
    def f(t):
        try:
            if DIAG_SUPPORTED[mode] is None:
                return qp.transforms.diagonalize_measurements(t)
            return qp.transforms.diagonalize_measurements(t, supported_base_obs=DIAG_SUPPORTED[mode])
        except Exception as e:  # noqa: BLE001
            raise DiagStage(f"{type(e).__name__}: {e}") from e
    return f


def chain(first, second):
    def f(tape):
        tapes1, fn1 = first(tape)
        subs = [second(t) for t in tapes1]
        flat, spans, k = [], [], 0
        for ts, _ in subs:
            flat += list(ts)
            spans.append((k, k + len(ts)))
            k += len(ts)

        def post(res):
            return fn1(tuple(fn2(tuple(res[a:b])) for (a, b), (_, fn2) in zip(spans, subs)))
        return flat, post
    return f


def transform_of(tr):
    if tr[0] == "snc":
        return _snc(tr[1])
    if tr[0] == "sst":
        return lambda t: qp.transforms.split_to_single_terms(t)
    if tr[0] == "diag":
        return _diag(tr[1])
    if tr[0] == "snc+diag":
        return chain(_snc(tr[1]), _diag("z"))
    if tr[0] == "sst+snc":
        return chain(lambda t: qp.transforms.split_to_single_terms(t), _snc(tr[1]))
    if tr[0] == "bexp":
        return lambda t: qp.transforms.broadcast_expand(t)
    if tr[0] == "sign":
        return lambda t: qp.transforms.sign_expand(t)
    if tr[0] in ("bpar", "binp"):
        def f(t):
            pars = t.get_parameters(trainable_only=False)
            idx = [i for i, p_ in enumerate(pars) if np.ndim(p_) == 1 and len(p_) == t.batch_size and np.asarray(p_).dtype.kind == "f"]
            if tr[0] == "bpar":
                return qp.batch_params(qp.tape.QuantumScript(t.operations, t.measurements, trainable_params=idx))
            rest = [i for i in range(len(pars)) if i not in idx]
            return qp.batch_input(qp.tape.QuantumScript(t.operations, t.measurements, trainable_params=rest), argnum=idx)
        return f
    raise KeyError(tr)


def qwc_letters(c):
    """is the input measurement list qubit-wise commuting (own computation; Hadamard = letter 4, other observables = 5+)"""
    per_wire = {}
    for j, m in enumerate(c["meas"]):
        if m["k"] in ("expval", "var"):
            for _, w in m["terms"]:
                for i, x in enumerate(w):
                    if x:
                        per_wire.setdefault(i + 1, set()).add(x)
        elif m["k"] == "probs":
            for w in m["w"]:
                per_wire.setdefault(w, set()).add(3)
        elif m["k"] == "had":
            per_wire.setdefault(m["w"][0], set()).add(4)
        else:
            for w in m["w"]:
                per_wire.setdefault(w, set()).add(("o", m["k"], m.get("mat"), tuple(m.get("bits", [])), tuple(m["w"])))
    return all(len(s) == 1 for s in per_wire.values())


def promised_relation(c, tape):
    tr = c["tr"]
    if tr[0] not in ("snc", "snc+diag", "sst+snc"):
        return "none"
    gs = tr[1]
    ms = c["meas"]
    nonpauli = any(m["k"] in ("herm", "proj", "had") for m in ms)
    if len(ms) == 1 and ms[0]["k"] == "expval" and ms[0].get("style") in ("ham_qwc", "ham_comm") and tr[0] != "sst+snc":
        return "qwc" if ms[0]["style"] == "ham_qwc" else "commuting"       # pre-computed grouping is used whatever the strategy
    if gs is None:
        return "single"
    if gs == "wires" or nonpauli:
        return "wires"
    return "qwc"


def mstr(ms):
    return [str(m) for m in ms]


# ------------------------------------------------------------------------------------------------ the check
def run(tier, seed):
    cases = gen_cases(tier, seed)
    agg, pool = Agg(), ma.EvalPool()
    st = {"calls": 0, "rejected": {}, "expected_rejections": 0, "out_tapes": 0, "multi_tape_batches": 0, "by_transform": {},
          "broadcast_cases": 0, "identity_or_offset_terms": 0, "repeated_words": 0, "nonpauli_obs": 0, "not_rejected_nonqwc": 0,
          "terms_with_wires_outside_support": 0, "diag_calls_with_such_terms": 0,
          "diag_refused_qwc_input": {}, "diag_refusal_examples": []}
    work = []
    for c in cases:
        n, labels = c["n"], c["labels"]
        wpos = {l: i + 1 for i, l in enumerate(labels)}
        tape = build_tape(c)
        in_desc = [spec_desc(m, mp, n) for m, mp in zip(c["meas"], tape.measurements)]
        for d, mp in zip(in_desc, tape.measurements):                   # the structural decoder must agree with the generator
            if d["sent"] is not None:
                dec = ma.clean(ma.decode_obs(mp.obs, wpos, n), 1e-12)
                if set(dec) != set(ma.clean(d["sent"], 1e-12)) or any(abs(dec[w] - d["sent"][w]) > 1e-12 for w in dec):
                    raise lib.MachineryError(f"observable decoder disagrees with the generator on {mp.obs}")
        key = "+".join(str(x) for x in c["tr"])
        st["by_transform"][key] = st["by_transform"].get(key, 0) + 1
        rel = promised_relation(c, tape)
        may_reject = (c["tr"][0] in ("snc", "sst", "sst+snc", "snc+diag") and any(m["k"] == "var" and len(m["terms"]) > 1 for m in c["meas"])) or \
                     (c["tr"][0] in ("diag", "sign") and not qwc_letters(c)) or (c["tr"][0] == "snc+diag" and rel == "commuting")
        before = (mstr(tape.operations), mstr(tape.measurements))
        st["calls"] += 1
        try:
            outs, fn = transform_of(c["tr"])(tape)
            outs = list(outs)
        except Exception as e:  # noqa: BLE001
            cls = type(e).__name__ if not isinstance(e, DiagStage) else "diag:" + str(e).split(":")[0]
            st["rejected"][cls] = st["rejected"].get(cls, 0) + 1
            if may_reject:
                st["expected_rejections"] += 1
            elif isinstance(e, DiagStage):
                st["diag_refused_qwc_input"][cls] = st["diag_refused_qwc_input"].get(cls, 0) + 1
                if len(st["diag_refusal_examples"]) < 3 and cls not in [x[0] for x in st["diag_refusal_examples"]]:
                    st["diag_refusal_examples"].append((cls, str(e)[:160], before[1]))
            else:
                agg.add(f"{key}:unexpected-exception:{cls}", f"{key} raised {cls}: {e} on measurements {before[1]}", {"case": c})
            continue
        if may_reject and c["tr"][0] == "diag":
            st["not_rejected_nonqwc"] += 1
        if (mstr(tape.operations), mstr(tape.measurements)) != before:
            agg.add(f"{key}:input-mutated", f"{key} changed its input tape: {before} -> {mstr(tape.measurements)}", {"case": c})
        # ---- describe + register evaluations
        in_words, in_pws = ma.requests(in_desc)
        in_ids = [pool.add(n, circ, in_words, in_pws) for circ in input_variants(c)]
        o_info, bad = [], None
        for t in outs:
            try:
                var_ops = ma.variants_of(t)
                recs = [ma.encode_exact(ops, wpos, M) for ops in var_ops]
            except (OffLattice, KeyError) as e:
                bad = f"{type(e).__name__}: {e}"
                break
            desc = [ma.describe_mp(mp, wpos, n, labels) for mp in t.measurements]
            ws, ps = ma.requests(desc)
            o_info.append({"desc": desc, "ids": [pool.add(n, r, ws, ps) for r in recs], "batched": bool(t.batch_size),
                           "tape": t})
        if bad:
            agg.add(f"{key}:output-not-encodable", f"{key}: output tape operation outside the reference table: {bad}", {"case": c})
            continue
        st["out_tapes"] += len(outs)
        st["multi_tape_batches"] += len(outs) > 1
        st["broadcast_cases"] += c["batch"] is not None
        st["identity_or_offset_terms"] += any(m["k"] in ("expval", "var") and any(not any(w) for _, w in m["terms"]) for m in c["meas"])
        st["repeated_words"] += any(m["k"] in ("expval", "var") and len({w for _, w in m["terms"]}) < len(m["terms"]) for m in c["meas"])
        st["nonpauli_obs"] += any(m["k"] in ("herm", "proj", "had") for m in c["meas"])
        npad = sum(bool(pd) for m in c["meas"] for pd in m.get("pad", []))
        st["terms_with_wires_outside_support"] += npad
        st["diag_calls_with_such_terms"] += bool(npad) and c["tr"][0] in ("diag", "snc+diag")
        work.append({"c": c, "key": key, "wpos": wpos, "in_desc": in_desc, "in_ids": in_ids, "outs": o_info, "fn": fn, "rel": rel, "tape": tape})
    stats = pool.run(PID, M)
    bd = batch_dims_replay(tier, seed, agg)
    # ---- replay: real post-processing on exact output results vs exact input result
    traces, tmeta, n_cmp, nontriv, samples = [], [], 0, set(), []
    n_probe_fail = 0
    for w in work:
        c, n, wpos, key = w["c"], w["c"]["n"], w["wpos"], w["key"]
        in_evs = [pool.ev[i] for i in w["in_ids"]]
        try:
            exp = ma.pl_result(w["in_desc"], in_evs, wpos, n, c["batch"] is not None)
            results = tuple(ma.pl_result(o["desc"], [pool.ev[i] for i in o["ids"]], wpos, n, o["batched"]) for o in w["outs"])
        except ma.NonPauli as e:
            agg.add(f"{key}:output-measurement-not-evaluable", f"{key}: {e}", {"case": c})
            continue
        shown = {"transform": key, "ops": mstr(w["tape"].operations), "measurements": mstr(w["tape"].measurements),
                 "output_measurements": [mstr(o["tape"].measurements) for o in w["outs"]],
                 "output_extra_ops": [mstr(o["tape"].operations[len(w["tape"].operations):]) for o in w["outs"]]}
        try:
            got = w["fn"](results)
        except Exception as e:  # noqa: BLE001
            agg.add(f"{key}:postprocessing-exception:{type(e).__name__}", f"post-processing raised {type(e).__name__}: {e}; {shown}", {"case": c, **shown})
            continue
        ok, why, idx = ma.same(got, exp, len(w["in_desc"]), tol=1e-6 if c["tr"][0] == "sign" else 1e-8)   # sign_expand builds its observables by a float eigendecomposition
        n_cmp += len(w["in_desc"])
        if not ok:
            mk = c["meas"][idx]["k"] if idx < len(c["meas"]) else "?"
            if idx < len(c["meas"]) and any(not any(w_) and co != 1.0 for co, w_ in c["meas"][idx].get("terms", [])):
                mk += ":identity-term-with-coefficient"
            if idx < len(c["meas"]) and c["meas"][idx]["k"] in ("herm", "proj") and any(
                    m2["k"] in ("expval", "var") and any(w_[x - 1] in (1, 2) for _, w_ in m2["terms"] for x in c["meas"][idx]["w"])
                    or m2["k"] == "had" and m2["w"][0] in c["meas"][idx]["w"] for m2 in c["meas"]):
                mk += ":shares-wire-with-rotated-pauli"
            if c["tr"][0] == "sign":
                from .. import bridge
                mat = sum(co * bridge.pauli_word(list(w_)) for co, w_ in c["meas"][0]["terms"])
                ev_ = np.linalg.eigvalsh(mat)
                mk += ":asymmetric-spectrum" if abs(ev_[0] + ev_[-1]) > 1e-9 else ":symmetric-spectrum"
                mk += ":complex-matrix" if np.max(np.abs(np.imag(mat))) > 1e-12 else ":real-matrix"
            agg.add(f"{key}:{why}:{mk}", f"{key}: measurement {idx} ({shown['measurements'][idx] if idx < len(shown['measurements']) else '?'}): "
                    f"post(exact results of outputs) = {_show(got, idx, len(w['in_desc']))}, exact result of the input = {_show(exp, idx, len(w['in_desc']))}; {shown}",
                    {"case": c, **shown})
        else:
            nontriv.add((key, json.dumps(shown["measurements"]), json.dumps(shown["output_measurements"])))
        if len(samples) < 4 and len(w["outs"]) >= 2 and len(c["meas"]) >= 3 and ok:
            samples.append(shown)
        # ---- trace record for TLC
        rec = {"n": n, "rel": w["rel"], "zonly": False, "exact": False, "tin": ma.structure_tape(w["in_desc"]),
               "touts": [ma.structure_tape(o["desc"]) for o in w["outs"]], "rows": [], "offs": []}
        if c["tr"][0] == "diag" and c["tr"][1] == "z" or c["tr"][0] == "snc+diag":
            rec["zonly"] = not any(m["k"] in ("herm", "proj") for m in c["meas"])
        tin = ma.trace_tape(w["in_desc"], in_evs)
        touts = [ma.trace_tape(o["desc"], [pool.ev[i] for i in o["ids"]]) for o in w["outs"]]
        if ok and tin is not None and all(t is not None for t in touts) and not any(m["t"] == "other" for t in [tin] + touts for m in t["meas"]):
            pr = ma.linear_probe(w["fn"], results, [len(o["desc"]) for o in w["outs"]], len(w["in_desc"]))
            sp = ma.sparse_rows(pr[0], pr[1]) if pr is not None else None
            if sp is None:
                n_probe_fail += 1
            else:
                rec.update(exact=True, tin=tin, touts=touts, rows=sp[0], offs=sp[1])
        traces.append(rec)
        tmeta.append({"case": c, "shown": shown, "key": key, "control": None, "r": pr[2].tolist() if rec["exact"] else []})
    # ---- negative controls: corrupted copies of recorded calls must be rejected by TLC
    controls = _controls(traces, tmeta)
    for rec, meta in controls:
        traces.append(rec)
        tmeta.append(meta)
    verd, r = ma.validate_traces(PID, "Trace_MeasSplit", traces, M)
    vc, rejected_controls = {}, {}
    for i, meta in enumerate(tmeta):
        cl, idx = verd[i + 1]
        if meta["control"]:
            if meta.get("soft") and cl in ("ok", "skip-overflow"):
                continue
            if cl in ("ok", "ok-structure", "skip-overflow"):
                raise lib.MachineryError(f"negative control accepted by TLC: {meta['control']} -> {cl}")
            if cl != meta["expect"]:
                raise lib.MachineryError(f"negative control {meta['control']} rejected for the wrong reason: {cl}")
            rejected_controls[meta["control"]] = rejected_controls.get(meta["control"], 0) + 1
            continue
        vc[cl] = vc.get(cl, 0) + 1
        if cl == "missing-value":
            raise lib.MachineryError(f"TLC needed a value the driver did not request: {meta['shown']}")
        if cl not in ("ok", "ok-structure", "skip-overflow"):
            agg.add(f"{meta['key']}:tlc:{cl}", f"{meta['key']}: TLC clause {cl} (index {idx}) fails for {meta['shown']}",
                    {"case": meta["case"], **meta["shown"]})
    need = {"coefficient", "relation", "basis", "order"}
    if not need <= set(rejected_controls):
        raise lib.MachineryError(f"negative controls not all exercised: {sorted(rejected_controls)}")
    if vc.get("ok", 0) < 50 or st["expected_rejections"] == 0 or st["multi_tape_batches"] < 20 or st["diag_calls_with_such_terms"] < 15:
        raise lib.MachineryError(f"vacuity: {vc} {st}")
    cov = {"states": stats["distinct"] + r["distinct"] + bd.pop("distinct"), "transitions": stats["generated"] + r["generated"] + bd.pop("generated"),
           "batch_dimension_replay": bd,
           "traces_validated_against_impl": len(traces) - len(controls), "evaluations": n_cmp, "distinct_nontrivial": len(nontriv),
           "rule": "distinct (transform, input measurement list, output measurement lists) triples whose recombined exact result was compared "
                   "with the exact input result and agreed",
           "samples": samples, "exhaustive": False, "tlc_verdicts": vc, "exact_recombinations_decided_by_tlc": vc.get("ok", 0),
           "affine_probe_not_dyadic": n_probe_fail, "negative_controls_rejected": sum(rejected_controls.values()),
           "negative_control_kinds": rejected_controls, "tapes_evaluated_exactly": len(pool.items), "ring_level_M": M, **st}
    return CheckResult(coverage=cov, violations=agg.violations(), assumptions=[
        "angles on the lattice 4*pi/16, dyadic coefficients; circuits and measurement lists are sampled (seeded), not exhaustive",
        "values of Hermitian / Projector / Hadamard observables and float comparison (1e-8) are computed with numpy from TLC's exact state",
        "sample / counts post-processing and the circuit mode of sign_expand are not covered (partial); result values of batch_params / batch_input are "
        "checked on tapes with one broadcast parameter; for several batched parameters (BatchDimsGen) the accept / reject verdict, the parameters of every "
        "output tape and the stacking order of the post-processing are checked, not executed values",
        "the exact clause Recombine treats the post-processing function as the affine map measured by probing it on basis vectors "
        "(affinity is confirmed numerically on the actual results)"])


# ------------------------------------------------------------------------------------------------ batch dimensions (REPLAY)
BD_GATES = [qp.RX, qp.RY, qp.RZ, qp.PhaseShift]


def bd_call(x, seed):
    """run the real transform on the parameter set of one BatchDimsGen case -> observation"""
    k = len(x["dims"])
    ops = []
    for i in range(k):
        a = x["params"][i]
        val = lib.angle_of(a[0], M) if x["dims"][i] == 0 else np.array([lib.angle_of(v, M) for v in a])
        ops.append(BD_GATES[(i + seed) % 4](val, wires=i % 2))
        if i == 0:
            ops.append(qp.CNOT([0, 1]))
    meas = [qp.expval(qp.Z(0) @ qp.X(1)), qp.probs(wires=[1])]
    sel = [i for i in range(k) if x["sel"][i]]
    rest = [i for i in range(k) if not x["sel"][i]]
    try:
        if x["tr"] == "params":
            tapes, fn = qp.batch_params(qp.tape.QuantumScript(ops, meas, trainable_params=sel))
        elif x["tr"] == "params_all":
            tapes, fn = qp.batch_params(qp.tape.QuantumScript(ops, meas, trainable_params=[]), all_operations=True)
        else:
            tapes, fn = qp.batch_input(qp.tape.QuantumScript(ops, meas, trainable_params=rest), argnum=sel)
    except Exception as e:  # noqa: BLE001
        return {"raised": type(e).__name__, "msg": str(e)[:120]}
    obs = {"raised": None, "tapes": [], "stack": None}
    for t in tapes:
        ps = t.get_parameters(trainable_only=False)
        obs["tapes"].append([float(p_) if np.ndim(p_) == 0 else None for p_ in ps])
    try:
        res = tuple((float(b + 1), np.array([b + 1.0, -(b + 1.0)])) for b in range(len(tapes)))
        got = fn(res)
        obs["stack"] = [np.asarray(got[0], dtype=float).tolist(), np.asarray(got[1], dtype=float).tolist()]
    except Exception as e:  # noqa: BLE001
        obs["stack"] = f"{type(e).__name__}: {e}"
    return obs


def bd_compare(x, obs):
    """None when the observation is what the specification expects, else (key suffix, message)"""
    if x["why"] != "accept":
        if obs["raised"] is None:
            return (f"accepted-undefined-batch:{x['why']}", f"returned {len(obs['tapes'])} tapes instead of raising")
        return None
    if obs["raised"] is not None:
        return (f"unexpected-exception:{obs['raised']}", f"raised {obs['raised']}: {obs['msg']}")
    exp = [[lib.angle_of(a, M) for a in row] for row in x["tapes"]]
    if len(obs["tapes"]) != len(exp):
        return ("batch-length", f"{len(obs['tapes'])} tapes, expected {len(exp)}")
    for b, (g, e) in enumerate(zip(obs["tapes"], exp)):
        if len(g) != len(e) or any(v is None or abs(v - w) > 1e-12 for v, w in zip(g, e)):
            return ("tape-parameters", f"tape {b} has parameters {g}, expected {e}")
    d = len(exp)
    want = [[b + 1.0 for b in range(d)], [[b + 1.0, -(b + 1.0)] for b in range(d)]]
    if obs["stack"] != want:
        return ("stacking-order", f"post-processing of marker results gave {obs['stack']}, expected {want}")
    return None


def batch_dims_replay(tier, seed, agg):
    dims = [0, 2, 3] if tier == "quick" else [0, 1, 2, 3, 5]
    maxk = 3 if tier == "quick" else 4
    g = lib.run_tlc_mc("BatchDimsGen", {}, lib.workdir(PID, "batchdims"),
                       constants={"Dims": "{" + ", ".join(map(str, dims)) + "}", "MaxK": maxk, "Seed": seed % 16}, invariants=["Laws"], timeout=1500)
    if g.invariant_violated:
        raise lib.MachineryError("BatchDimsGen violates its own clauses (oracle error): " + g.out[-1200:])
    lib.require_ok(g, "BatchDimsGen")
    cases = sorted(g.json_lines, key=lambda x: json.dumps(x, sort_keys=True))
    stt = {"calls": len(cases), "accepted": 0, "rejected_by_reason": {}, "later_parameter_longer": 0, "negative_controls_rejected": 0,
           "distinct": g.distinct, "generated": g.generated}
    ctl, nbad = {}, 0
    for x in cases:
        obs = bd_call(x, seed)
        bad = bd_compare(x, obs)
        seld = [d for d, s_ in zip(x["dims"], x["sel"]) if s_]
        if x["why"] == "accept":
            stt["accepted"] += 1
        else:
            stt["rejected_by_reason"][x["why"]] = stt["rejected_by_reason"].get(x["why"], 0) + 1
            stt["later_parameter_longer"] += x["why"] == "dims-differ" and any(d > seld[0] for d in seld[1:])
        if bad:
            nbad += 1
            agg.add(f"batchdims:{x['tr']}:{bad[0]}", f"{x['tr']} on parameters with leading dimensions {x['dims']} (0 = scalar), transformed positions "
                    f"{[i for i, s_ in enumerate(x['sel']) if s_]}: {bad[1]} (specification: {x['why']})", {"case": x})
            continue
        # negative controls: a flipped verdict / a permuted expected batch must be noticed by the comparator
        kind = "verdict-accept" if x["why"] == "accept" else "verdict-reject"
        if kind not in ctl:
            y = dict(x, why="dims-differ", tapes=[]) if x["why"] == "accept" else dict(x, why="accept", tapes=[[0] * len(x["dims"])])
            ctl[kind] = bd_compare(y, obs) is not None
        if x["why"] == "accept" and len(x["tapes"]) >= 2 and x["tapes"][0] != x["tapes"][1] and "order" not in ctl:
            ctl["order"] = bd_compare(dict(x, tapes=[x["tapes"][1], x["tapes"][0]] + x["tapes"][2:]), obs) is not None
    if not nbad and (set(ctl) != {"verdict-accept", "verdict-reject", "order"} or not all(ctl.values())):
        raise lib.MachineryError(f"batch-dimension negative controls accepted: {ctl}")
    stt["negative_controls_rejected"] = sum(ctl.values())
    if stt["accepted"] < 20 or stt["later_parameter_longer"] < 10 or len(stt["rejected_by_reason"]) < 3:
        raise lib.MachineryError(f"vacuity (batch dimensions): {stt}")
    return stt


def _show(res, idx, nmeas):
    try:
        x = res[idx] if nmeas != 1 else res
        return np.round(np.asarray(qp.math.toarray(x) if not isinstance(x, (float, int, np.ndarray, np.generic)) else x, dtype=complex).real, 6).tolist()
    except Exception:  # noqa: BLE001
        return repr(res)


def _controls(traces, tmeta):
    out, kinds = [], {"coefficient": 0, "order": 0, "relation": 0, "basis": 0, "offset": 0}
    cp = lambda x: json.loads(json.dumps(x))
    for rec, meta in zip(list(traces), list(tmeta)):
        hit = [(i, t) for i, row in enumerate(rec["rows"]) for t, e in enumerate(row) if abs(meta["r"][e["j"] - 1]) > 1e-6] if rec["exact"] else []
        if hit and kinds["coefficient"] < 3:
            i, t = hit[-1]
            r2 = cp(rec)
            r2["rows"][i][t]["c"][0] += 1 if r2["rows"][i][t]["c"][2] == 0 else 2
            out.append((r2, {"control": "coefficient", "expect": "recombination-mismatch"}))
            kinds["coefficient"] += 1
        if rec["exact"] and kinds["offset"] < 2 and rec["offs"]:
            r2 = cp(rec)
            r2["offs"][-1] = [r2["offs"][-1][0] + (1 << r2["offs"][-1][2]), 0, r2["offs"][-1][2]]
            out.append((r2, {"control": "offset", "expect": "recombination-mismatch"}))
            kinds["offset"] += 1
        if rec["exact"] and kinds["order"] < 3 and len(rec["rows"]) >= 2:
            r2 = cp(rec)
            r2["rows"][0], r2["rows"][1] = r2["rows"][1], r2["rows"][0]
            r2["offs"][0], r2["offs"][1] = r2["offs"][1], r2["offs"][0]
            out.append((r2, {"control": "order", "expect": "recombination-mismatch", "soft": True}))
            kinds["order"] += 1
        if kinds["relation"] < 3 and rec["rel"] in ("qwc", "wires") and any(len(t["meas"]) >= 2 for t in rec["touts"]):
            r2 = cp(rec)
            r2["rel"] = "single"
            out.append((r2, {"control": "relation", "expect": "group-relation"}))
            kinds["relation"] += 1
        if kinds["basis"] < 3 and not rec["zonly"] and any(any(x in (1, 2) for tm in m["terms"] for x in tm["w"]) for t in rec["touts"] for m in t["meas"]):
            r2 = cp(rec)
            r2["zonly"] = True
            out.append((r2, {"control": "basis", "expect": "not-z-basis"}))
            kinds["basis"] += 1
    return [(r, dict(case=None, shown=None, key="control", **m)) for r, m in out]
