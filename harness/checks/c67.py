"""C67 OpenQASM export preserves the circuit; circuits imported with from_qasm3 match their source program.

(T) QelibSelf.tla: TLC model-checks the OpenQASM gate table of the spec (Qelib1.tla) against the qelib1.inc / stdgates.inc
    DEFINITIONS of the same names (bodies over U and CX), exact unitarity, over the angle lattice.
(E) export, REL  Denotes(program, tape): circuits over the exportable gate set (every gate name exhaustively on its own,
    seeded random circuits with wire labels, `wires` orders, measure_all / rotations / precision options, mid-circuit
    measurements and conditionals, decomposed gates) are exported with qp.to_openqasm; the text is read back by an
    independent reader (openqasm3 reference parser -> statements; harness/qasmio.py) and Trace_Qasm.tla decides exactly
    U(program) = U(tape) up to a global phase (measurements deferred to ancillas on both sides by the spec's own rule),
    the measured register, the register size and the printed precision of every angle.
(I) import, REPLAY+REL: QasmGen.tla enumerates abstract OpenQASM 3 programs of the supported subset (all one-statement
    programs exhaustively, long ones by simulation); the harness renders each to text, imports it with qp.from_qasm3,
    records the imported tape, and Trace_Qasm.tla decides  U(imported tape) = denotation of the program.
(S) import HISTORIES, REPLAY+REL: QasmSession.tla generates sessions of from_qasm3 calls in one process (Import(program, wire_map)
    / Call(handle) interleaved; the same program text imported again under other wire_maps with the same keys, with no wire_map,
    handles called repeatedly and after later imports) with the expected (program, placement) of every Call; the harness replays
    each session in this process and Trace_Qasm.tla decides per Call  U(recorded tape) = denotation of the program with its
    qubits placed by the wire_map of the Import that returned the handle."""
import itertools
import random

import numpy as np

import pennylane as qp

from .. import devsim, lib, qasmio
from ..codec import ARITY, OffLattice, decode_gate, rec
from ..lib import CheckResult, Violation
from ..qasmio import ReaderError, gate_ins, ins

M = 4            # ring level of the main batch (angles k*pi/4)
M_FINE = 5       # thorough tier: decomposed gates on the finer lattice k*pi/8
N = 1 << M
PID = "C67"
# sizes per tier: random export circuits; simulated import programs (3 qubits x 6 statements, 2 qubits x 9 statements)
SIZES = {"quick": {"export": 280, "sim": 110, "sim2": 0, "sessions": 28}, "thorough": {"export": 4000, "sim": 1500, "sim2": 600, "sessions": 400}}
SESSION = {"NP": 2, "NQ": 2, "NW": 3, "MaxImp": 3, "MaxSteps": 6}      # QasmSession.tla constants
SESSION_LABELS = [["a", "b", "c"], [5, 0, "x"], [2, 1, 0], [0, 1, 2]]   # wire labels of the shared register

NATIVE0 = ["PauliX", "PauliY", "PauliZ", "Hadamard", "S", "T", "Identity", "CNOT", "CZ", "SWAP", "Toffoli", "CSWAP"]
NATIVE_ADJ = ["S", "T"]
NATIVE1 = ["RX", "RY", "RZ", "PhaseShift", "U1", "CRX", "CRY", "CRZ"]
NATIVEP = {"U2": 2, "U3": 3}
# gates without an OpenQASM name: exported through their decomposition
DECOMP_KINDS = ["g1", "g2", "r2", "g3", "p3", "mrz", "prot", "mcx", "adj", "pow", "ctrl"]
PAULI_REF = {1: [rec("Hadamard", [0])], 2: [rec("S", [0], mods=[{"t": "adj"}]), rec("Hadamard", [0])], 3: [],
             4: [rec("RY", [0], [-(N // 16)])]}          # X, Y, Z, Hadamard -> gates mapping the eigenbasis to the Z basis


def native_gate(rng, n, N=N):
    while True:
        r = rng.random()
        if r < 0.3:
            g = rng.choice(NATIVE0)
            if ARITY[g] <= n:
                return rec(g, rng.sample(range(1, n + 1), ARITY[g]))
        elif r < 0.38:
            return rec(rng.choice(NATIVE_ADJ), [rng.randint(1, n)], mods=[{"t": "adj"}])
        elif r < 0.8:
            g = rng.choice(NATIVE1)
            if ARITY[g] <= n:
                return rec(g, rng.sample(range(1, n + 1), ARITY[g]), [rng.randint(-(N - 1), N - 1)])
        elif r < 0.95:
            g = rng.choice(list(NATIVEP))
            return rec(g, [rng.randint(1, n)], [rng.randint(-(N - 1), N - 1) for _ in range(NATIVEP[g])])
        else:
            return rec("GlobalPhase", [], [rng.randint(-(N - 1), N - 1)])


def decode(r, labels, m=M):
    if r["g"] == "GlobalPhase" and not r["mods"]:
        return qp.GlobalPhase(lib.angle_of(r["p"][0], m))
    return decode_gate(r, m, labels)


def single_gate_cases():
    """every exportable gate name on its own: all placements on 3 wires, three angle tuples"""
    out = []
    for g in NATIVE0:
        for w in itertools.permutations(range(1, 4), ARITY[g]):
            out.append([rec(g, list(w))])
    out.append([rec("Identity", [1, 3])])          # Identity takes any number of wires
    for g in NATIVE_ADJ:
        for w in range(1, 4):
            out.append([rec(g, [w], mods=[{"t": "adj"}])])
    for g in NATIVE1:
        for w in itertools.permutations(range(1, 4), ARITY[g]):
            for a in (3, -10):
                out.append([rec(g, list(w), [a])])
    for g, k in NATIVEP.items():
        for w in range(1, 4):
            for p in ((3, 13, -7), (-12, 5, 2)):
                out.append([rec(g, [w], list(p[:k]))])
    for a in (3, -10):
        out.append([rec("Hadamard", [2]), rec("GlobalPhase", [], [a])])
    return out


def gen_export(tier, seed):
    rng = random.Random(6700 + seed)
    cases = []
    for circ in single_gate_cases():
        cases.append({"n": 3, "circ": [("g", r) for r in circ], "labels": [0, 1, 2], "wires": None, "measure_all": True, "rotations": False,
                      "precision": None, "meas": [("probs", [1, 2, 3])], "kind": "single", "via": "tape", "M": M})
    nrand = SIZES[tier]["export"]
    for i in range(nrand):
        kind = rng.choice(["native", "native", "native", "decomp", "mcm"])
        m = M_FINE if (kind == "decomp" and tier != "quick" and rng.random() < 0.5) else M
        NN = 1 << m
        n = rng.choice([1, 2, 2, 3, 3, 3, 4])
        nmcm = 0
        circ = []
        L = rng.randint(1, 8)
        if kind == "mcm":
            n = rng.choice([1, 2, 2, 3])
        for _ in range(L):
            if kind == "decomp" and rng.random() < 0.5:
                g = devsim.random_gate(rng, n, m, DECOMP_KINDS)
                if rng.random() < 0.75:
                    g = dict(g, p=[a - (a % 2) for a in g["p"]])       # most decompositions halve the angle
                circ.append(("g", g))
            elif kind == "mcm" and nmcm < 2 and rng.random() < 0.3:
                nmcm += 1
                circ.append(("m", rng.randint(1, n), nmcm))
            elif kind == "mcm" and nmcm and rng.random() < 0.45:
                circ.append(("c", native_gate(rng, n, NN), rng.randint(1, nmcm)))
            else:
                circ.append(("g", native_gate(rng, n, NN)))
        labels = devsim.labels_for(rng, n)
        r = rng.random()
        wires, wkind = None, "default"
        if r < 0.3:
            wires, wkind = rng.sample(labels, n), "perm"
        elif r < 0.45 and n + nmcm <= 4:
            wires = rng.sample(labels, n)
            wires.insert(rng.randint(0, n), "zz")
            wkind = "superset"
        rotations = kind != "mcm" and rng.random() < 0.3
        meas = []
        if rotations:
            ws = rng.sample(range(1, n + 1), rng.randint(1, n))
            meas.append((rng.choice(["expval", "var"]), [(w, rng.choice([1, 2, 3, 3, 4])) for w in ws]))
        else:
            for _ in range(rng.randint(1, 2)):
                mk = rng.choice(["probs", "sample", "counts", "expvalz", "state"] + (["mcmsample"] if nmcm else []))
                if mk in ("probs", "sample", "counts"):
                    meas.append((mk, rng.sample(range(1, n + 1), rng.randint(1, n))))
                elif mk == "expvalz":
                    meas.append(("expval", [(rng.randint(1, n), 3)]))
                elif mk == "mcmsample":
                    meas.append(("mcmsample", rng.randint(1, nmcm)))
                else:
                    meas.append(("state",))
        if not any(it[0] != "g" or it[1]["w"] for it in circ) and all(m[0] == "state" for m in meas):
            wires, wkind = None, "default"          # a circuit without wires is exported as the bare header
        cases.append({"n": n, "circ": circ, "labels": labels, "wires": wires, "wkind": wkind, "measure_all": rng.random() < 0.5,
                      "rotations": rotations, "precision": rng.choice([None, None, 3, 5, 8]), "meas": meas, "kind": kind, "M": m,
                      "via": "qnode" if (i % 9 == 0 and kind != "mcm") else "tape"})
    return cases


def build_tape(c):
    labels, lvl = c["labels"], c["M"]

    def fn():
        mvs = {}
        for it in c["circ"]:
            if it[0] == "g":
                decode(it[1], labels, lvl)
            elif it[0] == "m":
                mvs[it[2]] = qp.measure(labels[it[1] - 1])
            else:
                qp.cond(mvs[it[2]], lambda r=it[1]: decode(r, labels, lvl))()
        out = []
        for m in c["meas"]:
            if m[0] in ("expval", "var"):
                obs = [{1: qp.X, 2: qp.Y, 3: qp.Z, 4: qp.Hadamard}[p](labels[w - 1]) for w, p in m[1]]
                o = obs[0] if len(obs) == 1 else qp.prod(*obs)
                out.append(qp.expval(o) if m[0] == "expval" else qp.var(o))
            elif m[0] == "probs":
                out.append(qp.probs(wires=[labels[w - 1] for w in m[1]]))
            elif m[0] == "sample":
                out.append(qp.sample(wires=[labels[w - 1] for w in m[1]]))
            elif m[0] == "counts":
                out.append(qp.counts(wires=[labels[w - 1] for w in m[1]]))
            elif m[0] == "mcmsample":
                out.append(qp.sample(mvs[m[1]]))
            else:
                out.append(qp.state())
        return tuple(out)
    return fn


def expected_side(c):
    """tape-side instructions (register positions of `wires` if given, else of the tape's wires) and the measured register"""
    labels, n = c["labels"], c["n"]
    used = []
    for it in c["circ"]:
        ws = it[1]["w"] if it[0] in ("g", "c") else [it[1]]
        for w in ws:
            if labels[w - 1] not in used:
                used.append(labels[w - 1])
    measured = []
    for m in c["meas"]:
        ws = [w for w, _ in m[1]] if m[0] in ("expval", "var") else (m[1] if m[0] in ("probs", "sample", "counts") else [])
        for w in ws:
            if labels[w - 1] not in measured:
                measured.append(labels[w - 1])
    tape_wires = used + [w for w in measured if w not in used]
    regs = list(c["wires"]) if c["wires"] is not None else tape_wires
    pos = {lab: regs.index(lab) + 1 for lab in tape_wires}
    remap = lambda r: dict(r, w=[pos[labels[w - 1]] for w in r["w"]])
    a = []
    for it in c["circ"]:
        if it[0] == "g":
            a.append(gate_ins(remap(it[1])))
        elif it[0] == "m":
            a.append(ins("m", w=pos[labels[it[1] - 1]], anc=it[2]))
        else:
            a.append(gate_ins(remap(it[1]), [it[2]], [[1]]))
    if c["rotations"]:
        for m in c["meas"]:
            if m[0] in ("expval", "var"):
                for w, p in m[1]:
                    for r in PAULI_REF[p]:
                        a.append(gate_ins(dict(r, w=[pos[labels[w - 1]]], p=[x * (1 << (c["M"] - M)) for x in r["p"]])))
    me = list(range(len(regs))) if c["measure_all"] else [pos[w] - 1 for w in measured]
    return a, len(regs), me, sum(1 for it in c["circ"] if it[0] == "m")


def export_text(c):
    fn = build_tape(c)
    kw = dict(wires=c["wires"], rotations=c["rotations"], measure_all=c["measure_all"], precision=c["precision"])
    if c["via"] == "qnode":
        dev = qp.device("default.qubit", wires=c["wires"] if c["wires"] is not None else c["labels"])
        return qp.to_openqasm(qp.QNode(fn, dev), **kw)()
    return qp.to_openqasm(qp.tape.make_qscript(fn)(), **kw)


def sig_export(c):
    return sorted({(it[1]["g"] + ("+" + "+".join(md["t"] for md in it[1]["mods"]) if it[1]["mods"] else "")) for it in c["circ"] if it[0] != "m"})


def sig_stmt(i):
    """class of a statement for violation keys: name + whether a (neg)ctrl modifier is present"""
    if i["k"] != "q":
        return {"m": "measure", "r": "reset"}[i["k"]]
    g = i["g"]
    return g["q"] + (":ctrl" if any(md["t"] == "ctrl" for md in g["mods"]) else ":plain")


def run_generator(tier, seed):
    """-> (abstract programs, TLC stats)"""
    progs, st = [], {"generated": 0, "distinct": 0, "wall_s": 0.0, "runs": 0}
    kinds_all = '{"gate", "meas", "reset", "cond", "ifelse"}'
    a1 = "{1, 3, 6, 10, 13, 15}"
    if tier == "quick":
        runs = [("ex1", dict(NQ=3, Ang1="{3}", Ang2="{1, 3, 6, 13}", NTup=2, MaxLen=1, MaxAnc=0, Kinds='{"gate"}', Depth2="FALSE"), None),
                ("sim", dict(NQ=3, Ang1=a1, Ang2="{1, 3, 6, 13}", NTup=4, MaxLen=6, MaxAnc=2, Kinds=kinds_all, Depth2="TRUE"), SIZES[tier]["sim"])]
    else:
        runs = [("ex1", dict(NQ=3, Ang1="{3, 10}", Ang2="{1, 3, 6, 13}", NTup=3, MaxLen=1, MaxAnc=0, Kinds='{"gate"}', Depth2="TRUE"), None),
                ("sim", dict(NQ=3, Ang1=a1, Ang2="{1, 3, 6, 13}", NTup=4, MaxLen=6, MaxAnc=2, Kinds=kinds_all, Depth2="TRUE"), SIZES[tier]["sim"]),
                ("sim2", dict(NQ=2, Ang1=a1, Ang2="{1, 3, 6, 13}", NTup=4, MaxLen=9, MaxAnc=3, Kinds=kinds_all, Depth2="TRUE"), SIZES[tier]["sim2"])]
    for name, consts, nsim in runs:
        consts = dict(consts, M=3)      # the grammar does not evaluate matrices: any ring level
        kw = dict(simulate=f"num={nsim}", depth=12 * consts["MaxLen"] + 12, seed=seed + 11, workers=1) if nsim else {}
        r = lib.run_tlc("QasmGen", lib.cfg(constants=consts, invariants=["WellFormed"]), lib.workdir(PID, "gen_" + name), **kw)
        lib.require_ok(r, f"QasmGen {name}")
        for p in r.json_lines:
            p["mode"] = name
            progs.append(p)
        st["generated"] += r.generated
        st["distinct"] += r.distinct
        st["wall_s"] += r.wall_s
        st["runs"] += 1
        st[name] = len(r.json_lines)
    return progs, st


def run_sessions(tier, seed):
    """-> (sessions of QasmSession.tla, pool of abstract 2-qubit programs of QasmGen.tla, TLC stats)"""
    ns = SIZES[tier]["sessions"]
    r = lib.run_tlc("QasmSession", lib.cfg(constants=SESSION, invariants=["WellFormed"]), lib.workdir(PID, "gen_session"),
                    simulate=f"num={ns}", depth=4 * SESSION["MaxSteps"] + 8, seed=seed + 23, workers=1)
    lib.require_ok(r, "QasmSession")
    consts = dict(NQ=SESSION["NQ"], Ang1="{1, 3, 6, 10, 13, 15}", Ang2="{1, 3, 6, 13}", NTup=4, MaxLen=4, MaxAnc=1,
                  Kinds='{"gate", "meas", "reset", "cond", "ifelse"}', Depth2="FALSE", M=3)
    g = lib.run_tlc("QasmGen", lib.cfg(constants=consts, invariants=["WellFormed"]), lib.workdir(PID, "gen_pool"),
                    simulate=f"num={SESSION['NP'] * ns}", depth=12 * consts["MaxLen"] + 12, seed=seed + 29, workers=1)
    lib.require_ok(g, "QasmGen pool")
    if len(g.json_lines) < SESSION["NP"] * len(r.json_lines) or not r.json_lines:
        raise lib.MachineryError(f"session generator: {len(r.json_lines)} sessions, {len(g.json_lines)} programs")
    return r.json_lines, g.json_lines, {"generated": r.generated + g.generated, "distinct": r.distinct + g.distinct}


def self_check(tier):
    """QelibSelf: the table against the qelib1.inc / stdgates.inc definitions (quick: level 4, thorough: level 5)"""
    m, grid = (M, "{2, 6, 12}") if tier == "quick" else (M_FINE, "{0, 2, 6, 12, 22, 28}")
    invs = ["TableUnitary", "DefAgreesWithTable", "SxIsRootOfX"]
    r = lib.run_tlc("QelibSelf", lib.cfg(constants={"M": m, "Grid": grid}, invariants=invs), lib.workdir(PID, "self"))
    lib.require_ok(r, "QelibSelf")
    if r.invariant_violated:
        raise lib.MachineryError(f"the OpenQASM gate table disagrees with its definitions: {r.invariant_violated}\n{r.out[-1500:]}")
    neg = lib.run_tlc("QelibSelf", lib.cfg(constants={"M": 3, "Grid": "{2}"}, invariants=["NegControl"]), lib.workdir(PID, "selfneg"))
    if neg.invariant_violated != "NegControl":
        raise lib.MachineryError("QelibSelf negative control was not rejected")
    return {"generated": r.generated + neg.generated, "distinct": r.distinct + neg.distinct, "table_cases": r.distinct // 2}


def run(tier, seed):
    rng = random.Random(670 + seed)
    tstats = self_check(tier)
    viol, cases, meta, level = [], [], [], []
    counts = {"export_calls": 0, "export_rejected_unsupported": 0, "export_off_lattice_skipped": 0, "gphase_statements_in_2.0_programs": 0,
              "export_mcm": 0, "export_rotations": 0, "export_wires_arg": 0, "export_precision": 0, "export_too_wide_skipped": 0,
              "import_calls": 0, "import_cond": 0, "import_reset": 0, "import_modified": 0}
    texts = set()
    samples = []
    # ------------------------------------------------------------------ export
    for ci, c in enumerate(gen_export(tier, seed)):
        a, nreg, me, k = expected_side(c)
        if nreg + k > 5:
            counts["export_too_wide_skipped"] += 1
            continue
        native_only = c["kind"] != "decomp"
        counts["export_calls"] += 1
        try:
            text = export_text(c)
        except Exception as e:
            if not native_only and isinstance(e, (ValueError, qp.exceptions.DecompositionUndefinedError)):
                counts["export_rejected_unsupported"] += 1
                continue
            viol.append(Violation(key=f"export:raises:{type(e).__name__}:{'|'.join(sig_export(c))[:60]}",
                                  detail=f"to_openqasm raised {type(e).__name__}: {e}", replay={"case": c}))
            continue
        try:
            rd = qasmio.read_qasm2(text)
            b, mp, kp, problems = qasmio.program_side(rd, c["M"], c["precision"])
            if problems:
                raise ReaderError(problems[0])
        except ReaderError as e:
            viol.append(Violation(key=f"export:unreadable:{str(e)[:50]}", detail=f"independent reader rejects the program: {e}\n{text}",
                                  replay={"case": c, "program": text}))
            continue
        counts["gphase_statements_in_2.0_programs"] += rd["gphase"]
        if not native_only and any(p > t for i in b for p, t in zip(i["pe"], i["tol"])):
            counts["export_off_lattice_skipped"] += 1       # decomposition left the angle lattice: not decidable at this level
            continue
        counts["export_mcm"] += k > 0
        counts["export_rotations"] += c["rotations"]
        counts["export_wires_arg"] += c["wires"] is not None
        counts["export_precision"] += c["precision"] is not None
        cases.append({"n": nreg, "k": max(k, kp), "a": a, "b": b, "rel": "diag" if c["rotations"] else "phase",
                      "nq": rd["qreg"][1] if rd["qreg"] else 0, "enq": nreg, "mp": mp, "me": me, "ncreg": rd["cregs"].get("c", 0), "pl": []})
        meta.append(("export", c, text))
        level.append(c["M"])
        texts.add(text)
        if len(samples) < 2 and c["kind"] in ("mcm", "native") and len(c["circ"]) >= 4 and c["wires"] is not None:
            samples.append({"direction": "export", "options": {k_: c[k_] for k_ in ("wires", "measure_all", "rotations", "precision")},
                            "tape": [str(o) for o in qp.tape.make_qscript(build_tape(c))().operations], "program": text.splitlines()})
    n_export = len(cases)
    # ------------------------------------------------------------------ import
    progs, gstats = run_generator(tier, seed)
    for p in progs:
        use_map = rng.random() < 0.3
        text, qn, layout = qasmio.render_qasm3(p, M, rng, layout="named" if use_map else None)
        wmap = None
        if use_map:
            tbl = rng.choice([["a", "b", "c"], [5, 0, "x"], [2, 1, 0]])
            wmap = {qn[i]: tbl[i] for i in range(p["n"])}
        counts["import_calls"] += 1
        counts["import_cond"] += any(i["cw"] for i in p["b"])
        counts["import_reset"] += any(i["k"] == "r" for i in p["b"])
        counts["import_modified"] += any(i["g"]["mods"] for i in p["b"])
        sigs = [sig_stmt(i) for i in p["b"]]
        try:
            tape = qp.tape.make_qscript(qp.from_qasm3(text, wire_map=wmap))()
            wpos = {(wmap[q] if wmap else q): i + 1 for i, q in enumerate(qn)}
            a, k = qasmio.encode_tape(tape, wpos, M)
        except OffLattice as e:
            raise lib.MachineryError(f"cannot encode the imported tape of\n{text}: {e}")
        except Exception as e:
            viol.append(Violation(key=f"import:raises:{type(e).__name__}:{sigs[0] if len(sigs) == 1 else 'program'}",
                                  detail=f"from_qasm3 raised {type(e).__name__}: {e} on\n{text}", replay={"program": text, "wire_map": wmap}))
            continue
        cases.append({"n": p["n"], "k": max(k, p["k"]), "a": a, "b": p["b"], "rel": "phase", "nq": p["n"], "enq": p["n"], "mp": [], "me": [],
                      "ncreg": 0, "pl": []})
        meta.append(("import", p, text, wmap, [str(o) for o in tape.operations]))
        level.append(M)
        texts.add(text)
        if p["mode"] != "ex1" and sum(1 for s in samples if s["direction"] == "import") < 2 and p["k"] > 0:
            samples.append({"direction": "import", "program": text.splitlines(), "wire_map": wmap, "imported_tape": [str(o) for o in tape.operations]})
    # ------------------------------------------------------------------ import sessions (histories in this process)
    sessions, pool, sstats = run_sessions(tier, seed)
    counts.update({"session_imports": 0, "session_calls": 0, "session_reimport_other_map": 0, "session_repeated_calls": 0,
                   "session_call_after_later_import": 0})
    n_sessions = 0
    for si, ses in enumerate(sessions):
        progs_s = pool[SESSION["NP"] * si: SESSION["NP"] * (si + 1)]
        rendered = [qasmio.render_qasm3(p, M, rng, layout="named") for p in progs_s]     # ONE text per program
        labels = SESSION_LABELS[si % len(SESSION_LABELS)]
        handles, imported, called, hist = {}, [], set(), []
        n_sessions += 1
        for e in ses["log"]:
            p = progs_s[e["p"] - 1]
            text, qn, _ = rendered[e["p"] - 1]
            wmap = {qn[i]: labels[e["m"][i] - 1] for i in range(p["n"])} if e["m"] else None
            hist.append(f"{e['op']}(h{e['h']}: program {e['p']}, wire_map={wmap})")
            cls = "program"
            try:
                if e["op"] == "import":
                    counts["session_imports"] += 1
                    if any(q[0] == e["p"] and q[1] != e["m"] for q in imported):
                        counts["session_reimport_other_map"] += 1
                    imported.append((e["p"], e["m"]))
                    handles[e["h"]] = qp.from_qasm3(text, wire_map=wmap)
                    continue
                counts["session_calls"] += 1
                if e["h"] in called:
                    counts["session_repeated_calls"] += 1
                    cls = "repeated-call"
                if any(q[0] == e["p"] and q[1] != e["m"] for q in imported):
                    cls = "same-program-other-wire-map"
                counts["session_call_after_later_import"] += len(imported) > e["h"]
                called.add(e["h"])
                tape = qp.tape.make_qscript(handles[e["h"]])()
                wpos = {lab: i + 1 for i, lab in enumerate(labels)} if e["m"] else {q: i + 1 for i, q in enumerate(qn)}
                a, k = qasmio.encode_tape(tape, wpos, M)
            except OffLattice as ex:
                raise lib.MachineryError(f"cannot encode the imported tape of\n{text}: {ex}")
            except Exception as ex:
                viol.append(Violation(key=f"import:session:raises:{type(ex).__name__}:{cls}",
                                      detail=f"session {hist}: {type(ex).__name__}: {ex} on\n{text}", replay={"program": text, "session": hist}))
                continue
            nreg = len(labels) if e["m"] else p["n"]
            cases.append({"n": nreg, "k": max(k, p["k"]), "a": a, "b": p["b"], "rel": "phase", "nq": nreg, "enq": nreg, "mp": [], "me": [],
                          "ncreg": 0, "pl": e["m"]})
            meta.append(("session", p, text, wmap, [str(o) for o in tape.operations], list(hist), cls))
            level.append(M)
            texts.add(text)
            if cls == "same-program-other-wire-map" and sum(1 for s_ in samples if s_["direction"] == "import-session") < 1:
                samples.append({"direction": "import-session", "program": text.splitlines(), "session": list(hist),
                                "tape_of_last_call": [str(o) for o in tape.operations]})
    if counts["session_reimport_other_map"] < 3 or counts["session_repeated_calls"] < 3:
        raise lib.MachineryError(f"sessions are vacuous: {counts}")
    # ------------------------------------------------------------------ negative controls
    neg = {}
    nreal = len(cases)
    step = max(1, len(cases) // 24)
    for j, k0 in enumerate(range(0, len(cases), step)):
        c = cases[k0]
        if c["n"] < 1:
            continue
        bad = dict(c)
        mode = j % 3 if meta[k0][0] == "export" else 0
        if mode == 0:      # one more Hadamard in the program (not a phase on any measurement record, not diagonal)
            bad["b"] = c["b"] + [ins("q", {"q": "h", "p": [], "w": [1], "mods": []})]
            want = {"not-equal-up-to-phase"} if c["rel"] == "phase" else {"not-diagonal-in-eigenbasis"}
        elif mode == 1:    # a measurement moved to another qubit / dropped
            bad["mp"] = c["mp"][:-1] if c["mp"] else [[0, 0]]
            want = {"measured-register"}
        else:              # an angle printed too coarsely
            idx = [i for i, it in enumerate(c["b"]) if it["pe"]]
            if not idx:
                bad["nq"] = c["nq"] + 1
                want = {"qreg-size"}
            else:
                b2 = [dict(it) for it in c["b"]]
                b2[idx[0]]["pe"] = [t + 5 for t in b2[idx[0]]["tol"]]
                bad["b"] = b2
                want = {"angle-precision"}
        neg[len(cases)] = (k0, want)
        cases.append(bad)
        meta.append(("NEG",))
        level.append(level[k0])
    # a placement other than the wire_map of the Import must be rejected (unless the program is symmetric under it: `want` = None)
    npl, pl_controls = 0, set()
    for k0, m_ in enumerate(meta[:nreal]):
        if m_[0] == "session" and cases[k0]["pl"] and npl < 6:
            npl += 1
            pl = cases[k0]["pl"]
            other = [w for w in range(1, SESSION["NW"] + 1) if w not in pl]
            neg[len(cases)] = (k0, None)
            pl_controls.add(len(cases))
            cases.append(dict(cases[k0], pl=[other[0]] + pl[1:]))
            meta.append(("NEG",))
            level.append(level[k0])
    # ------------------------------------------------------------------ TLC decides
    import json
    verdict, tr_gen, tr_dist = {}, 0, 0
    for m in sorted(set(level)):
        idx = [i for i, lv in enumerate(level) if lv == m]
        wd = lib.workdir(PID, f"trace{m}")
        (wd / "cases.json").write_text(json.dumps([cases[i] for i in idx]))
        r = lib.run_tlc("Trace_Qasm", lib.cfg(constants={"M": m, "NCASES": len(idx)}), wd, env={"TRACE_FILE": str(wd / "cases.json")}, timeout=3000)
        lib.require_ok(r, f"Trace_Qasm level {m}")
        for t in r.tuples:
            if t[0] == "V":
                verdict[idx[t[1] - 1]] = t[2]
        tr_gen += r.generated
        tr_dist += r.distinct
    if len(verdict) != len(cases):
        raise lib.MachineryError(f"verdicts are not total: {len(verdict)} of {len(cases)}")
    nneg, npl_rej = 0, 0
    for ti, (base, want) in neg.items():
        if verdict[base] != "ok":
            continue                    # the corrupted copy of a failing case proves nothing
        if ti in pl_controls:
            npl_rej += verdict[ti] == "not-equal-up-to-phase"
            continue
        if verdict[ti] == "ok" or (want and verdict[ti] not in want):
            raise lib.MachineryError(f"negative control {ti} got verdict {verdict[ti]}, wanted {want}")
        nneg += 1
    if nneg < 5:
        raise lib.MachineryError(f"only {nneg} negative controls")
    if pl_controls and all(verdict[neg[ti][0]] == "ok" for ti in pl_controls) and npl_rej < 1:
        raise lib.MachineryError("no wrong placement was rejected by Trace_Qasm")
    # failing single-statement signatures give the multi-statement failures a specific key
    bad_single = set()
    for ti, m in enumerate(meta):
        if m[0] == "import" and verdict[ti] != "ok" and len(m[1]["b"]) == 1:
            bad_single.add(sig_stmt(m[1]["b"][0]))
    n_ok = {"export": 0, "import": 0, "session": 0}
    for ti, m in enumerate(meta):
        if m[0] == "NEG":
            continue
        v = verdict[ti]
        if v == "overflow":
            raise lib.MachineryError("ring coefficient overflow in Trace_Qasm")
        if v == "ok":
            n_ok[m[0]] += 1
            continue
        if m[0] == "export":
            c, text = m[1], m[2]
            if v == "measured-register":
                key = f"export:measured-register:wires={c.get('wkind', 'default')},measure_all={c['measure_all']}"
            elif v in ("qreg-size", "angle-precision"):
                key = f"export:{v}:wires={c.get('wkind', 'default')},precision={c['precision']}"
            else:
                sg = sig_export(c)
                key = f"export:{v}:{sg[0] if len(sg) == 1 else ('rotations' if c['rotations'] else 'circuit')}"
            viol.append(Violation(key=key, detail=f"to_openqasm(wires={c['wires']}, measure_all={c['measure_all']}, rotations={c['rotations']}, "
                                                  f"precision={c['precision']}) of labels {c['labels']} circuit {c['circ']} measurements {c['meas']}: "
                                                  f"TLC verdict {v}; expected measured positions {cases[ti]['me']}, program:\n{text}",
                                  replay={"case": c, "program": text, "tlc_case": cases[ti]}))
        elif m[0] == "session":
            # a statement class that already fails when imported alone keeps its statement-level key
            hit = [s_ for s_ in (sig_stmt(i) for i in m[1]["b"]) if s_ in bad_single]
            viol.append(Violation(key=f"import:{v}:{hit[0]}" if hit else f"import:session:{v}:{m[6]}",
                                  detail=f"session of from_qasm3 calls {m[5]}: the last call recorded {m[4]} for\n{m[2]}"
                                         f"(wire_map={m[3]}, expected placement {cases[ti]['pl']} in the register): TLC verdict {v}",
                                  replay={"program": m[2], "session": m[5], "imported": m[4], "tlc_case": cases[ti]}))
        else:
            p, text = m[1], m[2]
            sg = [sig_stmt(i) for i in p["b"]]
            hit = [s for s in sg if s in bad_single]
            key = f"import:{v}:{hit[0] if hit else (sg[0] if len(sg) == 1 else 'program')}"
            viol.append(Violation(key=key, detail=f"from_qasm3 (wire_map={m[3]}) imported\n{text}as {m[4]}: TLC verdict {v}",
                                  replay={"program": text, "wire_map": m[3], "imported": m[4], "tlc_case": cases[ti]}))
    cov = {"states": tr_dist + gstats["distinct"] + tstats["distinct"] + sstats["distinct"],
           "transitions": tr_gen + gstats["generated"] + tstats["generated"] + sstats["generated"],
           "traces_validated_against_impl": n_export + (len(meta) - n_export - len(neg)), "evaluations": counts["export_calls"] + counts["import_calls"],
           "distinct_nontrivial": len(texts),
           "rule": "non-trivial = distinct program texts (exported or imported) that reached TLC's verdict; export: every exportable gate "
                   "name alone on all placements + seeded circuits (1-4 wires, 1-8 ops, wire labels, wires= orders/supersets, measure_all, "
                   "rotations, precision, mid-circuit measurement + conditionals, decomposed gates); import: every one-statement program "
                   "of the grammar (name x modifier stack x placement x angles) + simulated 6-statement programs with measure/reset/if/else; "
                   "import sessions: sequences of from_qasm3 imports/calls in one process (same text under several wire_maps / none, repeated calls)",
           "samples": samples, "exhaustive": False, "exhaustive_part": "all one-statement programs of the import grammar; every exportable gate name x placement",
           "export_validated": n_export, "export_ok": n_ok["export"], "import_validated": sum(1 for m_ in meta if m_[0] == "import"), "import_ok": n_ok["import"],
           "sessions": n_sessions, "session_calls_validated": sum(1 for m_ in meta if m_[0] == "session"), "session_calls_ok": n_ok["session"],
           "wrong_placement_controls_rejected": npl_rej,
           "generator": {k_: v_ for k_, v_ in gstats.items() if k_ not in ("generated", "distinct")},
           "table_cases_model_checked": tstats["table_cases"], "negative_controls_rejected": nneg + 1, "ring_level_M": M, **counts}
    return CheckResult(coverage=cov, violations=viol, assumptions=[
        "angles on the lattice 4*pi/16 (thorough: decomposed gates also on 4*pi/32); decomposed gates whose exported angles leave the lattice are counted and skipped",
        "standard-library gate names denote their standard matrices (Qelib1.tla); relations are up to a global phase",
        "the OpenQASM 2.0 reader is the openqasm3 reference parser (accepts the non-2.0 statement `gphase(x) ;` the exporter emits for GlobalPhase: counted)",
        "qp.from_qasm needs the pennylane-qiskit plugin, which is not installed: only from_qasm3 is exercised",
        "terminal measurements are those written to the register named c (documented output format); measurement is compared through "
        "the deferred-measurement dilation defined in Trace_Qasm.tla"])
