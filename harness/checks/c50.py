"""C50 GF(2) linear algebra is exact.

(M) GF2.tla holds TWO independent definitions of rank / RREF / solvability / solutions / kernel / greedy column basis over
    GF(2): Gauss-Jordan elimination as a step function (one row operation per TLC step) and brute force over all 2^n
    vectors / 2^m row combinations.  GF2Gen.tla runs the elimination on EVERY binary matrix of every shape up to 3x4 (and
    on seeded larger matrices), TLC checks at every step that the row space is preserved and T*A = mat, and at the end that
    all elimination read-offs equal the brute-force definitions for every right-hand side.
(R) spec -> code: every finished case is emitted with its expected values and replayed into
    pennylane.math.binary_finite_reduced_row_echelon / binary_matrix_rank / binary_solve_linear_system /
    binary_is_independent / binary_select_basis (and qchem.tapering._kernel).
(T) code -> spec: every output of the implementation is recorded and validated by Trace_GF2.tla BY SUBSTITUTION against the
    brute-force definitions (a returned x must satisfy A x = b, a returned RREF must be reduced and span the same row space,
    a returned basis must span the column space and be independent, kernel vectors must be annihilated and span the kernel).
(C) the systems the CONSUMERS of the library pose (anchors qchem/tapering.py, transforms/intermediate_reps/rowcol.py) are part
    of the model: GF2.tla defines the symmetry group of a Hamiltonian (rows (x|z), symplectic form) and the RowCol row
    selection (rows of a regular P whose sum is e_i) by brute force; GF2Gen checks that the elimination read-offs (kernel
    basis with the halves exchanged; row i of T = A^-1) agree with them and emits them.  Every enumerated matrix of even
    width is turned into a Hamiltonian and replayed through qchem.symmetry_generators; every regular square matrix is
    replayed through rowcol._get_S (row mode) for every unit vector and every insertion order of the connectivity graph's
    nodes, also embedded into a larger matrix with removed nodes; and seeded CNOT circuits are routed by
    qp.transforms.rowcol on seeded connectivity graphs (shuffled node order, default None) while every row selection made
    inside is recorded.  All of these outputs are validated by Trace_GF2 (symgen / rowsel events).
"""
import importlib
import itertools
import json
import random
import time

import numpy as np

import pennylane as qp

from .. import lib
from ..lib import CheckResult, Violation

PID = "C50"
CHUNK = 6000
INVARIANTS = ["PrepOK", "StepInv", "RrefAgree", "RankAgree", "SolveAgree", "KernelAgree", "GreedyAgree", "SymAgree", "RowSelAgree"]


def _kernel_fn():
    try:
        from pennylane.qchem.tapering import _kernel
        return _kernel
    except Exception:  # private helper: absent -> the kernel events are skipped (counted)
        return None


def _symgen_fn():
    try:
        return qp.qchem.symmetry_generators
    except Exception:
        return None


def _rowcol_mod():
    """the rowcol MODULE (the package attribute of the same name is the transform) or None when it has no _get_S"""
    try:
        mod = importlib.import_module("pennylane.transforms.intermediate_reps.rowcol")
        return mod if callable(getattr(mod, "_get_S", None)) else None
    except Exception:
        return None


_LETTER = {(1, 0): "X", (1, 1): "Y", (0, 1): "Z"}


def hamiltonian_of(rows, q):
    """The Hamiltonian whose terms are the Pauli words (x|z) given by the rows (zero row = identity term); None when some
    qubit is not acted on (the same Hamiltonian is enumerated with fewer qubits)."""
    if not rows or any(all(r[w] == 0 and r[q + w] == 0 for r in rows) for w in range(q)):
        return None
    ops = []
    for r in rows:
        word = {w: _LETTER[(r[w], r[q + w])] for w in range(q) if (r[w], r[q + w]) != (0, 0)}
        ops.append(qp.pauli.PauliWord(word).operation() if word else qp.Identity(0))
    return qp.ops.LinearCombination([1.0] * len(ops), ops)


def words_of(gens, q):
    """generators (operators) -> rows (x|z); raises when a generator is not a single Pauli word on wires 0..q-1"""
    out = []
    for g in gens:
        ps = qp.pauli.pauli_sentence(g)
        (pw,) = list(ps)
        v = [0] * (2 * q)
        for w, letter in pw.items():
            if not (isinstance(w, (int, np.integer)) and 0 <= int(w) < q):
                raise ValueError("wire")
            v[int(w)] = 1 if letter in "XY" else 0
            v[q + int(w)] = 1 if letter in "ZY" else 0
        out.append(v)
    return out


def rowsel_event(getS, P, idx, order):
    """_get_S(P, idx, <nodes of a graph whose nodes were inserted in `order`>, "row") -> (event, returned set or None)"""
    import networkx as nx
    k = len(P)
    G = nx.Graph()
    G.add_nodes_from(order)
    S, exc = _call(getS, np.array(P, dtype=np.int64).reshape(k, k), idx, G.nodes(), "row")
    return _rowsel_ev(P, idx, order, S, exc), S


def _rowsel_ev(P, idx, nodes, S, exc):
    k = len(P)
    nd = [[1 if j in set(nodes) else 0 for j in range(k)]]
    kw = dict(inp=[[int(v) for v in r] for r in P], im=k, val=idx + 1, out2=nd, o2m=1)
    if exc:
        return _ev("rowsel", exc=exc, **kw)
    try:
        el = sorted(int(j) for j in S)
        ok = all(0 <= j < k for j in el) and len(el) == len(set(S))
    except Exception:
        ok = False
    if not ok:
        return _ev("rowsel", om=-1, on=-1, **kw)
    return _ev("rowsel", out=[[1 if j in el else 0 for j in range(k)]], om=1, on=k, **kw)


def tla_mat(A):
    return "<<" + ",".join("<<" + ",".join(str(int(x)) for x in row) + ">>" for row in A) + ">>"


def random_matrices(rng, count, max_m, max_n):
    """Seeded larger matrices: uniform, low-rank products, permuted/expanded identities, square regular and singular."""
    out, seen = [], set()
    tries = 0
    while len(out) < count and tries < 50 * count:
        tries += 1
        kind = rng.choice(["uniform", "lowrank", "square", "square-regular", "sparse"])
        m, n = rng.randint(2, max_m), rng.randint(2, max_n)
        if kind.startswith("square"):
            n = m = rng.randint(3, min(max_m, max_n))
        if kind == "uniform" or kind == "square":
            A = [[rng.randint(0, 1) for _ in range(n)] for _ in range(m)]
        elif kind == "sparse":
            A = [[1 if rng.random() < 0.25 else 0 for _ in range(n)] for _ in range(m)]
        elif kind == "lowrank":
            r = rng.randint(1, max(1, min(m, n) - 1))
            L = np.array([[rng.randint(0, 1) for _ in range(r)] for _ in range(m)])
            R = np.array([[rng.randint(0, 1) for _ in range(n)] for _ in range(r)])
            A = ((L @ R) % 2).tolist()
        else:  # product of random elementary row operations applied to the identity: regular by construction
            M = np.eye(m, dtype=int)
            for _ in range(3 * m):
                i, j = rng.sample(range(m), 2)
                if rng.random() < 0.7:
                    M[i] ^= M[j]
                else:
                    M[[i, j]] = M[[j, i]]
            A = M.tolist()
        key = (m, n, json.dumps(A))
        if key not in seen and (m > 3 or n > 4):
            seen.add(key)
            out.append({"m": m, "n": n, "A": A})
    return out


def ms(A):
    """matrix as a compact string, rows separated by '/'"""
    return "/".join("".join(str(v) for v in row) for row in A)


def _ev(op, **kw):
    e = {"op": op, "b": [], "out": [], "om": 0, "on": 0, "out2": [], "o2m": 0, "val": -1, "exc": "", "inp": [], "im": 0}
    e.update(kw)
    return e


def _mat(x):
    """ndarray -> (rows as lists of ints, rows, cols); non 2-D output is given shape (-1, -1) (rejected by the spec)."""
    x = np.asarray(x)
    if x.ndim != 2:
        return [], -1, -1
    return [[int(v) for v in row] for row in x], int(x.shape[0]), int(x.shape[1])


def _call(f, *a, **k):
    try:
        return f(*a, **k), ""
    except Exception as e:  # recorded; the trace spec decides whether raising is acceptable
        return None, type(e).__name__


class Agg:
    """Aggregates violations by key (thousands of matrices can fail for one reason)."""

    def __init__(self):
        self.d = {}

    def add(self, key, detail, replay):
        if key not in self.d:
            self.d[key] = [0, detail, replay]
        self.d[key][0] += 1

    def violations(self):
        return [Violation(key=k, detail=f"{d} [{c} failing case(s); first shown]", replay=r) for k, (c, d, r) in sorted(self.d.items())]


def node_orders(k, rng):
    """insertion orders of the nodes 0..k-1: all of them for k <= 3, else ascending, descending and seeded shuffles"""
    if k <= 3:
        return [list(p) for p in itertools.permutations(range(k))]
    out = [list(range(k)), list(range(k))[::-1]]
    for _ in range(4):
        o = list(range(k))
        rng.shuffle(o)
        out.append(o)
    return out


def exercise_consumers(case, events, agg, stats, expect, symgen, rcmod, rng):
    """The GF(2) systems as the consumers pose them: qchem.symmetry_generators on the Hamiltonian whose terms are the rows
    (x|z) of the matrix, and rowcol._get_S (row mode) on the matrix when it is square."""
    m, n = case["m"], case["n"]
    rep = {"m": m, "n": n, "A": case["A"]}
    # ---- symmetry generators (tapering): even width, every qubit acted on
    if symgen is not None and n > 0 and n % 2 == 0 and m > 0:
        q = n // 2
        H = hamiltonian_of(case["A"], q)
        if H is None:
            stats["symgen_skipped_idle_qubit"] += 1
        else:
            gens, exc_g = _call(symgen, H)
            rows = None
            if exc_g == "":
                try:
                    rows = words_of(gens, q)
                    events.append(_ev("symgen", out=rows, om=len(rows), on=n))
                except Exception as e:
                    events.append(_ev("symgen", exc="malformed-output:" + type(e).__name__))
            else:
                events.append(_ev("symgen", exc=exc_g))
            stats["symgen_calls"] += 1
            if expect:
                stats["symgen_rank_deficient"] += case["rank"] < m
                if rows is None or len(rows) != len(case["sym"]):
                    agg.add("symgen:replay-count-differs-from-spec",
                            f"symmetry_generators(H), terms (x|z) = {case['A']}: {len(rows) if rows is not None else exc_g or 'malformed'} generators, "
                            f"the symmetry group has dimension {len(case['sym'])}",
                            dict(rep, fn="qchem.symmetry_generators", expected=case["sym"], got=rows if rows is not None else exc_g))
                elif sorted(rows) != sorted(case["sym"]):
                    stats["symgen_basis_differs_from_model"] += 1
    # ---- RowCol row selection: square matrices (REPLAY on the regular ones; singular ones only without expected values)
    if rcmod is not None and m == n and n >= 1 and (not expect or case["inv"]):
        getS = rcmod._get_S
        A = case["A"]
        for idx in range(n):
            want = None
            if expect:
                want = {j for j in range(n) if case["inv"][idx][j]} | {idx}
                stats["rowsel_replayed_nontrivial"] += len(want) > 1
            for order in node_orders(n, rng):
                ev, S = rowsel_event(getS, A, idx, order)
                events.append(ev)
                stats["rowsel_calls"] += 1
                stats["rowsel_unsorted_order"] += order != sorted(order)
                if expect and (ev["exc"] or ev["om"] != 1 or set(int(j) for j in S) != want):
                    got = ev["exc"] or (sorted(int(j) for j in S) if ev["om"] == 1 else repr(S))
                    agg.add("rowsel:replay-differs-from-spec",
                            f"rowcol._get_S(P={A}, {idx}, nodes inserted as {order}, 'row') = {got}, "
                            f"the rows of P whose sum is e_{idx} are {sorted(want)}",
                            dict(rep, fn="rowcol._get_S", idx=idx, node_order=order, expected=sorted(want), got=got))
            # the same system with removed nodes: P embedded into a larger matrix that is trivial on the removed nodes
            if n <= 5:
                N = n + rng.randint(1, 2)
                pos = sorted(rng.sample(range(N), n))
                P2 = np.eye(N, dtype=np.int64)
                P2[np.ix_(pos, pos)] = np.array(A, dtype=np.int64).reshape(n, n)
                order = list(pos)
                rng.shuffle(order)
                ev, _ = rowsel_event(getS, P2.tolist(), pos[idx], order)
                events.append(ev)
                stats["rowsel_calls"] += 1
                stats["rowsel_embedded_calls"] += 1


def rowcol_runs(rcmod, rng, count, stats):
    """qp.transforms.rowcol on seeded CNOT circuits and connectivity graphs; every row selection made inside (the module's
    _get_S is wrapped) is recorded as a rowsel event.  One trace per run.  Only the row selections are judged."""
    import networkx as nx
    traces = []
    orig = rcmod._get_S
    for run in range(count):
        if run == 0:  # the example of the rowcol docstring
            n, edges, mode = 5, [(0, 3), (1, 2), (2, 3), (3, 4)], "edges"
            cn = [(i, i + 1) for i in range(4)] + [(0, 4), (3, 0), (0, 2), (3, 1), (2, 4)]
        else:
            n0 = rng.randint(3, 6)
            raw = [tuple(rng.sample(range(n0), 2)) for _ in range(rng.randint(n0, 3 * n0))]
            first = []
            for c, t in raw:
                for w in (c, t):
                    if w not in first:
                        first.append(w)
            cn = [(first.index(c), first.index(t)) for c, t in raw]   # wires relabelled in order of first use: tape.wires = 0..n-1
            n = len(first)
            labels = list(range(n))
            rng.shuffle(labels)
            edges = [(labels[i], labels[rng.randrange(i)]) for i in range(1, n)]          # a random spanning tree
            edges += [e for e in itertools.combinations(range(n), 2) if rng.random() < 0.15 and e not in edges and e[::-1] not in edges]
            rng.shuffle(edges)
            mode = rng.choice(["edges", "shuffled", "shuffled", "ascending", "none"])
        if mode == "none":
            G = None
        else:
            G = nx.Graph()
            if mode == "shuffled":
                nodes = list(range(n))
                rng.shuffle(nodes)
                G.add_nodes_from(nodes)
            elif mode == "ascending":
                G.add_nodes_from(range(n))
            G.add_edges_from(edges)
        P_in = np.eye(n, dtype=np.int64)
        for c, t in cn:
            P_in[t] ^= P_in[c]
        events = []

        def wrapper(P, idx, node_set, mode_, _events=events):
            if mode_ != "row":
                stats["rowcol_column_selections"] += 1
                return orig(P, idx, node_set, mode_)
            Pm = np.asarray(P).copy()
            if ((Pm != 0) & (Pm != 1)).any():
                stats["rowsel_unreduced_input"] += 1
            Pm = (Pm % 2).astype(np.int64).tolist()
            nodes = [int(v) for v in node_set]
            try:
                S = orig(P, idx, node_set, mode_)
            except Exception as e:
                _events.append(_rowsel_ev(Pm, int(idx), nodes, None, type(e).__name__))
                raise
            _events.append(_rowsel_ev(Pm, int(idx), nodes, S, ""))
            stats["rowsel_in_rowcol"] += 1
            stats["rowsel_in_rowcol_unsorted_nontrivial"] += nodes != sorted(nodes) and len(S) > 1
            return S
        rcmod._get_S = wrapper
        try:
            tape = qp.tape.QuantumScript([qp.CNOT(w) for w in cn])
            _, exc = _call(lambda: qp.transforms.rowcol(tape, connectivity=G))
        finally:
            rcmod._get_S = orig
        stats["rowcol_runs"] += 1
        if exc:
            stats["rowcol_raised:" + exc] += 1
        traces.append({"m": n, "n": n, "A": P_in.tolist(), "events": events})
    return traces


def exercise(case, kernel, agg, stats, expect=True, symgen=None, rcmod=None, rng=None):
    """Run the implementation on one matrix.  Returns the trace (events).  With expect=True, `case` carries the values TLC
    computed (rref, rank, piv, sols) and the property-level ones are compared here (REPLAY)."""
    m, n = case["m"], case["n"]
    A = np.array(case["A"], dtype=np.int64).reshape(m, n)
    A0 = A.copy()
    rep = {"m": m, "n": n, "A": case["A"]}
    events = []
    # ---- reduced row echelon form
    out, exc = _call(qp.math.binary_finite_reduced_row_echelon, A)
    rows, om, on = _mat(out) if exc == "" else ([], 0, 0)
    events.append(_ev("rref", out=rows, om=om, on=on, exc=exc))
    if expect and (exc or rows != case["rref"]):
        agg.add("rref:replay-differs-from-spec", f"binary_finite_reduced_row_echelon({case['A']}) = {rows or exc}, the (unique) RREF is {case['rref']}",
                dict(rep, fn="binary_finite_reduced_row_echelon", expected=case["rref"], got=rows or exc))
    A2 = A.copy()
    out_ip, exc_ip = _call(qp.math.binary_finite_reduced_row_echelon, A2, inplace=True)
    if exc_ip or exc or not np.array_equal(out_ip, out):
        r2, om2, on2 = _mat(out_ip) if exc_ip == "" else ([], 0, 0)
        events.append(_ev("rref", out=r2, om=om2, on=on2, exc=exc_ip))
        stats["rref_inplace_differs"] += 1
    elif out_ip is not A2:
        stats["rref_inplace_not_same_object"] += 1
    # ---- rank
    rk, exc_r = _call(qp.math.binary_matrix_rank, A)
    try:
        rk_i = int(rk) if exc_r == "" else -1
    except Exception:
        rk_i = -1
    events.append(_ev("rank", val=rk_i, exc=exc_r))
    if expect and rk_i != case["rank"]:
        agg.add("rank:replay-differs-from-spec", f"binary_matrix_rank({case['A']}) = {rk if exc_r == '' else exc_r}, expected {case['rank']}",
                dict(rep, fn="binary_matrix_rank", expected=case["rank"], got=rk_i))
    if not np.array_equal(A, A0):
        stats["input_mutated"] += 1
        A = A0.copy()
    # ---- right-hand sides
    if expect:
        rhs = [(s["b"], s) for s in case["sols"]]
    else:
        rhs = [(b, None) for b in case["rhs"]]
    full = None if not expect else case["rank"] == min(m, n)
    for b, s in rhs:
        bv = np.array(b, dtype=np.int64).reshape(m)
        if m == n:
            x, exc_s = _call(qp.math.binary_solve_linear_system, A.copy(), bv.copy())
            if exc_s == "":
                xr = [[int(v) for v in np.asarray(x).reshape(-1)]] if np.asarray(x).ndim == 1 else []
                events.append(_ev("solve", b=b, out=xr, om=1 if xr else -1, on=len(xr[0]) if xr else -1))
                stats["solve_returned"] += 1
            else:
                xr = None
                events.append(_ev("solve", b=b, exc=exc_s))
                stats["solve_raised:" + exc_s] += 1
            if expect and case["rank"] == n and (xr is None or xr[0] != s["x"]):
                agg.add("solve:replay-differs-from-spec", f"binary_solve_linear_system({case['A']}, {b}) = {xr[0] if xr else exc_s}, the unique solution is {s['x']}",
                        dict(rep, fn="binary_solve_linear_system", b=b, expected=s["x"], got=xr[0] if xr else exc_s))
        v, exc_i = _call(qp.math.binary_is_independent, bv.copy(), A.copy())
        events.append(_ev("indep", b=b, val=(1 if v else 0) if exc_i == "" else -1, exc=exc_i))
        if expect and full:
            stats["indep_in_domain"] += 1
            stats["indep_true" if not s["ok"] else "indep_false"] += 1
            if exc_i or bool(v) != (not s["ok"]):
                agg.add("indep:replay-differs-from-spec", f"binary_is_independent({b}, {case['A']}) = {v if exc_i == '' else exc_i}, expected {not s['ok']}",
                        dict(rep, fn="binary_is_independent", b=b, expected=not s["ok"], got=str(v) if exc_i == "" else exc_i))
    # ---- column basis
    res, exc_b = _call(qp.math.binary_select_basis, A.copy())
    if exc_b == "":
        try:
            bas, oth = res
            br, bm, bn = _mat(np.asarray(bas).T)
            orr, o2m, o2n = _mat(np.asarray(oth).T)
            events.append(_ev("basis", out=br, om=bm, on=bn, out2=orr, o2m=o2m))
        except Exception as e:
            events.append(_ev("basis", exc="malformed-output:" + type(e).__name__))
    else:
        events.append(_ev("basis", exc=exc_b))
    # ---- kernel of the implementation's own RREF (zero rows removed), as qchem.tapering.symmetry_generators does
    if kernel is not None and exc == "" and om == m and on == n and n > 0:
        R = np.asarray(out)
        R = R[~np.all(R == 0, axis=1)]
        if len(R):
            K, exc_k = _call(kernel, R.copy())
            ir, im, _ = _mat(R)
            if exc_k == "":
                kr, km, kn = _mat(K)
                events.append(_ev("kernel", out=kr, om=km, on=kn if km > 0 else n, inp=ir, im=im))
            else:
                events.append(_ev("kernel", exc=exc_k, inp=ir, im=im))
            stats["kernel_calls"] += 1
    exercise_consumers(case, events, agg, stats, expect, symgen, rcmod, rng)
    return {"m": m, "n": n, "A": case["A"], "events": events}


def controls(cases):
    """Controls built from the SPEC's expected values (never from the implementation's outputs): the expected outputs must
    be accepted by Trace_GF2 (positive), each corrupted version must be rejected (negative)."""
    pos, neg = [], []

    def tr(c, ev):
        return {"m": c["m"], "n": c["n"], "A": c["A"], "events": [ev]}

    def cols(A, idx):
        return [[row[j] for row in A] for j in idx]
    c = next(c for c in cases if (c["m"], c["n"], c["rank"]) == (3, 4, 3) and c["A"] != c["rref"] and c["rref"][2][3] == 1)
    pos.append(("rref", tr(c, _ev("rref", out=c["rref"], om=3, on=4))))
    o = [list(r) for r in c["rref"]]
    o[0][3] ^= 1
    neg.append(("rref-bit-flip", tr(c, _ev("rref", out=o, om=3, on=4))))
    neg.append(("rref-input-returned-unreduced", tr(c, _ev("rref", out=c["A"], om=3, on=4))))
    pos.append(("rank", tr(c, _ev("rank", val=3))))
    neg.append(("rank-off-by-one", tr(c, _ev("rank", val=2))))
    c = next(c for c in cases if (c["m"], c["n"], c["rank"]) == (3, 3, 3) and c["A"] != c["rref"])
    s = c["sols"][5]
    pos.append(("solve", tr(c, _ev("solve", b=s["b"], out=[s["x"]], om=1, on=3))))
    x = list(s["x"])
    x[1] ^= 1
    neg.append(("solve-wrong-vector", tr(c, _ev("solve", b=s["b"], out=[x], om=1, on=3))))
    neg.append(("solve-raise-on-regular", tr(c, _ev("solve", b=s["b"], exc="LinAlgError"))))
    c = next(c for c in cases if (c["m"], c["n"], c["rank"]) == (3, 3, 2))
    pos.append(("solve-raise-on-singular", tr(c, _ev("solve", b=c["sols"][1]["b"], exc="LinAlgError"))))
    s = next(s for s in c["sols"] if not s["ok"])
    neg.append(("solve-returns-on-inconsistent-system", tr(c, _ev("solve", b=s["b"], out=[[0, 0, 0]], om=1, on=3))))
    c = next(c for c in cases if (c["m"], c["n"], c["rank"]) == (3, 2, 2))
    s0, s1 = next(s for s in c["sols"] if not s["ok"]), next(s for s in c["sols"] if s["ok"] and any(s["b"]))
    pos.append(("indep-true", tr(c, _ev("indep", b=s0["b"], val=1))))
    pos.append(("indep-false", tr(c, _ev("indep", b=s1["b"], val=0))))
    neg.append(("indep-negated-true", tr(c, _ev("indep", b=s0["b"], val=0))))
    neg.append(("indep-negated-false", tr(c, _ev("indep", b=s1["b"], val=1))))
    c = next(c for c in cases if (c["m"], c["n"], c["rank"]) == (3, 4, 2) and c["piv"] == [2, 4])
    piv = [j - 1 for j in c["piv"]]
    rest = [j for j in range(4) if j not in piv]
    bas, oth = cols(c["A"], piv), cols(c["A"], rest)
    pos.append(("basis", tr(c, _ev("basis", out=bas, om=2, on=3, out2=oth, o2m=2))))
    neg.append(("basis-dropped-column", tr(c, _ev("basis", out=bas[:1], om=1, on=3, out2=oth + bas[1:], o2m=3))))
    neg.append(("basis-dependent-column-added", tr(c, _ev("basis", out=bas + oth[1:], om=3, on=3, out2=oth[:1], o2m=1))))
    neg.append(("basis-column-not-from-matrix", tr(c, _ev("basis", out=[bas[0], [1 - v for v in bas[1]]], om=2, on=3, out2=oth, o2m=2))))
    R = [r for r in c["rref"] if any(r)]
    pos.append(("kernel", tr(c, _ev("kernel", out=c["kern"], om=2, on=4, inp=R, im=2))))
    neg.append(("kernel-missing-vector", tr(c, _ev("kernel", out=c["kern"][:1], om=1, on=4, inp=R, im=2))))
    k2 = [list(r) for r in c["kern"]]
    k2[1][c["piv"][0] - 1] ^= 1
    neg.append(("kernel-vector-not-in-kernel", tr(c, _ev("kernel", out=k2, om=2, on=4, inp=R, im=2))))
    # symmetry generators: the spec's basis of the symmetry group of the Hamiltonian with terms (x|z) = rows of A
    sym, q = c["sym"], 2
    pos.append(("symgen", tr(c, _ev("symgen", out=sym, om=len(sym), on=4))))
    neg.append(("symgen-missing-generator", tr(c, _ev("symgen", out=sym[:1], om=1, on=4))))
    j = next(j for j in range(4) if any(r[(j + q) % 4] for r in c["A"]))     # the word e_j anticommutes with some term
    s2 = [list(r) for r in sym]
    s2[0][j] ^= 1
    neg.append(("symgen-generator-anticommutes", tr(c, _ev("symgen", out=s2, om=len(s2), on=4))))
    neg.append(("symgen-dependent-generator-added", tr(c, _ev("symgen", out=sym + [[a ^ b for a, b in zip(sym[0], sym[1])]], om=3, on=4))))
    # RowCol row selection on a regular matrix
    def sel(c, i):
        return [1 if (c["inv"][i][j] or j == i) else 0 for j in range(c["n"])]
    c = next(c for c in cases if (c["m"], c["n"], c["rank"]) == (3, 3, 3) and c["A"] != c["rref"] and sum(sel(c, 0)) > 1 and sel(c, 0) != sel(c, 2))
    kw = dict(inp=c["A"], im=3, val=1, out2=[[1, 1, 1]], o2m=1)
    pos.append(("rowsel", tr(c, _ev("rowsel", out=[sel(c, 0)], om=1, on=3, **kw))))
    neg.append(("rowsel-unit-vector-at-wrong-position", tr(c, _ev("rowsel", out=[sel(c, 2)], om=1, on=3, **kw))))
    neg.append(("rowsel-only-the-node-itself", tr(c, _ev("rowsel", out=[[1, 0, 0]], om=1, on=3, **kw))))
    neg.append(("rowsel-raise-on-regular", tr(c, _ev("rowsel", exc="IndexError", **kw))))
    return pos, neg


class Run:
    """Accumulates evidence over the batches of one run."""

    def __init__(self, kernel, symgen=None, rcmod=None, rng=None):
        from collections import Counter
        self.kernel, self.agg, self.stats = kernel, Agg(), Counter()
        self.symgen, self.rcmod, self.rng = symgen, rcmod, rng
        self.rowsel_not_judged = 0
        self.g_states = self.g_gen = self.t_states = self.t_gen = 0
        self.wall = {"model_check_and_generate": 0.0, "implementation": 0.0, "trace_validation": 0.0}
        self.n_traces = self.n_events = self.drift = self.ood = self.oodw = self.n_cases = self.nontriv = 0
        self.chunk_no = 0

    def generate(self, shapes, extra):
        """Model-check GF2Gen on all matrices of `shapes` and on `extra`; returns the emitted cases (sorted)."""
        extra_tla = "{" + ", ".join(f"[m |-> {x['m']}, n |-> {x['n']}, A |-> {tla_mat(x['A'])}]" for x in extra) + "}"
        shapes_tla = "{" + ", ".join(f"<<{m},{n}>>" for m, n in shapes) + "}"
        t0 = time.time()
        g = lib.run_tlc_mc("GF2Gen", {"Shapes": shapes_tla, "Extra": extra_tla}, lib.workdir(PID, "gen"), invariants=INVARIANTS, timeout=6000)
        if g.invariant_violated:
            raise lib.MachineryError(f"the two definitions in GF2.tla disagree ({g.invariant_violated}): oracle error\n" + g.out[-1500:])
        lib.require_ok(g, "GF2Gen")
        cases = g.json_lines
        n_expected = sum(2 ** (m * n) for m, n in shapes) + len(extra)
        if len(cases) != n_expected:
            raise lib.MachineryError(f"generator emitted {len(cases)} cases, expected {n_expected}")
        cases.sort(key=lambda c: (c["m"] * c["n"], c["m"], json.dumps(c["A"])))
        for c in cases:
            if c["m"] == 0:
                c["A"] = []
        self.g_states, self.g_gen = self.g_states + g.distinct, self.g_gen + g.generated
        self.wall["model_check_and_generate"] += time.time() - t0
        return cases

    def validate(self, traces, judge_n=None):
        """Trace_GF2 on a list of traces -> list of (nfail, failing clauses) per trace; violations and evidence are recorded
        for the first judge_n traces (default: all; the rest are controls)."""
        out = []
        judge_n = len(traces) if judge_n is None else judge_n
        for lo in range(0, len(traces), CHUNK):
            part = traces[lo:lo + CHUNK]
            self.chunk_no += 1
            wd = lib.workdir(PID, f"trace{self.chunk_no}")
            (wd / "traces.json").write_text(json.dumps(part, separators=(",", ":")))
            r = lib.run_tlc("Trace_GF2", lib.cfg(init="TInit", next_="TNext", constants={"NTRACES": len(part)}, invariants=["TypeOK"]),
                            wd, env={"TRACE_FILE": str(wd / "traces.json")}, timeout=6000)
            if r.invariant_violated:
                raise lib.MachineryError("Trace_GF2 TypeOK violated (brute-force spaces malformed)\n" + r.out[-1500:])
            lib.require_ok(r, "Trace_GF2")
            (wd / "traces.json").unlink()
            self.t_states, self.t_gen = self.t_states + r.distinct, self.t_gen + r.generated
            self.wall["trace_validation"] += r.wall_s
            verd = {t[1] - 1: t[2:] for t in r.tuples if t[0] == "V"}
            fails = {}
            for t in r.tuples:
                if t[0] == "F":
                    fails.setdefault(t[1] - 1, []).append((t[2] - 1, t[3]))
            if len(verd) != len(part):
                raise lib.MachineryError(f"verdicts not total: {len(verd)} of {len(part)}")
            for i, t in enumerate(part):
                fl = fails.get(i, [])
                if verd[i][0] != len(fl):
                    raise lib.MachineryError("failure lines and verdict disagree")
                out.append((verd[i][0], [c for _, c in fl]))
                if lo + i >= judge_n:
                    continue
                self.n_traces += 1
                self.n_events += len(t["events"])
                self.drift, self.ood, self.oodw = self.drift + verd[i][1], self.ood + verd[i][2], self.oodw + verd[i][3]
                self.rowsel_not_judged += verd[i][4]
                for l, clause in fl:
                    e = t["events"][l]
                    shown = e["exc"] if e["exc"] else e["val"] if e["op"] in ("rank", "indep") else e["out"]
                    self.agg.add(clause, f"A={t['A']} ({t['m']}x{t['n']})" + (f" b={e['b']}" if e["op"] in ("solve", "indep") else "") + f" output={shown}"
                                 + (f" (selected columns as rows) others={e['out2']}" if e["op"] == "basis" else "")
                                 + (f" input={e['inp']}" if e["op"] == "kernel" else "")
                                 + (" (generators as rows (x|z) of the Hamiltonian with terms (x|z) = rows of A)" if e["op"] == "symgen" else "")
                                 + (f" (indicator of the selected rows) P={e['inp']} unit vector e_{e['val'] - 1} nodes={e['out2']}" if e["op"] == "rowsel" else ""),
                                 {"m": t["m"], "n": t["n"], "A": t["A"], "event": e})
        return out

    def replay_and_validate(self, cases, trace_only=None):
        """spec -> code (REPLAY comparisons inside exercise) and code -> spec (trace validation), chunk by chunk.
        trace_only: set of case indices whose traces are sent to TLC (default all); every case is replayed."""
        for lo in range(0, len(cases), CHUNK):
            t0 = time.time()
            traces = []
            for k, c in enumerate(cases[lo:lo + CHUNK]):
                tr = exercise(c, self.kernel, self.agg, self.stats, symgen=self.symgen, rcmod=self.rcmod, rng=self.rng)
                if trace_only is None or lo + k in trace_only:
                    traces.append(tr)
                self.n_cases += 1
                self.nontriv += c["rank"] >= 2 and c["A"] != c["rref"]
                if c["m"] == c["n"]:
                    self.stats["square_regular" if c["rank"] == c["n"] else "square_singular"] += 1
            self.wall["implementation"] += time.time() - t0
            self.validate(traces)


def run(tier, seed):
    rng = random.Random(seed)
    R = Run(_kernel_fn(), _symgen_fn(), _rowcol_mod(), rng)
    shapes = [(m, n) for m in range(0, 4) for n in range(0, 5)]
    if tier == "quick":
        extra = random_matrices(rng, 120, 5, 6)
        big = random_matrices(rng, 150, 7, 9)
    else:
        extra = random_matrices(rng, 600, 6, 8)
        big = random_matrices(rng, 1000, 8, 10)
    cases = R.generate(shapes, extra)
    # controls from the SPEC's expected values: accepted as they are, rejected when corrupted
    pos, neg = controls(cases)
    samples = []
    for want in ((3, 4, 3), (3, 3, 2)):
        c = next(c for c in cases if (c["m"], c["n"], c["rank"]) == want and c["A"] != c["rref"] and c["A"][0] != c["rref"][0])
        s5 = c["sols"][5]
        samples.append({"A": ms(c["A"]), "rref": ms(c["rref"]), "rank": c["rank"], "pivot_columns": str(c["piv"]), "kernel_basis": ms(c["kern"]),
                        "rhs": ms([s5["b"]]), "solvable": s5["ok"], "x": ms([s5["x"]]) if s5["ok"] else None, "solutions": s5["ns"],
                        "unsolvable_rhs": ms([s["b"] for s in c["sols"] if not s["ok"]])})
    R.replay_and_validate(cases)
    shapes_done, n44 = list(shapes), 0
    if tier != "quick":
        # every 4x4 matrix with every right-hand side, in a run of its own: all of them model-checked and replayed,
        # a seeded sample of them trace-validated
        del cases
        c44 = R.generate([(4, 4)], [])
        n44 = 12000
        R.replay_and_validate(c44, trace_only=set(rng.sample(range(len(c44)), n44)))
        del c44
        shapes_done.append((4, 4))
    # larger seeded matrices: trace validation only (brute force over 2^n / 2^m vectors inside TLC)
    t0 = time.time()
    traces = []
    for x in big:
        m = x["m"]
        picks = {tuple(rng.randint(0, 1) for _ in range(m)) for _ in range(6)} | {tuple([0] * m)}
        A = np.array(x["A"])
        picks |= {tuple(int(v) for v in (A @ np.array([rng.randint(0, 1) for _ in range(x["n"])])) % 2) for _ in range(3)}
        traces.append(exercise(dict(x, rhs=[list(p) for p in sorted(picks)]), R.kernel, R.agg, R.stats, expect=False,
                               symgen=R.symgen, rcmod=R.rcmod, rng=rng))
    # CNOT routing runs: every row selection made inside qp.transforms.rowcol, on seeded connectivity graphs
    n_routes = 0
    if R.rcmod is not None:
        rt = rowcol_runs(R.rcmod, rng, 60 if tier == "quick" else 600, R.stats)
        n_routes = len(rt)
        traces += rt
    R.wall["implementation"] += time.time() - t0
    cv = R.validate(traces + [t for _, t in pos] + [t for _, t in neg], judge_n=len(traces))[len(traces):]
    for (name, _), (nf, cl) in zip(pos, cv[:len(pos)]):
        if nf != 0:
            raise lib.MachineryError(f"positive control '{name}' (the spec's own expected value) was rejected by Trace_GF2: {cl}")
    for (name, _), (nf, cl) in zip(neg, cv[len(pos):]):
        if nf == 0:
            raise lib.MachineryError(f"negative control '{name}' was accepted by Trace_GF2")
    stats = R.stats
    if stats["square_regular"] < 100 or stats["indep_true"] < 100 or R.nontriv < 1000:
        raise lib.MachineryError(f"vacuous run: {dict(stats)}")
    if R.symgen is not None and (stats["symgen_calls"] < 1000 or stats["symgen_rank_deficient"] < 100):
        raise lib.MachineryError(f"vacuous run (symmetry generators): {dict(stats)}")
    if R.rcmod is not None and (stats["rowsel_replayed_nontrivial"] < 100 or stats["rowsel_unsorted_order"] < 500
                                or stats["rowsel_in_rowcol_unsorted_nontrivial"] < 20):
        raise lib.MachineryError(f"vacuous run (RowCol row selections): {dict(stats)}")
    cov = {"states": R.g_states + R.t_states, "transitions": R.g_gen + R.t_gen,
           "traces_validated_against_impl": R.n_traces, "evaluations": R.n_events,
           "distinct_nontrivial": R.nontriv,
           "rule": "every binary matrix of every shape 0..3 x 0..4" + (" and 4x4" if tier != "quick" else "") +
                   " with every right-hand side, plus seeded larger matrices; evaluations = implementation calls validated by TLC; "
                   "non-trivial = distinct enumerated matrix of rank >= 2 that is not already in reduced row echelon form",
           "samples": samples, "exhaustive": True,
           "model": {"module": "GF2 / GF2Gen", "invariants": INVARIANTS, "states": R.g_states, "matrices": R.n_cases,
                     "exhaustive_shapes": [f"{m}x{n}" for m, n in shapes_done], "seeded_larger_matrices_in_model": len(extra)},
           "matrices_replayed": R.n_cases, "larger_matrices_trace_only": len(big),
           "trace_validated_4x4_sample": n44,
           "trace_events": R.n_events, "trace_states": R.t_states,
           "square_regular": stats["square_regular"], "square_singular": stats["square_singular"],
           "solve_returned": stats["solve_returned"],
           "solve_raised": {k.split(":", 1)[1]: v for k, v in stats.items() if k.startswith("solve_raised:")},
           "indep_in_domain": stats["indep_in_domain"], "indep_true": stats["indep_true"], "indep_false": stats["indep_false"],
           "indep_out_of_documented_domain": R.ood,
           "indep_out_of_domain_answer_differs_from_reference": R.oodw, "kernel_calls": stats["kernel_calls"],
           "consumers": {
               "symmetry_generators_available": R.symgen is not None, "symgen_calls": stats["symgen_calls"],
               "symgen_rank_deficient_hamiltonians": stats["symgen_rank_deficient"],
               "symgen_skipped_idle_qubit": stats["symgen_skipped_idle_qubit"],
               "symgen_basis_differs_from_model": stats["symgen_basis_differs_from_model"],
               "rowcol_get_S_available": R.rcmod is not None, "rowsel_calls": stats["rowsel_calls"],
               "rowsel_replayed_nontrivial": stats["rowsel_replayed_nontrivial"],
               "rowsel_unsorted_node_order": stats["rowsel_unsorted_order"], "rowsel_embedded_calls": stats["rowsel_embedded_calls"],
               "rowcol_runs": n_routes, "rowsel_in_rowcol": stats["rowsel_in_rowcol"],
               "rowsel_in_rowcol_unsorted_nontrivial": stats["rowsel_in_rowcol_unsorted_nontrivial"],
               "rowcol_column_selections": stats["rowcol_column_selections"],
               "rowcol_raised": {k.split(":", 1)[1]: v for k, v in stats.items() if k.startswith("rowcol_raised:")},
               "rowsel_unreduced_input": stats["rowsel_unreduced_input"], "rowsel_singular_not_judged": R.rowsel_not_judged},
           "model_drift": R.drift, "input_mutated": stats["input_mutated"], "rref_inplace_differs": stats["rref_inplace_differs"],
           "rref_inplace_not_same_object": stats["rref_inplace_not_same_object"],
           "phase_wall_s": {k: round(v, 1) for k, v in R.wall.items()},
           "negative_controls_rejected": len(neg), "negative_controls": [n for n, _ in neg],
           "positive_controls_accepted": len(pos)}
    return CheckResult(coverage=cov, violations=R.agg.violations(), assumptions=[
        "binary_solve_linear_system is exercised on square matrices only (documented domain); on a singular matrix raising "
        "or returning a vector that solves the system are both accepted",
        "binary_is_independent is decided only when the basis columns are independent or spanning (documented precondition: "
        "rank min(r, m)); calls outside it are counted, not judged",
        "which basis binary_select_basis picks (greedy left to right) is mechanism: a different valid basis is drift",
        "symmetry_generators: the Hamiltonian is a LinearCombination of Pauli words on wires 0..q-1 with unit coefficients, every "
        "qubit acted on; WHICH basis of the symmetry group is returned is mechanism (counted); the generators must commute with "
        "every term, generate the whole group and be independent",
        "rowcol._get_S (private; skipped and reported when absent) is judged in row mode only, on regular matrices: the returned "
        "set must be (support of the solution of P^T c = e_i, plus i) restricted to the node set; only the row selections made "
        "inside qp.transforms.rowcol are judged, not the routed circuit (exceptions of the transform are counted)",
        "inputs are int64 numpy arrays"])
