"""C39 Jacobian-product utilities contract Jacobians correctly.

(M) JacProd.tla defines VJP and JVP as the explicit integer tensor contractions of the documentation (vjp_j = sum_i dy_i J_ij over
    every output entry of every measurement and shot copy; jvp_i = sum_j J_ij t_j).  JacProdGen.tla enumerates every shape in the
    bounds (measurement sizes, number / sizes of parameters, shot-vector copies) x Jacobian fillings x cotangent / tangent cases
    (all zero, every unit tensor, dense, partially zero) and TLC checks the laws of the specification on each case
    (<dy, J t> = <dy J, t>, zero in -> zero out, unit cotangent / tangent selects a row / column of J).
(R) spec -> code: for every case TLC prints J, dy, t and the contractions; the driver builds the structures PennyLane uses (nested
    tuples of arrays per shot copy / measurement / parameter) and calls compute_vjp_single / multi, compute_jvp_single / multi
    directly and batch_vjp / batch_jvp on tapes whose gradient transform returns the integer Jacobian, and compares exactly.
    classical_jacobian: ClassJacGen.tla enumerates affine integer pre-processing programs, TLC computes the Jacobian by exact
    differences; the driver builds the QNode of each program and compares (autograd; thorough: also jax and torch on a subset).
"""
import json
import random
import time

import numpy as np

import pennylane as qp
from pennylane import numpy as pnp
from pennylane.gradients import (batch_jvp, batch_vjp, classical_jacobian, compute_jvp_multi, compute_jvp_single,
                                 compute_vjp_multi, compute_vjp_single)

from .. import lib
from ..lib import CheckResult, Violation

PID = "C39"
ATOL = 1e-9


# ----------------------------------------------------------------------------- shapes
def shape_sets(quick):
    """-> (shapes for the product utilities, as dicts)"""
    sizes = [0, 2, 4]
    meas = [[a] for a in sizes] + [[a, b] for a in sizes for b in sizes]
    meas += [[0, 0, 0], [0, 2, 0], [2, 0, 4], [4, 2, 2]] if quick else [[a, b, c] for a in sizes for b in sizes for c in sizes]
    shapes = []
    for m in meas:
        for k in (1, 2, 3):
            for cop in (0, 2, 3):
                if quick and cop == 3 and (len(m) > 2 or k == 3):
                    continue
                shapes.append({"meas": m, "pars": [0] * k, "cop": cop})
        shapes.append({"meas": m, "pars": [], "cop": 0})                 # no trainable parameters
        if len(m) <= 2:
            shapes.append({"meas": m, "pars": [], "cop": 2})
    # tensor-valued parameters (compute_jvp_* only)
    for m in ([[0], [2], [0, 2], [4, 0]] if quick else meas[:12]):
        for pars in ([2], [0, 2], [3, 0], [2, 3], [0, 2, 0]):
            shapes.append({"meas": m, "pars": pars, "cop": 0})
    return shapes


def tla_seq(xs):
    return "<<" + ", ".join(str(x) for x in xs) + ">>"


def tla_shape(s):
    return f"[meas |-> {tla_seq(s['meas'])}, pars |-> {tla_seq(s['pars'])}, cop |-> {s['cop']}]"


# ----------------------------------------------------------------------------- PennyLane structures
def arr(vals, size, mk):
    return mk(float(vals[0])) if size == 0 else mk([float(v) for v in vals])


def jac_entry(mat, msize, psize, mk):
    """J[c][m][p] (output entries x parameter entries) -> array of shape r + l"""
    a = np.array(mat, dtype=float).reshape(((msize,) if msize else ()) + ((psize,) if psize else ()))
    return mk(a)


def jac_copy(sh, Jc, mk):
    M, K = len(sh["meas"]), len(sh["pars"])

    def inner(m):
        if K == 1:
            return jac_entry(Jc[m][0], sh["meas"][m], sh["pars"][0], mk)
        return tuple(jac_entry(Jc[m][p], sh["meas"][m], sh["pars"][p], mk) for p in range(K))
    return inner(0) if M == 1 else tuple(inner(m) for m in range(M))


def dy_copy(sh, dyc, mk):
    M = len(sh["meas"])
    if M == 1:
        return arr(dyc[0], sh["meas"][0], mk)
    return tuple(arr(dyc[m], sh["meas"][m], mk) for m in range(M))


def tangent_of(sh, t, mk, variant):
    if all(p == 0 for p in sh["pars"]):
        flat = [float(x[0]) for x in t]
        if variant % 3 == 1:
            return [mk(x) for x in flat]
        if variant % 3 == 2:
            return tuple(mk(x) for x in flat)
        return mk(flat)
    return [arr(t[p], sh["pars"][p], mk) for p in range(len(sh["pars"]))]


def make_tape(sh):
    K = len(sh["pars"])
    ops = [qp.RX(0.1 * (i + 1), wires=i % 2) for i in range(K)] + [qp.CNOT([0, 1])]
    ms, nz = [], 0
    for r in sh["meas"]:
        if r == 0:
            ms.append(qp.expval(qp.Z(nz % 2)) if nz % 3 != 2 else qp.var(qp.Z(nz % 2)))
            nz += 1
        else:
            ms.append(qp.probs(wires=list(range({2: 1, 4: 2, 8: 3}[r]))))
    shots = None if sh["cop"] == 0 else ((10, 10) if sh["cop"] == 2 else (5, 10, 10))
    tp = qp.tape.QuantumScript(ops, ms, shots=shots)
    tp.trainable_params = list(range(K))
    return tp


def same(out, exp, shape):
    """out: array-like; exp: flat list of ints; shape: expected numpy shape"""
    try:
        a = np.asarray(qp.math.unwrap(out) if not isinstance(out, (np.ndarray, float, int, np.generic)) else out, dtype=float)
    except Exception as e:  # noqa: BLE001
        return f"not numeric ({type(e).__name__}: {e})"
    if a.shape != tuple(shape):
        return f"shape {a.shape} instead of {tuple(shape)}"
    e = np.array(exp, dtype=float).reshape(shape)
    return None if np.allclose(a, e, rtol=0, atol=ATOL) else f"{a.tolist()} instead of {e.tolist()}"


def cmp_jvp_copy(sh, out, jvc):
    """the JVP of one shot copy: array for one measurement, tuple of arrays otherwise"""
    M = len(sh["meas"])
    if M == 1:
        return same(out, jvc[0], (sh["meas"][0],) if sh["meas"][0] else ())
    if not isinstance(out, (tuple, list)) or len(out) != M:
        return f"{type(out).__name__} of shape {np.shape(out) if not isinstance(out, (tuple, list)) else (len(out),)} instead of a tuple of {M} results"
    for m in range(M):
        why = same(out[m], jvc[m], (sh["meas"][m],) if sh["meas"][m] else ())
        if why:
            return f"measurement {m}: {why}"
    return None


def cmp_jvp(sh, out, jvp):
    if sh["cop"] == 0:
        return cmp_jvp_copy(sh, out, jvp[0])
    if not isinstance(out, (tuple, list)) or len(out) != sh["cop"]:
        n = len(out) if isinstance(out, (tuple, list)) else "?"
        return f"result with {n} top-level entries ({type(out).__name__}) instead of one per shot copy ({sh['cop']})"
    for c in range(sh["cop"]):
        why = cmp_jvp_copy(sh, out[c], jvp[c])
        if why:
            return f"shot copy {c}: {why}"
    return None


def shape_key(sh):
    M, K = len(sh["meas"]), len(sh["pars"])
    return (("single" if M == 1 else "multi") + "-meas:" + ("scalar" if all(r == 0 for r in sh["meas"]) else
                                                             "vector" if all(r for r in sh["meas"]) else "mixed")
            + f":{'no' if K == 0 else 'one' if K == 1 else 'many'}-params" + (":tensor-params" if any(sh["pars"]) else "")
            + (":shot-vector" if sh["cop"] else ""))


def case_class(c, sh):
    nout = (sh["cop"] or 1) * sum(r or 1 for r in sh["meas"])
    npar = sum(p or 1 for p in sh["pars"])
    d, e = c["d"], c["e"]
    dk = "zero" if d == 0 else "unit" if d <= nout else "dense" if d <= nout + 2 else "partially-zero"
    ek = "zero" if e == 0 else "unit" if e <= npar else "dense" if e <= npar + 2 else "partially-zero"
    return dk, ek


# ----------------------------------------------------------------------------- classical_jacobian
def make_qnode(prog, n, form, interface):
    dev = qp.device("default.qubit", wires=2)

    def body(ws):
        for gi, g in enumerate(prog):
            if g["const"]:
                qp.RZ(float(g["b"]) / 4, wires=gi % 2)
                continue
            expr = None
            for j in range(n):
                if g["a"][j]:
                    term = ws[j] if g["a"][j] == 1 else g["a"][j] * ws[j]
                    expr = term if expr is None else expr + term
            if g["b"]:
                expr = expr + g["b"]
            (qp.RX, qp.RY)[gi % 2](expr, wires=gi % 2)
        return qp.expval(qp.Z(0))

    if form == "vector":
        def circuit(w):
            return body([w[j] for j in range(n)])
    elif n == 1:
        def circuit(x):
            return body([x])
    elif n == 2:
        def circuit(x, y):
            return body([x, y])
    else:
        def circuit(x, y, z):
            return body([x, y, z])
    return qp.QNode(circuit, dev, interface=interface)


def call_cjac(prog, n, w0, form, interface, argnum):
    qn = make_qnode(prog, n, form, interface)
    if interface == "autograd":
        mk = lambda v: pnp.array(v, requires_grad=True)   # noqa: E731
    elif interface == "jax":
        import jax.numpy as jnp
        mk = lambda v: jnp.array(v)   # noqa: E731
    else:
        import torch
        mk = lambda v: torch.tensor(v, requires_grad=True, dtype=torch.float64)   # noqa: E731
    args = [mk([float(x) for x in w0])] if form == "vector" else [mk(float(x)) for x in w0]
    return classical_jacobian(qn, argnum=argnum)(*args)


def expect_cjac(jac, n, form, interface, argnum):
    """-> ('array', matrix) or ('tuple', [matrices])  per the documented output formats"""
    J = np.array(jac, dtype=float).reshape(len(jac), n)
    if form == "vector":
        mat = J                                            # one argument of shape (n,): rows x n
        if interface == "torch" or isinstance(argnum, list):
            return "tuple", [mat]
        return "array", mat
    cols = [J[:, j] for j in range(n)]
    if isinstance(argnum, int):
        return "array", cols[argnum]
    if isinstance(argnum, list):
        return "tuple", [cols[j] for j in argnum]
    if interface == "autograd" and n == 1:
        return "array", cols[0]                            # a single trainable argument: the tuple is unpacked
    if interface == "jax":
        return "array", cols[0]                            # argnum=None means argnum=0 for jax
    return "tuple", cols


def cmp_cjac(out, kind, want):
    if kind == "array":
        if isinstance(out, (tuple, list)):
            return f"a {type(out).__name__} of {len(out)} instead of one array"
        return same(out, want.flatten().tolist(), want.shape)
    if not isinstance(out, (tuple, list)) or len(out) != len(want):
        return f"{type(out).__name__} instead of a tuple of {len(want)} arrays"
    for j, w in enumerate(want):
        why = same(out[j], w.flatten().tolist(), w.shape)
        if why:
            return f"entry {j}: {why}"
    return None


JAC = {}


def gfn(tp, **_):
    """a 'gradient transform' that needs no executions and returns the Jacobian registered for the tape"""
    return [], (lambda results: JAC[id(tp)])


def exercise(rec, variant, attempt, controls=None):
    """run one generated case through every applicable entry point; attempt(fname, sh, c, call, check, what) -> (out, why)"""
    sh, c = rec["sh"], rec["c"]
    M, K = len(sh["meas"]), len(sh["pars"])
    mk = (lambda v: pnp.array(v, requires_grad=False)) if variant % 5 == 4 else np.array
    dk, ek = case_class(c, sh)
    scalar_pars = all(p == 0 for p in sh["pars"])
    vjp_flat = [x for p in c["vjp"] for x in p]
    dy_desc = f"dy = {c['dy']}, J = {c['J']}"
    t_desc = f"tangent = {c['t']}, J = {c['J']}"
    # ---- the convenience functions, per shot copy (no shot vector)
    if sh["cop"] == 0 and K >= 1:
        jac = jac_copy(sh, c["J"][0], mk)
        tan = tangent_of(sh, c["t"], mk, variant)
        if scalar_pars:
            dy = dy_copy(sh, c["dy"][0], mk)
            if M == 1:
                num = (sh["meas"][0] or 1) if variant % 2 else None
                attempt("compute_vjp_single", sh, c, lambda: compute_vjp_single(dy, jac, num=num),
                        lambda o: same(o, vjp_flat, (K,)), dy_desc)
            else:
                attempt("compute_vjp_multi", sh, c, lambda: compute_vjp_multi(dy, jac), lambda o: same(o, vjp_flat, (K,)), dy_desc)
        if M == 1:
            out, why = attempt("compute_jvp_single", sh, c, lambda: compute_jvp_single(tan, jac),
                               lambda o: cmp_jvp_copy(sh, o, c["jvp"][0]), t_desc)
            if not why and rec["js"] and ek != "zero" and controls is not None and len(controls) < 30 and any(c["jvp"][0][0]):
                controls.append((sh, out, c["jvp"]))
        else:
            attempt("compute_jvp_multi", sh, c, lambda: compute_jvp_multi(tan, jac), lambda o: cmp_jvp_copy(sh, o, c["jvp"][0]), t_desc)
    # ---- batch_vjp / batch_jvp on a tape whose gradient transform returns J
    if scalar_pars:
        tp = make_tape(sh)
        ncop = sh["cop"] or 1
        JAC[id(tp)] = None if K == 0 else (jac_copy(sh, c["J"][0], np.array) if sh["cop"] == 0 else
                                           tuple(jac_copy(sh, c["J"][cc], np.array) for cc in range(ncop)))
        dys = dy_copy(sh, c["dy"][0], np.array) if sh["cop"] == 0 else tuple(dy_copy(sh, c["dy"][cc], np.array) for cc in range(ncop))
        tan = np.array([float(x[0]) for x in c["t"]])
        reduction = "extend" if variant % 4 == 3 else "append"

        def chk_vjp(o):
            if not isinstance(o, list):
                return f"{type(o).__name__} instead of a list"
            if K == 0:
                return None if o == ([] if reduction == "extend" else [None]) else f"{o} for a tape without trainable parameters"
            if reduction == "extend":
                return same(o, vjp_flat, (K,))
            return same(o[0], vjp_flat, (K,)) if len(o) == 1 else f"{len(o)} results for one tape"

        attempt("batch_vjp", sh, c, lambda: batch_vjp([tp], [dys], gfn, reduction=reduction)[1]([]), chk_vjp, dy_desc)

        def chk_jvp(o):
            if not isinstance(o, tuple) or len(o) != 1:
                return f"{type(o).__name__} of length {len(o)} instead of a 1-tuple (one tape)"
            return cmp_jvp(sh, o[0], c["jvp"])

        attempt("batch_jvp", sh, c, lambda: batch_jvp([tp], [tan], gfn)[1]([]), chk_jvp, t_desc)
        JAC.pop(id(tp), None)


def violation_key(fname, sh, c):
    dk, ek = case_class(c, sh)
    return f"{fname}:{shape_key(sh)}:{dk if 'vjp' in fname else ek}-{'cotangent' if 'vjp' in fname else 'tangent'}"


def replay(path, tier, seed):
    """re-run the case of a replay file (written by run) through the real code"""
    rp = json.load(open(path))["replay"]
    if "case" not in rp:
        raise lib.MachineryError("this replay file describes a batch / classical_jacobian case; re-run the check instead")
    viol = []

    def attempt(fname, sh, c, f, check, what):
        try:
            out = f()
            why = check(out)
        except Exception as e:  # noqa: BLE001
            out, why = None, f"raised {type(e).__name__}: {e}"
        if why and fname == rp["function"]:
            viol.append(Violation(key=violation_key(fname, sh, c), detail=f"{fname} on measurements {sh['meas']}, parameters {sh['pars']}, "
                                  f"shot copies {sh['cop']}, {what}: {why}", replay=rp))
        return out, why
    exercise(rp["case"], rp["variant"], attempt)
    return CheckResult(coverage={"states": 0, "transitions": 0, "traces_validated_against_impl": 0, "evaluations": 1, "distinct_nontrivial": 1,
                                 "rule": "one replayed case (expected values computed by TLC in the original run)", "exhaustive": False,
                                 "samples": []}, violations=viol)


def run(tier, seed):
    quick = tier == "quick"
    rng = random.Random(seed)
    shapes = shape_sets(quick)
    t0 = time.time()
    wd = lib.workdir(PID, "gen")
    g = lib.run_tlc_mc("JacProdGen", {"Shapes": "{" + ", ".join(tla_shape(s) for s in shapes) + "}"}, wd,
                       constants={"JSalts": "{0, 1, 2}" if quick else "{0, 1, 2, 3, 4}"}, invariants=["SpecLaws"], timeout=3000)
    if g.invariant_violated:
        raise lib.MachineryError(f"JacProd.tla violates its own law {g.invariant_violated} (oracle error)\n" + g.out[-2000:])
    lib.require_ok(g, "JacProdGen")
    t_gen = time.time() - t0
    cases = g.json_lines
    if len(cases) < 1000:
        raise lib.MachineryError(f"generator emitted only {len(cases)} cases")

    found = {}

    def report(key, detail, replay):
        if key in found:
            found[key][1] += 1
        else:
            found[key] = [Violation(key=key, detail=detail, replay=replay), 1]

    calls = {}
    cur = {}
    classes = {}
    nontriv, samples, controls = set(), [], []
    def attempt(fname, sh, c, f, check, what):
        calls[fname] = calls.get(fname, 0) + 1
        try:
            out = f()
            why = check(out)
        except Exception as e:  # noqa: BLE001
            out, why = None, f"raised {type(e).__name__}: {e}"
        if why:
            report(violation_key(fname, sh, c), f"{fname} on measurements {sh['meas']} (0 = scalar), parameters {sh['pars']}, shot copies {sh['cop']}, "
                        f"{what}: {why}", {"function": fname, "shape": sh, "J[copy][meas][param][out][par]": c["J"], "dy": c["dy"],
                                           "tangent": c["t"], "expected_vjp": c["vjp"], "expected_jvp": c["jvp"],
                                           "case": {"sh": sh, "c": c, "js": cur["js"], "n": cur["n"]}, "variant": cur["variant"]})
        return out, why

    for idx, rec in enumerate(cases):
        sh, c = rec["sh"], rec["c"]
        M, K = len(sh["meas"]), len(sh["pars"])
        variant = idx + rec["n"]
        dk, ek = case_class(c, sh)
        classes[(dk, ek)] = classes.get((dk, ek), 0) + 1
        if rec["js"] and (dk != "zero" or ek != "zero"):
            nontriv.add((json.dumps(sh), rec["js"], rec["n"]))
        vjp_flat = [x for p in c["vjp"] for x in p]
        cur.update(js=rec["js"], n=rec["n"], variant=variant)
        exercise(rec, variant, attempt, controls if idx % 11 == 0 else None)
        if len(samples) < 4 and rec["js"] and dk == "dense" and M == 2 and K == 2 and sh["cop"] in ((0, 2, 0, 2)[len(samples)],) \
                and not any(sh["pars"]):
            samples.append({"measurement_sizes": sh["meas"], "parameters": K, "shot_copies": sh["cop"], "J[copy][meas][param][out][par]": c["J"],
                            "dy": c["dy"], "tangent": c["t"], "vjp": vjp_flat, "jvp": c["jvp"]})
    t_prod = time.time() - t0 - t_gen

    # several tapes in one batch: the results are listed / concatenated in tape order (the documented reduction rule)
    n_batches = 0
    scal = [r for r in cases if not any(r["sh"]["pars"]) and r["js"]]
    for b in range(60 if quick else 400):
        grp = [rng.choice(scal) for _ in range(rng.randint(2, 4))]
        tapes, dys, tans, exp_v, exp_j = [], [], [], [], []
        for r in grp:
            sh, c = r["sh"], r["c"]
            K, ncop = len(sh["pars"]), sh["cop"] or 1
            tp = make_tape(sh)
            JAC[id(tp)] = None if K == 0 else (jac_copy(sh, c["J"][0], np.array) if sh["cop"] == 0 else
                                               tuple(jac_copy(sh, c["J"][cc], np.array) for cc in range(ncop)))
            tapes.append(tp)
            dys.append(dy_copy(sh, c["dy"][0], np.array) if sh["cop"] == 0 else tuple(dy_copy(sh, c["dy"][cc], np.array) for cc in range(ncop)))
            tans.append(np.array([float(x[0]) for x in c["t"]]))
            exp_v.append(None if K == 0 else [x for p in c["vjp"] for x in p])
            exp_j.append((sh, c["jvp"]))
        red = "extend" if b % 2 else "append"
        n_batches += 1
        rp = {"shapes": [r["sh"] for r in grp], "cases": [r["c"] for r in grp], "reduction": red}
        try:
            o = batch_vjp(tapes, dys, gfn, reduction=red)[1]([])
            if red == "append":
                why = None if len(o) == len(grp) else f"{len(o)} results for {len(grp)} tapes"
                for j, e in enumerate(exp_v):
                    if why:
                        break
                    why = (None if o[j] is None else f"tape {j}: {o[j]} instead of None") if e is None else same(o[j], e, (len(e),))
                    why = why and f"tape {j}: {why}"
            else:
                flat = [x for e in exp_v if e is not None for x in e]
                why = same(o, flat, (len(flat),))
        except Exception as e:  # noqa: BLE001
            why = f"raised {type(e).__name__}: {e}"
        if why:
            report(f"batch_vjp:several-tapes:{red}", f"batch_vjp on {len(grp)} tapes (reduction={red}): {why}", rp)
        try:
            o = batch_jvp(tapes, tans, gfn)[1]([])
            why = None if isinstance(o, tuple) and len(o) == len(grp) else f"{len(o)} results for {len(grp)} tapes"
            for j, (sh, jv) in enumerate(exp_j):
                if why:
                    break
                why = cmp_jvp(sh, o[j], jv)
                if why:
                    zero_t = not np.any(tans[j])
                    report(f"batch_jvp:{shape_key(sh)}:{'zero' if zero_t else 'nonzero'}-tangent" if sh["cop"] and zero_t and len(sh["pars"])
                           else "batch_jvp:several-tapes", f"batch_jvp on {len(grp)} tapes, tape {j} (measurements {sh['meas']}, "
                           f"{len(sh['pars'])} parameters, shot copies {sh['cop']}, tangent {tans[j].tolist()}): {why}", rp)
                    why = None
        except Exception as e:  # noqa: BLE001
            why = f"raised {type(e).__name__}: {e}"
        if why:
            report("batch_jvp:several-tapes", f"batch_jvp on {len(grp)} tapes: {why}", rp)
        for tp in tapes:
            JAC.pop(id(tp), None)

    # negative controls of the comparator
    rejected = 0
    for sh, out, jvp in controls:
        bad = json.loads(json.dumps(jvp))
        bad[0][0][0] += 1
        if cmp_jvp_copy(sh, out, bad[0]) is None:
            raise lib.MachineryError("negative control accepted by the comparator")
        rejected += 1
    if same(np.array([1.0, 2.0]), [1, 2], (2,)) is not None or same(np.array([1.0, 2.0]), [2, 1], (2,)) is None \
            or same(np.array([[1.0, 2.0]]), [1, 2], (2,)) is None:
        raise lib.MachineryError("comparator self-test failed")
    rejected += 2
    if rejected < 8:
        raise lib.MachineryError("too few comparator controls")

    # ------------------------------------------------------------------ classical_jacobian
    t1 = time.time()
    wd2 = lib.workdir(PID, "cjac")
    lens = "[k \\in {1, 2, 3} |-> IF k = 1 THEN 3 ELSE IF k = 2 THEN 2 ELSE 1]" if quick else \
           "[k \\in {1, 2, 3} |-> IF k = 1 THEN 3 ELSE 2]"
    cj = lib.run_tlc_mc("ClassJacGen", {"Lens": lens, "Coefs": "{-1, 0, 2}"}, wd2, constants={"Consts": "{0, 3}"},
                        invariants=["SpecLaws"], timeout=3000)
    if cj.invariant_violated:
        raise lib.MachineryError(f"ClassJacGen violates {cj.invariant_violated} (oracle error)\n" + cj.out[-2000:])
    lib.require_ok(cj, "ClassJacGen")
    t_cj_tlc = time.time() - t1
    progs = sorted(cj.json_lines, key=lambda r: json.dumps(r, sort_keys=True))
    if len(progs) < 200:
        raise lib.MachineryError(f"only {len(progs)} pre-processing programs")
    cj_calls, cj_by_iface, cj_dense = 0, {}, 0
    for pi, r in enumerate(progs):
        n, prog, w0, jac = r["n"], r["prog"], r["w0"], r["jac"]
        form = "vector" if pi % 2 else "scalars"
        ifaces = ["autograd"] if quick else ["autograd"] + (["jax"] if pi % 5 == 0 else []) + (["torch"] if pi % 5 == 3 else [])
        for iface in ifaces:
            if iface == "autograd":
                if form == "vector":
                    argnum = [None, 0, [0]][pi % 3] if pi % 3 != 2 else None
                else:
                    argnum = [None, pi % n, sorted(rng.sample(range(n), rng.randint(1, n)))][pi % 3]
            elif iface == "jax":
                argnum = None if form == "vector" else list(range(n))     # rows exist only for gate arguments of traced inputs
            else:
                argnum = None
            kind, want = expect_cjac(jac, n, form, iface, argnum)
            cj_calls += 1
            cj_by_iface[iface] = cj_by_iface.get(iface, 0) + 1
            cj_dense += sum(1 for row in jac for x in row if x) >= 2
            try:
                out = call_cjac(prog, n, w0, form, iface, argnum)
                why = cmp_cjac(out, kind, want)
            except Exception as e:  # noqa: BLE001
                why = f"raised {type(e).__name__}: {e}"
            if why:
                report(f"classical_jacobian:{iface}:{form}:argnum={'none' if argnum is None else 'int' if isinstance(argnum, int) else 'list'}",
                       f"classical_jacobian(argnum={argnum}) of the QNode with gate arguments {prog} ({form} inputs {w0}, {iface}): {why}; "
                       f"the Jacobian of the pre-processing is {jac}", {"program": prog, "inputs": w0, "form": form, "interface": iface,
                                                                         "argnum": argnum, "expected": jac})
    if cmp_cjac(np.array([[1.0, 0.0]]), "array", np.array([[1.0, 1.0]])) is None:
        raise lib.MachineryError("classical_jacobian comparator accepted a wrong matrix")
    rejected += 1
    t_cj = time.time() - t1

    viol = []
    for key, (v, cnt) in sorted(found.items()):
        v.detail = f"[{cnt} case(s)] " + v.detail
        viol.append(v)
    n_calls = sum(calls.values())
    cov = {"states": g.distinct + cj.distinct, "transitions": g.generated + cj.generated,
           "traces_validated_against_impl": 0, "evaluations": n_calls + 2 * n_batches + cj_calls,
           "distinct_nontrivial": len(nontriv) + cj_dense,
           "rule": f"every shape of the list ({len(shapes)} shapes: 1-3 measurements of size scalar / 2 / 4, 0-3 scalar parameters, no shot "
                   "vector / 2 / 3 copies, plus tensor-valued parameters for the JVP) x Jacobian fillings x cotangent / tangent cases "
                   "(zero, every unit tensor, dense, partially zero); non-trivial = distinct case with a non-zero Jacobian and a non-zero "
                   "cotangent or tangent, plus classical_jacobian programs whose Jacobian has at least 2 non-zero entries",
           "samples": samples, "exhaustive": True,
           "model": {"modules": "JacProd / JacProdGen / ClassJacGen", "invariants": ["SpecLaws"], "cases": len(cases), "programs": len(progs)},
           "calls": calls, "cases_by_cotangent_and_tangent_kind": {f"{a}/{b}": v for (a, b), v in sorted(classes.items())},
           "batches_of_several_tapes": n_batches,
           "classical_jacobian": {"programs": len(progs), "calls": cj_calls, "by_interface": cj_by_iface},
           "negative_controls_rejected": rejected, "model_drift": 0,
           "wall_s": {"tlc_generator": round(t_gen, 1), "products": round(t_prod, 1), "classical_jacobian_tlc": round(t_cj_tlc, 1),
                      "classical_jacobian_calls": round(t_cj - t_cj_tlc, 1)}}
    return CheckResult(coverage=cov, violations=viol, assumptions=[
        "all tensors have small integer entries, so every comparison is exact (tolerance 1e-9 on float64)",
        "batch_vjp / batch_jvp are driven with a gradient transform that returns the given integer Jacobian in PennyLane's nested "
        "tuple layout (shot copy, measurement, parameter) and needs no executions; measurement sizes 2 / 4 are qp.probs on 1 / 2 wires",
        "a tape without trainable parameters: VJP None (documented), JVP zeros of the result shapes",
        "several tapes in one batch: the driver lists / concatenates the per-tape contractions TLC computed (documented reduction rule)",
        "classical_jacobian: affine pre-processing with integer coefficients; rows = gate arguments that are not literals; output "
        "formats per the documented interface table (jax only with all arguments differentiated)"])
