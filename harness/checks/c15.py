"""C15 Clifford+T approximations meet their precision bound (partial: the final inequality is a float comparison).

Calls (code -> spec): rs_decomposition and sk_decomposition on RZ / PhaseShift (sk: also RX, RY, Rot) at angles on a grid (every multiple of
    pi/4 in [-2pi, 4pi], the interval boundaries of the domain correction, tiny angles, angles next to +-2pi and 4pi, generic and seeded random
    angles) for every epsilon of the tier, and the clifford_t_decomposition transform on seeded random circuits (documented bound: operator-norm
    error of the COMPLETE circuit <= epsilon; single-rotation circuits give the per-gate statement).
Decided by TLC:
  * CTWordEval.tla: the EXACT matrix W = e / sqrt2^k of every returned word, e over Z[omega] in a residue number system (the coefficients of
    e reach 2^20 at epsilon = 1e-4 and 2^400 for Solovay-Kitaev words: beyond 32-bit ring arithmetic), from its own gate table, independent of
    PennyLane's matrix code; and for every target that lies in D[omega] itself (theta a multiple of pi/4: RZ(k pi/4) ~ T^k) whether W equals
    the target exactly up to a phase - then the bound holds for every epsilon with no float involved;
  * CircuitEq.tla (ring level 3, reference table Gates.tla): every word short enough for 32-bit arithmetic is recomputed and must give the
    same exact matrix (integer comparison), and the exactness question is decided again with rel "phase";
  * Trace_CliffordT.tla: the documented contract of each call - only Clifford+T gates (and adjoints) and GlobalPhase, on the right wires, for
    rs/sk a one-qubit word followed by exactly one final GlobalPhase, and the precision clause: exact, or within epsilon, or (documented escape)
    the search budget was exhausted and a sufficient budget does reach epsilon.
Bridged (floats): dist(W, target) = min over phi of || target - e^{i phi} W ||_2 computed from TLC's exact W and the float-bridge target."""
import json
import math
import random
import time

import numpy as np

import pennylane as qp

from .. import bridge, ctword, lib, rel
from ..codec import OffLattice, encode_op, rec
from ..lib import CheckResult, Violation

PID = "C15"
M = 3
PI = math.pi


def slack(eps):
    """the implementations test cos >= 1 - eps^2/2 in float64: a rounding of 2.2e-16 there moves the distance by 2.2e-16/eps"""
    return eps * (1 + 1e-6) + 4e-16 / eps + 1e-13


# ------------------------------------------------------------------------------------------------ distances
def dist_phase(V, W):
    """min over phi of the operator norm of V - e^{i phi} W for unitaries V, W: with eigenphases a_j of V^dagger W on an arc of length L
    (the complement of the largest gap) the optimum is 2 sin(L/4)."""
    ev = np.linalg.eigvals(V.conj().T @ W)
    a = np.sort(np.angle(ev))
    gaps = np.append(np.diff(a), a[0] + 2 * PI - a[-1])
    L = 2 * PI - gaps.max()
    return 2 * math.sin(min(L, 2 * PI) / 4)


def dist_plain(V, W):
    return float(np.linalg.norm(V - W, 2))


def target_matrix(name, params):
    return bridge.base_matrix(name, list(params), [], 1)


def float_word(ops, wpos, n):
    """float evaluation (bridge table, not PennyLane) of a returned Clifford+T word including its GlobalPhase operators"""
    U = np.eye(1 << n, dtype=complex)
    for op in ops:
        name, adj = op.name, False
        if name.startswith("Adjoint(") and name.endswith(")"):
            name, adj = name[8:-1], True
        if name == "GlobalPhase":
            U = np.exp(-1j * float(np.real(qp.math.unwrap([op.data[0]])[0]))) * U
            continue
        w = [wpos[x] for x in op.wires]
        m = bridge.base_matrix(name, [], [], len(w))
        U = bridge.apply(U, m.conj().T if adj else m, w, n)
    return U


# ------------------------------------------------------------------------------------------------ cases
def angle_grid(tier, rng):
    """-> list of (theta, k) with k = theta/(pi/4) when theta is that exact multiple (else None)"""
    out = [(k * PI / 4, k) for k in range(-8, 17)]
    gen = [PI / 3, 0.1, 1.0, 2.0, 3.0, 4.0, 5.0, 6.0, -0.7, -2.5, 7.3, 11.0, PI / 8, 3 * PI / 8, -PI / 8, 2 * PI / 3, PI / 5]
    tiny = [1e-2, 1e-3, -1e-3, 1e-5, 1e-9, 2 * PI - 1e-3, 2 * PI + 1e-3, -2 * PI + 1e-4, 4 * PI - 1e-3, -4 * PI + 1e-2, 2 * PI - 1e-7]
    # interval boundaries of the domain correction (|theta/2| = pi/4, 3pi/4, ...) approached from both sides
    bnd = [s * (j * PI / 2) + d for j in (1, 3, 5, 7) for s in (1, -1) for d in (1e-6, -1e-6)]
    out += [(t, None) for t in gen + tiny + (bnd if tier != "quick" else bnd[::3])]
    for _ in range(12 if tier == "quick" else 150):
        out.append((rng.uniform(-4 * PI, 4 * PI), None))
    return out


def gen_calls(tier, seed):
    """-> list of dicts describing rs / sk calls"""
    rng = random.Random(1500 + seed)
    quick = tier == "quick"
    eps_rs = [1e-1, 1e-2, 1e-3, 1e-4] if quick else [1e-1, 1e-2, 1e-3, 1e-4, 1e-5, 1e-6, 1e-7, 1e-8]
    grid = angle_grid(tier, rng)
    calls = []
    labels = [0, "a", 3]
    for gi, (th, k) in enumerate(grid):
        for ei, eps in enumerate(eps_rs):
            if quick and k is not None and (gi + ei) % 2:          # quick: multiples of pi/4 at every second epsilon
                continue
            calls.append({"kind": "rs", "op": "RZ", "p": [th], "k": k, "eps": eps, "label": labels[(gi + ei) % 3], "kw": {}})
            if (gi + ei) % 3 == 0:
                calls.append({"kind": "rs", "op": "PhaseShift", "p": [th], "k": k, "eps": eps, "label": labels[gi % 3], "kw": {}})
    # Solovay-Kitaev: arbitrary one-qubit targets
    sk_eps = [1e-1, 1e-2] if quick else [1e-1, 3e-2, 1e-2]
    sk_targets = [("RZ", [PI / 3], None), ("RZ", [PI / 4], 1), ("RZ", [PI], 4), ("RY", [2.1], None), ("RX", [0.7], None), ("PhaseShift", [5.0], None),
                  ("Rot", [0.3, 1.1, -2.0], None), ("RZ", [0.0], 0), ("RZ", [1e-3], None), ("RZ", [2 * PI - 1e-3], None)]
    if not quick:
        sk_targets += [("RZ", [rng.uniform(-4 * PI, 4 * PI)], None) for _ in range(10)] + [("RX", [rng.uniform(0, 4 * PI)], None) for _ in range(4)] + \
                      [("Rot", [rng.uniform(0, 6) for _ in range(3)], None) for _ in range(4)]
    for ti, (nm, p, k) in enumerate(sk_targets):
        for ei, eps in enumerate(sk_eps):
            if quick and eps < 1e-1 and ti % 3:
                continue
            calls.append({"kind": "sk", "op": nm, "p": p, "k": k if nm in ("RZ", "PhaseShift") else None, "eps": eps, "label": labels[ti % 3], "kw": {}})
    if not quick:
        calls.append({"kind": "sk", "op": "RZ", "p": [PI / 3], "k": None, "eps": 1e-3, "label": 0, "kw": {}})
        calls.append({"kind": "sk", "op": "RZ", "p": [2.0], "k": None, "eps": 1e-2, "label": 0, "kw": {"basis_set": ("H", "T"), "basis_length": 12}})
        calls.append({"kind": "sk", "op": "RX", "p": [1.0], "k": None, "eps": 1e-2, "label": "a", "kw": {"basis_set": ("H", "S", "T", "Adjoint(T)"), "basis_length": 8}})
    return calls


ROT1 = ["RX", "RY", "RZ", "PhaseShift"]
FIX1 = ["Hadamard", "S", "T", "PauliX", "SX"]
FIX2 = ["CNOT", "CZ", "SWAP"]
ROT2 = ["CRZ", "IsingXX", "ControlledPhaseShift", "CRX"]


def rand_angle(rng):
    r = rng.random()
    if r < 0.6:
        return rng.uniform(-2 * PI, 2 * PI)
    if r < 0.8:
        return rng.randint(-8, 8) * PI / 4
    return rng.choice([1e-3, -1e-4, 2 * PI - 1e-3, PI + 1e-5, 0.5])


def gen_circuits(tier, seed):
    """-> list of (n, float gate records with 'fp', epsilon, method, kwargs)"""
    rng = random.Random(1550 + seed)
    quick = tier == "quick"
    out = []
    for nm in ("RZ", "RX", "RY", "PhaseShift"):                   # single-rotation circuits: the per-gate statement
        out.append((1, [dict(rec(nm, [1]), fp=[1.234])], 1e-3, "gridsynth", {}))
    out.append((1, [dict(rec("Rot", [1]), fp=[0.4, 1.9, -2.2])], 1e-2, "gridsynth", {}))
    out.append((1, [dict(rec("RX", [1]), fp=[0.9])], 1e-1, "sk", {}))
    for _ in range(14 if quick else 150):
        n = rng.choice([1, 2, 2, 3])
        c = []
        nrot = 0
        for _ in range(rng.randint(2, 7)):
            r = rng.random()
            if r < 0.45 and nrot < 4:
                c.append(dict(rec(rng.choice(ROT1), [rng.randint(1, n)]), fp=[rand_angle(rng)]))
                nrot += 1
            elif r < 0.5 and nrot < 3:
                c.append(dict(rec("Rot", [rng.randint(1, n)]), fp=[rand_angle(rng) for _ in range(3)]))
                nrot += 3
            elif r < 0.7 or n == 1:
                c.append(dict(rec(rng.choice(FIX1), [rng.randint(1, n)]), fp=[]))
            elif r < 0.92 or nrot >= 3:
                c.append(dict(rec(rng.choice(FIX2), rng.sample(range(1, n + 1), 2)), fp=[]))
            else:
                c.append(dict(rec(rng.choice(ROT2), rng.sample(range(1, n + 1), 2)), fp=[rand_angle(rng)]))
                nrot += 2
        eps = rng.choice([1e-2, 1e-3] if quick else [1e-1, 1e-2, 1e-3, 1e-4, 1e-5])
        meth = "sk" if (not quick and eps >= 1e-1 and rng.random() < 0.5) else "gridsynth"
        out.append((n, c, eps, meth, {}))
    return out


CT_LABELS = {1: [[0], ["q"]], 2: [[0, 1], ["b", "a"], [2, 0]], 3: [[0, 1, 2], ["c", 0, "a"]]}


def build_op(name, params, wires):
    return getattr(qp, name)(*params, wires=wires)


def escalate_kw(kind, kw, method=None):
    if kind == "rs" or method == "gridsynth":
        return dict(kw, max_search_trials=400, max_factoring_trials=20000)
    return dict(kw, max_depth=kw.get("max_depth", 5) + 1)


def encode_word(ops, wpos):
    """-> (structural records, CTWordEval gate records of the non-phase part (None: a gate outside the alphabet),
           CircuitEq gate records (None: not encodable), summed returned global phase)"""
    st, nw, gates, phase = [], [], [], 0.0
    for op in ops:
        w = [wpos.get(x, 0) for x in op.wires]
        st.append({"g": op.name, "w": w})
        if op.name == "GlobalPhase":
            phase += float(np.real(qp.math.unwrap([op.data[0]])[0]))
            continue
        nw.append((op.name, w))
        if gates is not None:
            try:
                gates.append(encode_op(op, wpos, M))
            except (OffLattice, KeyError, AttributeError):
                gates = None
    word = ctword.word_record(nw)
    if word is not None and any(not g["w"] or min(g["w"]) < 1 for g in word):
        word = None
    return st, word, gates, phase


SHORT = 22          # words with at most this many Hadamard (+2 per SX) gates fit CMat's 32-bit ring arithmetic: cross-checked with CircuitEq


def run(tier, seed):
    quick = tier == "quick"
    t0 = time.time()
    timing = {}
    calls = gen_calls(tier, seed)
    recs = []                   # one per call: everything needed later
    for c in calls:
        wpos = {c["label"]: 1}
        op = build_op(c["op"], c["p"], [c["label"]])
        fn = qp.ops.rs_decomposition if c["kind"] == "rs" else qp.ops.sk_decomposition
        r = {"c": c, "n": 1, "wpos": wpos, "err": "", "ops": [], "target": target_matrix(c["op"], c["p"]), "desc":
             f"{c['kind']}_decomposition({c['op']}({', '.join(repr(x) for x in c['p'])}, wires={c['label']!r}), epsilon={c['eps']}"
             + "".join(f", {k}={v!r}" for k, v in c["kw"].items()) + ")"}
        try:
            with qp.queuing.QueuingManager.stop_recording():
                r["ops"] = list(fn(op, c["eps"], **c["kw"]))
        except Exception as e:       # noqa: BLE001
            r["err"], r["msg"] = type(e).__name__, str(e)[:200]
        recs.append(r)
    circuits = gen_circuits(tier, seed)
    for ci, (n, circ, eps, meth, kw) in enumerate(circuits):
        labels = CT_LABELS[n][ci % len(CT_LABELS[n])]
        wpos = {l: i + 1 for i, l in enumerate(labels)}
        ops_in = [build_op(g["g"], g["fp"], [labels[i - 1] for i in g["w"]]) for g in circ]
        tape = qp.tape.QuantumScript(ops_in, [qp.state()])
        c = {"kind": "ct", "op": "circuit", "p": [], "k": None, "eps": eps, "label": labels, "kw": kw, "method": meth, "circ": circ}
        r = {"c": c, "n": n, "wpos": wpos, "err": "", "ops": [], "target": bridge.circuit_unitary(circ, n),
             "desc": f"clifford_t_decomposition([{', '.join(repr(o) for o in ops_in)}], epsilon={eps}, method={meth!r})", "tape": tape}
        try:
            with qp.queuing.QueuingManager.stop_recording():
                (res,), _ = qp.clifford_t_decomposition(tape, epsilon=eps, method=meth, **kw)
            r["ops"] = list(res.operations)
        except Exception as e:       # noqa: BLE001
            r["err"], r["msg"] = type(e).__name__, str(e)[:200]
        recs.append(r)
    timing["pennylane_calls_s"] = round(time.time() - t0, 1)
    t0 = time.time()
    # ---- TLC 1 (CTWordEval): exact matrices of ALL returned words, exactness at multiples of pi/4
    words, wowner = [], []       # wowner[j] = (record index, "real" | "neg")
    for i, r in enumerate(recs):
        r["st"], r["word"], r["gates"], r["phase"] = encode_word(r["ops"], r["wpos"])
        if r["err"] or r["word"] is None:
            continue
        k = r["c"]["k"]
        words.append({"n": r["n"], "gates": r["word"], "tk": -1 if k is None else k % 8})
        wowner.append((i, "real"))
    # negative controls through the whole pipeline: one extra T gate appended to an accepted word
    negs = []
    for i, r in enumerate(recs):
        if r["err"] or r["word"] is None or len(negs) >= (8 if quick else 30) or i % 7:
            continue
        k = r["c"]["k"]
        words.append({"n": r["n"], "gates": r["word"] + [{"g": "T", "adj": 0, "w": [1]}], "tk": -1 if k is None else k % 8})
        wowner.append((i, "neg"))
        negs.append(i)
    wres, wst = ctword.evaluate(PID, words, name="words")
    timing["tlc_words_s"] = round(time.time() - t0, 1)
    t0 = time.time()
    W, exact, negW, negexact, Wres = {}, {}, {}, {}, {}
    for (i, what), res_ in zip(wowner, wres):
        if what == "real":
            W[i], Wres[i] = res_["W"], res_
            if res_["eq"] != "n/a":
                exact[i] = res_["eq"]
        else:
            negW[i] = res_["W"]
            if res_["eq"] != "n/a":
                negexact[i] = res_["eq"]
    # ---- TLC 2 (CircuitEq, reference table Gates.tla, ring level 3): every short word is recomputed and must give the same exact matrix;
    #      T^k ~ word decided with rel "phase" must agree with CTWordEval's answer
    cases, cowner = [], []
    for i, r in enumerate(recs):
        if i not in W or r["gates"] is None:
            continue
        kk = sum(1 if g["g"] == "Hadamard" else 2 if g["g"] == "SX" else 0 for g in r["word"])
        if kk > SHORT or (quick and r["c"]["k"] is None and i % 2):
            continue
        cases.append({"n": r["n"], "a": r["gates"], "bs": [{"b": [], "rel": "emit"}]})
        cowner.append((i, "emit"))
        if r["c"]["k"] is not None:
            cases.append({"n": 1, "a": [rec("T", [1]) for _ in range(r["c"]["k"] % 8)], "bs": [{"b": r["gates"], "rel": "phase"}]})
            cowner.append((i, "exact"))
    verd, emitted, st = rel.validate(PID, cases, M, name="xcheck")
    n_cross = 0
    for pos, (i, what) in enumerate(cowner):
        if what == "emit":
            n_cross += 1
            if not ctword.compare_with_ring(Wres[i], emitted[pos]):
                raise lib.MachineryError(f"CTWordEval and CircuitEq disagree on the exact matrix of the word returned by {recs[i]['desc']}")
        else:
            v = verd[(pos, 0)]
            if v == "overflow":
                raise lib.MachineryError("ring overflow in CircuitEq")
            if ("yes" if v == "ok" else "no") != exact[i]:
                raise lib.MachineryError(f"CTWordEval and CircuitEq disagree on exactness for {recs[i]['desc']}")
    timing["tlc_crosscheck_s"] = round(time.time() - t0, 1)
    t0 = time.time()
    # ---- float facts
    traces, tmeta = [], []
    n_escal = 0
    for i, r in enumerate(recs):
        c = r["c"]
        tr = {"kind": c["kind"], "n": r["n"], "tw": list(range(1, r["n"] + 1)), "err": r["err"], "out": r["st"], "exact": exact.get(i, "n/a"),
              "within": 0, "within2": -1}
        if i in W:
            Wt = np.exp(-1j * r["phase"]) * W[i]
            r["d_min"], r["d_ret"] = dist_phase(r["target"], W[i]), dist_plain(r["target"], Wt)
            tr["within"] = int(r["d_min"] <= slack(c["eps"]))
            if not tr["within"] and tr["exact"] != "yes":
                # documented escape: the search budget may be exhausted; a sufficient budget must reach epsilon
                n_escal += 1
                try:
                    with qp.queuing.QueuingManager.stop_recording():
                        if c["kind"] == "ct":
                            (res,), _ = qp.clifford_t_decomposition(r["tape"], epsilon=c["eps"], method=c["method"], **escalate_kw("ct", c["kw"], c["method"]))
                            ops2 = list(res.operations)
                        else:
                            fn = qp.ops.rs_decomposition if c["kind"] == "rs" else qp.ops.sk_decomposition
                            ops2 = list(fn(build_op(c["op"], c["p"], [c["label"]]), c["eps"], **escalate_kw(c["kind"], c["kw"])))
                    r["d_min2"] = dist_phase(r["target"], float_word(ops2, r["wpos"], r["n"]))
                    tr["within2"] = int(r["d_min2"] <= slack(c["eps"]))
                except Exception as e:   # noqa: BLE001
                    r["d_min2"], tr["within2"] = f"raised {type(e).__name__}", 0
        traces.append(tr)
        tmeta.append(("real", i))
    n_real = len(traces)
    for i in negs:                 # corrupted words: must end as not-within-epsilon
        r = recs[i]
        d = dist_phase(r["target"], negW[i])
        traces.append({"kind": r["c"]["kind"], "n": r["n"], "tw": list(range(1, r["n"] + 1)), "err": "", "out": r["st"],
                       "exact": negexact.get(i, "n/a"), "within": int(d <= slack(r["c"]["eps"])), "within2": -1})
        tmeta.append(("neg:not-within-epsilon", i))
    # structural negative controls
    base = next(t for t in traces[:n_real] if t["kind"] == "rs" and not t["err"] and len(t["out"]) >= 4)
    o = base["out"]
    for bad, expect in (([dict(o[0], g="RZ")] + o[1:], "not-clifford-t"), ([o[-1]] + o[:-1], "global-phase-not-last"), (o[:-1], "global-phase-not-last"),
                        ([dict(o[0], w=[0])] + o[1:], "wrong-wire"), ([{"g": "CNOT", "w": [1, 1]}] + o, "wrong-wire"),
                        ([dict(o[0], g="Adjoint(RX)")] + o[1:], "not-clifford-t")):
        traces.append(dict(base, out=bad))
        tmeta.append(("neg:" + expect, None))
    wd = lib.workdir(PID, "traces")
    (wd / "traces.json").write_text(json.dumps(traces))
    res = lib.run_tlc("Trace_CliffordT", lib.cfg(constants={"NTRACES": len(traces)}), wd, env={"TRACE_FILE": str(wd / "traces.json")})
    lib.require_ok(res, "Trace_CliffordT")
    verdicts = {t[1] - 1: t[2] for t in res.tuples if t[0] == "V"}
    if len(verdicts) != len(traces):
        raise lib.MachineryError(f"Trace_CliffordT verdicts are not total: {len(verdicts)} of {len(traces)}")
    timing["tlc_contract_s"] = round(time.time() - t0, 1)
    # ---- verdicts
    viol, samples = [], []
    nneg = 0
    stat = {"exact_by_tlc": 0, "inexact_but_within_at_multiple_of_pi/4": 0, "budget_exhausted_documented": 0, "returned_phase_off": 0,
            "by_kind_eps": {}, "max_ratio_dist_over_eps": 0.0, "t_count_max": 0, "word_length_max": 0}
    nontrivial = set()
    for j, (what, i) in enumerate(tmeta):
        v = verdicts[j]
        if what.startswith("neg:"):
            if v != what[4:]:
                raise lib.MachineryError(f"negative control expected {what[4:]}, TLC said {v}" + (f" on corrupted {recs[i]['desc']}" if i is not None else ""))
            nneg += 1
            continue
        r, c = recs[i], recs[i]["c"]
        tag = f"{c['kind']}{':' + c['method'] if c['kind'] == 'ct' else ':' + c['op']}"
        rep = {"call": r["desc"], "returned": [repr(o) for o in r["ops"]][:60], "n_returned": len(r["ops"]), "dist_up_to_phase": r.get("d_min"),
               "dist_with_returned_phase": r.get("d_ret"), "dist_with_larger_budget": r.get("d_min2"), "epsilon": c["eps"]}
        ke = f"{c['kind']}@{c['eps']:g}"
        stat["by_kind_eps"][ke] = stat["by_kind_eps"].get(ke, 0) + 1
        if r["word"] is None and not r["err"] and v not in ("not-clifford-t", "wrong-wire"):
            raise lib.MachineryError(f"word not evaluable but accepted by the contract: {r['desc']}: {[o.name for o in r['ops']][:20]}")
        if v == "raises":
            viol.append(Violation(key=f"{tag}:raises:{r['err']}", detail=f"{r['desc']} raised {r['err']}: {r.get('msg', '')}", replay=rep))
            continue
        if v == "not-within-epsilon":
            viol.append(Violation(key=f"{tag}:eps={c['eps']:g}:not-within-epsilon",
                                  detail=f"{r['desc']}: distance up to a global phase between the exact matrix of the returned word (TLC) and the target is "
                                         f"{r.get('d_min'):.3e} > epsilon, and {r.get('d_min2')} with a much larger search budget "
                                         f"({len(r['ops'])} gates returned)", replay=rep))
            continue
        if v not in ("ok", "ok:budget-exhausted"):
            viol.append(Violation(key=f"{tag}:{v}", detail=f"{r['desc']} returned {[o.name for o in r['ops']][:30]}...: TLC verdict {v}", replay=rep))
            continue
        if v == "ok:budget-exhausted":
            stat["budget_exhausted_documented"] += 1
        tcount = sum(1 for o in r["ops"] if o.name in ("T", "Adjoint(T)"))
        stat["t_count_max"] = max(stat["t_count_max"], tcount)
        stat["word_length_max"] = max(stat["word_length_max"], len(r["ops"]))
        if tcount:
            nontrivial.add(r["desc"])
        if traces[j]["exact"] == "yes":
            stat["exact_by_tlc"] += 1
        elif traces[j]["exact"] == "no":
            stat["inexact_but_within_at_multiple_of_pi/4"] += 1
        if v == "ok" and traces[j]["exact"] != "yes" and c["eps"] >= 1e-7:      # (below 1e-7 the float64 slack term dominates)
            stat["max_ratio_dist_over_eps"] = max(stat["max_ratio_dist_over_eps"], round(r["d_min"] / c["eps"], 6))
        if r.get("d_ret") is not None and r["d_ret"] > slack(c["eps"]) + 1e-9 and v == "ok":
            stat["returned_phase_off"] += 1
        if len(samples) < 5 and tcount >= 2 and ke not in {s["case"] for s in samples}:
            samples.append({"case": ke, "call": r["desc"][:200], "gates_returned": len(r["ops"]), "t_count": tcount, "dist_up_to_phase": r["d_min"],
                            "dist_with_returned_phase": r["d_ret"], "exact": traces[j]["exact"], "verdict": v})
    if nneg < 8:
        raise lib.MachineryError(f"only {nneg} negative controls")
    if not stat["exact_by_tlc"] or len(nontrivial) < 20:
        raise lib.MachineryError(f"vacuity: exact={stat['exact_by_tlc']} nontrivial={len(nontrivial)}")
    cov = {"states": st["distinct"] + res.distinct + wst["distinct"], "transitions": st["generated"] + res.generated + wst["generated"], "traces_validated_against_impl": n_real,
           "evaluations": n_real + n_escal, "distinct_nontrivial": len(nontrivial),
           "rule": "calls of rs_decomposition / sk_decomposition / clifford_t_decomposition over the angle grid x epsilons and seeded circuits; "
                   "non-trivial = the returned word contains at least one T gate",
           "samples": samples, "exhaustive": False, "calls": {k: sum(1 for r in recs if r["c"]["kind"] == k) for k in ("rs", "sk", "ct")},
           "negative_controls_rejected": nneg, "escalated_calls": n_escal,
           "words_evaluated_exactly(CTWordEval)": len(words), "words_crosschecked_with_CircuitEq": n_cross, "rns_primes_max": wst["max_primes"], "ring_level_M": M, "timing": timing, **stat,
           "model_drift": stat["inexact_but_within_at_multiple_of_pi/4"] + stat["returned_phase_off"]}
    return CheckResult(coverage=cov, violations=viol, assumptions=[
        "partial: the inequality dist(W, target) <= epsilon is a float comparison between TLC's exact matrix W of the returned word and the float-bridge "
        "target; slack eps*1e-6 + 4e-16/eps for the float64 rounding of the implementations' own cos >= 1 - eps^2/2 test",
        "an output outside epsilon is admitted only as the documented budget exhaustion (a larger max_search_trials / max_depth reaches epsilon)",
        "exactness at multiples of pi/4 and the returned global phase are reported as drift, the statement demands epsilon up to a global phase",
        "qp.gridsynth is a Catalyst compiler pass (no Python implementation to call here): not covered",
        "epsilon range: quick 1e-1..1e-4, thorough 1e-1..1e-8 (the range named by the property)"])
