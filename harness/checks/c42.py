"""C42 Program capture round-trips quantum functions.

(M) the program AST, Python control-flow semantics and queuing model of C41 / C43 (spec/ir/QProg.tla, spec/sys/Queuing.tla,
    spec/gen/QProgGen.tla) are reused unchanged; spec/gen/QCapGen.tla emits, for EVERY program of the grammar (gates, wrappers
    adjoint / ctrl / pow / s_prod / prod / sum, measurements, for / while / cond, cond on a mid-circuit measurement,
    qp.adjoint(fn) / qp.ctrl(fn)) up to the size bound plus exhaustive loop-bound / predicate families and seeded random deeper
    programs, the expected recording: all objects, the final tape (operators, measurements, or the documented error) and the
    values returned by top-level loops.  TLC checks the Queuing invariants and RangeLaw in every reachable state.
(C) REPLAY: harness/qcap.py builds each program ONCE as a quantum function whose wires / angles / loop bounds / predicates
    are computed with arithmetic that works on tracers, then
      (a) records it in tape mode (make_qscript), (b) captures it (qp.capture.make_plxpr or jax.make_jaxpr; static and
      dynamic bounds / predicates / parameters; single-gate statements optionally through qp.capture.subroutine) and converts
      back with qp.tape.plxpr_to_tape, (c) writes it as Python SOURCE with native for / while / if, runs that in tape mode
      and captures it with make_plxpr(autograph=True),
    and compares both, operator by operator (names, wires, parameters, wrapper structure, order; measurements; returned loop
    values via CollectOpsandMeas), with the recording TLC expects.
    REL: for the one transform that has a plxpr implementation in this tree (decompose: DecomposeInterpreter /
    decompose_plxpr_to_plxpr) the output of the tape path and of the capture path are both validated against the input program
    by spec/trace/CircuitEq.tla (equal up to a global phase, exact ring arithmetic; off-lattice outputs via the bridge)."""
import collections
import copy
import itertools
import json
import math
import random
import re

import numpy as np

import pennylane as qp

from .. import bridge, decomp, lib, qcap, qprog, rel
from ..codec import OffLattice, encode_op, wire_positions
from ..lib import CheckResult, MachineryError, Violation
from ..qprog import N

KINDS = ["G", "U", "P", "do", "meas", "for", "while", "cond", "mcond", "adjfn", "ctrlfn"]
X0, Y0 = 0.3, 0.25            # run-time values of the dynamic parameters (structural replay)
XR, YR = math.pi, math.pi / 2  # ... for the transform part: every leaf angle is a multiple of pi/2
MREL = 5


def families(B, S):
    G = N("G")
    U = lambda e: N("U", [], [[e]])
    P = lambda a, b: N("P", [], [[a], [b]])
    do = lambda e: N("do", [], [[e]])
    body = [do(G)]
    out = []
    for lo, hi, st, carry in itertools.product(range(-B, B + 1), range(-B, B + 1), [s for s in range(-S, S + 1) if s], (0, 1)):
        out.append([N("for", [lo, hi, st, carry], [body])])
    for x0, k, d in itertools.product(range(-1, 3), range(-1, 4), (1, 2)):
        out.append([N("while", [x0, k, d], [body])])
    for n in (1, 2, 3):
        for ps in itertools.product((0, 1), repeat=n):
            for el in (0, 1):
                out.append([N("cond", ps, [[do(G)] for _ in range(n + el)])])
    for n in (1, 2):
        for ps in itertools.product((0, 1, 2, 3), repeat=n):
            for el in (0, 1):
                out.append([N("for", [-1, 3, 1, 0], [[N("cond", ps, [[do(G)] for _ in range(n + el)])]])])
    out += [
        [N("for", [0, 2, 1, 0], [[N("for", [2, 0, -1, 1], [[do(G), do(U(G))]])]]), N("meas", [], [[G]])],
        [N("for", [3, -2, -2, 1], [[N("while", [0, 2, 1], [[do(G)]]), do(U(U(G)))]])],
        [N("while", [0, 3, 1], [[N("cond", [2, 3], [[do(G)], [do(U(G))], [do(P(G, G))]])]]), N("meas")],
        [N("cond", [0, 1, 1], [[do(G)], [N("for", [0, 2, 1, 0], [[do(G)]])], [do(G)], [do(G)]])],
        [N("for", [0, 3, 1, 1], [[N("cond", [2], [[do(U(G))], [do(G)]])]]), N("meas", [], [[U(G)]])],
        [N("for", [0, 2, 1, 0], [[N("mcond", [], [[do(G), do(U(G))], [do(G)]])]])],
        [N("mcond", [], [[N("for", [0, 2, 1, 0], [[do(G)]]), N("cond", [0], [[do(G)], [do(U(G))]])]])],
        [N("mcond", [], [[do(G)], [do(G), do(G)]]), N("mcond", [], [[do(U(G))]]), N("meas")],
        [N("adjfn", [], [[do(G), N("for", [0, 3, 1, 0], [[do(U(G))]]), do(P(G, U(G)))]])],
        [N("ctrlfn", [], [[do(G), N("adjfn", [], [[do(G), do(U(G))]]), N("cond", [1], [[do(G)]])]]), do(G)],
        [N("for", [0, 2, 1, 0], [[N("adjfn", [], [[do(G), do(G)]]), N("ctrlfn", [], [[do(U(G))]])]])],
        [N("while", [0, 2, 1], [[N("for", [0, 2, 1, 1], [[N("ctrlfn", [], [[N("cond", [2], [[do(G)], [do(U(G))]])]])]])]])],
        [N("adjfn", [], [[N("adjfn", [], [[do(G), do(U(G))]]), N("ctrlfn", [], [[N("ctrlfn", [], [[do(G)]])]])]])],
        [do(U(U(U(G)))), do(P(P(G, G), U(G))), do(U(P(G, U(G)))), N("meas", [], [[P(G, G)]]), N("meas", [], [[U(G)]])],
    ]
    return out


def random_programs(rng, n, depth, budget):
    kinds = [k for k in KINDS if k != "meas"]
    out = []
    for _ in range(n):
        p = qprog.rand_prog(rng, kinds, depth, rng.randint(3, budget))
        for _ in range(rng.choice((0, 0, 1, 2))):               # measurements at the end (an operator after one is an error)
            p.append(N("meas", [], [[qprog.rand_expr(rng, kinds, 1)]]) if rng.random() < 0.7 else N("meas"))
        out.append(p)
    return out


# ---------------------------------------------------------------------- the two ways of building a program
def tape_mode(prog, flav, x, y, sub=False):
    b = qcap.Builder(prog, flav, dyn=False, sub=sub)
    t = qp.tape.make_qscript(b.qfunc)(x, y, 0)
    return t, [int(v) for v in b.rets]


def capture_mode(prog, flav, x, y, dyn, how, sub=False, want_rets=False, wrap=None):
    """-> (tape from plxpr_to_tape, returned loop values | None).  wrap: a function transformer applied under capture."""
    import jax

    from pennylane.tape.plxpr_conversion import CollectOpsandMeas
    b = qcap.Builder(prog, flav, dyn=dyn, sub=sub)
    qp.capture.enable()
    try:
        f = wrap(b.qfunc) if wrap else b.qfunc
        pl = qp.capture.make_plxpr(f, autograph=False)(x, y, 0) if how == "make_plxpr" else jax.make_jaxpr(f)(x, y, 0)
        t = qp.tape.plxpr_to_tape(pl.jaxpr, pl.consts, x, y, 0)
        rets = None
        if want_rets:
            c = CollectOpsandMeas()
            rets = [int(v) for v in c.eval(pl.jaxpr, pl.consts, x, y, 0)]
        return t, rets, pl
    finally:
        qp.capture.disable()


def autograph_mode(fn, x, y, want_rets=False):
    from pennylane.tape.plxpr_conversion import CollectOpsandMeas
    qp.capture.enable()
    try:
        pl = qp.capture.make_plxpr(fn, autograph=True)(x, y, 0)
        t = qp.tape.plxpr_to_tape(pl.jaxpr, pl.consts, x, y, 0)
        rets = [int(v) for v in CollectOpsandMeas().eval(pl.jaxpr, pl.consts, x, y, 0)] if want_rets else None
        return t, rets
    finally:
        qp.capture.disable()


def run(tier, seed):
    rng = random.Random(seed)
    quick = tier == "quick"
    B, S = (2, 2) if quick else (3, 3)
    nrand, depth, budget = (400, 3, 9) if quick else (2000, 4, 14)
    extras = families(B, S)
    nfam = len(extras)
    extras += random_programs(rng, nrand, depth, budget)
    seenp, ex = set(), []
    for p in extras:
        k = json.dumps(p, sort_keys=True)
        if k not in seenp:
            seenp.add(k)
            ex.append(p)
    import time
    phase, t0 = {}, time.time()
    wd = lib.workdir("C42", "gen")
    (wd / "extra.json").write_text(json.dumps(ex))
    kinds = "{" + ",".join(f'"{k}"' for k in KINDS) + "}"
    consts = {"MaxSize": 3 if quick else 4, "MaxDepth": 2, "NFlav": 2, "RangeB": B + 1, "MaxRef": 1, "UseExtra": "TRUE"}
    g = lib.run_tlc_mc("QCapGen", {"Kinds": kinds, "ForSpecs": "{<<0,2,1,0>>, <<1,-1,-1,1>>}", "WhileSpecs": "{<<0,2,1>>}",
                                   "CondPreds": "{<<2>>, <<0,3>>}"}, wd, constants=consts, init="InitLaw",
                       invariants=qprog.INVARIANTS, properties=["InnermostOnly"], constraints=["EmitCap"], timeout=3300,
                       env={"EXTRA_FILE": str(wd / "extra.json")})
    if g.invariant_violated:
        raise MachineryError(f"the queuing MODEL violates {g.invariant_violated} (specification error)\n" + g.out[-2500:])
    lib.require_ok(g, "QCapGen")
    phase["tlc_generate_s"], t0 = round(time.time() - t0, 1), time.time()
    groups = collections.OrderedDict()
    for line in g.json_lines:
        groups.setdefault((json.dumps(line["prog"], sort_keys=True), line["flav"]), []).append(line)
    groups = collections.OrderedDict(sorted(groups.items()))          # TLC prints in worker order: fix the order for the seed
    if len(groups) < 300:
        raise MachineryError(f"generator produced only {len(groups)} programs")

    viol, nkey = [], collections.Counter()
    st = collections.Counter()
    feats = collections.Counter()
    nontriv, samples, good = set(), [], []

    def report(clause, detail, rep):
        key = f"C42:{clause}"
        nkey[key] += 1
        if nkey[key] <= 3:
            viol.append(Violation(key=key, detail=detail + f" | program {json.dumps(rep['prog'])} flavour {rep['flav']}", replay=rep))

    def match(desc, exps):
        d = [qcap.first_diff(desc, e) for e in exps]
        return None if any(x is None for x in d) else d[0]

    # every (other) program also as a source file with native control flow, for autograph
    items = [(idx, vs) for idx, (_, vs) in enumerate(groups.items()) if not vs[0]["tape"]["err"]]
    agset = {idx for n, (idx, vs) in enumerate(items) if n % (3 if quick else 5) == 0}
    srcmod = qcap.write_module(lib.workdir("C42", "src") / "c42_programs.py",
                               [(f"p{idx}", vs[0]["prog"], vs[0]["flav"], idx % 2 == 1) for idx, vs in items if idx in agset])
    for idx, ((pj, flav), vs) in enumerate(groups.items()):
        prog = vs[0]["prog"]
        rep = {"prog": prog, "flav": flav}
        if vs[0]["tape"]["err"]:
            st["skipped_operator_after_measurement"] += 1
            continue
        exps = [qcap.expected_tape(v, X0, Y0) for v in vs]
        erets = [int(v) for v in vs[0]["rets"]]
        try:
            t1, r1 = tape_mode(prog, flav, X0, Y0)
            d1 = qcap.describe_tape(t1)
        except Exception as e:                       # pylint: disable=broad-except
            report(f"tape-mode:crash:{type(e).__name__}", f"{type(e).__name__}: {e}", rep)
            continue
        df = match(d1, exps)
        if df is None and r1 != erets:
            df = ("returned-values", f"loops returned {r1}, expected {erets}")
        if df:
            report(f"tape-mode:{df[0]}", "tape-mode recording differs from the expected recording: " + df[1], rep)
            continue
        st["tape_mode_ok"] += 1
        # capture flavours: static / dynamic bounds and predicates, the two capture entry points, subroutines
        flavs = [(False, "make_plxpr", False), (True, "jax.make_jaxpr", False)]
        if idx % 3 == 0:
            flavs.append((idx % 2 == 0, "make_plxpr", True))
        if idx in agset:
            # the program as Python source with native for / while / if: run directly (tape mode) and through autograph
            try:
                fn = getattr(srcmod, f"p{idx}")
                t3 = qp.tape.make_qscript(fn)(X0, Y0, 0)
                df = match(qcap.describe_tape(t3), exps)
            except Exception as e:                   # pylint: disable=broad-except
                df = (f"crash:{type(e).__name__}", f"{type(e).__name__}: {e}")
            if df:
                report(f"python-source:{df[0]}", "the program written with native Python control flow, run in tape mode, differs from the expected "
                       "recording: " + df[1], dict(rep, source=qcap.source(prog, flav, idx % 2 == 1, f"p{idx}")))
                continue
            flavs.append((idx % 2 == 1, "autograph", False))
        ok = True
        for dyn, how, sub in flavs:
            try:
                if how == "autograph":
                    t2, r2 = autograph_mode(getattr(srcmod, f"p{idx}"), X0, Y0, want_rets=bool(erets))
                else:
                    t2, r2, _ = capture_mode(prog, flav, X0, Y0, dyn, how, sub=sub, want_rets=bool(erets))
            except Exception as e:                   # pylint: disable=broad-except
                inner = re.findall(r"^\s+(\w+(?:Error|Exception)):", str(e), re.M)      # the innermost wrapped exception
                report(f"capture:crash:{type(e).__name__}" + (f":{inner[-1]}" if inner else ""),
                       f"capture ({how}, dynamic={dyn}, subroutines={sub}) raised {type(e).__name__}: {str(e)[:300]}",
                       dict(rep, dyn=dyn, how=how, sub=sub))
                ok = False
                continue
            d2 = qcap.describe_tape(t2)
            st["captures"] += 1
            st[f"capture_{how}"] += 1
            st["capture_dynamic" if dyn else "capture_static"] += 1
            st["capture_subroutine_calls"] += sum(1 for o in t2.operations if "CollectedSubroutine" in repr(o)) if sub else 0
            df = match(d2, exps)
            if df is None and erets and r2 != erets:
                df = ("returned-values", f"loops returned {r2}, expected {erets}")
            if df:
                ok = False
                report(f"capture:{df[0]}", f"plxpr_to_tape(capture ({how}, dynamic={dyn}, subroutines={sub})) differs from the expected recording "
                       f"(= the tape-mode recording): {df[1]}", dict(rep, dyn=dyn, how=how, sub=sub))
        if not ok:
            continue
        good.append((prog, flav, vs[0], exps[0]))
        f = qcap.features(prog)
        for k in f:
            feats[k] += 1
        st["ops_compared"] += len(exps[0]["ops"]) * (len(flavs) + 1)
        st["measurements_compared"] += len(exps[0]["meas"]) * (len(flavs) + 1)
        st["returned_values_compared"] += len(erets) * (len(flavs) + 1)
        if len(f & {"for", "while", "cond", "mcond", "adjfn", "ctrlfn"}) >= 1 and exps[0]["ops"]:
            nontriv.add((pj, flav))
            if len(samples) < 3 and len(f) >= 4 and len(pj) < 600:
                samples.append({"program": prog, "flavour": flav, "expected_tape": exps[0], "returned": erets})

    phase["replay_s"], t0 = round(time.time() - t0, 1), time.time()
    # ---------------------------------------------------------------- negative controls of the comparator
    neg_tot = neg_rej = 0
    for prog, flav, v, exp in good[:: max(1, len(good) // 30)]:
        if not exp["ops"]:
            continue
        bad = copy.deepcopy(exp)
        k = neg_tot % 3
        if k == 0 and len(bad["ops"]) >= 2 and not qcap.close(bad["ops"][0], bad["ops"][-1]):
            bad["ops"][0], bad["ops"][-1] = bad["ops"][-1], bad["ops"][0]          # order
        elif k == 1:
            bad["ops"].pop()                                                         # an operator lost
        else:
            leaf = bad["ops"][0]
            while leaf["k"] != "g" and leaf.get("a"):
                leaf = leaf["a"][0]
            if leaf["k"] == "g":
                leaf["w"][0] = (leaf["w"][0] + 1) % qcap.NW                        # a wire off by one
            else:
                bad["ops"].pop(0)
        t2, _, _ = capture_mode(prog, flav, X0, Y0, True, "make_plxpr")
        neg_tot += 1
        neg_rej += qcap.first_diff(qcap.describe_tape(t2), bad) is not None
    if not viol and (neg_tot < 10 or neg_rej != neg_tot):
        raise MachineryError(f"replay negative controls rejected {neg_rej}/{neg_tot}")

    # ---------------------------------------------------------------- transform through its plxpr implementation (decompose)
    relcov = transform_part(tier, rng, good, report)
    phase["transform_rel_s"] = round(time.time() - t0, 1)
    if not viol:
        missing = [f for f in ("for", "while", "cond", "mcond", "adjfn", "ctrlfn", "meas", "U", "P") if feats[f] < 10]
        if missing or st["returned_values_compared"] < 50 or st["capture_subroutine_calls"] < 10 or relcov["rel_outputs_exact"] < 20:
            raise MachineryError(f"vacuous: missing {missing}; {dict(st)}; {relcov}")
    cov = {"states": g.distinct + relcov.pop("states"), "transitions": g.generated + relcov.pop("transitions"),
           "traces_validated_against_impl": relcov["rel_cases"], "evaluations": st["captures"] + st["tape_mode_ok"],
           "distinct_nontrivial": len(nontriv),
           "rule": "distinct (program, flavour) pairs with at least one control-flow / function-transform construct and a non-empty tape whose "
                   "tape-mode recording and every capture round trip equal the recording expected by TLC",
           "samples": samples, "exhaustive": True,
           "model": {"module": "QCapGen (QProgGen: QProg + Queuing)", "invariants": qprog.INVARIANTS + ["[][InnermostOnlyStep]_qvars", "RangeLaw"],
                     "states": g.distinct, **consts},
           "bounds": {"exhaustive_max_nodes": consts["MaxSize"], "nesting": 2, "flavours": consts["NFlav"], "loop_bound_box": B, "max_abs_step": S,
                      "family_programs": nfam, "random_programs": nrand, "random_depth": depth},
           "phase_wall_s": phase, "programs": len(groups), "behaviours_emitted": len(g.json_lines), "features": dict(feats), "violating_programs_by_clause": dict(nkey),
           "negative_controls": neg_tot + relcov["rel_negative_controls"], "negative_controls_rejected": neg_rej + relcov["rel_negative_controls_rejected"],
           **dict(st), **relcov}
    return CheckResult(coverage=cov, violations=viol, assumptions=[
        "a program whose tape-mode build raises the documented 'operator after measurement' error is skipped (nothing to compare with)",
        "equality of circuits is structural (operator names, wires, parameters at 1e-6, wrapper nesting, order, measurements), which implies equal "
        "results; nested controls are compared as one multi-controlled operator, a single-operator CollectedSubroutine as its operator",
        "wires and loop values are integers (capture requires numeric wires); run-time arguments x, y are floats, k = 0 shifts bounds/predicates",
        "transform clause: only decompose has a plxpr implementation in this tree (DecomposeInterpreter, decompose_plxpr_to_plxpr); a function wrapped "
        "by qp.transforms.<t>(qfunc) is captured as an opaque 'transform' primitive that only Catalyst applies - not part of the statement",
        "autograph: the program is also generated as Python source with native for / while / if (qp.cond only for measurement values); a loop "
        "variable read by a function defined inside the loop body is initialised before the loop (autograph otherwise refuses the function with "
        "AutoGraphError 'potentially uninitialized' - a restriction, not counted)"])


# ---------------------------------------------------------------------- decompose: capture path vs tape path (REL)
GATE_SETS = [("CNOT", "RX", "RY", "RZ", "GlobalPhase", "PhaseShift"), ("CNOT", "RZ", "RX", "GlobalPhase"),
             ("CNOT", "Hadamard", "RZ", "RY", "PhaseShift", "GlobalPhase", "T", "S")]


def unitary_only(prog):
    js = json.dumps(prog)
    return not any(f'"t": "{k}"' in js for k in ("meas", "mcond", "P"))


def transform_part(tier, rng, good, report):
    from pennylane.transforms.decompose import DecomposeInterpreter, decompose_plxpr_to_plxpr
    quick = tier == "quick"
    limit = 90 if quick else 400
    maxw = 5 if quick else 6
    cases, meta = [], []
    cnt = collections.Counter()
    cand = [(p, f, v) for p, f, v, e in good if unitary_only(p) and e["ops"] and not any(o["k"] == "sprod" for o in v["objs"])]
    rng.shuffle(cand)
    total_cost = 0
    for prog, flav, v in cand:
        if len(cases) >= limit or total_cost > (500000 if quick else 8000000):
            break
        gs = GATE_SETS[len(cases) % len(GATE_SETS)]
        kw = {"gate_set": set(gs)}
        if len(cases) % 5 == 4:
            kw["max_expansion"] = 1
        rep = {"prog": prog, "flav": flav, "gate_set": list(gs), "options": {k: x for k, x in kw.items() if k != "gate_set"}}
        try:
            t1, _ = tape_mode(prog, flav, XR, YR)
            if qcap.first_diff(qcap.describe_tape(t1), qcap.expected_tape(v, XR, YR)) is not None:
                cnt["skip_input_differs"] += 1
                continue
            wires = sorted({int(w) for w in t1.wires})
            if not t1.operations or len(wires) > maxw:
                cnt["skip_too_wide"] += 1
                continue
            wpos = wire_positions(wires)
            t1i = qp.tape.QuantumScript([o.map_wires({w: int(w) for w in o.wires}) for o in t1.operations])
            a = [encode_op(o, wpos, MREL) for o in t1i.operations]
        except (OffLattice, KeyError, AttributeError) as e:
            cnt[f"skip_input_{type(e).__name__}"] += 1
            continue
        outs = {}
        try:
            import warnings
            with warnings.catch_warnings():
                warnings.simplefilter("ignore")
                (o1,), _ = qp.transforms.decompose(t1i, **kw)
            outs["tape"] = list(o1.operations)
        except Exception as e:                       # pylint: disable=broad-except
            cnt[f"skip_tape_path_{type(e).__name__}"] += 1
            continue
        way = "interpreter" if len(cases) % 2 == 0 else "plxpr_to_plxpr"
        try:
            import warnings
            with warnings.catch_warnings():
                warnings.simplefilter("ignore")
                if way == "interpreter":
                    t2, _, _ = capture_mode(prog, flav, XR, YR, len(cases) % 4 < 2, "make_plxpr", wrap=DecomposeInterpreter(**kw))
                else:
                    _, _, pl = capture_mode(prog, flav, XR, YR, len(cases) % 4 < 2, "make_plxpr")
                    qp.capture.enable()
                    try:
                        pl2 = decompose_plxpr_to_plxpr(pl.jaxpr, pl.consts, (), tuple(kw.items()), XR, YR, 0)
                        t2 = qp.tape.plxpr_to_tape(pl2.jaxpr, pl2.consts, XR, YR, 0)
                    finally:
                        qp.capture.disable()
            outs["capture"] = [o.map_wires({w: int(w) for w in o.wires}) for o in t2.operations]
        except Exception as e:                       # pylint: disable=broad-except
            report(f"transform:capture-path-crash:{type(e).__name__}", f"decompose through {way} raised {type(e).__name__}: {str(e)[:300]} "
                   f"(the tape path succeeded)", rep)
            continue
        bs, flts = [], {}
        skip = False
        for name in ("tape", "capture"):
            try:
                recs, flt, info = decomp.flatten(outs[name], dict(wpos), MREL)
            except decomp.Skip as e:
                cnt["skip_" + "_".join(str(e).split(" ")[:2])] += 1
                skip = True
                break
            if info.get("dyn"):
                cnt["skip_work_wires"] += 1
                skip = True
                break
            if recs is not None:
                bs.append({"b": recs, "rel": "phase", "perm": [], "_n": name})
            else:
                flts[name] = flt
        if skip:
            continue
        cost = (sum(len(b["b"]) for b in bs) + len(a)) * (1 << (2 * len(wires)))
        if cost > (30000 if quick else 300000):
            cnt["skip_too_long_or_wide"] += 1
            continue
        total_cost += cost
        if flts:
            bs.append({"b": [], "rel": "emit", "perm": [], "_n": "emit"})
        names = [b.pop("_n") for b in bs]
        cases.append({"n": len(wires), "a": a, "cs": [], "bs": bs})
        meta.append((rep, names, flts, {k: [repr(o) for o in x][:40] for k, x in outs.items()}, way))
        cnt["changed"] += len(outs["tape"]) != len(t1.operations)
    # hand-written negative controls: a capture-path output with one gate dropped / one angle changed must be rejected
    nneg = 0
    for i, c in enumerate(cases):
        if nneg >= 8:
            break
        for b, nm in zip(c["bs"], meta[i][1]):
            if nm == "capture" and len(b["b"]) >= 3 and any(r["g"] in ("RX", "RY", "IsingXX") and r["p"] and r["p"][0] % 16 for r in b["b"]):
                badb = copy.deepcopy(b["b"])
                j = next(k for k, r in enumerate(badb) if r["g"] in ("RX", "RY", "IsingXX") and r["p"] and r["p"][0] % 16)
                if nneg % 2:
                    badb.pop(j)
                else:
                    badb[j]["p"][0] += 1
                cases.append({"n": c["n"], "a": c["a"], "cs": [], "bs": [{"b": badb, "rel": "phase", "perm": []}]})
                meta.append(None)
                nneg += 1
                break
    out = {"rel_cases": 0, "rel_outputs_exact": 0, "rel_outputs_bridged": 0, "rel_negative_controls": nneg, "rel_negative_controls_rejected": 0,
           "states": 0, "transitions": 0, "rel_skips": {}, "rel_by_way": {}}
    if cases:
        verd, emitted, s_ = rel.validate("C42", cases, MREL, name="rel")
        out["states"], out["transitions"] = s_["distinct"], s_["generated"]
        by_way = collections.Counter()
        for ti, m in enumerate(meta):
            if m is None:
                out["rel_negative_controls_rejected"] += verd[(ti, 0)] != "ok"
                continue
            rep, names, flts, outs, way = m
            out["rel_cases"] += 1
            by_way[way] += 1
            for si, nm in enumerate(names):
                if nm == "emit":
                    U = lib.ring_matrix_to_numpy(emitted[ti], MREL)
                    for fn, flt in flts.items():
                        try:
                            Uo = bridge.circuit_unitary(flt, cases[ti]["n"], MREL)
                        except (KeyError, ValueError):
                            cnt["skip_bridge"] += 1
                            continue
                        out["rel_outputs_bridged"] += 1
                        if not bridge.equal_up_to_phase(Uo, U, tol=1e-7):
                            report(f"transform:{fn}-path-changes-circuit(bridged)", f"decompose ({fn} path, {way}) output is not the input program up to "
                                   f"a global phase: {outs[fn]}", dict(rep, way=way))
                    continue
                clause = verd[(ti, si)]
                if clause == "overflow":
                    raise MachineryError("ring overflow in CircuitEq")
                out["rel_outputs_exact"] += 1
                if clause != "ok":
                    report(f"transform:{nm}-path-changes-circuit", f"decompose ({nm} path{', ' + way if nm == 'capture' else ''}) output is not the input "
                           f"program up to a global phase (TLC verdict {clause}): {outs[nm]}", dict(rep, way=way, a=cases[ti]["a"], b=cases[ti]["bs"][si]["b"]))
        out["rel_by_way"] = dict(by_way)
        if nneg == 0 or out["rel_negative_controls_rejected"] != nneg:
            raise MachineryError(f"REL negative controls rejected {out['rel_negative_controls_rejected']}/{nneg}")
    # observation (outside the statement, never a violation): a qfunc wrapped by a transform WITHOUT plxpr implementation is
    # captured as an opaque "transform" primitive; plxpr_to_tape evaluates it outside the collector
    try:
        probe = [N("do", [], [[N("G")]]), N("do", [], [[N("G")]])]
        t0, _ = tape_mode(probe, 0, XR, YR)
        t9, _, _ = capture_mode(probe, 0, XR, YR, False, "make_plxpr", wrap=qp.transforms.cancel_inverses)
        out["opaque_transform_primitive_probe"] = {"transform": "cancel_inverses", "tape_mode_ops": len(t0.operations),
                                                   "ops_after_capture_round_trip": len(t9.operations)}
    except Exception as e:                           # pylint: disable=broad-except
        out["opaque_transform_primitive_probe"] = {"error": f"{type(e).__name__}: {str(e)[:120]}"}
    out["rel_skips"] = {k: v for k, v in cnt.items() if k.startswith("skip")}
    out["rel_outputs_changed_by_decompose"] = cnt["changed"]
    return out


def replay(path, tier, seed):
    rep = json.loads(open(path).read())["replay"]
    prog, flav = rep["prog"], rep["flav"]
    viol = []
    t1, r1 = tape_mode(prog, flav, X0, Y0)
    d1 = qcap.describe_tape(t1)
    try:
        if rep.get("how") == "autograph":
            mod = qcap.write_module(lib.workdir("C42", "src") / "c42_replay_program.py", [("p0", prog, flav, bool(rep.get("dyn")))])
            t2, r2 = autograph_mode(mod.p0, X0, Y0, want_rets=True)
        else:
            t2, r2, _ = capture_mode(prog, flav, X0, Y0, rep.get("dyn", False), rep.get("how", "make_plxpr"), sub=rep.get("sub", False), want_rets=True)
        df = qcap.first_diff(qcap.describe_tape(t2), d1)
        if df is None and r1 != r2:
            df = ("returned-values", f"{r2} vs {r1}")
    except Exception as e:                           # pylint: disable=broad-except
        inner = re.findall(r"^\s+(\w+(?:Error|Exception)):", str(e), re.M)
        df = (f"crash:{type(e).__name__}" + (f":{inner[-1]}" if inner else ""), str(e)[:300])
    if df:
        viol.append(Violation(key=f"C42:capture:{df[0]}", detail="capture round trip vs tape mode: " + df[1], replay=rep))
    return CheckResult(coverage={"states": 0, "transitions": 0, "traces_validated_against_impl": 0, "evaluations": 2, "distinct_nontrivial": 0,
                                 "rule": "replay of one stored program (capture round trip vs tape mode)", "samples": [prog], "exhaustive": False},
                       violations=viol)
