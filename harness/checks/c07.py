"""C07 Operator class attribute claims are true.

TRACE + REPLAY.  The driver reads the LIVE attribute sets of pennylane.ops.qubit.attributes and logs one event
Claim(attr, name) per member.  Trace_Attributes.tla (over spec/ir/Attributes.tla: the DEFINING predicate of each
attribute on the reference gate table Gates.tla) enables the event iff the predicate holds, exactly in Z[zeta_16][1/2],
for every instance of the name: every lattice angle of a full 4*pi period, every variant (register size / Pauli word),
every PAIR of angles for composable_rotations.  The verdict is transferred to the code by the C02-style binding, re-run
here for the claimed names: TLC emits the exact matrix (and A = -i*generator) of every instance and the driver compares
PennyLane's qp.matrix / reversed-wire embedding / qp.generator with it.  supports_broadcasting is decided by REPLAY: the
batched matrix of the real operator must equal the stack of the TLC matrices (whole lattice + seeded random batch sizes).
Names without a table entry (and names whose binding fails) are evaluated numerically on PennyLane's own matrices and
counted separately as bridged."""
import itertools
import json
import math
import random

import numpy as np

import pennylane as qp
from pennylane.ops.qubit import attributes as ATTR

from .. import lib
from ..codec import ARITY, MULTI_PARAM, NO_PARAM, ONE_PARAM, PWI, decode_gate
from ..lib import CheckResult, Violation, angle_of, ring_matrix_to_numpy
from .c02 import _cmp

TOL = 1e-8
FUSE_TOL = 1e-6          # fuse_rot_angles is documented as numerically unstable at singular points
ATTRS = ["self_inverses", "symmetric_over_all_wires", "symmetric_over_control_wires", "diagonal_in_z_basis",
         "composable_rotations", "has_unitary_generator", "supports_broadcasting"]
# claims that are FALSE by the documentation; TLC must reject every one of them (negative controls)
FALSE_CLAIMS = [("self_inverses", "S"), ("self_inverses", "RX"), ("diagonal_in_z_basis", "RX"),
                ("symmetric_over_all_wires", "CNOT"), ("symmetric_over_control_wires", "CSWAP"),
                ("composable_rotations", "PSWAP"), ("has_unitary_generator", "PhaseShift"),
                ("composable_rotations", "Hadamard"), ("symmetric_over_all_wires", "CRZ")]


# ------------------------------------------------------------------------------------------------ numeric side
def _mat(op, wires):
    return np.asarray(qp.matrix(op, wire_order=list(wires)))


def _ru(rng, d):
    z = rng.normal(size=(d, d)) + 1j * rng.normal(size=(d, d))
    q, r = np.linalg.qr(z)
    return q * (np.diag(r) / np.abs(np.diag(r)))


def _rs(rng, d):
    z = rng.normal(size=d) + 1j * rng.normal(size=d)
    return z / np.linalg.norm(z)


BOUNDARY = [0.0, math.pi, 2 * math.pi, 4 * math.pi, -math.pi / 2, math.pi / 2, 1e-7]


def _angle(rng, k):
    """k-th draw of an angle: boundary values first, then uniform in [-2pi, 4pi]."""
    return np.array(BOUNDARY[k] if k < len(BOUNDARY) else rng.uniform(-2 * math.pi, 4 * math.pi))


def factories():
    """name -> list of instance factories {nw, draw(rng, k) -> tuple of parameter arrays, make(params, wires) -> op}."""
    F = {}

    def add(name, nw, draw, make):
        F.setdefault(name, []).append({"nw": nw, "draw": draw, "make": make})

    def angles(npar):
        return lambda rng, k: tuple(_angle(rng, k + 3 * i) for i in range(npar))

    for n in NO_PARAM:
        add(n, ARITY[n], angles(0), lambda p, w, c=getattr(qp, n): c(wires=w))
    add("SQISW", 2, angles(0), lambda p, w: qp.SQISW(wires=w))
    for n in (2, 3):
        add("Identity", n, angles(0), lambda p, w: qp.Identity(wires=w))
    for n in ONE_PARAM:
        if n in ("MultiRZ", "PauliRot", "GlobalPhase"):
            continue
        add(n, ARITY[n], angles(1), lambda p, w, c=getattr(qp, n): c(*p, wires=w))
    add("CPhase", 2, angles(1), lambda p, w: qp.CPhase(*p, wires=w))
    for n, k in MULTI_PARAM.items():
        add(n, ARITY[n], angles(k), lambda p, w, c=getattr(qp, n): c(*p, wires=w))
    for n in (1, 2, 3):
        add("MultiRZ", n, angles(1), lambda p, w: qp.MultiRZ(*p, wires=w))
    for word in ("X", "Z", "XY", "ZZ", "IZ", "YIX", "ZZZ"):
        add("PauliRot", len(word), angles(1), lambda p, w, word=word: qp.PauliRot(p[0], word, wires=w))
    add("GlobalPhase", 1, angles(1), lambda p, w: qp.GlobalPhase(*p, wires=w))
    add("OrbitalRotation", 4, angles(1), lambda p, w: qp.OrbitalRotation(*p, wires=w))
    for nw, dim in ((1, 1), (2, 1), (2, 2), (2, 3), (3, 5)):
        add("PCPhase", nw, angles(1), lambda p, w, dim=dim: qp.PCPhase(p[0], dim, wires=w))
    for nw in (1, 2):
        add("DiagonalQubitUnitary", nw, lambda rng, k, nw=nw: (np.exp(1j * rng.uniform(-4, 4, size=1 << nw)),),
            lambda p, w: qp.DiagonalQubitUnitary(p[0], wires=w))
        add("QubitUnitary", nw, lambda rng, k, nw=nw: (_ru(rng, 1 << nw),), lambda p, w: qp.QubitUnitary(p[0], wires=w))
        add("SpecialUnitary", nw, lambda rng, k, nw=nw: (rng.normal(size=4 ** nw - 1),),
            lambda p, w: qp.SpecialUnitary(p[0], wires=w))
        add("StatePrep", nw, lambda rng, k, nw=nw: (_rs(rng, 1 << nw),), lambda p, w: qp.StatePrep(p[0], wires=w))
        add("AmplitudeEmbedding", nw, lambda rng, k, nw=nw: (_rs(rng, 1 << nw),),
            lambda p, w: qp.AmplitudeEmbedding(p[0], wires=w))
        add("IQPEmbedding", nw, lambda rng, k, nw=nw: (rng.uniform(-3, 3, size=nw),), lambda p, w: qp.IQPEmbedding(p[0], wires=w))
    add("ControlledQubitUnitary", 2, lambda rng, k: (_ru(rng, 2),), lambda p, w: qp.ControlledQubitUnitary(p[0], wires=w))
    add("ControlledQubitUnitary", 3, lambda rng, k: (_ru(rng, 2),),
        lambda p, w: qp.ControlledQubitUnitary(p[0], wires=w, control_values=[0, 1]))
    for rot in ("X", "Y", "Z"):
        add("AngleEmbedding", 2, lambda rng, k: (rng.uniform(-3, 3, size=2),),
            lambda p, w, rot=rot: qp.AngleEmbedding(p[0], wires=w, rotation=rot))
    wq = np.random.default_rng(7).uniform(-2, 2, size=(2, 3))      # weights of a 2-wire QAOAEmbedding: (layers, 3)
    add("QAOAEmbedding", 2, lambda rng, k: (rng.uniform(-3, 3, size=2),), lambda p, w: qp.QAOAEmbedding(p[0], wq, wires=w))
    return F


def _listed_on(m, pi):
    """Matrix, in the register 0..n-1, of the gate with canonical matrix m whose k-th qubit is register wire pi[k]."""
    n = len(pi)
    inv = [pi.index(r) for r in range(n)]
    t = np.asarray(m).reshape([2] * (2 * n))
    return np.transpose(t, inv + [n + k for k in inv]).reshape(1 << n, 1 << n)


def _close(a, b, tol=TOL):
    a, b = np.asarray(a), np.asarray(b)
    return a.shape == b.shape and np.allclose(a, b, atol=tol, rtol=0)


def _fuse(a, b):
    from pennylane.transforms.optimization.optimization_utils import fuse_rot_angles
    return np.asarray(fuse_rot_angles(np.asarray(a, dtype=float), np.asarray(b, dtype=float)), dtype=float)


def numeric_claim(attr, fac, rng, reps):
    """Evaluate the defining predicate of `attr` on PennyLane's own matrices for one instance factory.
    -> (n_evaluations, None | failure description)."""
    nw, draw, make = fac["nw"], fac["draw"], fac["make"]
    w = list(range(nw))
    n = 0
    squeezed = None
    for k in range(reps):
        p = draw(rng, k)
        if attr == "self_inverses":
            m = _mat(make(p, w), w)
            n += 1
            if not _close(m @ m, np.eye(len(m))):
                return n, f"U.U != I at parameters {p}"
        elif attr in ("symmetric_over_all_wires", "symmetric_over_control_wires"):
            if attr == "symmetric_over_control_wires" and nw < 2:
                return n, "a controlled operation needs at least two wires"
            # the canonical matrix (no wire_order: Operator.matrix(wire_order) itself consults symmetric_over_all_wires and
            # skips the permutation for listed names) re-embedded on the permuted wire listing by an independent routine
            m = np.asarray(make(p, w).matrix())
            perms = itertools.permutations(w) if attr == "symmetric_over_all_wires" else \
                [list(pp) + [w[-1]] for pp in itertools.permutations(w[:-1])]
            for pi in perms:
                n += 1
                if not _close(_listed_on(m, list(pi)), m):
                    return n, f"matrix changes when the wires are listed as {list(pi)} (parameters {p})"
        elif attr == "diagonal_in_z_basis":
            m = _mat(make(p, w), w)
            n += 1
            if not _close(m, np.diag(np.diag(m))):
                return n, f"matrix has non-zero off-diagonal entries at parameters {p}"
        elif attr == "composable_rotations":
            p2 = draw(rng, (5 * k + 2) % 14)
            if len(p) == 1 and np.ndim(p[0]) == 0:
                n += 1
                lhs = _mat(make(p, w), w) @ _mat(make(p2, w), w)
                if not _close(lhs, _mat(make((p[0] + p2[0],), w), w)):
                    return n, f"U(a)U(b) != U(a+b) at a={p[0]}, b={p2[0]}"
            elif len(p) == 3:
                n += 1
                f = _fuse([float(x) for x in p], [float(x) for x in p2])
                if not _close(_mat(make(tuple(f), w), w), _mat(make(p2, w), w) @ _mat(make(p, w), w), FUSE_TOL):
                    return n, f"Rot(fuse_rot_angles(a, b)) != Rot(b).Rot(a) at a={p}, b={p2}"
            else:
                return n, "no accumulation rule: the operation does not have exactly one (or, Rot, three) scalar parameters"
        elif attr == "has_unitary_generator":
            op = make(p, w)
            g = _mat(qp.generator(op, format="observable"), w)
            n += 1
            gg = g.conj().T @ g
            c = np.trace(gg).real / len(gg)
            if c < 1e-12 or not _close(gg, c * np.eye(len(gg))):
                return n, f"generator G has G'G not proportional to the identity at parameters {p}"
        elif attr == "supports_broadcasting":
            B = [1, 2, 3, 5][k % 4]
            ps = [draw(rng, int(rng.integers(0, 40))) for _ in range(B)]
            if not ps[0]:
                return n, "the operation has no parameters to broadcast"
            stack = np.stack([_mat(make(q, w), w) for q in ps])
            bp = tuple(np.stack([q[i] for q in ps]) for i in range(len(ps[0])))
            n += 1
            kind, why = _bcast_verdict(_mat(make(bp, w), w), stack)
            if kind == "batch1-squeezed":
                squeezed = why
            elif kind:
                return n, f"batched matrix (batch size {B}) differs from the stack of per-element matrices: {why}"
    if squeezed:
        return n, "batch1-squeezed: " + squeezed
    return n, None


# ------------------------------------------------------------------------------------------------ main
def _live_claims():
    out = []
    for a in ATTRS:
        s = getattr(ATTR, a)
        for name in sorted(s):
            out.append((a, str(name)))
    return out


def _bcast_verdict(got, exp):
    """-> (None, '') when the batched matrix equals the stack; ('batch1-squeezed', why) when a batch of ONE element comes back
    without its batch dimension (values right, shape (d, d) instead of (1, d, d)); ('claim-false', why) otherwise."""
    got = np.asarray(got)
    if _close(got, exp):
        return None, ""
    if exp.shape[0] == 1 and got.shape == exp.shape[1:] and _close(got, exp[0]):
        return "batch1-squeezed", f"batch of one element: matrix has shape {got.shape}, the stack has shape {exp.shape}"
    if got.shape != exp.shape:
        return "claim-false", f"shape {got.shape} instead of {exp.shape}"
    return "claim-false", f"max err {float(np.max(np.abs(got - exp))):.3g}"


def _bcast_key(kind, name):
    return f"broadcast-batch1-squeezed:{name}" if kind == "batch1-squeezed" else f"claim-false:supports_broadcasting:{name}"


def _group_key(c):
    return (c["g"], len(c["w"]), tuple(c["x"]))


def _batched_op(g, nw, x, cols):
    w = list(range(nw))
    if g == "PauliRot":
        return qp.PauliRot(cols[0], "".join(PWI[c] for c in x), wires=w)
    return getattr(qp, g)(*cols, wires=w)


def run(tier, seed):
    rnd = random.Random(700 + seed)
    nrng = np.random.default_rng(700 + seed)
    M = 4 if tier == "quick" else 5
    grid3 = "{0,1,3,6,8,13}" if tier == "quick" else "{0,1,2,5,9,12,16,23,31}"
    gridc = "{0,1,6,13}" if tier == "quick" else "{0,1,5,12,16,23}"
    claims = _live_claims()
    claimset = set(claims)
    if len(claims) < 50 or {a for a, _ in claims} != set(ATTRS):
        raise lib.MachineryError(f"attribute sets look empty: {len(claims)} claims")
    names = sorted({n for _, n in claims})
    cases = [{"kind": "claim", "attr": a, "name": n} for a, n in claims]
    nclaims = len(cases)
    cases += [{"kind": "bind", "attr": "", "name": n} for n in names]
    nbind_end = len(cases)
    cases += [{"kind": "claim", "attr": a, "name": n} for a, n in FALSE_CLAIMS]
    wd = lib.workdir("C07", "trace")
    f = wd / "claims.json"
    f.write_text(json.dumps(cases))
    r = lib.run_tlc("Trace_Attributes", lib.cfg(constants={"M": M, "NCASES": len(cases), "Grid3": grid3, "GridC": gridc}), wd,
                    env={"TRACE_FILE": str(f)}, timeout=3000)
    lib.require_ok(r, "Trace_Attributes")
    announced, verdicts = {}, {}
    for t in r.tuples:
        if t[0] == "C":
            announced[t[1] - 1] = t[2]
        elif t[0] == "V":
            verdicts.setdefault(t[1] - 1, {}).setdefault(t[2], 0)
            verdicts[t[1] - 1][t[2]] += 1
    fails, emitted = {}, {}
    for j in r.json_lines:
        if "fail" in j:
            fails.setdefault(j["tid"] - 1, []).append(j)
        else:
            emitted.setdefault(j["tid"] - 1, []).append(j)
    if len(announced) != len(cases):
        raise lib.MachineryError(f"announcements are not total: {len(announced)} of {len(cases)}")
    for i, c in enumerate(cases):
        got = sum(verdicts.get(i, {}).values())
        if announced[i] >= 0 and got != announced[i]:
            raise lib.MachineryError(f"verdicts are not total for {c}: {got} of {announced[i]}")
        if any(k in verdicts.get(i, {}) for k in ("gen-inconsistent", "table-not-unitary")):
            raise lib.MachineryError(f"reference table is inconsistent (oracle error) for {c}: {fails.get(i, [])[:1]}")
    # ---- negative controls: every documented-false claim must be rejected by TLC
    neg = 0
    for i in range(nbind_end, len(cases)):
        if announced[i] <= 0 or not verdicts[i].get("claim-false"):
            raise lib.MachineryError(f"negative control accepted: false claim {cases[i]} was validated")
        neg += 1

    viol = []
    F = factories()
    reps = 10 if tier == "quick" else 40
    # ---- binding (C02 re-run for the claimed names): PennyLane's matrix = table matrix at every emitted instance
    bound, unbound, n_bind_eval, gen_bound = set(), {}, 0, 0
    table_names = set()
    inst_by_name = {}
    for i in range(nclaims, nbind_end):
        name = cases[i]["name"]
        if announced[i] < 0:
            continue
        table_names.add(name)
        tmp = []
        for item in emitted.get(i, []):
            c = item["c"]
            exp = ring_matrix_to_numpy(item["mat"], M)
            inst_by_name.setdefault(name, []).append((c, exp))
            key = f"{c['g']}{c['p']}{c['x']}"
            try:
                op = decode_gate(c, M)
                gp = c["g"] == "GlobalPhase"
                wo = [0] if gp else list(range(len(c["w"])))
                _cmp(key, "qp.matrix", qp.matrix(op, wire_order=wo), exp, tmp, c)
                n_bind_eval += 1
                if item["rev"]["e"]:
                    nn = len(c["w"])
                    op_r = decode_gate(dict(c, w=list(range(nn, 0, -1))), M)
                    _cmp(key, "qp.matrix(reversed wires)", qp.matrix(op_r, wire_order=list(range(nn))),
                         ring_matrix_to_numpy(item["rev"], M), tmp, c)
                    n_bind_eval += 1
                if item["gen"]["e"] and ("has_unitary_generator", name) in claimset:
                    a_pl = 1j * _mat(qp.generator(op, format="observable"), wo)     # U = exp(i theta G)  =>  A = i G
                    _cmp(key, "i*generator", a_pl, ring_matrix_to_numpy(item["gen"], M), tmp, c)
                    gen_bound += 1
            except Exception as e:  # noqa: BLE001
                tmp.append(Violation(key=f"{key}:exception", detail=f"{type(e).__name__}: {e}", replay={"case": c}))
        if tmp:
            unbound[name] = tmp[0].detail
        else:
            bound.add(name)
    # negative control of the comparator
    t0 = []
    c0, e0 = inst_by_name["RX"][1]
    bad = e0.copy()
    bad[0, 1] = -bad[0, 1] + 0.5
    _cmp("neg", "qp.matrix", qp.matrix(decode_gate(c0, M)), bad, t0, c0)
    if not t0:
        raise lib.MachineryError("negative control accepted by the matrix comparator")
    neg += 1

    # ---- the claims
    validated, bridged, n_num, n_inst = [], [], 0, 0
    per_attr = {a: {"tlc": 0, "bridged": 0} for a in ATTRS}
    samples, nontriv = [], set()
    n_bcast = 0
    for i, (attr, name) in enumerate(claims):
        has_table = announced[i] >= 0
        tlc_ok = has_table and set(verdicts[i]) == {"ok"}
        if has_table:
            n_inst += announced[i]
        if has_table and not tlc_ok:
            ex = fails.get(i, [{}])[0]
            viol.append(Violation(
                key=f"claim-false:{attr}:{name}",
                detail=f"attributes.{attr} lists {name} but the defining predicate fails on the reference matrix for "
                       f"{verdicts[i].get('claim-false', 0)} of {announced[i]} instances, e.g. {ex.get('c')} (second factor "
                       f"{ex.get('q', {}).get('p')}); angles are lattice ints a = theta*{1 << M}/(4*pi)",
                replay={"attr": attr, "name": name, "failing": fails.get(i, [])[:5]}))
            continue
        decided_by_tlc = tlc_ok and name in bound
        # supports_broadcasting, REPLAY: batched real operator vs the stack of TLC's exact matrices
        if decided_by_tlc and attr == "supports_broadcasting":
            groups = {}
            for c, exp in inst_by_name[name]:
                groups.setdefault(_group_key(c), []).append((c["p"], exp))
            bad_b = {}
            for (g, nw, x), lst in sorted(groups.items()):
                lst.sort(key=lambda t: t[0])
                if not lst[0][0]:
                    bad_b["claim-false"] = f"{g} has no parameter to broadcast"
                    continue
                batches = [lst, [rnd.choice(lst)]] + [[rnd.choice(lst) for _ in range(rnd.choice([2, 3, 7]))] for _ in range(2)]
                for bt in batches:
                    cols = [np.array([angle_of(p[k], M) for p, _ in bt]) for k in range(len(bt[0][0]))]
                    expb = np.stack([e for _, e in bt])
                    try:
                        kind, why = _bcast_verdict(_mat(_batched_op(g, nw, x, cols), list(range(nw))), expb)
                    except Exception as e:  # noqa: BLE001
                        kind, why = "claim-false", f"{type(e).__name__}: {e}"
                    n_bcast += 1
                    if kind and kind not in bad_b:
                        bad_b[kind] = f"{g} on {nw} wires {('word ' + ''.join(PWI[c] for c in x)) if x else ''} batch size {len(bt)}: {why}"
            for kind, why in bad_b.items():
                viol.append(Violation(key=_bcast_key(kind, name),
                                      detail=f"attributes.{attr} lists {name} but its batched matrix differs from the stack of "
                                             f"the documented per-element matrices ({why})", replay={"attr": attr, "name": name}))
            if bad_b:
                continue
        if decided_by_tlc:
            validated.append((attr, name))
            per_attr[attr]["tlc"] += 1
            nontriv.add((attr, name))
            if len(samples) < 5 and attr in ("composable_rotations", "symmetric_over_all_wires", "has_unitary_generator",
                                             "diagonal_in_z_basis") and name not in {s["name"] for s in samples}:
                samples.append({"claim": attr, "name": name, "instances_decided_by_TLC": announced[i], "verdict": "ok",
                                "bound_to_pennylane_at": len(inst_by_name[name])})
        # numeric evaluation on PennyLane's own matrices: the verdict for names without a table entry / failed binding,
        # an additional off-lattice + boundary-value pass for the others
        if name not in F:
            raise lib.MachineryError(f"claim ({attr}, {name}) cannot be evaluated: no table entry and no instance factory")
        bad_n = {}
        for fac in F[name]:
            try:
                k, why = numeric_claim(attr, fac, nrng, reps)
            except Exception as e:  # noqa: BLE001
                k, why = 1, f"exception {type(e).__name__}: {e}"
            n_num += k
            if why:
                kind = "batch1-squeezed" if why.startswith("batch1-squeezed") else "false"
                bad_n.setdefault(kind, f"on {fac['nw']} wire(s): {why}")
        if not decided_by_tlc:
            bridged.append((attr, name))
            per_attr[attr]["bridged"] += 1
        for kind, why in bad_n.items():
            viol.append(Violation(key=f"broadcast-batch1-squeezed:{name}" if kind == "batch1-squeezed" else f"numeric:{attr}:{name}",
                                  detail=f"attributes.{attr} lists {name} but the predicate fails on PennyLane's own matrices {why}"
                                         + ("" if decided_by_tlc else " [bridged: no table entry or binding mismatch: "
                                            + str(unbound.get(name, 'no table entry'))[:200] + "]"),
                                  replay={"attr": attr, "name": name}))
    # ---- Rot: the documented accumulation rule reproduces the exact product (TLC matrices) numerically
    n_fuse = 0
    if ("composable_rotations", "Rot") in claimset and "Rot" in bound:
        rots = inst_by_name["Rot"]
        for _ in range(300 if tier == "quick" else 3000):
            (ca, ea), (cb, eb) = rnd.choice(rots), rnd.choice(rots)
            fa = _fuse([angle_of(a, M) for a in ca["p"]], [angle_of(a, M) for a in cb["p"]])
            n_fuse += 1
            if not _close(_mat(qp.Rot(*fa, wires=0), [0]), eb @ ea, FUSE_TOL):
                viol.append(Violation(key="claim-false:composable_rotations:Rot:fuse_rot_angles",
                                      detail=f"Rot(*fuse_rot_angles(a, b)) differs from the exact product Rot(b).Rot(a) for lattice "
                                             f"angles a={ca['p']}, b={cb['p']} (unit 4*pi/{1 << M})", replay={"a": ca, "b": cb}))
                break
    if not validated or not bridged or n_bcast == 0 or gen_bound == 0:
        raise lib.MachineryError("vacuous run: no claim validated by TLC / none bridged / no broadcast replay / no generator bound")
    cov = {"states": r.distinct, "transitions": r.generated, "traces_validated_against_impl": len(claims),
           "evaluations": n_inst + n_bind_eval + n_bcast + n_num + n_fuse,
           "distinct_nontrivial": len(nontriv),
           "rule": "one trace event Claim(attr, name) per member of the live attribute sets; non-trivial = distinct (attribute, name) "
                   "whose defining predicate was decided by TLC on every instance AND whose reference matrices were bound to "
                   "PennyLane's matrices at every emitted instance",
           "samples": samples, "exhaustive": True, "ring_level_M": M, "angle_unit": f"4*pi/{1 << M}",
           "claims_total": len(claims), "claims_decided_by_tlc": len(validated), "claims_bridged_numeric": len(bridged),
           "bridged": [f"{a}:{n}" for a, n in bridged], "per_attribute": per_attr,
           "tlc_instances_decided": n_inst, "binding_comparisons": n_bind_eval, "generator_bindings": gen_bound,
           "names_bound": len(bound), "names_binding_mismatch": unbound, "broadcast_batches_replayed": n_bcast,
           "numeric_evaluations": n_num, "fuse_rot_angles_products": n_fuse, "negative_controls_rejected": neg,
           "tlc": {"generated": r.generated, "distinct": r.distinct, "wall_s": round(r.wall_s, 1)}}
    return CheckResult(coverage=cov, violations=viol,
                       assumptions=["matrix entries of table gates are trigonometric polynomials of degree <= 1 in the half-angles "
                                    "(degree 2 for products), so a predicate that holds on the whole lattice (16 points per parameter, "
                                    "all 256 pairs) holds for all real angles",
                                    "reference table Gates.tla transcribed from the docstrings; bound to PennyLane by float comparison "
                                    "at 1e-8 at every emitted instance",
                                    "names without a table entry (templates, QubitUnitary family, PCPhase, OrbitalRotation) are "
                                    "evaluated only numerically on PennyLane's own matrices at seeded random and boundary values",
                                    "Rot: TLC decides closure of the Rot family under products (SU(2) form); the fused angles of "
                                    "fuse_rot_angles are compared numerically at 1e-6 with TLC's exact products"])
