"""C71 Snapshots report the state of the circuit prefix; the final results are unchanged by the snapshots.

(M) Snapshots.tla: the documented dictionary (key = tag or index among all snapshots; value = the snapshot's measurement
    of the circuit truncated at the snapshot; "execution_results" = measurements of the circuit with the snapshots deleted)
    against an executor model; TLC checks SnapEqualsPrefix / FinalUnchanged / KeysDistinct on every program up to the
    bound (SnapshotGen.tla) and emits each program with its expected dictionary (keys, prefix lengths).
(R) REPLAY: each emitted program is instantiated with seeded gate blocks (harness/devsim.py), wire labels and concrete
    measurements; TapeEval.tla computes the EXACT value of every snapshot measurement on its prefix and of the final
    measurements; the program is run through qp.snapshots on default.qubit, default.mixed (QNode path, snapshots taken
    during execution) and through the tape transform (one tape per snapshot), and compared entry by entry; the same
    circuit without its snapshots is executed too and must give identical final results."""
import random

import numpy as np

import pennylane as qp

from .. import devsim, lib, tapeeval
from ..codec import decode_gate
from ..lib import CheckResult, Violation

M = 4
PID = "C71"
KINDS = ["g1", "r1", "g2", "r2", "g3", "p3", "u2", "mrz", "prot", "gph", "adj", "pow", "ctrl"]
INVS = ["SnapEqualsPrefix", "FinalUnchanged", "KeysDistinct"]
SIM = {"quick": 120, "thorough": 1500}       # simulated layouts per tier


def generate(tier, seed):
    allk = '{"state", "expval", "probs"}'
    if tier == "quick":
        runs = [("ex", dict(MaxGates=2, MaxSnaps=2, Kinds=allk, ShOpts='{"workflow"}'), None),
                ("sim", dict(MaxGates=5, MaxSnaps=3, Kinds=allk, ShOpts='{"workflow", "none"}'), SIM[tier])]
    else:
        runs = [("ex", dict(MaxGates=4, MaxSnaps=2, Kinds=allk, ShOpts='{"workflow"}'), None),
                ("ex3", dict(MaxGates=2, MaxSnaps=3, Kinds=allk, ShOpts='{"workflow"}'), None),
                ("sim", dict(MaxGates=6, MaxSnaps=3, Kinds=allk, ShOpts='{"workflow", "none"}'), SIM[tier])]
    progs, st, seen = [], {"generated": 0, "distinct": 0, "runs": 0}, set()
    for name, consts, nsim in runs:
        n0 = len(seen)
        kw = dict(simulate=f"num={nsim}", depth=40, seed=seed + 5, workers=1) if nsim else {}
        r = lib.run_tlc("SnapshotGen", lib.cfg(constants=consts, invariants=INVS), lib.workdir(PID, "gen_" + name), **kw)
        lib.require_ok(r, f"SnapshotGen {name}")
        if r.invariant_violated:
            raise lib.MachineryError(f"Snapshots.tla violates its own invariant {r.invariant_violated}")
        for p in r.json_lines:
            key = repr(p["prog"])
            if key not in seen:
                seen.add(key)
                p["mode"] = name
                progs.append(p)
        st["generated"] += r.generated
        st["distinct"] += r.distinct
        st["runs"] += 1
        st[name] = len(seen) - n0
    # negative control of the model: the rule "index among the UNTAGGED snapshots" is a different dictionary
    neg = lib.run_tlc("SnapshotGen", lib.cfg(constants=runs[0][1], invariants=["NegIndexAmongUntagged"]), lib.workdir(PID, "gen_neg"))
    if neg.invariant_violated != "NegIndexAmongUntagged":
        raise lib.MachineryError("Snapshots.tla negative control was not rejected")
    st["generated"] += neg.generated
    st["distinct"] += neg.distinct
    return progs, st


def instantiate(p, rng):
    """abstract program -> concrete case: wires, labels, one block of gates per gate item, a measurement per snapshot"""
    n = rng.choice([1, 2, 2, 3, 3, 4])
    labels = devsim.labels_for(rng, n)
    blocks, snaps = [], []
    for it in p["prog"]:
        if it["t"] == "gate":
            blocks.append(devsim.random_circuit(rng, n, M, rng.randint(1, 3), KINDS))
    for e in p["dict"]:
        if e["mk"] == "expval":
            pw = [rng.randint(0, 3) for _ in range(n)]
            if not any(pw):
                pw[rng.randrange(n)] = rng.randint(1, 3)
            m = ("expval", pw)
        elif e["mk"] == "probs":
            m = ("probs", rng.sample(range(1, n + 1), rng.randint(1, n)))
        else:
            m = ("state", rng.random() < 0.5)       # True: the default (measurement=None), False: explicit qp.state()
        snaps.append(m)
    final = [m for m in devsim.random_meas(rng, n) if m[0] in ("expval", "var", "probs", "ham")][:2] or [("probs", list(range(1, n + 1)))]
    return {"n": n, "labels": labels, "blocks": blocks, "snaps": snaps, "final": final}


def key_of(e):
    return e["key"]["s"] if e["key"]["t"] == "str" else e["key"]["i"]


def make_ops(p, c, with_snaps=True):
    ops, bi, si = [], 0, 0
    for it in p["prog"]:
        if it["t"] == "gate":
            ops += [decode_gate(g, M, c["labels"]) for g in c["blocks"][bi]]
            bi += 1
        else:
            m = c["snaps"][si]
            si += 1
            if not with_snaps:
                continue
            if m[0] == "state":
                mp = None if m[1] else qp.state()
            else:
                mp = devsim.pl_measurements([m], c["labels"])[0]
            kw = {} if it["sh"] == "workflow" else {"shots": None}
            ops.append(qp.Snapshot(it["tag"] or None, measurement=mp, **kw))
    return ops


def run_paths(p, c, paths):
    """-> {path: (snapshot dictionary, baseline final results without snapshots)}"""
    out = {}
    mps = lambda: devsim.pl_measurements(c["final"], c["labels"])
    for path in paths:
        devname = "default.mixed" if path == "mixed" else "default.qubit"
        dev = qp.device(devname, wires=c["labels"])
        tape = qp.tape.QuantumScript(make_ops(p, c), mps())
        base = qp.tape.QuantumScript(make_ops(p, c, False), mps())
        if path == "tape":
            tapes, fn = qp.snapshots(tape)
            res = fn(qp.execute(tapes, dev, diff_method=None))
        else:
            def circuit(t=tape):
                for op in t.operations:
                    qp.apply(op)
                ms = tuple(qp.apply(m) for m in t.measurements)
                return ms if len(ms) > 1 else ms[0]
            res = qp.snapshots(qp.QNode(circuit, dev, diff_method=None))()
        b = qp.execute([base], dev, diff_method=None)[0]
        out[path] = (res, b)
    return out


def as_tuple(x):
    return tuple(x) if isinstance(x, (tuple, list)) else (x,)


def run(tier, seed):
    rng = random.Random(7100 + seed)
    progs, gstats = generate(tier, seed)
    cases, tcases, owner = [], [], []
    for pi, p in enumerate(progs):
        c = instantiate(p, rng)
        cases.append(c)
        flat = lambda k: [g for b in c["blocks"][:k] for g in b]
        for si, e in enumerate(p["dict"]):
            m = c["snaps"][si]
            req = [{"t": "state"}] + ([{"t": "expval", "pw": m[1]}] if m[0] == "expval" else [{"t": "probs", "w": m[1]}] if m[0] == "probs" else [])
            tcases.append({"n": c["n"], "ops": flat(e["prefix"]), "meas": req})
            owner.append((pi, si))
        req, _ = devsim.tlc_meas(c["final"])
        tcases.append({"n": c["n"], "ops": flat(p["final"]), "meas": req})
        owner.append((pi, "final"))
    res, tstats = tapeeval.evaluate(PID, tcases, M)
    exact = {o: r for o, r in zip(owner, res)}
    viol, samples = [], []
    n_exec = n_cmp = 0
    nontriv = set()
    per_path = {"qubit": 0, "mixed": 0, "tape": 0}
    mk_count = {"state": 0, "expval": 0, "probs": 0}
    moved = 0            # snapshots whose prefix state differs from the final state (a wrong prefix would be visible)
    for pi, (p, c) in enumerate(zip(progs, cases)):
        paths = ["qubit"] + (["mixed"] if pi % 2 == 0 or tier != "quick" else []) + (["tape"] if pi % 3 == 0 or tier != "quick" else [])
        try:
            outs = run_paths(p, c, paths)
        except Exception as e:
            viol.append(Violation(key=f"raises:{type(e).__name__}", detail=f"{type(e).__name__}: {e} on {p['prog']} {c}", replay={"prog": p, "case": c}))
            continue
        exp_final = devsim.expected_values(c["final"], exact[(pi, "final")], c["n"])
        psi_final = np.asarray(exact[(pi, "final")]["meas"][0]).reshape(-1)
        want_keys = [key_of(e) for e in p["dict"]]
        for path, (got, base) in outs.items():
            n_exec += 1
            per_path[path] += 1
            rp = {"prog": p, "case": c, "path": path}
            keys = [k for k in got if k != "execution_results"]
            if sorted(map(repr, keys)) != sorted(map(repr, want_keys)) or "execution_results" not in got:
                viol.append(Violation(key=f"{path}:keys", detail=f"keys {list(got)} expected {want_keys} + execution_results for {p['prog']}", replay=rp))
                continue
            for si, e in enumerate(p["dict"]):
                m, ex = c["snaps"][si], exact[(pi, si)]
                psi = np.asarray(ex["meas"][0]).reshape(-1)
                if m[0] == "state":
                    want = np.outer(psi, psi.conj()) if path == "mixed" else psi
                else:
                    want = ex["meas"][1]
                n_cmp += 1
                if path == "qubit":
                    mk_count[m[0]] += 1
                    moved += not np.allclose(psi, psi_final, atol=1e-9)
                if not devsim.close(got[key_of(e)], want):
                    viol.append(Violation(key=f"{path}:snapshot-value:{m[0]}",
                                          detail=f"snapshot {key_of(e)!r} ({m}) after {e['prefix']} of {p['final']} blocks on {path}: got "
                                                 f"{np.round(np.asarray(got[key_of(e)]), 5).tolist()} expected {np.round(np.asarray(want), 5).tolist()}; "
                                                 f"ops {[str(o) for o in make_ops(p, c)]}", replay=rp))
                else:
                    nontriv.add((pi, si, path))
            fin, bas = as_tuple(got["execution_results"]), as_tuple(base)
            if len(c["final"]) == 1:
                fin, bas = (got["execution_results"],), (base,)
            for mi, (m, ev) in enumerate(zip(c["final"], exp_final)):
                n_cmp += 1
                if not devsim.close(fin[mi], bas[mi], tol=1e-12):
                    viol.append(Violation(key=f"{path}:final-changed:{m[0]}", detail=f"final result {m} changed by the snapshots: {fin[mi]} vs {bas[mi]} "
                                                                                    f"without; ops {[str(o) for o in make_ops(p, c)]}", replay=rp))
                elif not devsim.close(fin[mi], ev):
                    viol.append(Violation(key=f"{path}:final-value:{m[0]}", detail=f"final result {m}: got {fin[mi]} expected {ev}", replay=rp))
        if len(samples) < 3 and p["mode"] == "sim" and len(p["dict"]) >= 2:
            samples.append({"ops": [str(o) for o in make_ops(p, c)], "final": [str(m) for m in devsim.pl_measurements(c["final"], c["labels"])],
                            "expected_keys": want_keys, "prefix_blocks": [e["prefix"] for e in p["dict"]]})
    # negative control of the comparator: the value of a DIFFERENT prefix must be rejected
    rejected = 0
    for pi, (p, c) in enumerate(zip(progs, cases)):
        for si, e in enumerate(p["dict"]):
            psi = np.asarray(exact[(pi, si)]["meas"][0]).reshape(-1)
            psi_f = np.asarray(exact[(pi, "final")]["meas"][0]).reshape(-1)
            if not np.allclose(psi, psi_f, atol=1e-6):
                if devsim.close(psi_f, psi):
                    raise lib.MachineryError("negative control accepted: final state taken for a prefix state")
                rejected += 1
        if rejected >= 5:
            break
    if rejected == 0:
        raise lib.MachineryError("no negative control available")
    if moved < 20:
        raise lib.MachineryError(f"vacuous: only {moved} snapshots differ from the final state")
    cov = {"states": gstats["distinct"] + tstats["distinct"], "transitions": gstats["generated"] + tstats["generated"],
           "traces_validated_against_impl": n_exec, "evaluations": n_cmp, "distinct_nontrivial": len(nontriv),
           "rule": "non-trivial = distinct (program, snapshot, execution path) whose snapshot value was compared with TLC's exact prefix value; "
                   "programs: ALL layouts up to the tier's bound (quick: <=2 gate blocks, <=2 snapshots; tag/no tag x state/expval/probs) + "
                   "simulated layouts up to 5-6 blocks / 3 snapshots, each instantiated with seeded blocks of 1-3 gates on 1-4 labelled wires",
           "samples": samples, "exhaustive": False, "exhaustive_part": "snapshot layouts up to the bound (gate blocks are sampled)",
           "programs": len(progs), "generator": {k: v for k, v in gstats.items() if k not in ("generated", "distinct")},
           "executions_per_path": per_path, "snapshot_kinds": mk_count, "snapshots_differing_from_final_state": moved,
           "negative_controls_rejected": rejected + 1, "ring_level_M": M}
    return CheckResult(coverage=cov, violations=viol, assumptions=[
        "analytic execution only (shots=None); tags are distinct strings; no mid-circuit measurements",
        "angles on the lattice 4*pi/16; density matrices of default.mixed state snapshots are formed from TLC's exact state vector with numpy",
        "float comparison at 1e-8 (final results with/without snapshots at 1e-12)"])
